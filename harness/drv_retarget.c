/* Steered reproduction (and regression guard) of finding F4: _dispatch_sync_complete_recurse read
 * dq->do_targetq AFTER it had unlocked dq.  A deferred dispatch_set_target_queue() barrier of dq can run as soon as
 * dq is unlocked (when every level below is concurrent, or handed to a drainer that is not excluded by the caller),
 * so the synchronous caller went on to "complete" the NEW target chain, which it never locked, and never completed
 * the old one: the old target keeps the caller's width forever (its barriers never run: stranded work, C01), the
 * new one underflows.
 *
 * History driven here (all through the public API):  Q, M, N concurrent;  Q -> M -> root (set while idle).
 *   A: dispatch_sync_f(Q, body)            reserves width on Q and M (two levels: _dispatch_sync_recurse)
 *   main, during body: dispatch_set_target_queue(Q, N)   deferred: Q has a reader
 *   A: body returns; after each of its accesses during the completion A is held until the retarget took effect
 *      (bounded), i.e. exactly the window between unlocking Q and reading Q->do_targetq is widened
 *   then: a barrier submitted to M and one to N must run; M's and N's state words must be idle.
 * argv: out seed rounds */
#include "internal.h"
#include <pthread.h>
#include "verif_rt.h"

static dispatch_queue_t Q, M, N;
static _Atomic int g_in_body, g_go, g_body_done, g_sync_ret, g_a_tid = -1, g_fail, g_hits;
static _Atomic int g_bar_m, g_bar_n;

static void oracle_fail(const char *what, long a, long b)
{
	fprintf(stderr, "ORACLE-FAIL C01 %s a=%ld b=%ld\n", what, a, b);
	atomic_store(&g_fail, 1);
}
static void body(void *c)
{
	(void)c;
	atomic_store(&g_in_body, 1);
	while (!atomic_load(&g_go)) usleep(100);
	atomic_store(&g_body_done, 1);
}
static void *thread_a(void *c)
{
	(void)c;
	atomic_store(&g_a_tid, vrt_tid());
	dispatch_sync_f(Q, NULL, body);
	atomic_store(&g_sync_ret, 1);
	return NULL;
}
static void post_steer(struct dispatch_verif_site_s *s, const volatile void *a, int obj)
{
	(void)a;
	if (vrt_tid() != atomic_load(&g_a_tid) || !atomic_load(&g_body_done) || atomic_load(&g_sync_ret)) return;
	/* hold A after its accesses to Q / M / N and after it has LINKED an item into a list (the redirected drain of Q
	 * becomes visible to the pool with that store); not between a tail exchange and its link */
	if (!(obj >= 0 && obj <= 2) && !strstr(s->dvs_expr, "do_next")) return;
	/* A is inside the completion of its dispatch_sync: give the deferred retarget a chance to run now */
	for (int k = 0; k < 300 && Q->do_targetq != N; k++) usleep(100);
	if (Q->do_targetq == N) atomic_fetch_add(&g_hits, 1);
}
/* keeps a pool worker awake so that the redirected drain of Q starts as soon as A has published it */
static _Atomic int g_stop_stream;
static void *streamer(void *c)
{
	(void)c; (void)vrt_tid();
	dispatch_queue_t rq = dispatch_get_global_queue(0, 0);
	while (!atomic_load(&g_stop_stream)) { dispatch_async_f(rq, NULL, (dispatch_function_t)sched_yield); usleep(20); }
	return NULL;
}
static void proj(FILE *f, const vrt_rec_t *r)
{
	/* only the three queues under test (the pool's own traffic is huge and irrelevant here) */
	if (r->kind != VRT_ATOMIC || r->obj < 0 || r->obj > 2) return;
	fprintf(f, "{\"n\":%llu,\"t\":%d,\"q\":\"%s\",\"f\":\"%s\",\"x\":\"%s\",\"op\":\"%s\",\"ok\":%d,\"old\":\"%llx\",\"new\":\"%llx\"}\n",
			(unsigned long long)r->seq, r->tid, r->obj == 0 ? "Q" : r->obj == 1 ? "M(old target)" : "N(new target)",
			r->site->dvs_func, r->site->dvs_expr, r->site->dvs_op, r->ok, (unsigned long long)r->oldv, (unsigned long long)r->newv);
}
static void bar_m(void *c) { (void)c; atomic_store(&g_bar_m, 1); }
static void bar_n(void *c) { (void)c; atomic_store(&g_bar_n, 1); }
static void nop(void *c) { (void)c; }

static int idle_word(dispatch_queue_t q)
{
	uint64_t s = os_atomic_load2o(upcast(q)._dl, dq_state, relaxed);
	/* nothing held: no width in use, not in barrier, not suspended, no pending barrier */
	return !_dq_state_is_suspended(s) && !_dq_state_is_in_barrier(s) && !_dq_state_has_pending_barrier(s) &&
			_dq_state_used_width(s, upcast(q)._dl->dq_width) == 0;
}

/* ---------------------------------------------------------------------------------------------------------------
 * mode "walk" (finding F8): __DISPATCH_WAIT_FOR_QUEUE__ -> _dispatch_wait_compute_wlh walks the target chain of a
 * legacy ("mutable") queue under that queue's side lock and reads each target's dq_state without holding a reference:
 * the side lock is what keeps dq->do_targetq (and so the target's last reference) stable.  The pinned
 * _dispatch_lane_legacy_set_target_queue took the side lock only #if HAVE_PTHREAD_WORKQUEUE_QOS, so on this platform a
 * deferred retarget could store the new target and release (free) the old one while a waiter was looking at it.
 * Here: Q (legacy) -> N1, the application's reference on N1 dropped; Q kept busy; A calls dispatch_sync_f(Q) and is
 * held right before it reads N1's state word; main retargets Q to N2 and lets Q run.  N1 must not be disposed
 * (dispose probe) while A is held inside its walk. */
static _Atomic int w_hold, w_release, w_gate, w_gate_in;
static dispatch_queue_t WQ, WN1;
static _Atomic uint64_t w_hold_seq, w_resume_seq;
static void walk_steer(struct dispatch_verif_site_s *s, const volatile void *a, int obj)
{
	(void)obj;
	if (vrt_tid() != atomic_load(&g_a_tid) || strcmp(s->dvs_func, "_dispatch_wait_prepare") || s->dvs_op[0] != 'l') return;
	if (a == (const volatile void *)&upcast(WQ)._dl->dq_state || atomic_load(&w_hold)) return;
	atomic_store(&w_hold_seq, vrt_api("WalkHold", -1, 0, 0, 0));
	atomic_store(&w_hold, 1);
	for (int k = 0; k < 4000 && !atomic_load(&w_release); k++) usleep(100);      /* at most 400 ms */
	atomic_store(&w_resume_seq, vrt_api("WalkResume", -1, 0, 0, 0));
}
static void gate_item(void *c) { (void)c; atomic_store(&w_gate_in, 1); while (!atomic_load(&w_gate)) usleep(100); }
static void *walk_a(void *c) { (void)c; atomic_store(&g_a_tid, vrt_tid()); dispatch_sync_f(WQ, NULL, nop); return NULL; }
static int walk_mode(int rounds)
{
	int held = 0;
	vrt_set_steer(walk_steer);
	for (int r = 0; r < rounds && !atomic_load(&g_fail); r++) {
		vrt_pause(1);
		WQ = dispatch_queue_create("verif.walk.Q", DISPATCH_QUEUE_SERIAL);
		WN1 = dispatch_queue_create("verif.walk.N1", DISPATCH_QUEUE_SERIAL);
		dispatch_queue_t N2 = dispatch_queue_create("verif.walk.N2", DISPATCH_QUEUE_SERIAL);
		dispatch_set_target_queue(WQ, WN1);
		dispatch_barrier_sync_f(WQ, NULL, nop);
		vrt_unregister_all();
		int o1 = vrt_register(WN1, sizeof(struct dispatch_lane_s), 1);
		dispatch_release(WN1);                       /* only Q keeps N1 alive now */
		atomic_store(&w_hold, 0); atomic_store(&w_release, 0); atomic_store(&w_gate, 0); atomic_store(&w_gate_in, 0);
		atomic_store(&w_hold_seq, 0); atomic_store(&w_resume_seq, 0); atomic_store(&g_a_tid, -1);
		vrt_pause(0);
		size_t first = vrt_count();
		dispatch_async_f(WQ, NULL, gate_item);
		while (!atomic_load(&w_gate_in)) usleep(100);
		pthread_t a;
		pthread_create(&a, NULL, walk_a, NULL);
		for (int k = 0; k < 20000 && !atomic_load(&w_hold); k++) usleep(100);
		if (atomic_load(&w_hold)) held++;
		dispatch_set_target_queue(WQ, N2);           /* Q is busy: deferred behind a barrier */
		dispatch_release(N2);
		atomic_store(&w_gate, 1);                    /* Q runs: gate item ends, the retarget barrier follows */
		for (int k = 0; k < 2500 && WQ->do_targetq != N2; k++) usleep(100);     /* up to 250 ms for it to land */
		atomic_store(&w_release, 1);
		pthread_join(a, NULL);
		dispatch_barrier_sync_f(WQ, NULL, nop);
		vrt_progress();
		/* judge: was N1 disposed while A was held inside its walk? */
		uint64_t h = atomic_load(&w_hold_seq), e = atomic_load(&w_resume_seq);
		for (size_t i = first; i < vrt_count(); i++) {
			const vrt_rec_t *rec = vrt_get(i);
			if (rec->kind == VRT_PROBE && rec->obj == o1 && !strcmp(rec->name, "dispose") && h && rec->seq > h && (!e || rec->seq < e))
				oracle_fail("a target queue was disposed while a dispatch_sync waiter was walking through it under the side lock of the retargeted queue", r, (long)rec->seq);
		}
		dispatch_release(WQ);
		usleep(2000);
	}
	vrt_dump();
	fprintf(stderr, "rounds=%d windows_hit=%d records=%zu\n", rounds, held, vrt_count());
	return atomic_load(&g_fail) ? 2 : 0;
}

int main(int argc, char **argv)
{
	const char *out = argc > 1 ? argv[1] : "/dev/null";
	uint64_t seed = argc > 2 ? strtoull(argv[2], NULL, 0) : 1;
	int rounds = argc > 3 ? atoi(argv[3]) : 20;
	vrt_init(out, seed, 1);
	vrt_add_class("dq_state", 1);
	vrt_add_class("dq_items_tail", 2);
	vrt_add_class("_os_mpsc_tail", 2);
	vrt_add_class("_os_mpsc_head", 2);
	vrt_add_class("dq_items_head", 2);
	vrt_add_class("do_next", VRT_CLASS_ANY + 1);
	vrt_add_class("dgq_pending", 3);
	vrt_set_hang_seconds(20);
	vrt_set_record_progress(0);   /* the pool monitor / background stream touch registered words on their own */
	vrt_set_post_steer(post_steer);
	vrt_set_projector(proj);
	(void)vrt_tid();
	if (argc > 4 && !strcmp(argv[4], "walk")) return walk_mode(rounds);
	int windows = 0;
	pthread_t st;
	pthread_create(&st, NULL, streamer, NULL);
	for (int r = 0; r < rounds; r++) {
		vrt_pause(1);
		/* Retarget.tla's two dimensions: lower queues concurrent / serial (LowerSerial), retarget deferred behind A's
		 * reservation / issued inline in the window after A gave Q back (RCall with held[Q] = 0) */
		int lower_serial = (r & 2) != 0, inline_mode = (r & 1) != 0;
		Q = dispatch_queue_create("verif.Q", DISPATCH_QUEUE_CONCURRENT);
		M = dispatch_queue_create("verif.M", lower_serial ? DISPATCH_QUEUE_SERIAL : DISPATCH_QUEUE_CONCURRENT);
		N = dispatch_queue_create("verif.N", lower_serial ? DISPATCH_QUEUE_SERIAL : DISPATCH_QUEUE_CONCURRENT);
		dispatch_set_target_queue(Q, M);          /* Q idle: takes effect at once */
		dispatch_barrier_sync_f(Q, NULL, nop);
		if (Q->do_targetq != M) { fprintf(stderr, "setup: retarget of an idle queue did not take effect\n"); return 3; }
		vrt_unregister_all();
		vrt_register(Q, sizeof(struct dispatch_lane_s), 1);
		vrt_register(M, sizeof(struct dispatch_lane_s), 1);
		vrt_register(N, sizeof(struct dispatch_lane_s), 1);
		vrt_register(dispatch_get_global_queue(0, 0), sizeof(struct dispatch_queue_global_s), 2);
		atomic_store(&g_in_body, 0); atomic_store(&g_go, 0); atomic_store(&g_body_done, 0); atomic_store(&g_sync_ret, 0);
		atomic_store(&g_bar_m, 0); atomic_store(&g_bar_n, 0); atomic_store(&g_hits, 0);
		vrt_pause(0);
		pthread_t a;
		pthread_create(&a, NULL, thread_a, NULL);
		while (!atomic_load(&g_in_body)) usleep(100);
		if (!inline_mode) {
			dispatch_set_target_queue(Q, N);          /* Q has a reader: deferred behind a barrier */
			atomic_store(&g_go, 1);
		} else {
			atomic_store(&g_go, 1);
			/* wait until A has given Q back (A is then held by post_steer), and retarget the now idle queue: inline */
			for (int k = 0; k < 20000; k++) {
				uint64_t st = os_atomic_load2o(upcast(Q)._dl, dq_state, relaxed);
				if (atomic_load(&g_body_done) && _dq_state_used_width(st, upcast(Q)._dl->dq_width) == 0) break;
				usleep(50);
			}
			dispatch_set_target_queue(Q, N);
		}
		pthread_join(a, NULL);
		vrt_progress();
		/* let the retarget land if it has not yet */
		for (int k = 0; k < 20000 && Q->do_targetq != N; k++) usleep(100);
		if (Q->do_targetq != N) oracle_fail("deferred dispatch_set_target_queue never took effect", r, 0);
		if (atomic_load(&g_hits)) windows++;
		dispatch_barrier_async_f(M, NULL, bar_m);
		dispatch_barrier_async_f(N, NULL, bar_n);
		for (int k = 0; k < 30000 && !(atomic_load(&g_bar_m) && atomic_load(&g_bar_n)); k++) { usleep(100); if ((k & 1023) == 0) vrt_progress(); }
		if (!atomic_load(&g_bar_m)) oracle_fail("a barrier submitted to the OLD target of a retargeted queue never ran (the synchronous caller never gave its width back)", r, 0);
		if (!atomic_load(&g_bar_n)) oracle_fail("a barrier submitted to the NEW target of a retargeted queue never ran", r, 0);
		if (atomic_load(&g_bar_m) && !idle_word(M)) oracle_fail("old target's state word not idle at quiescence", r, 0);
		if (atomic_load(&g_bar_n) && !idle_word(N)) oracle_fail("new target's state word not idle at quiescence", r, 0);
		if (atomic_load(&g_fail)) break;
		dispatch_release(Q); dispatch_release(M); dispatch_release(N);
	}
	atomic_store(&g_stop_stream, 1);
	pthread_join(st, NULL);
	vrt_dump();
	fprintf(stderr, "rounds=%d windows_hit=%d records=%zu\n", rounds, windows, vrt_count());
	return atomic_load(&g_fail) ? 2 : 0;
}
