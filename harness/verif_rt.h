/* Verification runtime: installs the DISPATCH_VERIF callbacks, serialises traced
 * accesses with their log record, perturbs the schedule, dumps ndjson traces. */
#ifndef VERIF_RT_H
#define VERIF_RT_H
#include <stdint.h>
#include <stdio.h>
#include <stddef.h>

#ifdef __cplusplus
extern "C" {
#endif

#ifndef __DISPATCH_SHIMS_ATOMIC__   /* drivers that include the library's internal.h already have it */
struct dispatch_verif_site_s {
	const char *dvs_expr;
	const char *dvs_func;
	const char *dvs_op;
	const char *dvs_mo;
	int dvs_line;
	int dvs_class;
	void *dvs_cookie;
};
#endif

enum { VRT_ATOMIC = 0, VRT_PROBE = 1, VRT_API = 2, VRT_MARK = 3 };

typedef struct vrt_rec {
	uint64_t seq;
	int tid;
	int kind;
	struct dispatch_verif_site_s *site; /* VRT_ATOMIC */
	const char *name;                   /* VRT_PROBE / VRT_API / VRT_MARK */
	const volatile void *addr;
	uint64_t oldv, newv;
	int ok;
	unsigned size;
	long a, b, c;
	int obj;   /* registered object id, -1 if none */
	int cls;   /* class of the site */
	long off;  /* offset inside the object */
} vrt_rec_t;

typedef void (*vrt_projector_t)(FILE *, const vrt_rec_t *);

/* perturb: 0 none, 1 light (yields), 2 medium (yields+short sleeps), 3 heavy (adds long stalls) */
void vrt_init(const char *outpath, uint64_t seed, int perturb);
/* cls > 0.  Classes below VRT_CLASS_ANY are recorded only on registered address ranges; classes
 * >= VRT_CLASS_ANY are recorded on ANY address (obj = -1 unless registered; use r->addr to tell
 * objects apart, e.g. map addresses to small ids in your projector) - for words that live in
 * objects the library allocates internally (dispatch_apply_t, continuations, block private data). */
#define VRT_CLASS_ANY 100
void vrt_add_class(const char *expr_substr, int cls);
int  vrt_register(const void *base, size_t len, int kind);
void vrt_unregister_all(void);
void vrt_set_projector(vrt_projector_t fn);
void vrt_set_probe_filter(int on);   /* 1: probes only on registered objects (default); 0: all */
/* API-level events, logged atomically with the global order */
uint64_t vrt_api(const char *name, int obj, long a, long b, long c); /* returns the global sequence number */
long vrt_ktid(int vtid);          /* kernel tid of a runtime thread id */
int vrt_tid_of_ktid(long ktid);
int vrt_nthreads(void);
void vrt_mark(const char *name, long a, long b, long c); /* Reset markers etc. */
int  vrt_tid(void);
uint64_t vrt_seq(void);
uint64_t vrt_rand(void);         /* per-thread seeded PRNG */
void vrt_progress(void);         /* tell the watchdog the driver is alive */
void vrt_set_hang_seconds(int s);
void vrt_set_record_progress(int on);   /* 0: only API events and vrt_progress() feed the watchdog */
void vrt_set_max_seconds(int s);   /* cap on the total run time: dump + exit 71 (0 = none) */
void vrt_pause(int on);          /* stop/resume recording (perturbation stays) */
void vrt_set_perturb(int level);
void vrt_dump(void);             /* write ndjson */
void vrt_fatal(const char *event, long a, int code); /* dump with a final event and _exit(code) */
size_t vrt_count(void);
const vrt_rec_t *vrt_get(size_t i);
int vrt_overflowed(void);
/* steering: a callback consulted in `pre` for traced sites (before the lock) */
typedef void (*vrt_steer_t)(struct dispatch_verif_site_s *, const volatile void *, int obj);
void vrt_set_steer(vrt_steer_t fn);
void vrt_set_post_steer(vrt_steer_t fn);   /* same, but called after a recorded access (lock released) */

#ifdef __cplusplus
}
#endif
#endif
