/* drv_relive - spec/RetargetLive.tla on the real library (C03): dispatch_set_target_queue(L, S) on an ACTIVE, busy
 * legacy serial queue L while its new target S (serial) is busy with its own items.
 * Every item of L submitted after dispatch_set_target_queue returned sits behind the deferred retarget barrier in L's
 * FIFO, so it must run from S's drain: never together with an item of S (invariants BehindBarrierUnderS / Exclusion),
 * L keeps its submission order, and nothing is stranded (NotStranded).
 * usage: drv_relive <rounds> <seed>     exit 0 ok, 2 oracle failure (lines "ORACLE-FAIL C03 ..."), 71 hang */
#include <dispatch/dispatch.h>
#include <pthread.h>
#include <stdatomic.h>
#include <stdio.h>
#include <stdlib.h>
#include <unistd.h>

#define PRE 120
#define POST 300
static _Atomic int under_s, overlaps, order_bad, s_stop, ran, s_ran, last_seq;
static unsigned g_seed;
static void spin(unsigned n) { volatile unsigned x = 0; for (unsigned i = 0; i < n; i++) x++; }

struct it { int seq; int post; };
static void l_item(void *c)
{
	struct it *it = c;
	int prev = atomic_exchange(&last_seq, it->seq);
	if (prev >= it->seq) atomic_fetch_add(&order_bad, 1);
	if (it->post) {
		if (atomic_fetch_add(&under_s, 1) != 0) atomic_fetch_add(&overlaps, 1);
		spin(300 + (unsigned)(it->seq * 7919u + g_seed) % 3000);
		atomic_fetch_sub(&under_s, 1);
	} else {
		spin(200 + (unsigned)(it->seq * 104729u + g_seed) % 2000);
	}
	atomic_fetch_add(&ran, 1);
}
static void s_item(void *c)
{
	(void)c;
	if (atomic_fetch_add(&under_s, 1) != 0) atomic_fetch_add(&overlaps, 1);
	spin(500 + (unsigned)(atomic_load(&s_ran) * 31u + g_seed) % 2500);
	atomic_fetch_sub(&under_s, 1);
	atomic_fetch_add(&s_ran, 1);
}
static dispatch_queue_t S;
static void *s_feeder(void *a)
{
	(void)a;
	/* keep S busy, bounded backlog */
	int sent = 0;
	while (!atomic_load(&s_stop)) {
		if (sent - atomic_load(&s_ran) < 8) { dispatch_async_f(S, NULL, s_item); sent++; }
		else usleep(20);
	}
	return NULL;
}

int main(int argc, char **argv)
{
	int rounds = argc > 1 ? atoi(argv[1]) : 20;
	g_seed = argc > 2 ? (unsigned)strtoul(argv[2], NULL, 0) : 1;
	int fail = 0;
	for (int r = 0; r < rounds && !fail; r++) {
		static struct it items[PRE + POST];
		atomic_store(&under_s, 0); atomic_store(&overlaps, 0); atomic_store(&order_bad, 0);
		atomic_store(&s_stop, 0); atomic_store(&ran, 0); atomic_store(&s_ran, 0); atomic_store(&last_seq, 0);
		S = dispatch_queue_create("verif.relive.S", DISPATCH_QUEUE_SERIAL);
		dispatch_queue_t L = dispatch_queue_create("verif.relive.L", DISPATCH_QUEUE_SERIAL);   /* legacy: active, on a root queue */
		pthread_t th;
		pthread_create(&th, NULL, s_feeder, NULL);
		int pre = 1 + (int)((g_seed * 31u + (unsigned)r * 17u) % PRE);
		for (int i = 0; i < pre; i++) { items[i].seq = i + 1; items[i].post = 0; dispatch_async_f(L, &items[i], l_item); }
		dispatch_set_target_queue(L, S);
		for (int i = pre; i < pre + POST; i++) {
			items[i].seq = i + 1; items[i].post = 1;
			/* synchronous submissions queue behind the retarget barrier as well: they run on this thread holding L and,
			 * recursively, its NEW target (the sync path re-reads do_targetq after locking L) */
			unsigned f = (unsigned)(i * 2654435761u + g_seed + (unsigned)r) % 16;
			if (f == 3) dispatch_sync_f(L, &items[i], l_item);
			else if (f == 7) dispatch_barrier_sync_f(L, &items[i], l_item);
			else if (f == 11) dispatch_async_and_wait_f(L, &items[i], l_item);
			else dispatch_async_f(L, &items[i], l_item);
		}
		int waited = 0;
		while (atomic_load(&ran) < pre + POST && waited < 30000) { usleep(1000); waited++; }
		atomic_store(&s_stop, 1);
		pthread_join(th, NULL);
		if (atomic_load(&ran) < pre + POST) {
			fprintf(stderr, "ORACLE-FAIL C03 NotStranded: round %d: %d of %d items of the retargeted queue never ran\n", r, pre + POST - atomic_load(&ran), pre + POST);
			_exit(71);
		}
		dispatch_sync_f(S, NULL, (dispatch_function_t)spin);   /* drain S's tail */
		if (atomic_load(&overlaps)) {
			fprintf(stderr, "ORACLE-FAIL C03 BehindBarrierUnderS/Exclusion: round %d (retarget after %d items): %d executions of items queued behind the retarget overlapped with items of the new serial target\n", r, pre, atomic_load(&overlaps));
			fail = 1;
		}
		if (atomic_load(&order_bad)) {
			fprintf(stderr, "ORACLE-FAIL C03 order: round %d: the retargeted serial queue ran %d items out of submission order\n", r, atomic_load(&order_bad));
			fail = 1;
		}
		dispatch_release(L);
		dispatch_release(S);
	}
	printf("relive rounds=%d fail=%d\n", rounds, fail);
	return fail ? 2 : 0;
}
