/* Driver for C19 (dispatch block objects: cancel, wait and notify follow the execution).
 * Seeded random executions: one block object made with dispatch_block_create* (random flags),
 * three client threads that submit it (dispatch_async / dispatch_group_async / dispatch_sync /
 * b() / dispatch_block_perform / dispatch_after with a deadline in the future / as the event handler of a
 * one-shot timer source: the last two reach the NON-CONSUMING _dispatch_block_async_invoke), cancel it, wait on it (now / timed / forever), register
 * notification blocks and call dispatch_block_testcancel, all at random moments relative to the
 * start and the end of the block's body, under schedule perturbation injected inside the library's
 * atomicity windows (cancel's or, wait's or/xchg/load, the invoke paths' inc/xchg, the group words).
 *
 * Two client regimes, as dispatch/block.h allows: "obs" = executed once, may be waited on (one wait
 * at a time, none after a successful one) and observed; "multi" = executed 2-3 times, never waited
 * on nor observed.  Every API call/return, body start/end, notification run and every atomic access
 * to the block's private data and to its private group is recorded in one total order; the ndjson
 * trace is validated against spec/BlockTrace.tla and the property's statements are evaluated on the
 * recorded order (API-level oracles, exit code 2).  A waiter or a notification that is never released
 * is a hang (exit 71); an internal DISPATCH_CLIENT_CRASH in these legal programs is a crash (exit 70).
 *
 * Timer-started submissions ("after", "handler"): the deadline (an uptime value) is published before the
 * SubmitCall record; right AFTER logging a CancelRet / WaitRet / NotifyRan record the thread reads the same
 * clock: if no timer submission of the execution had reached its deadline (margin ND_MARGIN_NS) the record is
 * marked nd = 1 ("not due": no such invocation can have been started at that record; a timer never fires
 * before its deadline, C11).  That pins "cancelled before it starts" for these paths, in the trace
 * (BlockTrace.tla: NotDue) and in the API oracle. */
#include "internal.h"
#include <pthread.h>
#include <malloc.h>
#include "verif_rt.h"

#define NT 3
#define MAXOPS 16
#define MAXE 32
enum { OP_SUBMIT, OP_CANCEL, OP_TEST, OP_WAIT, OP_NOTIFY, OP_PERFORM, OP_NAP };
enum { A_ASYNC, A_GASYNC, A_SYNC, A_DIRECT, A_PERFORM, A_AFTER, A_HANDLER };
static const char *AN[] = { "async", "gasync", "sync", "direct", "perform", "after", "handler" };
#define IS_TIMER_API(a) ((a) == A_AFTER || (a) == A_HANDLER)
#define MAXSLOT 4
#define ND_MARGIN_NS 20000ull
#define NDMAX 65536
static const char *KN[] = { "now", "timed", "forever" };

typedef struct { int op, arg; unsigned nap; } op_t;
typedef struct { uint64_t call, ret; int api, thr; } sub_t;
typedef struct { uint64_t call, ret; long r; int kind; uint64_t t0, t1, tmo; int nd; } wait_t;
typedef struct { uint64_t call, ret; long r; } test_t;
typedef struct { uint64_t call, ret; int nd; } canc_t;
typedef struct { uint64_t call, ret, ran; _Atomic int runs; int used; int nd; } notif_t;

static int g_execs = 40;
static uint64_t g_seed;
static pthread_barrier_t g_bar;
static _Atomic int g_fail, g_done_threads;

/* ---- per execution ---- */
static int g_mode_multi, g_qserial, g_barrier, g_gate, g_slow;
static unsigned long g_flags;
static dispatch_block_t g_b;
static dispatch_block_private_data_t g_dbpd;
static dispatch_queue_t g_q, g_nq;
static dispatch_group_t g_ug;
static int g_obj_dbpd = -1, g_obj_grp = -1;
static op_t g_prog[NT][MAXOPS];
static int g_nops[NT];
static _Atomic int g_gate_open;
static uint64_t g_gate_open_seq, g_gate_start_seq, g_gate_end_seq, g_ug_done_seq;
static _Atomic int g_submit_started, g_waited_ok;
static pthread_mutex_t g_wait_token = PTHREAD_MUTEX_INITIALIZER;
static sub_t g_sub[MAXE]; static _Atomic int g_nsub;
static wait_t g_wait[MAXE]; static _Atomic int g_nwait;
static test_t g_test[MAXE]; static _Atomic int g_ntest;
static canc_t g_canc[MAXE]; static _Atomic int g_ncanc;
static notif_t g_notif[4];
static uint64_t g_bstart[MAXE], g_bend[MAXE]; static _Atomic int g_nbstart, g_nbend;
static _Atomic int g_pbody;
static int g_used_gasync;
static int g_exec_idx;
/* timer-started submissions of this execution: slot -> deadline (uptime, 0 = not yet submitted), delay, source */
static int g_ntimer;
static _Atomic uint64_t g_tgt[MAXSLOT];
static uint64_t g_delta_ns[MAXSLOT];
static dispatch_source_t g_src[MAXSLOT];
/* sequence numbers of the records that carry the "not due" witness (all executions; read by the projector) */
static uint64_t g_ndseq[NDMAX]; static _Atomic int g_nnd;

static uint64_t now_ns(void)
{
	struct timespec ts; clock_gettime(CLOCK_MONOTONIC, &ts);
	return (uint64_t)ts.tv_sec * 1000000000ull + (uint64_t)ts.tv_nsec;
}

static void oracle_fail(const char *what, long a, long b)
{
	fprintf(stderr, "ORACLE-FAIL C19 exec=%d %s a=%ld b=%ld\n", g_exec_idx, what, a, b);
	atomic_store(&g_fail, 1);
}

static void spin_us(unsigned us)
{
	uint64_t t = now_ns() + (uint64_t)us * 1000;
	while (now_ns() < t) { if ((vrt_rand() & 7) == 0) sched_yield(); }
}

/* Called right AFTER logging the record `seq`: 1 = no timer submission of this execution had reached its
 * deadline (a slot still 0 is published before its SubmitCall record, i.e. after `seq`). */
static int not_due(uint64_t seq)
{
	if (!g_ntimer) return 0;
	uint64_t tg[MAXSLOT];
	for (int s = 0; s < g_ntimer; s++) tg[s] = atomic_load(&g_tgt[s]);
	uint64_t now = _dispatch_uptime();
	for (int s = 0; s < g_ntimer; s++) if (tg[s] && now + ND_MARGIN_NS >= tg[s]) return 0;
	int i = atomic_fetch_add(&g_nnd, 1);
	if (i >= NDMAX) return 0;
	g_ndseq[i] = seq;
	return 1;
}

static int nd_lookup(uint64_t seq)
{
	int n = atomic_load(&g_nnd);
	if (n > NDMAX) n = NDMAX;
	for (int i = 0; i < n; i++) if (g_ndseq[i] == seq) return 1;
	return 0;
}

/* ------------------------------------------------------------ the block's body */
static void body(void)
{
	int i = atomic_fetch_add(&g_nbstart, 1);
	uint64_t s = vrt_api("BodyStart", g_obj_dbpd, 0, 0, 0);
	if (i < MAXE) g_bstart[i] = s;
	if (g_slow) {
		unsigned us = 30 + (unsigned)(vrt_rand() % (g_slow == 2 ? 1500 : 300));
		if (vrt_rand() & 1) usleep(us); else spin_us(us);
	}
	uint64_t e = vrt_api("BodyEnd", g_obj_dbpd, 0, 0, 0);
	int j = atomic_fetch_add(&g_nbend, 1);
	if (j < MAXE) g_bend[j] = e;
}

/* ------------------------------------------------------------ client operations */
static void do_submit(int arg)
{
	int api = arg & 0xff, slot = arg >> 8;
	int k = atomic_fetch_add(&g_nsub, 1);
	sub_t *s = &g_sub[k];
	dispatch_time_t when = 0;
	s->api = api; s->thr = vrt_tid();
	if (IS_TIMER_API(api)) {
		/* deadline in the future, published before the SubmitCall record */
		when = dispatch_time(DISPATCH_TIME_NOW, (int64_t)g_delta_ns[slot]);
		atomic_store(&g_tgt[slot], (uint64_t)when);
	}
	s->call = vrt_api("SubmitCall", g_obj_dbpd, api, k, 0);
	atomic_store(&g_submit_started, 1);
	switch (api) {
	case A_ASYNC:  dispatch_async(g_q, g_b); break;
	case A_GASYNC: dispatch_group_async(g_ug, g_q, g_b); break;
	case A_SYNC:   dispatch_sync(g_q, g_b); break;
	case A_DIRECT: g_b(); break;
	case A_AFTER:  dispatch_after(when, g_q, g_b); break;
	case A_HANDLER: {
		/* one-shot timer source whose event handler is the block object (cancelled by main when the execution is over) */
		dispatch_source_t ds = dispatch_source_create(DISPATCH_SOURCE_TYPE_TIMER, 0, 0, g_q);
		dispatch_source_set_timer(ds, when, DISPATCH_TIME_FOREVER, (uint64_t)(vrt_rand() % 3) * 200000ull);
		dispatch_source_set_event_handler(ds, g_b);
		g_src[slot] = ds;
		dispatch_activate(ds);
		break;
	}
	}
	s->ret = vrt_api("SubmitRet", g_obj_dbpd, api, k, 0);
}

static void do_perform(void)
{
	int before = atomic_load(&g_pbody);
	__block int ran = 0;
	vrt_api("PerformCall", g_obj_dbpd, 0, 0, 0);
	dispatch_block_perform((dispatch_block_flags_t)(g_flags & 0x3f), ^{
		vrt_api("PBodyStart", g_obj_dbpd, 0, 0, 0);
		ran++;
		atomic_fetch_add(&g_pbody, 1);
		vrt_api("PBodyEnd", g_obj_dbpd, 0, 0, 0);
	});
	vrt_api("PerformRet", g_obj_dbpd, 0, 0, 0);
	(void)before;
	if (ran != 1) oracle_fail("dispatch_block_perform ran its block != 1 times before returning", ran, 1);
}

static void do_cancel(void)
{
	int i = atomic_fetch_add(&g_ncanc, 1);
	uint64_t c = vrt_api("CancelCall", g_obj_dbpd, 0, 0, 0);
	dispatch_block_cancel(g_b);
	uint64_t r = vrt_api("CancelRet", g_obj_dbpd, 0, 0, 0);
	int nd = not_due(r);
	if (i < MAXE) { g_canc[i].call = c; g_canc[i].ret = r; g_canc[i].nd = nd; }
}

static void do_test(void)
{
	int i = atomic_fetch_add(&g_ntest, 1);
	uint64_t c = vrt_api("TestCall", g_obj_dbpd, 0, 0, 0);
	long r = dispatch_block_testcancel(g_b) != 0;
	uint64_t e = vrt_api("TestRet", g_obj_dbpd, r, 0, 0);
	if (i < MAXE) { g_test[i].call = c; g_test[i].ret = e; g_test[i].r = r; }
}

/* one wait at a time, none after a successful one; an untimed wait only once the block object
 * has been submitted (completion is then guaranteed) */
static void do_wait(int kind, uint64_t tmo_ns)
{
	if (atomic_load(&g_waited_ok)) return;
	if (pthread_mutex_trylock(&g_wait_token)) return;
	if (atomic_load(&g_waited_ok)) { pthread_mutex_unlock(&g_wait_token); return; }
	if (kind == 2 && !atomic_load(&g_submit_started)) kind = 1;
	int i = atomic_fetch_add(&g_nwait, 1);
	uint64_t t0 = now_ns();
	dispatch_time_t t = kind == 0 ? DISPATCH_TIME_NOW : kind == 2 ? DISPATCH_TIME_FOREVER :
			dispatch_time(DISPATCH_TIME_NOW, (int64_t)tmo_ns);
	uint64_t c = vrt_api("WaitCall", g_obj_dbpd, kind, 0, 0);
	long r = dispatch_block_wait(g_b, t) != 0;
	uint64_t t1 = now_ns();
	uint64_t e = vrt_api("WaitRet", g_obj_dbpd, r, 0, 0);
	int nd = not_due(e);
	if (i < MAXE) {
		g_wait[i].nd = nd;
		g_wait[i].call = c; g_wait[i].ret = e; g_wait[i].r = r; g_wait[i].kind = kind;
		g_wait[i].t0 = t0; g_wait[i].t1 = t1; g_wait[i].tmo = tmo_ns;
	}
	if (r == 0) atomic_store(&g_waited_ok, 1);
	pthread_mutex_unlock(&g_wait_token);
}

static void do_notify(int n)
{
	notif_t *nf = &g_notif[n];
	nf->call = vrt_api("NotifyCall", g_obj_dbpd, n, 0, 0);
	dispatch_block_notify(g_b, g_nq, ^{
		uint64_t s = vrt_api("NotifyRan", g_obj_dbpd, n, 0, 0);
		int nd = not_due(s);
		if (atomic_fetch_add(&nf->runs, 1) == 0) { nf->ran = s; nf->nd = nd; }
	});
	nf->ret = vrt_api("NotifyRet", g_obj_dbpd, n, 0, 0);
}

static void *worker(void *arg)
{
	long me = (long)arg;
	(void)vrt_tid();
	for (int e = 0; e < g_execs; e++) {
		pthread_barrier_wait(&g_bar);
		for (int i = 0; i < g_nops[me]; i++) {
			op_t *o = &g_prog[me][i];
			if (o->nap) { if (o->nap & 1) usleep(o->nap); else spin_us(o->nap); }
			switch (o->op) {
			case OP_SUBMIT: do_submit(o->arg); break;
			case OP_CANCEL: do_cancel(); break;
			case OP_TEST: do_test(); break;
			case OP_WAIT: do_wait(o->arg & 3, 20000 + (uint64_t)(o->arg >> 2) * 1000); break;
			case OP_NOTIFY: do_notify(o->arg); break;
			case OP_PERFORM: do_perform(); break;
			}
			vrt_progress();
		}
		atomic_fetch_add(&g_done_threads, 1);
		pthread_barrier_wait(&g_bar);
	}
	return NULL;
}

/* ------------------------------------------------------------ projection */
static void proj(FILE *f, const vrt_rec_t *r)
{
	switch (r->kind) {
	case VRT_MARK:
		fprintf(f, "{\"e\":\"Reset\",\"mode\":\"%s\",\"qserial\":%s,\"barrier\":%s,\"gate\":%s,\"flags\":%ld,\"x\":%ld}\n",
				(r->a & 1) ? "multi" : "obs", (r->a & 2) ? "true" : "false", (r->a & 4) ? "true" : "false",
				(r->a & 8) ? "true" : "false", r->b, r->c);
		break;
	case VRT_API:
		if (!strcmp(r->name, "SubmitCall") || !strcmp(r->name, "SubmitRet"))
			fprintf(f, "{\"e\":\"%s\",\"t\":%d,\"api\":\"%s\",\"k\":%ld}\n", r->name, r->tid, AN[r->a], r->b + 1);
		else if (!strcmp(r->name, "WaitCall"))
			fprintf(f, "{\"e\":\"WaitCall\",\"t\":%d,\"kind\":\"%s\"}\n", r->tid, KN[r->a]);
		else if (!strcmp(r->name, "WaitRet"))
			fprintf(f, "{\"e\":\"%s\",\"t\":%d,\"r\":%ld,\"nd\":%d}\n", r->name, r->tid, r->a, nd_lookup(r->seq));
		else if (!strcmp(r->name, "TestRet"))
			fprintf(f, "{\"e\":\"%s\",\"t\":%d,\"r\":%ld}\n", r->name, r->tid, r->a);
		else if (!strcmp(r->name, "CancelRet"))
			fprintf(f, "{\"e\":\"%s\",\"t\":%d,\"nd\":%d}\n", r->name, r->tid, nd_lookup(r->seq));
		else if (!strcmp(r->name, "NotifyRan"))
			fprintf(f, "{\"e\":\"%s\",\"t\":%d,\"n\":%ld,\"nd\":%d}\n", r->name, r->tid, r->a + 1, nd_lookup(r->seq));
		else if (!strcmp(r->name, "NotifyCall") || !strcmp(r->name, "NotifyRet"))
			fprintf(f, "{\"e\":\"%s\",\"t\":%d,\"n\":%ld}\n", r->name, r->tid, r->a + 1);
		else
			fprintf(f, "{\"e\":\"%s\",\"t\":%d}\n", r->name, r->tid);
		break;
	case VRT_ATOMIC: {
		const char *op = r->site->dvs_op;
		/* the private data has no rmw loops: a "giveup" attributed to one of its words is the runtime
		 * pairing an unrelated loop's give-up with this thread's last traced load / failed CAS */
		if (r->cls <= 4 && op[0] == 'g') break;
		if (r->cls <= 4) {
			long off = r->off;
			const char *w = off == (long)offsetof(struct dispatch_block_private_data_s, dbpd_atomic_flags) ? "AF" :
					off == (long)offsetof(struct dispatch_block_private_data_s, dbpd_performed) ? "Perf" :
					off == (long)offsetof(struct dispatch_block_private_data_s, dbpd_queue) ? "DQ" :
					off == (long)offsetof(struct dispatch_block_private_data_s, dbpd_thread) ? "Thr" : "Other";
			long o = (long)r->oldv, n = (long)r->newv;
			if (!strcmp(w, "DQ") || !strcmp(w, "Thr")) { o = o != 0; n = n != 0; }
			if (!strcmp(w, "AF")) { o &= 0xffff; n &= 0xffff; }
			fprintf(f, "{\"e\":\"%s\",\"t\":%d,\"op\":\"%s\",\"old\":%ld,\"new\":%ld,\"ok\":%d,\"mo\":\"%s\",\"site\":\"%s:%d\"}\n",
					w, r->tid, op, o, n, r->ok, r->site->dvs_mo, r->site->dvs_func, r->site->dvs_line);
		} else {
			/* private group: dg_state (64 bit) = gen:32 | value:30 | HAS_NOTIFS | HAS_WAITERS; dg_bits / dg_gen its halves */
			long so = (long)offsetof(struct dispatch_group_s, dg_state);
			long ocnt = -1, ogen = -1, ncnt = -1, ngen = -1, ohw = -1, ohn = -1, nhw = -1, nhn = -1;
			const char *w = "other";
			if (r->off == so && r->size == 8) {
				w = "state";
				ocnt = _dg_state_value(r->oldv); ogen = _dg_state_gen(r->oldv) & 0xffff;
				ncnt = _dg_state_value(r->newv); ngen = _dg_state_gen(r->newv) & 0xffff;
				ohw = !!(r->oldv & DISPATCH_GROUP_HAS_WAITERS); ohn = !!(r->oldv & DISPATCH_GROUP_HAS_NOTIFS);
				nhw = !!(r->newv & DISPATCH_GROUP_HAS_WAITERS); nhn = !!(r->newv & DISPATCH_GROUP_HAS_NOTIFS);
			} else if (r->off == so && r->size == 4) {
				w = "bits";
				ocnt = _dg_state_value(r->oldv); ncnt = _dg_state_value(r->newv);
				ohw = !!(r->oldv & DISPATCH_GROUP_HAS_WAITERS); ohn = !!(r->oldv & DISPATCH_GROUP_HAS_NOTIFS);
				nhw = !!(r->newv & DISPATCH_GROUP_HAS_WAITERS); nhn = !!(r->newv & DISPATCH_GROUP_HAS_NOTIFS);
			} else if (r->off == so + 4 && r->size == 4) {
				w = "gen";
				ogen = (long)(r->oldv & 0xffff); ngen = (long)(r->newv & 0xffff);
			}
			fprintf(f, "{\"e\":\"G\",\"t\":%d,\"w\":\"%s\",\"op\":\"%s\",\"ocnt\":%ld,\"ogen\":%ld,\"ncnt\":%ld,\"ngen\":%ld,"
					"\"ohw\":%ld,\"ohn\":%ld,\"nhw\":%ld,\"nhn\":%ld,\"ok\":%d,\"mo\":\"%s\",\"site\":\"%s:%d\"}\n",
					r->tid, w, op, ocnt, ogen, ncnt, ngen, ohw, ohn, nhw, nhn, r->ok, r->site->dvs_mo,
					r->site->dvs_func, r->site->dvs_line);
		}
		break;
	}
	case VRT_PROBE:
		fprintf(f, "{\"e\":\"Futex\",\"t\":%d,\"k\":\"%s\",\"a\":%ld}\n", r->tid,
				!strcmp(r->name, "futex_wait") ? "wait" : !strcmp(r->name, "futex_wait_ret") ? "wait_ret" :
				!strcmp(r->name, "futex_wake") ? "wake" : r->name, r->a);
		break;
	}
}

/* ------------------------------------------------------------ program generation (main thread) */
static void add_op(int t, int op, int arg)
{
	if (g_nops[t] >= MAXOPS) return;
	op_t *o = &g_prog[t][g_nops[t]++];
	o->op = op; o->arg = arg; o->nap = 0;
}

static void shuffle(int t)
{
	for (int i = g_nops[t] - 1; i > 0; i--) {
		int j = (int)(vrt_rand() % (unsigned)(i + 1));
		op_t x = g_prog[t][i]; g_prog[t][i] = g_prog[t][j]; g_prog[t][j] = x;
	}
	for (int i = 0; i < g_nops[t]; i++) {
		unsigned k = (unsigned)(vrt_rand() % 100);
		g_prog[t][i].nap = k < 45 ? 0 : k < 85 ? 1 + (unsigned)(vrt_rand() % 120) : 100 + (unsigned)(vrt_rand() % 900);
	}
}

static int pick_api(void)
{
	unsigned k = (unsigned)(vrt_rand() % 100);
	return k < 24 ? A_ASYNC : k < 38 ? A_SYNC : k < 52 ? A_GASYNC : k < 66 ? A_DIRECT : k < 84 ? A_AFTER : A_HANDLER;
}

static void gen_programs(void)
{
	for (int t = 0; t < NT; t++) g_nops[t] = 0;
	g_used_gasync = 0;
	g_ntimer = 0;
	int nsubs = g_mode_multi ? 2 + (int)(vrt_rand() % 2) : 1;
	for (int i = 0; i < nsubs; i++) {
		int api = pick_api(), slot = 0;
		if (api == A_GASYNC) g_used_gasync = 1;
		if (IS_TIMER_API(api)) {
			/* delay: short (the clients' other calls mostly come after the fire) or long (mostly before) */
			slot = g_ntimer++;
			g_delta_ns[slot] = (vrt_rand() & 1) ? 150000 + vrt_rand() % 350000 : 500000 + vrt_rand() % 2500000;
		}
		add_op((int)(vrt_rand() % NT), OP_SUBMIT, api | (slot << 8));
	}
	unsigned kc = (unsigned)(vrt_rand() % 100);
	int ncanc = kc < 30 ? 0 : kc < 85 ? 1 : 2;
	for (int i = 0; i < ncanc; i++) add_op((int)(vrt_rand() % NT), OP_CANCEL, 0);
	for (int t = 0; t < NT; t++) {
		int n = (int)(vrt_rand() % 3);
		for (int i = 0; i < n; i++) add_op(t, OP_TEST, 0);
	}
	if (!g_mode_multi) {
		int nw = (int)(vrt_rand() % 4);
		for (int i = 0; i < nw; i++) {
			unsigned k = (unsigned)(vrt_rand() % 100);
			int kind = k < 25 ? 0 : k < 65 ? 1 : 2;
			int us = (int)(vrt_rand() % 800);
			add_op((int)(vrt_rand() % NT), OP_WAIT, kind | (us << 2));
		}
		int nn = (int)(vrt_rand() % 3);
		for (int i = 0; i < nn; i++) { g_notif[i].used = 1; add_op((int)(vrt_rand() % NT), OP_NOTIFY, i); }
	}
	if (vrt_rand() % 6 == 0) add_op((int)(vrt_rand() % NT), OP_PERFORM, 0);
	for (int t = 0; t < NT; t++) shuffle(t);
}

/* ------------------------------------------------------------ end-of-execution oracles (the property, on the recorded order) */
#define INF (~0ull)
static void judge(void)
{
	int nsub = atomic_load(&g_nsub), nbs = atomic_load(&g_nbstart), nbe = atomic_load(&g_nbend);
	int ncanc = atomic_load(&g_ncanc), ntest = atomic_load(&g_ntest), nwait = atomic_load(&g_nwait);
	uint64_t first_cancel_ret = INF, first_cancel_call = INF, first_body_end = INF, first_sub_call = INF;
	for (int i = 0; i < ncanc && i < MAXE; i++) {
		if (g_canc[i].ret < first_cancel_ret) first_cancel_ret = g_canc[i].ret;
		if (g_canc[i].call < first_cancel_call) first_cancel_call = g_canc[i].call;
	}
	for (int i = 0; i < nbe && i < MAXE; i++) if (g_bend[i] < first_body_end) first_body_end = g_bend[i];
	for (int i = 0; i < nsub; i++) if (g_sub[i].call < first_sub_call) first_sub_call = g_sub[i].call;

	/* one cancelled while running is not interrupted: every started body ran to its end */
	if (nbs != nbe) oracle_fail("a started body did not run to its end", nbs, nbe);
	if (nbs > nsub) oracle_fail("more bodies than submissions", nbs, nsub);
	/* cancelled before it starts never runs its body: a submission whose earliest possible start lies
	 * after the return of a cancel must be skipped */
	int may_run = 0, cancel_nd = 0, timer_only = nsub > 0;
	for (int i = 0; i < ncanc && i < MAXE; i++) if (g_canc[i].nd) cancel_nd = 1;
	for (int i = 0; i < nsub; i++) if (!IS_TIMER_API(g_sub[i].api)) timer_only = 0;
	for (int i = 0; i < nsub; i++) {
		uint64_t earliest = g_sub[i].call;
		/* timer-started: a cancel returned while no timer of this execution was due */
		if (IS_TIMER_API(g_sub[i].api) && cancel_nd) continue;
		if (g_gate && g_sub[i].api != A_DIRECT && g_gate_open_seq > earliest) earliest = g_gate_open_seq;
		if (earliest < first_cancel_ret) may_run++;
	}
	if (nbs > may_run) oracle_fail("a block object cancelled before it started ran its body", nbs, may_run);
	if (ncanc == 0 && nbs != nsub) oracle_fail("never cancelled, but bodies != submissions", nbs, nsub);
	/* the queue orders the block object after the earlier item (serial queue / BARRIER flag carried into the continuation) */
	if (g_gate) for (int i = 0; i < nbs && i < MAXE; i++) {
		int queued_only = 1;
		for (int k = 0; k < nsub; k++) if (g_sub[k].api == A_DIRECT) queued_only = 0;
		if (queued_only && g_bstart[i] < g_gate_end_seq)
			oracle_fail("body started before the earlier item on its (serial | barrier) queue ended", (long)g_bstart[i], (long)g_gate_end_seq);
	}
	/* completion witness: the first body end, or (no body at all) the skipped execution, which needs a
	 * cancel call and a submission call before it */
	/* waits */
	for (int i = 0; i < nwait && i < MAXE; i++) {
		wait_t *w = &g_wait[i];
		if (w->r == 0) {
			if (w->nd && timer_only)
				oracle_fail("dispatch_block_wait returned 0 before the timer that starts the block object was due", (long)w->ret, 0);
			if (nbs > 0) {
				if (!(first_body_end < w->ret))
					oracle_fail("dispatch_block_wait returned 0 before the first execution completed", (long)w->ret, (long)first_body_end);
			} else if (!(first_cancel_call < w->ret && first_sub_call < w->ret)) {
				oracle_fail("dispatch_block_wait returned 0 although nothing had been executed or skipped", (long)w->ret, (long)first_sub_call);
			}
		} else {
			if (w->kind == 2) oracle_fail("untimed dispatch_block_wait returned non-zero", w->r, 0);
			if (w->kind == 1 && w->t1 - w->t0 < w->tmo)
				oracle_fail("dispatch_block_wait timed out before the full timeout", (long)(w->t1 - w->t0), (long)w->tmo);
			/* the execution was already over (sync / direct submission had returned) when the wait began */
			for (int k = 0; k < nsub; k++)
				if ((g_sub[k].api == A_SYNC || g_sub[k].api == A_DIRECT) && g_sub[k].ret < w->call)
					oracle_fail("dispatch_block_wait timed out although the execution had completed before the call", (long)w->call, (long)g_sub[k].ret);
		}
	}
	/* notifications: exactly once, not before the completion */
	for (int n = 0; n < 4; n++) {
		notif_t *nf = &g_notif[n];
		if (!nf->used || !nf->call) continue;
		int runs = atomic_load(&nf->runs);
		if (runs != 1) { oracle_fail("notification block ran != 1 times", runs, n); continue; }
		if (nf->nd && timer_only)
			oracle_fail("notification ran before the timer that starts the block object was due", (long)nf->ran, n);
		if (nbs > 0) {
			if (!(first_body_end < nf->ran))
				oracle_fail("notification ran before the first execution completed", (long)nf->ran, (long)first_body_end);
		} else if (!(first_cancel_call < nf->ran && first_sub_call < nf->ran)) {
			oracle_fail("notification ran although nothing had been executed or skipped", (long)nf->ran, (long)first_sub_call);
		}
	}
	/* sync / b() return after the execution (single submission) */
	if (!g_mode_multi && nsub == 1 && (g_sub[0].api == A_SYNC || g_sub[0].api == A_DIRECT)) {
		if (nbs == 1 && !(g_sub[0].call < g_bstart[0] && g_bend[0] < g_sub[0].ret))
			oracle_fail("synchronous submission did not enclose the body", (long)g_sub[0].call, (long)g_sub[0].ret);
		if (nbs == 0 && !(first_cancel_call < g_sub[0].ret))
			oracle_fail("body skipped without a cancel", 0, 0);
	}
	/* testcancel: non-zero from the cancel on, zero before any cancel call, sticky */
	uint64_t first_nonzero_ret = INF;
	for (int i = 0; i < ntest && i < MAXE; i++) if (g_test[i].r && g_test[i].ret < first_nonzero_ret) first_nonzero_ret = g_test[i].ret;
	for (int i = 0; i < ntest && i < MAXE; i++) {
		test_t *t = &g_test[i];
		if (t->r == 0 && first_cancel_ret < t->call)
			oracle_fail("testcancel returned 0 after dispatch_block_cancel had returned", (long)t->call, (long)first_cancel_ret);
		if (t->r == 0 && first_nonzero_ret < t->call)
			oracle_fail("testcancel returned 0 after it had reported the cancellation", (long)t->call, (long)first_nonzero_ret);
		if (t->r != 0 && !(first_cancel_call < t->ret))
			oracle_fail("testcancel reported a cancellation nobody requested", (long)t->ret, 0);
	}
	if (g_used_gasync && nbe > 0) {
		/* the user's group is held until the execution is over */
		uint64_t last = 0; for (int i = 0; i < nbe && i < MAXE; i++) if (g_bend[i] > last) last = g_bend[i];
		int all_g = 1; for (int k = 0; k < nsub; k++) if (g_sub[k].api != A_GASYNC) all_g = 0;
		if (all_g && !(last < g_ug_done_seq)) oracle_fail("dispatch_group_async's group was empty before the body ended", (long)g_ug_done_seq, (long)last);
	}
}

int main(int argc, char **argv)
{
	const char *out = argc > 1 ? argv[1] : "/dev/null";
	g_seed = argc > 2 ? strtoull(argv[2], NULL, 0) : 1;
	int perturb = argc > 3 ? atoi(argv[3]) : 2;
	if (argc > 4) g_execs = atoi(argv[4]);
	vrt_init(out, g_seed, perturb);
	vrt_set_projector(proj);
	vrt_add_class("dbpd_atomic_flags", 1);
	vrt_add_class("dbpd_performed", 2);
	vrt_add_class("dbpd_queue", 3);
	vrt_add_class("dbpd_thread", 4);
	vrt_add_class("dg_state", 5);
	vrt_add_class("dg_bits", 5);
	vrt_add_class("dg_gen", 5);
	vrt_set_hang_seconds(90);   /* progress-based: no record from any thread for 90 s */
	(void)vrt_tid(); /* main = thread 0 */
	pthread_barrier_init(&g_bar, NULL, NT + 1);
	pthread_t th[NT];
	for (long i = 0; i < NT; i++) pthread_create(&th[i], NULL, worker, (void *)i);

	static const unsigned long FL[] = { 0, DISPATCH_BLOCK_BARRIER, DISPATCH_BLOCK_DETACHED, DISPATCH_BLOCK_ASSIGN_CURRENT,
		DISPATCH_BLOCK_INHERIT_QOS_CLASS, DISPATCH_BLOCK_NO_QOS_CLASS, DISPATCH_BLOCK_ENFORCE_QOS_CLASS,
		DISPATCH_BLOCK_BARRIER | DISPATCH_BLOCK_ASSIGN_CURRENT, DISPATCH_BLOCK_BARRIER | DISPATCH_BLOCK_DETACHED,
		DISPATCH_BLOCK_ASSIGN_CURRENT | DISPATCH_BLOCK_INHERIT_QOS_CLASS, DISPATCH_BLOCK_BARRIER | DISPATCH_BLOCK_ENFORCE_QOS_CLASS };
	for (int e = 0; e < g_execs; e++) {
		g_exec_idx = e;
		/* ---- configuration of this execution ---- */
		g_mode_multi = (vrt_rand() % 4) == 0;
		g_qserial = (int)(vrt_rand() & 1);
		g_flags = FL[vrt_rand() % (sizeof(FL) / sizeof(FL[0]))];
		g_barrier = (g_flags & DISPATCH_BLOCK_BARRIER) != 0;
		g_gate = (g_qserial || g_barrier) ? (int)(vrt_rand() % 3 != 0) : 0;
		g_slow = (int)(vrt_rand() % 3);
		memset(g_sub, 0, sizeof(g_sub)); memset(g_wait, 0, sizeof(g_wait)); memset(g_test, 0, sizeof(g_test));
		memset(g_canc, 0, sizeof(g_canc)); memset(g_notif, 0, sizeof(g_notif));
		memset(g_bstart, 0, sizeof(g_bstart)); memset(g_bend, 0, sizeof(g_bend));
		atomic_store(&g_nsub, 0); atomic_store(&g_nwait, 0); atomic_store(&g_ntest, 0); atomic_store(&g_ncanc, 0);
		atomic_store(&g_nbstart, 0); atomic_store(&g_nbend, 0); atomic_store(&g_done_threads, 0);
		atomic_store(&g_gate_open, 0); atomic_store(&g_submit_started, 0); atomic_store(&g_waited_ok, 0);
		g_gate_open_seq = g_gate_start_seq = g_gate_end_seq = g_ug_done_seq = 0;
		for (int s = 0; s < MAXSLOT; s++) { atomic_store(&g_tgt[s], 0); g_src[s] = NULL; }
		gen_programs();

		g_q = dispatch_queue_create("c19.q", g_qserial ? DISPATCH_QUEUE_SERIAL : DISPATCH_QUEUE_CONCURRENT);
		g_nq = dispatch_queue_create("c19.nq", DISPATCH_QUEUE_SERIAL);
		g_ug = dispatch_group_create();
		if (vrt_rand() % 5 == 0)
			g_b = dispatch_block_create_with_qos_class((dispatch_block_flags_t)g_flags, QOS_CLASS_UTILITY, -3, ^{ body(); });
		else
			g_b = dispatch_block_create((dispatch_block_flags_t)g_flags, ^{ body(); });
		if (!g_b || g_b == DISPATCH_BAD_INPUT) { fprintf(stderr, "dispatch_block_create failed flags=%lx\n", g_flags); return 3; }
		g_dbpd = _dispatch_block_get_data(g_b);
		vrt_unregister_all();
		g_obj_dbpd = vrt_register(g_dbpd, sizeof(*g_dbpd), 1);
		g_obj_grp = vrt_register(g_dbpd->dbpd_group, sizeof(struct dispatch_group_s), 2);
		vrt_mark("Reset", (g_mode_multi ? 1 : 0) | (g_qserial ? 2 : 0) | (g_barrier ? 4 : 0) | (g_gate ? 8 : 0), (long)g_flags, e);
		if (g_gate) {
			dispatch_async(g_q, ^{
				g_gate_start_seq = vrt_api("GateStart", g_obj_dbpd, 0, 0, 0);
				while (!atomic_load(&g_gate_open)) usleep(20);
				g_gate_end_seq = vrt_api("GateEnd", g_obj_dbpd, 0, 0, 0);
			});
		}
		pthread_barrier_wait(&g_bar);      /* clients go */
		if (g_gate) {
			unsigned us = (unsigned)(vrt_rand() % 1500);
			usleep(us);
			g_gate_open_seq = vrt_api("GateOpen", g_obj_dbpd, 0, 0, 0);
			atomic_store(&g_gate_open, 1);
		}
		pthread_barrier_wait(&g_bar);      /* clients done (a client that never returns is caught by the watchdog: hang) */
		/* timer-started submissions: every timer has fired and its invocation has counted itself (a timer that
		 * never fires / an invocation that never counts is caught below: performed != submissions) */
		if (g_ntimer) {
			uint64_t lim = now_ns() + 30ull * 1000000000ull;
			while (*(volatile int *)&g_dbpd->dbpd_performed < atomic_load(&g_nsub) && now_ns() < lim) usleep(100);
		}
		/* drain: everything submitted to the queue has run */
		dispatch_barrier_sync(g_q, ^{ });
		for (int s = 0; s < g_ntimer; s++) if (g_src[s]) {
			dispatch_source_cancel(g_src[s]);
			dispatch_release(g_src[s]);
			g_src[s] = NULL;
		}
		if (g_used_gasync) {
			dispatch_group_wait(g_ug, DISPATCH_TIME_FOREVER);
			g_ug_done_seq = vrt_api("UgDone", g_obj_dbpd, 0, 0, 0);
		}
		/* the execution is over: it completes for waiters (main, once, if nobody waited successfully) ... */
		if (!g_mode_multi && !atomic_load(&g_waited_ok)) {
			do_wait(0, 0);
			int i = atomic_load(&g_nwait) - 1;
			if (i >= 0 && i < MAXE && g_wait[i].r != 0)
				oracle_fail("dispatch_block_wait(NOW) timed out after the block object had been executed", g_wait[i].r, 0);
		}
		/* ... and for notifiers: every notification has been submitted by now; drain their queue */
		dispatch_sync(g_nq, ^{ });
		do_test();
		if (atomic_load(&g_ncanc) > 0 && g_test[(atomic_load(&g_ntest) - 1) % MAXE].r == 0)
			oracle_fail("final testcancel is 0 although the block object was cancelled", 0, 0);
		if (g_dbpd->dbpd_performed != atomic_load(&g_nsub))
			oracle_fail("dbpd_performed != number of submissions", g_dbpd->dbpd_performed, atomic_load(&g_nsub));
		if (g_dbpd->dbpd_queue)
			oracle_fail("dbpd_queue still set after every execution finished", 1, 0);
		judge();
		vrt_api("End", g_obj_dbpd, 0, 0, 0);
		vrt_unregister_all();
		Block_release(g_b);
		dispatch_release(g_q); dispatch_release(g_nq); dispatch_release(g_ug);
		vrt_progress();
	}
	for (int i = 0; i < NT; i++) pthread_join(th[i], NULL);
	vrt_dump();
	fprintf(stderr, "records=%zu overflow=%d\n", vrt_count(), vrt_overflowed());
	return atomic_load(&g_fail) ? 2 : 0;
}
