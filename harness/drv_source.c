/* Driver for C15 (custom data sources coalesce without loss and never re-enter their handler).
 *
 * Seeded random executions of one DISPATCH_SOURCE_TYPE_DATA_ADD / DATA_OR / DATA_REPLACE source
 * (the three kinds in rotation) on a serial / concurrent / global default target queue (argument):
 * 2-4 merging threads, merges issued from inside the event handler and from items running on the
 * target queue, suspension windows (merges continue inside them), merges before and racing with
 * activation, a handler that is sometimes slow, schedule perturbation inside the library's
 * atomicity windows, and a "sniper" thread that merges exactly when a drainer is about to touch
 * the source (steering of merge-vs-latch, merge-vs-unlock).  Everything that touches ds_pending_data, the source's dq_state,
 * dq_atomic_flags and du_state, and every API event, is recorded in one total order.
 *
 * At the end of an execution: stop merging, resume, wait until the source is at rest (decided on
 * the source's own words, not on a timeout: not locked, not enqueued, no call in flight), then
 *   - a source at rest with pending data is a stranded merge (exit 71),
 *   - the property's oracles are evaluated on the recorded order (exit 2),
 * then a final sequential marker merge is delivered and checked the same way, the source is
 * cancelled (recording paused: cancellation is C16) and released after its cancel handler ran.
 * The ndjson trace is validated against spec/SourceTrace.tla. */
#include "internal.h"
#include <pthread.h>
#include <malloc.h>
#include "verif_rt.h"

enum { K_ADD, K_OR, K_REPLACE };
enum { T_SERIAL, T_CONCURRENT, T_GLOBAL };
static const char *KN[] = { "add", "or", "replace" };
static const char *TN[] = { "serial", "concurrent", "global" };
enum { CLS_PD = 1, CLS_ST = 2, CLS_FL = 3, CLS_DU = 4 };

#define MAXM 4096
typedef struct { unsigned long v; uint64_t call_seq, ret_seq; } merge_t;
typedef struct { unsigned long d; uint64_t start_seq, end_seq; int tid; } deliv_t;

static int NT = 3, g_execs = 10, g_ops = 10, g_target = T_GLOBAL, g_nosteer;
static uint64_t g_seed;
static dispatch_source_t g_ds;
static dispatch_source_refs_t g_dr;
static dispatch_queue_t g_q;
static int g_obj, g_kind;
static merge_t g_m[MAXM];
static deliv_t g_d[MAXM];
static _Atomic int g_nm, g_nd;
static _Atomic int g_inh;            /* threads inside the event handler */
static _Atomic int g_items;          /* merging items submitted to the target queue and not finished */
static _Atomic int g_stop;           /* no more merges from handler / items */
static _Atomic int g_hbudget;        /* merges the handler may still issue */
static _Atomic int g_fail, g_done_threads;
static pthread_barrier_t g_bar;
static dispatch_semaphore_t g_cancel_sem;
static size_t g_first_rec;           /* index of the first record of this execution */
/* address ranges of the source and its refs, per execution: a pool thread may still be leaving the
 * previous (cancelled, unrecorded) source when recording resumes - its accesses are not ours */
#define MAXE 4096
static struct { uintptr_t ds, ds_end, dr, dr_end; } g_range[MAXE];

/* steering: a drain-side access of the source about to happen opens a window in which the sniper merges */
static _Atomic int g_win_open, g_win_ack, g_snipe_budget, g_sniper_run;

static void oracle_fail(const char *what, long a, long b)
{
	fprintf(stderr, "ORACLE-FAIL C15 %s kind=%s target=%s a=%ld b=%ld\n", what, KN[g_kind], TN[g_target], a, b);
	atomic_store(&g_fail, 1);
}

static unsigned long rand_value(void)
{
	uint64_t r = vrt_rand();
	switch (g_kind) {
	case K_ADD: return 1 + (unsigned long)(r % 3);
	case K_OR: return 1 + (unsigned long)(r % 7);            /* overlapping masks of 3 bits */
	default: return (unsigned long)(r % 5);                   /* replace: zero included */
	}
}

static void do_merge(unsigned long v)
{
	int i = atomic_fetch_add(&g_nm, 1);
	if (i >= MAXM) return;
	g_m[i].v = v; g_m[i].ret_seq = 0;
	g_m[i].call_seq = vrt_api("CallMerge", g_obj, (long)v, 0, 0);
	dispatch_source_merge_data(g_ds, v);
	g_m[i].ret_seq = vrt_api("RetMerge", g_obj, 0, 0, 0);
}

static void spin(unsigned n) { volatile unsigned x = 0; for (unsigned i = 0; i < n; i++) x++; }

static void event_handler(void *ctxt)
{
	(void)ctxt;
	unsigned long d = dispatch_source_get_data(g_ds);
	int inside = atomic_fetch_add(&g_inh, 1);
	int i = atomic_fetch_add(&g_nd, 1);
	uint64_t s = vrt_api("HandlerStart", g_obj, (long)d, 0, 0);
	if (inside != 0) oracle_fail("event handler entered while it is running on another thread", inside, (long)d);
	if (i < MAXM) { g_d[i].d = d; g_d[i].start_seq = s; g_d[i].tid = vrt_tid(); g_d[i].end_seq = 0; }
	uint64_t r = vrt_rand();
	if (r % 4 == 0) spin((unsigned)((r >> 8) % 4000));
	else if (r % 16 == 1) usleep((unsigned)((r >> 8) % 300));
	if (!atomic_load(&g_stop) && (r >> 20) % 5 == 0 && atomic_fetch_sub(&g_hbudget, 1) > 0)
		do_merge(rand_value());             /* the source triggers itself */
	if (dispatch_source_get_data(g_ds) != d) oracle_fail("dispatch_source_get_data changed during one handler invocation", (long)d, 0);
	uint64_t e = vrt_api("HandlerEnd", g_obj, 0, 0, 0);
	if (i < MAXM) g_d[i].end_seq = e;
	atomic_fetch_sub(&g_inh, 1);
}

static void cancel_handler(void *ctxt) { (void)ctxt; dispatch_semaphore_signal(g_cancel_sem); }

static void item_merge(void *ctxt)
{
	if (!atomic_load(&g_stop)) do_merge((unsigned long)(uintptr_t)ctxt);
	atomic_fetch_sub(&g_items, 1);
}

static void susp_window(void)
{
	vrt_api("SuspCall", g_obj, 0, 0, 0);
	dispatch_suspend(g_ds);
	vrt_api("SuspRet", g_obj, 0, 0, 0);
	int n = (int)(vrt_rand() % 3);
	for (int k = 0; k < n; k++) do_merge(rand_value());   /* merges made while suspended */
	if (vrt_rand() % 2) usleep((unsigned)(vrt_rand() % 300));
	vrt_api("ResCall", g_obj, 0, 0, 0);
	dispatch_resume(g_ds);
	vrt_api("ResRet", g_obj, 0, 0, 0);
}

/* Exploration aid (exact steering of merge-vs-latch): consulted by the runtime before every traced
 * access.  When the calling thread holds the source's drain lock (it is inside invoke2: before the
 * pending-data loads, the latch exchange, the unlock / re-enqueue RMW), it sometimes stalls for up to
 * ~2 ms and lets the sniper thread issue one merge exactly there - the atomicity windows the property
 * is about.  Only delays threads at points where the kernel may preempt them; judges nothing. */
static void steer(struct dispatch_verif_site_s *site, const volatile void *addr, int obj)
{
	(void)addr;
	if (obj < 0 || !atomic_load(&g_sniper_run)) return;
	dispatch_source_t ds = g_ds;
	if (!ds || !_dq_state_drain_locked_by_self(*(volatile uint64_t *)&ds->dq_state)) return;
	/* always in front of an exchange (the latch), one time in four elsewhere */
	if (site->dvs_op[0] != 'x' && vrt_rand() % 4) return;
	if (atomic_fetch_sub(&g_snipe_budget, 1) <= 0) return;
	int ack0 = atomic_load(&g_win_ack);
	atomic_store(&g_win_open, 1);
	for (int i = 0; i < 200 && atomic_load(&g_win_ack) == ack0 && atomic_load(&g_sniper_run); i++) usleep(10);
	atomic_store(&g_win_open, 0);
}

static void *sniper(void *arg)
{
	(void)arg; (void)vrt_tid();
	for (int e = 0; e < g_execs; e++) {
		pthread_barrier_wait(&g_bar);
		while (atomic_load(&g_done_threads) < NT) {
			if (atomic_exchange(&g_win_open, 0)) {
				/* a REPLACE source gets a zero two times out of three: the payload the latch must skip */
				do_merge(g_kind == K_REPLACE && vrt_rand() % 3 ? 0 : rand_value());
				atomic_fetch_add(&g_win_ack, 1);
			} else if (vrt_rand() % 8 == 0) usleep(20);
			else sched_yield();
		}
		atomic_store(&g_sniper_run, 0);
		pthread_barrier_wait(&g_bar);
	}
	return NULL;
}

static void *merger(void *arg)
{
	(void)arg; (void)vrt_tid();
	for (int e = 0; e < g_execs; e++) {
		pthread_barrier_wait(&g_bar);
		for (int i = 0; i < g_ops; i++) {
			unsigned k = (unsigned)(vrt_rand() % 100);
			if (k < 62) do_merge(rand_value());
			else if (k < 76) susp_window();
			else if (k < 88) {
				atomic_fetch_add(&g_items, 1);
				dispatch_async_f(g_q, (void *)(uintptr_t)rand_value(), item_merge);
			} else if (k < 94) usleep((unsigned)(vrt_rand() % 200));
			else sched_yield();
			vrt_progress();
		}
		atomic_fetch_add(&g_done_threads, 1);
		pthread_barrier_wait(&g_bar);
	}
	return NULL;
}

/* ------------------------------- projection ------------------------------- */
static void pabs(FILE *f, const char *k, uint64_t s)
{
	int64_t wb = (int64_t)((s & DISPATCH_QUEUE_WIDTH_MASK) >> DISPATCH_QUEUE_WIDTH_SHIFT);
	int used = (int)(wb - (int64_t)(DISPATCH_QUEUE_WIDTH_FULL - 1u));
	uint64_t ow = s & DISPATCH_QUEUE_DRAIN_OWNER_MASK;
	char owner[24] = "\"null\"";
	if (ow) {
		int n = vrt_nthreads(), found = -1;
		for (int i = 0; i < n; i++) if (((uint64_t)_dispatch_lock_value_from_tid((dispatch_tid)vrt_ktid(i)) & DISPATCH_QUEUE_DRAIN_OWNER_MASK) == ow) { found = i; break; }
		snprintf(owner, sizeof(owner), "\"%d\"", found);
	}
	int odd = !!(s & (DISPATCH_QUEUE_ENQUEUED_ON_MGR | DISPATCH_QUEUE_SYNC_TRANSFER)) ||
			((s & DISPATCH_QUEUE_ROLE_MASK) == DISPATCH_QUEUE_ROLE_BASE_WLH);
	fprintf(f, "\"%s\":{\"sc\":%d,\"side\":%s,\"inact\":%s,\"na\":%s,\"ib\":%s,\"pb\":%s,\"used\":%d,\"dirty\":%s,"
			"\"enq\":%s,\"ro\":%s,\"qos\":%d,\"owner\":%s,\"base\":%s,\"odd\":%s}", k, (int)(s / DISPATCH_QUEUE_SUSPEND_INTERVAL),
			(s & DISPATCH_QUEUE_HAS_SIDE_SUSPEND_CNT) ? "true" : "false", _dq_state_is_inactive(s) ? "true" : "false",
			(s & DISPATCH_QUEUE_NEEDS_ACTIVATION) ? "true" : "false", _dq_state_is_in_barrier(s) ? "true" : "false",
			_dq_state_has_pending_barrier(s) ? "true" : "false", used, _dq_state_is_dirty(s) ? "true" : "false",
			_dq_state_is_enqueued_on_target(s) ? "true" : "false", _dq_state_received_override(s) ? "true" : "false",
			_dq_state_max_qos(s) ? 1 : 0, owner,
			(s & DISPATCH_QUEUE_ROLE_MASK) == DISPATCH_QUEUE_ROLE_BASE_ANON ? "true" : "false", odd ? "true" : "false");
}

static long g_cur = -1;   /* execution the records being projected belong to */
static int in_range(const vrt_rec_t *r)
{
	uintptr_t a = (uintptr_t)r->addr;
	return g_cur >= 0 && ((a >= g_range[g_cur].ds && a < g_range[g_cur].ds_end) || (a >= g_range[g_cur].dr && a < g_range[g_cur].dr_end));
}

/* is this observation of an RMW loop the one its give-up was decided on?  (the next record of the
 * same thread is the give-up marker) */
static int followed_by_giveup(const vrt_rec_t *r)
{
	size_t i = (size_t)(r - vrt_get(0)), n = vrt_count();
	for (size_t j = i + 1; j < n && j < i + 100000; j++) {
		const vrt_rec_t *q = vrt_get(j);
		if (q->tid != r->tid || (q->kind == VRT_ATOMIC && !in_range(q))) continue;
		/* the runtime attributes a give-up to the word its thread observed last: pair it with this
		 * observation only if it was issued by the same C function (a give-up of a loop on some other,
		 * untraced object would otherwise be taken for ours) */
		return q->kind == VRT_ATOMIC && q->site->dvs_op[0] == 'g' && !strcmp(q->site->dvs_func, r->site->dvs_func);
	}
	return 0;
}

static void proj(FILE *f, const vrt_rec_t *r)
{
	if (r->kind == VRT_ATOMIC && !in_range(r)) return;
	switch (r->kind) {
	case VRT_MARK:   /* Reset: a = kind, b = target | execution << 8, c = the source's word when recording starts */
		g_cur = r->b >> 8;
		fprintf(f, "{\"e\":\"%s\",\"kind\":\"%s\",\"target\":\"%s\",", r->name, KN[r->a], TN[r->b & 0xff]);
		pabs(f, "st", (uint64_t)r->c);
		fprintf(f, "}\n");
		break;
	case VRT_API:
		if (!strcmp(r->name, "CallMerge")) fprintf(f, "{\"e\":\"CallMerge\",\"t\":%d,\"v\":%ld,\"n\":%llu}\n", r->tid, r->a, (unsigned long long)r->seq);
		else if (!strcmp(r->name, "HandlerStart")) fprintf(f, "{\"e\":\"HandlerStart\",\"t\":%d,\"d\":%ld,\"n\":%llu}\n", r->tid, r->a, (unsigned long long)r->seq);
		else fprintf(f, "{\"e\":\"%s\",\"t\":%d,\"n\":%llu}\n", r->name, r->tid, (unsigned long long)r->seq);
		if (!strcmp(r->name, "End")) g_cur = -1;   /* nothing of this source is validated past this point */
		break;
	case VRT_ATOMIC: {
		const char *op = r->site->dvs_op;
		if (op[0] == 'g') {   /* give-up marker of an RMW loop on a traced word */
			fprintf(f, "{\"e\":\"GiveUp\",\"t\":%d,\"f\":\"%s\"}\n", r->tid, r->site->dvs_func);
			break;
		}
		switch (r->cls) {
		case CLS_PD:
			fprintf(f, "{\"e\":\"Pd\",\"t\":%d,\"op\":\"%s\",\"old\":%llu,\"new\":%llu,\"mo\":\"%s\",\"f\":\"%s\"}\n", r->tid, op,
					(unsigned long long)(r->oldv > 1000000 ? 1000000 : r->oldv), (unsigned long long)(r->newv > 1000000 ? 1000000 : r->newv),
					r->site->dvs_mo, r->site->dvs_func);
			break;
		case CLS_ST:
			if (r->size != 8) { fprintf(f, "{\"e\":\"St\",\"t\":%d,\"op\":\"half\",\"ok\":%d,\"gu\":false,\"f\":\"%s\"}\n", r->tid, r->ok, r->site->dvs_func); break; }
			fprintf(f, "{\"e\":\"St\",\"t\":%d,\"o\":%d,\"off\":%ld,\"op\":\"%s\",\"ok\":%d,\"gu\":%s,\"mo\":\"%s\",\"f\":\"%s\",", r->tid, r->obj, r->off, op, r->ok,
					((op[0] == 'l' || (op[0] == 'c' && !r->ok)) && followed_by_giveup(r)) ? "true" : "false",
					r->site->dvs_mo, r->site->dvs_func);
			pabs(f, "old", r->oldv); fputc(',', f); pabs(f, "new", r->newv);
			fprintf(f, "}\n");
			break;
		case CLS_FL:
			fprintf(f, "{\"e\":\"Fl\",\"t\":%d,\"op\":\"%s\",\"canceled\":%s,\"f\":\"%s\"}\n", r->tid, op,
					(r->newv & (DSF_CANCELED | DSF_DELETED | DQF_RELEASED)) ? "true" : "false", r->site->dvs_func);
			break;
		case CLS_DU:
			if (op[0] == 'l') break;   /* loads of du_state decide nothing for a data source */
			fprintf(f, "{\"e\":\"Du\",\"t\":%d,\"op\":\"%s\",\"armed\":%s,\"f\":\"%s\"}\n", r->tid, op,
					_du_state_armed((dispatch_unote_state_t)r->newv) ? "true" : "false", r->site->dvs_func);
			break;
		default: break;
		}
		break;
	}
	default: break;
	}
}

/* ------------------------------- quiescence ------------------------------- */
static void nop(void *c) { (void)c; }

/* Wait until the source is at rest: every call returned, no item of ours left on the target
 * queue, handler not running, word neither locked nor enqueued nor suspended - sampled between
 * two equal readings of the global sequence number, so that the words read are one state.
 * Returns with the pending value seen at rest.  No time limit: a source that never comes to
 * rest stops producing records and the watchdog reports the hang. */
static uint64_t wait_rest(void)
{
	int stable = 0;
	for (;;) {
		if (g_target != T_GLOBAL && atomic_load(&g_items) > 0) dispatch_barrier_sync_f(g_q, NULL, nop);
		uint64_t s1 = vrt_seq();
		uint64_t st = *(volatile uint64_t *)&g_ds->dq_state;
		uint64_t pd = *(volatile uint64_t *)&g_dr->ds_pending_data;
		int busy = atomic_load(&g_items) > 0 || atomic_load(&g_inh) > 0 || _dq_state_drain_locked(st) ||
				_dq_state_is_enqueued(st) || _dq_state_is_suspended(st);
		uint64_t s2 = vrt_seq();
		if (busy || s1 != s2) { stable = 0; usleep(200); continue; }
		/* at rest in a consistent sample; take a few more to be independent of a single reading */
		if (++stable >= (pd ? 40 : 3)) return pd;
		usleep(pd ? 2000 : 100);
	}
}

static void check_rest(const char *when)
{
	uint64_t pd = wait_rest();
	if (pd) {
		/* nobody will ever look at the source again: this merge is lost until someone merges more */
		oracle_fail("source at rest with pending data: a merge was never delivered", (long)pd, 0);
		fprintf(stderr, "  (%s)\n", when);
		vrt_fatal("Hang", (long)pd, 71);
	}
}

/* ------------------------------- oracles ------------------------------- */
static int cmp_deliv(const void *a, const void *b)
{
	const deliv_t *x = a, *y = b;
	return x->start_seq < y->start_seq ? -1 : x->start_seq > y->start_seq;
}

static void check_execution(int final)
{
	int nm = atomic_load(&g_nm), nd = atomic_load(&g_nd);
	if (nm > MAXM) nm = MAXM;
	if (nd > MAXM) nd = MAXM;
	qsort(g_d, (size_t)nd, sizeof(deliv_t), cmp_deliv);
	unsigned long msum = 0, mor = 0, dsum = 0, dor = 0;
	for (int i = 0; i < nm; i++) { msum += g_m[i].v; mor |= g_m[i].v; }
	for (int j = 0; j < nd; j++) {
		deliv_t *d = &g_d[j];
		if (d->d == 0) oracle_fail("a handler invocation reported zero", j, 0);
		if (j > 0 && !(g_d[j - 1].end_seq && g_d[j - 1].end_seq < d->start_seq))
			oracle_fail("two handler invocations overlap", j - 1, j);
		/* what had been passed to merge_data by calls that began before this invocation */
		unsigned long bsum = 0, bor = 0; int member = 0;
		for (int i = 0; i < nm; i++) if (g_m[i].call_seq < d->start_seq) { bsum += g_m[i].v; bor |= g_m[i].v; if (g_m[i].v == d->d) member = 1; }
		dsum += d->d; dor |= d->d;
		if (g_kind == K_ADD && dsum > bsum) oracle_fail("ADD: delivered more than was merged so far", (long)dsum, (long)bsum);
		if (g_kind == K_OR && (d->d & ~bor)) oracle_fail("OR: delivered a bit nobody merged", (long)d->d, (long)bor);
		if (g_kind == K_REPLACE && !member) oracle_fail("REPLACE: delivered a value nobody merged", (long)d->d, j);
	}
	/* at rest, resumed, not cancelled */
	if (g_kind == K_ADD && dsum != msum) oracle_fail("ADD: sum delivered != sum merged at rest", (long)dsum, (long)msum);
	if (g_kind == K_OR && dor != mor) oracle_fail("OR: union delivered != union merged at rest", (long)dor, (long)mor);
	if (g_kind == K_REPLACE) {
		/* the final merge = the last store to ds_pending_data in the recorded (linearisation) order */
		long last = -1;
		for (size_t i = vrt_count(); i-- > g_first_rec; ) {
			const vrt_rec_t *r = vrt_get(i);
			if (r->kind == VRT_ATOMIC && r->cls == CLS_PD && r->site->dvs_op[0] == 's' && !strcmp(r->site->dvs_func, "dispatch_source_merge_data")) { last = (long)r->newv; break; }
		}
		if (last < 0 && nm > 0) last = (long)g_m[nm - 1].v;   /* sites renamed: fall back to the last call (sequential at the end) */
		if (final && nm > 0) last = (long)g_m[nm - 1].v;      /* the marker is sequential and last by construction */
		if (last > 0 && !(nd > 0 && (long)g_d[nd - 1].d == last))
			oracle_fail("REPLACE: the final non-zero merge is not the last value delivered", last, nd ? (long)g_d[nd - 1].d : -1);
	}
}

int main(int argc, char **argv)
{
	const char *out = argc > 1 ? argv[1] : "/dev/null";
	g_seed = argc > 2 ? strtoull(argv[2], NULL, 0) : 1;
	int perturb = argc > 3 ? atoi(argv[3]) : 2;
	if (argc > 4) g_execs = atoi(argv[4]);
	if (argc > 5) g_target = atoi(argv[5]);
	if (argc > 6) NT = atoi(argv[6]);
	if (argc > 7) g_ops = atoi(argv[7]);
	if (argc > 8) g_nosteer = atoi(argv[8]);
	if (g_execs > MAXE) g_execs = MAXE;
	if (NT < 1) NT = 1;
	if (NT > 8) NT = 8;
	vrt_init(out, g_seed, perturb);
	vrt_set_projector(proj);
	vrt_add_class("ds_pending_data", CLS_PD);
	vrt_add_class("dq_state", CLS_ST);
	vrt_add_class("dq_atomic_flags", CLS_FL);
	vrt_add_class("du_state", CLS_DU);
	vrt_set_hang_seconds(40);
	(void)vrt_tid();
	g_cancel_sem = dispatch_semaphore_create(0);
	vrt_set_steer(steer);
	pthread_barrier_init(&g_bar, NULL, (unsigned)NT + 2);
	pthread_t th[8], sn;
	for (long i = 0; i < NT; i++) pthread_create(&th[i], NULL, merger, (void *)i);
	pthread_create(&sn, NULL, sniper, NULL);
	for (int e = 0; e < g_execs; e++) {
		vrt_pause(1);
		g_kind = (int)((g_seed + (uint64_t)e) % 3);   /* every kind in every run */
		g_q = g_target == T_SERIAL ? dispatch_queue_create("verif.source.target", DISPATCH_QUEUE_SERIAL) :
				g_target == T_CONCURRENT ? dispatch_queue_create("verif.source.target", DISPATCH_QUEUE_CONCURRENT) :
				dispatch_get_global_queue(DISPATCH_QUEUE_PRIORITY_DEFAULT, 0);
		g_ds = dispatch_source_create(g_kind == K_ADD ? DISPATCH_SOURCE_TYPE_DATA_ADD : g_kind == K_OR ? DISPATCH_SOURCE_TYPE_DATA_OR :
				DISPATCH_SOURCE_TYPE_DATA_REPLACE, 0, 0, g_q);
		g_dr = g_ds->ds_refs;
		/* both forms of the handler setters (function + context, block) */
		if (vrt_rand() & 1) {
			void *hctx = dispatch_get_context(g_ds);
			dispatch_source_set_event_handler(g_ds, ^{ event_handler(hctx); });
			dispatch_source_set_cancel_handler(g_ds, ^{ cancel_handler(hctx); });
		} else {
			dispatch_source_set_event_handler_f(g_ds, event_handler);
			dispatch_source_set_cancel_handler_f(g_ds, cancel_handler);
		}
		vrt_unregister_all();
		g_obj = vrt_register(g_ds, malloc_usable_size(g_ds), 1);
		vrt_register(g_dr, malloc_usable_size(g_dr), 2);
		atomic_store(&g_nm, 0); atomic_store(&g_nd, 0); atomic_store(&g_inh, 0); atomic_store(&g_items, 0);
		atomic_store(&g_stop, 0); atomic_store(&g_hbudget, 2 + (int)(vrt_rand() % 4)); atomic_store(&g_done_threads, 0);
		atomic_store(&g_win_open, 0); atomic_store(&g_snipe_budget, g_nosteer ? 0 : 6 + (int)(vrt_rand() % 8)); atomic_store(&g_sniper_run, 1);
		g_first_rec = vrt_count();
		if (e < MAXE) {
			g_range[e].ds = (uintptr_t)g_ds; g_range[e].ds_end = (uintptr_t)g_ds + malloc_usable_size(g_ds);
			g_range[e].dr = (uintptr_t)g_dr; g_range[e].dr_end = (uintptr_t)g_dr + malloc_usable_size(g_dr);
		}
		/* the marker is written before recording resumes: whatever a pool thread still does to the previous
		 * source lands behind it and is told apart by its address */
		vrt_mark("Reset", g_kind, g_target | ((long)e << 8), (long)*(volatile uint64_t *)&g_ds->dq_state);
		vrt_pause(0);
		/* before activation: merges are kept, a suspension taken now outlives the activation */
		uint64_t r = vrt_rand();
		int presusp = (r % 4 == 0);
		for (int k = (int)((r >> 8) % 3); k > 0; k--) do_merge(rand_value());
		if (presusp) { vrt_api("SuspCall", g_obj, 0, 0, 0); dispatch_suspend(g_ds); vrt_api("SuspRet", g_obj, 0, 0, 0); }
		int race = (int)((r >> 16) % 2);      /* mergers start before or after the activation */
		if (race) pthread_barrier_wait(&g_bar);
		if (race && (r >> 20) % 2) usleep((unsigned)((r >> 24) % 200));
		vrt_api("ActCall", g_obj, 0, 0, 0);
		dispatch_activate(g_ds);
		vrt_api("ActRet", g_obj, 0, 0, 0);
		if (!race) pthread_barrier_wait(&g_bar);
		if (presusp) {
			usleep((unsigned)((r >> 32) % 300));
			vrt_api("ResCall", g_obj, 0, 0, 0); dispatch_resume(g_ds); vrt_api("ResRet", g_obj, 0, 0, 0);
		}
		while (atomic_load(&g_done_threads) < NT) usleep(200);
		atomic_store(&g_sniper_run, 0);
		pthread_barrier_wait(&g_bar);
		atomic_store(&g_stop, 1);
		check_rest("after the merging threads finished");
		vrt_api("Quiesce", g_obj, 0, 0, 0);
		check_execution(0);
		/* one more, sequential, recognisable merge: it must come out by itself and last */
		do_merge(g_kind == K_OR ? 8 : g_kind == K_ADD ? 5 : 7);
		check_rest("after the final marker merge");
		check_execution(1);
		vrt_api("End", g_obj, 0, 0, 0);
		/* cancellation is another property: not recorded */
		vrt_pause(1);
		dispatch_source_cancel(g_ds);
		dispatch_semaphore_wait(g_cancel_sem, DISPATCH_TIME_FOREVER);
		dispatch_release(g_ds);
		if (g_target != T_GLOBAL) dispatch_release(g_q);
		vrt_progress();
	}
	for (int i = 0; i < NT; i++) pthread_join(th[i], NULL);
	pthread_join(sn, NULL);
	vrt_dump();
	fprintf(stderr, "records=%zu overflow=%d threads=%d\n", vrt_count(), vrt_overflowed(), vrt_nthreads());
	return atomic_load(&g_fail) ? 2 : 0;
}
