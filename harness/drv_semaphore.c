/* Driver for C08: random signal / poll / timed wait / untimed wait workloads on one
 * dispatch_semaphore from several threads, under schedule perturbation.  Emits an
 * ndjson trace for SemaphoreTrace.tla and evaluates the API-level oracles itself. */
#define _GNU_SOURCE
#include <dispatch/dispatch.h>
#include <pthread.h>
#include <stdatomic.h>
#include <stdlib.h>
#include <string.h>
#include <unistd.h>
#include <malloc.h>
#include <time.h>
#include "verif_rt.h"

#define NT 3
static int g_execs = 20, g_ops = 12;
static uint64_t g_seed;
static dispatch_semaphore_t g_sema;
static int g_obj;
static pthread_barrier_t g_bar;
static _Atomic long g_sig_started, g_sig_done, g_succ, g_v0;
static _Atomic int g_done_threads;
static _Atomic int g_fail;
static _Atomic int g_stop;
static _Atomic int g_blocked_forever;
static _Atomic long g_ops_done;

static const char *KN[] = { "forever", "now", "timed" };

static uint64_t now_ns(void)
{
	struct timespec ts; clock_gettime(CLOCK_MONOTONIC, &ts);
	return (uint64_t)ts.tv_sec * 1000000000ull + (uint64_t)ts.tv_nsec;
}

static void oracle_fail(const char *what, long a, long b)
{
	fprintf(stderr, "ORACLE-FAIL C08 %s a=%ld b=%ld\n", what, a, b);
	atomic_store(&g_fail, 1);
}

static void do_signal(void)
{
	atomic_fetch_add(&g_sig_started, 1);
	vrt_api("CallSignal", g_obj, 0, 0, 0);
	long r = dispatch_semaphore_signal(g_sema);
	vrt_api("RetSignal", g_obj, r != 0, 0, 0);
	atomic_fetch_add(&g_sig_done, 1);
}

static long do_wait(int kind, uint64_t tmo_ns)
{
	dispatch_time_t t = kind == 0 ? DISPATCH_TIME_FOREVER : kind == 1 ? DISPATCH_TIME_NOW : 0;
	uint64_t t0 = now_ns();
	if (kind == 2) {
		/* the timeout on each of the three clocks (the deadline conversion differs per clock: finding F7) */
		switch (vrt_rand() % 3) {
		case 0: t = dispatch_time(DISPATCH_TIME_NOW, (int64_t)tmo_ns); break;
		case 1: t = dispatch_walltime(NULL, (int64_t)tmo_ns); break;
		default: t = dispatch_time((dispatch_time_t)(1ull << 63) /* DISPATCH_MONOTONICTIME_NOW (private/time_private.h) */, (int64_t)tmo_ns); break;
		}
	}
	vrt_api("CallWait", g_obj, kind, 0, 0);
	/* any wait may block indefinitely: a poll or timed wait that loses the undo race to a concurrent signal
	 * falls into the untimed kernel wait ("drain the wakeup") and needs a permit if another waiter took the
	 * posted one.  Legal under C08 (Semaphore.tla: UndoRead with value >= 0 -> w_ksem); the rescuer below
	 * therefore watches every wait call, not only the untimed ones. */
	atomic_fetch_add(&g_blocked_forever, 1);
	long r = dispatch_semaphore_wait(g_sema, t);
	atomic_fetch_sub(&g_blocked_forever, 1);
	uint64_t t1 = now_ns();
	vrt_api("RetWait", g_obj, r != 0, 0, 0);
	if (r == 0) {
		long s = atomic_fetch_add(&g_succ, 1) + 1;
		long lim = atomic_load(&g_v0) + atomic_load(&g_sig_started);
		if (s > lim) oracle_fail("spurious-success succ>v0+signals", s, lim);
	} else {
		if (kind == 0) oracle_fail("untimed wait returned non-zero", r, 0);
		if (kind == 2 && t1 - t0 < tmo_ns) oracle_fail("timed wait returned early", (long)(t1 - t0), (long)tmo_ns);
	}
	return r;
}

static void *worker(void *arg)
{
	long me = (long)arg;
	(void)vrt_tid();
	for (int e = 0; e < g_execs; e++) {
		pthread_barrier_wait(&g_bar);   /* execution set up */
		for (int i = 0; i < g_ops; i++) {
			uint64_t r = vrt_rand();
			unsigned k = (unsigned)(r % 100);
			if (k < 40) do_signal();
			else if (k < 60) do_wait(1, 0);
			else if (k < 85) do_wait(2, 20000 + (r >> 8) % 300000);
			else do_wait(0, 0);
			atomic_fetch_add(&g_ops_done, 1);
			vrt_progress();
		}
		atomic_fetch_add(&g_done_threads, 1);
		pthread_barrier_wait(&g_bar);   /* execution finished */
	}
	(void)me;
	return NULL;
}

static void proj(FILE *f, const vrt_rec_t *r)
{
	switch (r->kind) {
	case VRT_MARK:
		fprintf(f, "{\"e\":\"%s\",\"v0\":%ld}\n", r->name, r->a);
		break;
	case VRT_API:
		if (!strcmp(r->name, "CallWait"))
			fprintf(f, "{\"e\":\"CallWait\",\"t\":%d,\"kind\":\"%s\"}\n", r->tid, KN[r->a]);
		else if (!strcmp(r->name, "CallSignal"))
			fprintf(f, "{\"e\":\"CallSignal\",\"t\":%d}\n", r->tid);
		else
			fprintf(f, "{\"e\":\"%s\",\"t\":%d,\"r\":%ld}\n", r->name, r->tid, r->a);
		break;
	case VRT_ATOMIC: {
		const char *op = r->site->dvs_op;
		const char *e = !strcmp(op, "add") ? "Inc" : !strcmp(op, "sub") ? "Dec" :
				!strcmp(op, "cmpxchg") ? "Cas" : !strcmp(op, "load") ? "Load" : "Unknown";
		fprintf(f, "{\"e\":\"%s\",\"t\":%d,\"old\":%ld,\"new\":%ld,\"ok\":%d,\"mo\":\"%s\",\"site\":\"%s:%d\"}\n",
				e, r->tid, (long)r->oldv, (long)r->newv, r->ok, r->site->dvs_mo, r->site->dvs_func,
				r->site->dvs_line);
		break;
	}
	case VRT_PROBE:
		if (!strcmp(r->name, "sema4_post")) fprintf(f, "{\"e\":\"Post\",\"t\":%d}\n", r->tid);
		else if (!strcmp(r->name, "sema4_wait_ret")) fprintf(f, "{\"e\":\"WaitRet\",\"t\":%d}\n", r->tid);
		else if (!strcmp(r->name, "sema4_timedwait_ret"))
			fprintf(f, "{\"e\":\"TimedRet\",\"t\":%d,\"timedout\":%ld}\n", r->tid, r->a);
		else if (!strcmp(r->name, "dispose")) { /* end of the object's life (_dispatch_dispose probe): C17's business */ }
		else fprintf(f, "{\"e\":\"Unknown\",\"t\":%d,\"probe\":\"%s\"}\n", r->tid, r->name);
		break;
	}
}

/* A signaller preempted between its increment and the wake-up it owes (and a waiter between its decrement and its
 * kernel wait): the windows in which other signals / timeouts race.  Hold a thread there now and then. */
static void sem_post_steer(struct dispatch_verif_site_s *s, const volatile void *a, int obj)
{
	(void)a; (void)obj;
	if (!strstr(s->dvs_expr, "dsema_value") || s->dvs_op[0] == 'l') return;
	if ((!strcmp(s->dvs_func, "dispatch_semaphore_signal") || !strcmp(s->dvs_func, "dispatch_semaphore_wait") ||
			!strcmp(s->dvs_func, "_dispatch_semaphore_wait_slow")) && (vrt_rand() % 6) == 0)
		usleep(100 + (unsigned)(vrt_rand() % 900));
}

int main(int argc, char **argv)
{
	const char *out = argc > 1 ? argv[1] : "/dev/null";
	g_seed = argc > 2 ? strtoull(argv[2], NULL, 0) : 1;
	int perturb = argc > 3 ? atoi(argv[3]) : 2;
	if (argc > 4) g_execs = atoi(argv[4]);
	if (argc > 5) g_ops = atoi(argv[5]);
	vrt_init(out, g_seed, perturb);
	if (perturb > 0) vrt_set_post_steer(sem_post_steer);
	vrt_set_projector(proj);
	vrt_add_class("dsema_value", 1);
	vrt_set_hang_seconds(20);
	(void)vrt_tid(); /* main = thread 0 */
	pthread_barrier_init(&g_bar, NULL, NT + 1);
	pthread_t th[NT];
	for (long i = 0; i < NT; i++) pthread_create(&th[i], NULL, worker, (void *)i);
	for (int e = 0; e < g_execs; e++) {
		long v0 = (long)(vrt_rand() % 3);
		g_sema = dispatch_semaphore_create(v0);
		vrt_unregister_all();
		g_obj = vrt_register(g_sema, malloc_usable_size(g_sema), 1);
		atomic_store(&g_v0, v0); atomic_store(&g_sig_started, 0); atomic_store(&g_sig_done, 0);
		atomic_store(&g_succ, 0); atomic_store(&g_done_threads, 0);
		vrt_mark("Reset", v0, 0, 0);
		pthread_barrier_wait(&g_bar);
		/* rescuer: a blocked waiter must not be left without a permit forever.  When no client call has
		 * completed for a while and some thread is inside a wait, add a permit; after NT + 2 such permits
		 * without any progress every possible waiter has one, so stop and let the watchdog (no progress
		 * for 20 s) declare the hang - on a correct library the waiter returns and progress resumes. */
		int idle = 0, consecutive = 0;
		long last_ops = -1;
		while (atomic_load(&g_done_threads) < NT) {
			usleep(500);
			long ops_now = atomic_load(&g_ops_done);
			if (ops_now != last_ops) { last_ops = ops_now; idle = 0; consecutive = 0; continue; }
			if (atomic_load(&g_blocked_forever) > 0 && ++idle > 6 && consecutive < NT + 2) {
				consecutive++;
				do_signal(); idle = 0;
			}
		}
		pthread_barrier_wait(&g_bar);
		/* oracle: exactly v0 + signals - successes permits remain obtainable */
		long expect = v0 + atomic_load(&g_sig_done) - atomic_load(&g_succ);
		long got = 0;
		while (do_wait(1, 0) == 0) got++;
		if (got != expect) oracle_fail("permits remaining != v0+signals-successes", got, expect);
		/* restore the creation value so that dispose does not crash */
		for (long i = 0; i < v0; i++) do_signal();
		dispatch_release(g_sema);
		vrt_progress();
	}
	for (int i = 0; i < NT; i++) pthread_join(th[i], NULL);
	vrt_dump();
	fprintf(stderr, "records=%zu overflow=%d\n", vrt_count(), vrt_overflowed());
	return atomic_load(&g_fail) ? 2 : 0;
}
