/* Driver for C10 (dispatch_apply): seeded random executions of dispatch_apply_f on
 * DISPATCH_APPLY_AUTO / global queues of several QoS / custom serial / custom concurrent
 * (natural width and narrowed to 2|3) / concurrent->serial and concurrent->concurrent chains,
 * with nesting (depth <= 3), calls from inside an item of a serial queue and under dispatch_sync,
 * several applies racing on the same custom queue from different threads, and a writer thread
 * submitting barrier items to the custom queue - all under schedule perturbation injected inside
 * the library's atomicity windows.
 * Recorded in ONE total order: Call/Ret of dispatch_apply, Start/End of every invocation, every
 * atomic access to da_index / da_todo / da_thr_cnt and to the da_event word of every
 * dispatch_apply_t (any address, VRT_CLASS_ANY), and every atomic access to dq_state of the
 * custom queues.  The trace is validated against spec/ApplyTrace.tla; the statements of C10
 * are also evaluated here on the recorded order (API-level oracles). */
#include "internal.h"
#include <pthread.h>
#include <malloc.h>
#include "verif_rt.h"

#define MAXAP 4096
#define MAXQ 1024
#define MAXBAR 4096
#define NCL 3
enum { QK_AUTO, QK_GLOBAL, QK_SERIAL, QK_CONC, QK_NARROW, QK_CHAIN_S, QK_CHAIN_C, QK_N };
enum { CTX_DIRECT, CTX_ITEM, CTX_SYNC };

typedef struct ap {
	int id, n, qn, serial, depth, topword;
	dispatch_queue_t q;          /* NULL = DISPATCH_APPLY_AUTO */
	_Atomic int *runs;
	uint64_t *start, *end;
	_Atomic int oob;
	uint64_t call_seq, ret_seq;
	int nest_left, nest_same;
} ap_t;
typedef struct { uint64_t s, e; int word; } bar_t;

static uint64_t g_seed;
static ap_t g_ap[MAXAP];
static _Atomic int g_nap;
static int g_exec_first_ap;
static bar_t g_bar_items[MAXBAR];
static _Atomic int g_nbar_items;
static _Atomic int g_fail;
static pthread_barrier_t g_bar;
static int g_execs = 10, g_maxn = 1000;
/* queues: never released while the run lasts, so a registered address is never reused */
static int g_nq;                 /* custom queue numbers ("q<k>") */
static int g_wwidth[4096];       /* registered object id -> dq_width */
/* the scenario of the current execution */
static struct {
	int qkind, nclients, calls, ctx[NCL], nlist[NCL][2], nest[NCL][2], barrier_thread, nbar, same_ok;
	dispatch_queue_t q; int qn, serial, topword;
	dispatch_queue_t ctxq;
	dispatch_queue_t gq;
} S;
static const int NS[] = { 0, 1, 2, 3, 5, 17, 64, 1000 };

static _Atomic int g_nfail;
static void oracle_fail(const char *what, long a, long b, long c)
{
	if (atomic_fetch_add(&g_nfail, 1) < 8) fprintf(stderr, "ORACLE-FAIL C10 %s apply=%ld a=%ld b=%ld\n", what, a, b, c);
	atomic_store(&g_fail, 1);
}

/* Once a statement of the property has failed the verdict is fixed: stop shortly after (a broken
 * dispatch_apply may otherwise loop on a recycled record for ever).  An execution that keeps making
 * "progress" but never finishes is a dispatch_apply that does not return: reported like a hang.
 * The bound is >100x what a run needs on a heavily loaded machine. */
static int g_max_seconds = 150;
static void *monitor(void *arg)
{
	(void)arg;
	for (int ms = 0; ; ms += 100) {
		usleep(100000);
		if (atomic_load(&g_fail)) { usleep(300000); vrt_fatal("OracleFail", atomic_load(&g_nfail), 2); }
		if (ms > g_max_seconds * 1000) {
			fprintf(stderr, "ORACLE-FAIL C10 the workload did not finish in %d s (dispatch_apply never returned)\n", g_max_seconds);
			vrt_fatal("Hang", ms / 1000, 71);
		}
	}
	return NULL;
}

static ap_t *new_ap(int n, dispatch_queue_t q, int qn, int serial, int topword, int depth)
{
	int id = atomic_fetch_add(&g_nap, 1);
	if (id >= MAXAP) return NULL;
	ap_t *a = &g_ap[id];
	memset(a, 0, sizeof(*a));
	a->id = id + 1; a->n = n; a->q = q; a->qn = qn; a->serial = serial; a->depth = depth; a->topword = topword;
	a->runs = calloc((size_t)n + 1, sizeof(_Atomic int));
	a->start = calloc((size_t)n + 1, sizeof(uint64_t));
	a->end = calloc((size_t)n + 1, sizeof(uint64_t));
	return a;
}

static void do_apply(ap_t *a);

static void work(void *ctxt, size_t idx)
{
	ap_t *a = ctxt;
	uint64_t s = vrt_api("Start", -1, a->id, (long)idx, 0);
	if (idx >= (size_t)a->n) {
		atomic_fetch_add(&a->oob, 1);
		oracle_fail("work invoked with an index outside 0..n-1", a->id, (long)idx, a->n);
	} else {
		if (atomic_fetch_add(&a->runs[idx], 1) == 0) a->start[idx] = s;
	}
	uint64_t r = vrt_rand();
	if ((r & 7) == 0) { volatile int x = 0; int k = (int)((r >> 8) % 3000); for (int i = 0; i < k; i++) x++; }
	else if ((r & 63) == 1) usleep(50 + (unsigned)((r >> 8) % 400));
	if (a->nest_left > 0 && a->n <= 5) {
		/* nested apply: the same contract; the thread count is divided by da_nested */
		static const int NN[] = { 0, 1, 2, 3, 5, 2, 3, 1 };
		int n2 = NN[(r >> 20) % 8];
		unsigned k = (unsigned)((r >> 28) % 100);
		ap_t *b;
		if (a->nest_same && k < 30 && a->q) b = new_ap(n2, a->q, a->qn, 0, a->topword, a->depth + 1);
		else if (k < 65) b = new_ap(n2, NULL, 0, 0, 0, a->depth + 1);
		else b = new_ap(n2, S.gq, -1, 0, 0, a->depth + 1);
		if (b) { b->nest_left = a->nest_left - 1; b->nest_same = 0; do_apply(b); }
	}
	uint64_t e = vrt_api("End", -1, a->id, (long)idx, 0);
	if (idx < (size_t)a->n) a->end[idx] = e;
	vrt_progress();
}

static void do_apply(ap_t *a)
{
	a->call_seq = vrt_api("Call", -1, a->id, a->n, a->qn);
	/* both entry points: function + context, and the block form */
	if (vrt_rand() & 1) dispatch_apply((size_t)a->n, a->q ? a->q : DISPATCH_APPLY_AUTO, ^(size_t i) { work(a, i); });
	else dispatch_apply_f((size_t)a->n, a->q ? a->q : DISPATCH_APPLY_AUTO, a, work);
	a->ret_seq = vrt_api("Ret", -1, a->id, 0, 0);
	/* C10: returns only after all n invocations have finished, each exactly once */
	for (int i = 0; i < a->n; i++) {
		int r = atomic_load(&a->runs[i]);
		if (r != 1) { oracle_fail(r == 0 ? "dispatch_apply returned but an index was never invoked" : "index invoked more than once", a->id, i, r); break; }
		if (a->end[i] == 0) { oracle_fail("dispatch_apply returned before an invocation finished", a->id, i, 0); break; }
	}
	vrt_progress();
}

static void ctx_item(void *c) { do_apply((ap_t *)c); }

static void bar_item(void *c)
{
	bar_t *b = c;
	b->s = vrt_api("BStart", -1, b->word, 0, 0);
	uint64_t r = vrt_rand();
	volatile int x = 0; int k = (int)(r % 1500); for (int i = 0; i < k; i++) x++;
	b->e = vrt_api("BEnd", -1, b->word, 0, 0);
}

static void *client(void *arg)
{
	long me = (long)arg;
	(void)vrt_tid();
	for (int e = 0; e < g_execs; e++) {
		pthread_barrier_wait(&g_bar);
		if (me < S.nclients) {
			for (int c = 0; c < S.calls; c++) {
				int n = S.nlist[me][c];
				ap_t *a = new_ap(n, S.q, S.qn, S.serial, S.topword, 1);
				if (!a) break;
				a->nest_left = S.nest[me][c]; a->nest_same = S.same_ok;
				switch (S.ctx[me]) {
				case CTX_ITEM: {
					/* from inside an item of a serial queue */
					dispatch_semaphore_t sm = dispatch_semaphore_create(0);
					dispatch_async_f(S.ctxq, a, ctx_item);
					dispatch_barrier_sync_f(S.ctxq, sm, (dispatch_function_t)dispatch_semaphore_signal);
					dispatch_semaphore_wait(sm, DISPATCH_TIME_FOREVER);
					dispatch_release(sm);
					break;
				}
				case CTX_SYNC: dispatch_sync_f(S.ctxq, a, ctx_item); break;
				default: do_apply(a); break;
				}
			}
		} else if (me == NCL && S.barrier_thread) {
			/* a writer on the custom concurrent queue: barrier items must exclude the apply's invocations */
			for (int i = 0; i < S.nbar; i++) {
				int k = atomic_fetch_add(&g_nbar_items, 1);
				if (k >= MAXBAR) break;
				bar_t *b = &g_bar_items[k];
				b->word = S.topword; b->s = b->e = 0;
				if (vrt_rand() & 1) dispatch_barrier_sync_f(S.q, b, bar_item);
				else dispatch_barrier_async_f(S.q, b, bar_item);
				usleep((unsigned)(vrt_rand() % 200));
				vrt_progress();
			}
		}
		pthread_barrier_wait(&g_bar);
	}
	return NULL;
}

/* ------------------------------- projection ------------------------------- */
static void pabs(FILE *f, const char *k, uint64_t s, int W)
{
	int64_t wb = (int64_t)((s & DISPATCH_QUEUE_WIDTH_MASK) >> DISPATCH_QUEUE_WIDTH_SHIFT);
	int used = (int)(wb - (int64_t)(DISPATCH_QUEUE_WIDTH_FULL - (unsigned)W));
	uint64_t ow = s & DISPATCH_QUEUE_DRAIN_OWNER_MASK;
	char owner[24] = "\"null\"";
	if (ow) {
		int n = vrt_nthreads(), found = -1;
		for (int i = 0; i < n; i++) if (((uint64_t)_dispatch_lock_value_from_tid((dispatch_tid)vrt_ktid(i)) & DISPATCH_QUEUE_DRAIN_OWNER_MASK) == ow) { found = i; break; }
		snprintf(owner, sizeof(owner), "\"%d\"", found);
	}
	int odd = !!(s & (DISPATCH_QUEUE_ENQUEUED_ON_MGR | DISPATCH_QUEUE_SYNC_TRANSFER)) ||
			((s & DISPATCH_QUEUE_ROLE_MASK) == DISPATCH_QUEUE_ROLE_BASE_WLH);
	fprintf(f, "\"%s\":{\"sc\":%d,\"side\":%s,\"inact\":%s,\"na\":%s,\"ib\":%s,\"pb\":%s,\"used\":%d,\"dirty\":%s,"
			"\"enq\":%s,\"ro\":%s,\"qos\":%d,\"owner\":%s}", k, (int)(s / DISPATCH_QUEUE_SUSPEND_INTERVAL),
			(s & DISPATCH_QUEUE_HAS_SIDE_SUSPEND_CNT) ? "true" : "false", _dq_state_is_inactive(s) ? "true" : "false",
			(s & DISPATCH_QUEUE_NEEDS_ACTIVATION) ? "true" : "false", _dq_state_is_in_barrier(s) ? "true" : "false",
			_dq_state_has_pending_barrier(s) ? "true" : "false", used, _dq_state_is_dirty(s) ? "true" : "false",
			_dq_state_is_enqueued_on_target(s) ? "true" : "false", _dq_state_received_override(s) ? "true" : "false",
			_dq_state_max_qos(s) ? 1 : 0, owner);
	if (odd) fprintf(f, ",\"odd_%s\":true", k);
}

/* live dispatch_apply_t records: address -> incarnation number (a record is recycled through the
 * continuation cache; it dies when da_thr_cnt reaches 0) */
#define MAXLIVE 256
static struct { uintptr_t base; int inc; } g_live[MAXLIVE];
static int g_nlive, g_ninc;
static int live_find(uintptr_t base)
{
	for (int i = 0; i < g_nlive; i++) if (g_live[i].base == base) return i;
	return -1;
}
static int live_get(uintptr_t base)
{
	int i = live_find(base);
	if (i >= 0) return g_live[i].inc;
	if (g_nlive < MAXLIVE) { g_live[g_nlive].base = base; g_live[g_nlive].inc = ++g_ninc; return g_live[g_nlive++].inc; }
	return ++g_ninc;
}
static void live_kill(uintptr_t base)
{
	int i = live_find(base);
	if (i >= 0) g_live[i] = g_live[--g_nlive];
}

static void proj(FILE *f, const vrt_rec_t *r)
{
	switch (r->kind) {
	case VRT_MARK:
		fprintf(f, "{\"e\":\"%s\",\"a\":%ld,\"b\":%ld,\"c\":%ld}\n", r->name, r->a, r->b, r->c);
		break;
	case VRT_API:
		if (!strcmp(r->name, "Call")) {
			char qn[24];
			if (r->c == 0) strcpy(qn, "auto"); else if (r->c < 0) strcpy(qn, "g"); else snprintf(qn, sizeof(qn), "q%ld", r->c);
			fprintf(f, "{\"e\":\"Call\",\"t\":%d,\"d\":%ld,\"n\":%ld,\"q\":\"%s\"}\n", r->tid, r->a, r->b, qn);
		} else if (!strcmp(r->name, "Ret")) fprintf(f, "{\"e\":\"Ret\",\"t\":%d,\"d\":%ld}\n", r->tid, r->a);
		else if (!strcmp(r->name, "Start") || !strcmp(r->name, "End"))
			fprintf(f, "{\"e\":\"%s\",\"t\":%d,\"d\":%ld,\"i\":%ld}\n", r->name, r->tid, r->a, r->b);
		else if (!strcmp(r->name, "Quiesce")) fprintf(f, "{\"e\":\"Quiesce\",\"t\":%d,\"q\":\"q%ld\"}\n", r->tid, r->a);
		else fprintf(f, "{\"e\":\"%s\",\"t\":%d,\"w\":%ld}\n", r->name, r->tid, r->a);
		break;
	case VRT_ATOMIC: {
		const char *op = r->site->dvs_op;
		if (r->cls == 1) {
			if (r->obj < 0) break;
			int W = g_wwidth[r->obj];
			if (r->size == 4) {
				fprintf(f, "{\"e\":\"St\",\"t\":%d,\"w\":%d,\"f\":\"%s\",\"op\":\"half\",\"ok\":%d}\n", r->tid, r->obj + 1, r->site->dvs_func, r->ok);
				break;
			}
			fprintf(f, "{\"e\":\"St\",\"t\":%d,\"w\":%d,\"f\":\"%s\",\"op\":\"%s\",\"mo\":\"%s\",\"ok\":%d,", r->tid, r->obj + 1,
					r->site->dvs_func, op, r->site->dvs_mo, r->ok);
			pabs(f, "old", r->oldv, W); fputc(',', f); pabs(f, "new", r->newv, W);
			fprintf(f, "}\n");
			break;
		}
		if (r->cls < VRT_CLASS_ANY) break;
		uintptr_t ad = (uintptr_t)r->addr, base;
		const char *e;
		switch (r->cls) {
		case 100: base = ad - offsetof(struct dispatch_apply_s, da_index); e = "Idx"; break;
		case 101: base = ad - offsetof(struct dispatch_apply_s, da_todo); e = "Todo"; break;
		case 102: base = ad - offsetof(struct dispatch_apply_s, da_thr_cnt); e = "Thr"; break;
		default: {
			base = ad - offsetof(struct dispatch_apply_s, da_event);
			if (live_find(base) < 0) return;   /* some other thread event (a sync waiter): not ours */
			e = !strcmp(op, "add") ? "EvInc" : !strcmp(op, "sub") ? "EvDec" : !strcmp(op, "load") ? "EvLoad" : "EvOther";
			fprintf(f, "{\"e\":\"%s\",\"t\":%d,\"a\":%d,\"old\":%d,\"new\":%d,\"mo\":\"%s\"}\n", e, r->tid, live_get(base),
					(int)(int32_t)(uint32_t)r->oldv, (int)(int32_t)(uint32_t)r->newv, r->site->dvs_mo);
			return;
		}
		}
		if (strcmp(op, "add") && strcmp(op, "sub")) e = "DaOther";
		long ov = r->size == 4 ? (long)(int32_t)(uint32_t)r->oldv : (long)r->oldv;
		long nv = r->size == 4 ? (long)(int32_t)(uint32_t)r->newv : (long)r->newv;
		/* keep the values inside TLC's 32-bit integers */
		if (ov > 1000000000L || ov < -1000000000L) ov = -999999999L;
		if (nv > 1000000000L || nv < -1000000000L) nv = -999999999L;
		fprintf(f, "{\"e\":\"%s\",\"t\":%d,\"a\":%d,\"old\":%ld,\"new\":%ld,\"mo\":\"%s\"}\n", e, r->tid, live_get(base), ov, nv,
				r->site->dvs_mo);
		if (r->cls == 102 && nv == 0) live_kill(base);
		break;
	}
	default: break;
	}
}

/* ------------------------------- oracles ------------------------------- */
static void check_execution(void)
{
	int n1 = atomic_load(&g_nap); if (n1 > MAXAP) n1 = MAXAP;
	int nb = atomic_load(&g_nbar_items); if (nb > MAXBAR) nb = MAXBAR;
	for (int k = g_exec_first_ap; k < n1; k++) {
		ap_t *a = &g_ap[k];
		if (!a->ret_seq) { oracle_fail("dispatch_apply never returned", a->id, 0, 0); continue; }
		if (atomic_load(&a->oob)) oracle_fail("an index outside 0..n-1 was invoked", a->id, atomic_load(&a->oob), a->n);
		for (int i = 0; i < a->n; i++) {
			int r = atomic_load(&a->runs[i]);
			if (r != 1) { oracle_fail("index not invoked exactly once", a->id, i, r); continue; }
			if (!(a->call_seq < a->start[i] && a->start[i] < a->end[i] && a->end[i] < a->ret_seq))
				oracle_fail("invocation not inside Call..Ret of its dispatch_apply", a->id, i, 0);
			/* serial queue (or one that targets a serial queue): sequential, in index order */
			if (a->serial && i + 1 < a->n && atomic_load(&a->runs[i + 1]) == 1 && !(a->end[i] < a->start[i + 1]))
				oracle_fail("serial queue: invocations not sequential in index order", a->id, i, i + 1);
			/* concurrent custom queue: a non-barrier item never overlaps a barrier item of that queue */
			if (a->topword) for (int b = 0; b < nb; b++) {
				bar_t *B = &g_bar_items[b];
				if (B->word == a->topword && B->s && B->e && a->start[i] < B->e && B->s < a->end[i])
					oracle_fail("invocation overlapped a barrier item of the same concurrent queue", a->id, i, b);
			}
		}
	}
	for (int k = g_exec_first_ap; k < n1; k++) { free(g_ap[k].runs); free(g_ap[k].start); free(g_ap[k].end); g_ap[k].runs = NULL; }
	g_exec_first_ap = n1;
}

static void nop(void *c) { (void)c; }

static dispatch_queue_t mkq(int width, dispatch_queue_t target, int *word)
{
	/* width: 1 serial, 0 natural concurrent, k narrowed concurrent */
	dispatch_queue_t q = dispatch_queue_create_with_target("verif.apply", width == 1 ? DISPATCH_QUEUE_SERIAL : DISPATCH_QUEUE_CONCURRENT, target);
	if (width > 1) { dispatch_queue_set_width(q, width); dispatch_barrier_sync_f(q, NULL, nop); }
	int o = vrt_register(q, malloc_usable_size(q), 1);
	if (o < 0 || o >= 4096) { fprintf(stderr, "too many queues\n"); exit(3); }
	g_wwidth[o] = upcast(q)._dl->dq_width;
	*word = o + 1;
	vrt_mark("Word", o + 1, g_wwidth[o], 0);
	return q;
}

static void setup_exec(void)
{
	uint64_t r = vrt_rand();
	memset(&S, 0, sizeof(S));
	S.qkind = (int)(r % QK_N); r >>= 5;
	static const long prios[] = { DISPATCH_QUEUE_PRIORITY_DEFAULT, DISPATCH_QUEUE_PRIORITY_HIGH, DISPATCH_QUEUE_PRIORITY_LOW, DISPATCH_QUEUE_PRIORITY_BACKGROUND };
	S.gq = dispatch_get_global_queue(prios[r % 4], 0); r >>= 2;
	int w1 = 0, w2 = 0;
	switch (S.qkind) {
	case QK_AUTO: S.q = NULL; S.qn = 0; break;
	case QK_GLOBAL: S.q = S.gq; S.qn = -1; break;
	case QK_SERIAL: S.q = mkq(1, NULL, &w1); S.serial = 1; break;
	case QK_CONC: S.q = mkq(0, NULL, &w1); break;
	case QK_NARROW: S.q = mkq(2 + (int)(r & 1), NULL, &w1); break;
	case QK_CHAIN_S: { dispatch_queue_t b = mkq(1, NULL, &w2); S.q = mkq((r & 1) ? 0 : 3, b, &w1); S.serial = 1; break; }
	case QK_CHAIN_C: { dispatch_queue_t b = mkq(2, NULL, &w2); S.q = mkq(3, b, &w1); break; }
	}
	r >>= 2;
	if (w1) { S.qn = ++g_nq; S.topword = S.serial ? 0 : w1; vrt_mark("Queue", S.qn, w1, w2); }
	S.nclients = 1 + (int)(r % NCL); r >>= 2;
	S.calls = 1 + (int)(r & 1); r >>= 1;
	int conc_custom = w1 && !S.serial;
	S.barrier_thread = conc_custom && (r & 1); r >>= 1;
	S.nbar = 2 + (int)(r % 6); r >>= 3;
	S.same_ok = conc_custom && !S.barrier_thread;
	S.ctxq = dispatch_queue_create("verif.apply.ctx", DISPATCH_QUEUE_SERIAL);
	int big = 0;
	for (int c = 0; c < NCL; c++) {
		uint64_t x = vrt_rand();
		S.ctx[c] = (int)(x % 4 == 0 ? CTX_ITEM : x % 4 == 1 ? CTX_SYNC : CTX_DIRECT); x >>= 2;
		for (int k = 0; k < 2; k++) {
			int n = NS[x % 8]; x >>= 3;
			if (n > g_maxn) n = g_maxn > 64 ? 64 : g_maxn;
			if (n >= 1000) { if (big) n = 17; big = 1; }   /* at most one large apply per execution */
			S.nlist[c][k] = n;
			S.nest[c][k] = (n <= 5 && (x & 3) == 0) ? 1 + (int)((x >> 2) & 1) : 0; x >>= 3;
		}
	}
}

int main(int argc, char **argv)
{
	const char *out = argc > 1 ? argv[1] : "/dev/null";
	g_seed = argc > 2 ? strtoull(argv[2], NULL, 0) : 1;
	int perturb = argc > 3 ? atoi(argv[3]) : 2;
	if (argc > 4) g_execs = atoi(argv[4]);
	if (argc > 5) g_maxn = atoi(argv[5]);
	vrt_init(out, g_seed, perturb);
	vrt_set_projector(proj);
	vrt_add_class("dq_state", 1);
	vrt_add_class("da_index", 100);
	vrt_add_class("da_todo", 101);
	vrt_add_class("da_thr_cnt", 102);
	vrt_add_class("dte_value", 103);
	vrt_set_hang_seconds(30);
	(void)vrt_tid();
	vrt_mark("Config", (long)_dispatch_qos_max_parallelism(DISPATCH_QOS_DEFAULT, DISPATCH_MAX_PARALLELISM_ACTIVE), 0, 0);
	pthread_barrier_init(&g_bar, NULL, NCL + 2);
	pthread_t th[NCL + 1], mon;
	pthread_create(&mon, NULL, monitor, NULL); pthread_detach(mon);
	for (long i = 0; i < NCL + 1; i++) pthread_create(&th[i], NULL, client, (void *)i);
	for (int e = 0; e < g_execs; e++) {
		setup_exec();
		vrt_mark("Reset", e, S.qkind, 0);
		pthread_barrier_wait(&g_bar);
		pthread_barrier_wait(&g_bar);
		/* flush: everything submitted to the custom queue (barrier items) finishes before this returns;
		 * a reservation that was not given back exactly would leave it waiting for ever (hang = exit 71) */
		if (S.q && S.qn > 0) {
			dispatch_barrier_sync_f(S.q, NULL, nop);
			uint64_t st = os_atomic_load2o(upcast(S.q)._dl, dq_state, relaxed);
			if (_dq_state_used_width(st, upcast(S.q)._dl->dq_width) != 0 || _dq_state_is_in_barrier(st))
				oracle_fail("custom queue not idle after every dispatch_apply returned (width not given back exactly)", -1,
						(long)_dq_state_used_width(st, upcast(S.q)._dl->dq_width), 0);
			vrt_api("Quiesce", -1, S.qn, 0, 0);
		}
		check_execution();
		dispatch_release(S.ctxq);
		vrt_progress();
	}
	for (int i = 0; i < NCL + 1; i++) pthread_join(th[i], NULL);
	usleep(20000);   /* let late helpers drop their reference */
	vrt_dump();
	fprintf(stderr, "records=%zu overflow=%d threads=%d applies=%d\n", vrt_count(), vrt_overflowed(), vrt_nthreads(), atomic_load(&g_nap));
	return atomic_load(&g_fail) ? 2 : 0;
}
