/* Driver for C12 (dispatch_time arithmetic).
 *
 * Calls the REAL dispatch_time / dispatch_walltime / _dispatch_timeout /
 * _dispatch_time_nanoseconds_since_epoch of the statically
 * linked library with `now` under control: this executable defines clock_gettime(), so the
 * library's _dispatch_uptime() (CLOCK_MONOTONIC), _dispatch_monotonic_time()
 * (CLOCK_BOOTTIME) and _dispatch_get_nanoseconds() (CLOCK_REALTIME) read the values the
 * driver chooses (checked by `selftest` and again before every mode).
 *
 * The oracle is a C transcription of spec/Time.tla (same operator names, parametric in
 * the word width W, arithmetic in __int128).  It is never trusted on its own:
 *   table    every row of the exhaustive W=8 table emitted by TLC (TimeEmit.tla) is
 *            recomputed with W=8 and compared field by field (exit 4 on any difference);
 *   vectors  64-bit vectors that carry the spec's expected result (landmark-lifted TLC
 *            rows, Apalache counterexamples) are replayed on the real code; the W=64
 *            oracle must agree with the expectation they carry (exit 4 otherwise);
 *   random   the spec's laws evaluated on seeded random 64-bit inputs biased to the
 *            encoding landmarks;
 *   semwait  end to end on the real primitive, real clocks: dispatch_semaphore_wait(sema, t)
 *            on a semaphore of value 0, t already past / 50 ms ahead on each of the three
 *            clocks, must time out, not early, and within SEMWAIT_BOUND_S seconds (the
 *            failing history of a wrong deadline conversion; on POSIX semaphores the deadline
 *            is _dispatch_time_nanoseconds_since_epoch(t)).
 * Output: one JSON object on stdout.  Exit 0 = no violation, 2 = violation(s),
 * 3 = harness broken (interposition ineffective, bad input), 4 = oracle != spec. */
#define _GNU_SOURCE
#include "internal.h"
/* DISPATCH_MONOTONICTIME_NOW: private/time_private.h (not pulled in by internal.h when the
 * library itself is being built) */
#define __DISPATCH_INDIRECT__
#include "time_private.h"
#undef __DISPATCH_INDIRECT__
#include <inttypes.h>
#include <sys/syscall.h>
#include <pthread.h>

typedef __int128 I;

/* ------------------------------------------------------------------ fake clocks */
static int g_fake;
static uint64_t g_now_up, g_now_mono, g_now_wall;
static unsigned long g_clock_calls;

int clock_gettime(clockid_t id, struct timespec *ts)
{
	if (!g_fake) return (int)syscall(SYS_clock_gettime, id, ts);
	uint64_t ns;
	g_clock_calls++;
	switch (id) {
	case CLOCK_MONOTONIC: case CLOCK_MONOTONIC_COARSE: case CLOCK_MONOTONIC_RAW: ns = g_now_up; break;
	case CLOCK_BOOTTIME: ns = g_now_mono; break;
	case CLOCK_REALTIME: case CLOCK_REALTIME_COARSE: ns = g_now_wall; break;
	default: return (int)syscall(SYS_clock_gettime, id, ts);
	}
	ts->tv_sec = (time_t)(ns / 1000000000ull);
	ts->tv_nsec = (long)(ns % 1000000000ull);
	return 0;
}

typedef struct { I up, mono, wall; } now_t;

static void set_now(const now_t *n)
{
	g_now_up = (uint64_t)n->up; g_now_mono = (uint64_t)n->mono; g_now_wall = (uint64_t)n->wall;
}

static uint64_t real_time(uint64_t base, int64_t delta, const now_t *n)
{
	set_now(n); g_fake = 1;
	uint64_t r = dispatch_time(base, delta);
	g_fake = 0; return r;
}
static uint64_t real_walltime(int has_ts, int64_t sec, int64_t nsec, int64_t delta, const now_t *n)
{
	struct timespec ts = { .tv_sec = (time_t)sec, .tv_nsec = (long)nsec };
	set_now(n); g_fake = 1;
	uint64_t r = dispatch_walltime(has_ts ? &ts : NULL, delta);
	g_fake = 0; return r;
}
static uint64_t real_timeout(uint64_t when, const now_t *n)
{
	set_now(n); g_fake = 1;
	uint64_t r = _dispatch_timeout(when);
	g_fake = 0; return r;
}

static uint64_t real_epoch(uint64_t when, const now_t *n)
{
	set_now(n); g_fake = 1;
	uint64_t r = _dispatch_time_nanoseconds_since_epoch(when);
	g_fake = 0; return r;
}

/* ------------------------------------------------- transcription of spec/Time.tla */
typedef struct { int W; I NPS, M, H, Q, MAXV, FOREVER, WALLNOW, MONONOW, SMIN, SMAX; } par_t;
enum { UP = 0, MONO = 1, WALL = 2 };
enum { EXACT = 0, FOREVER_K = 1, ELAPSED = 2 };
enum { FX_ENC = 1, FX_WUF = 2, FX_WTR = 4, FX_EPC = 8, FX_ALL = 15 };
static const char *CLASS_NAMES[] = { "", "dt_sum_eq_max", "dt_wall_sum_eq_1", "wt_int64_overflow",
	"wt_unsaturated", "wt_past_nonneg_delta", "epoch_mono" };
#define NCLASS 7

static par_t mkpar(int W, I nps)
{
	par_t p; p.W = W; p.NPS = nps;
	p.M = (I)1 << W; p.H = (I)1 << (W - 1); p.Q = (I)1 << (W - 2);
	p.MAXV = p.Q - 1; p.FOREVER = p.M - 1; p.WALLNOW = p.M - 2; p.MONONOW = p.H;
	p.SMIN = -p.H; p.SMAX = p.H - 1;
	return p;
}
static I U(const par_t *p, I x) { I r = x % p->M; return r < 0 ? r + p->M : r; }
static I S(const par_t *p, I x) { I u = U(p, x); return u >= p->H ? u - p->M : u; }
static int BitQ(const par_t *p, I t) { return t >= p->H ? (t - p->H >= p->Q) : (t >= p->Q); }

/* PART 1 -- the code */
typedef struct { int clock; I value; } dec_t;
static dec_t Decode(const par_t *p, I t, const now_t *now)
{
	dec_t d; I actual;
	if (S(p, t) < 0) {
		if (BitQ(p, t)) { d.clock = WALL; actual = (t == p->WALLNOW) ? now->wall : U(p, -t); }
		else { d.clock = MONO; actual = t - p->H; }
	} else { d.clock = UP; actual = t; }
	d.value = actual > p->MAXV ? p->FOREVER : actual;
	return d;
}
static I EncodeF(const par_t *p, int F, int clock, I value)
{
	if ((F & FX_ENC) ? value > p->MAXV : value >= p->MAXV) return p->FOREVER;
	if (clock == WALL) return U(p, -value);
	if (clock == UP) return value;
	return value + p->H;
}
static I DispatchTimeF(const par_t *p, int F, I inval, I delta, const now_t *now)
{
	if (inval == p->FOREVER) return p->FOREVER;
	dec_t d = Decode(p, inval, now);
	if (d.value == p->FOREVER) return p->FOREVER;
	if (d.clock == WALL) {
		I v1 = U(p, d.value + U(p, delta));
		if (delta >= 0) {
			if (S(p, v1) <= 0) return p->FOREVER;
			return EncodeF(p, F, WALL, v1);
		}
		if ((F & FX_WUF) ? S(p, v1) <= 1 : S(p, v1) < 1) return EncodeF(p, F, WALL, 2);
		return EncodeF(p, F, WALL, v1);
	}
	I value = d.value == 0 ? (d.clock == UP ? now->up : now->mono) : d.value;
	if (delta >= 0) {
		I v1 = U(p, value + U(p, delta));
		if (S(p, v1) <= 0) return p->FOREVER;
		return EncodeF(p, F, d.clock, v1);
	}
	I v1 = U(p, value - U(p, -delta));
	if (S(p, v1) < 1) return EncodeF(p, F, d.clock, 1);
	return EncodeF(p, F, d.clock, v1);
}
static I TimespecToNano(const par_t *p, I sec, I nsec) { return U(p, U(p, sec) * p->NPS + U(p, nsec)); }
static I CDiv(const par_t *p, I a) { return a >= 0 ? a / p->NPS : -((-a) / p->NPS); }
static I CRem(const par_t *p, I a) { return a - p->NPS * CDiv(p, a); }
static I DispatchWalltimeF(const par_t *p, int F, int hasTs, I sec, I nsec, I delta, const now_t *now)
{
	if (!(F & FX_WTR)) {
		I n0 = S(p, hasTs ? TimespecToNano(p, sec, nsec) : now->wall);
		I n1 = S(p, n0 + delta);
		if (n1 <= 1) return delta >= 0 ? p->FOREVER : p->WALLNOW;
		return U(p, -n1);
	}
	if (hasTs) {
		I adj = CDiv(p, nsec) + CDiv(p, delta);
		I raw = sec + adj;
		I secs = (raw > p->SMAX || raw < p->SMIN) ? (sec < 0 ? p->SMIN : p->SMAX) : raw;
		if (secs < -2) return p->WALLNOW;
		if (secs > p->MAXV / p->NPS + 2) return p->FOREVER;
		I n = secs * p->NPS + CRem(p, nsec) + CRem(p, delta);
		if (n <= 1) return p->WALLNOW;
		if (n > p->MAXV) return p->FOREVER;
		return U(p, -n);
	}
	I raw = now->wall + delta;
	if (raw > p->SMAX || raw < p->SMIN) return delta < 0 ? p->WALLNOW : p->FOREVER;
	if (raw <= 1) return p->WALLNOW;
	if (raw > p->MAXV) return p->FOREVER;
	return U(p, -raw);
}
static I TimeoutM(const par_t *p, I when, const now_t *now)
{
	if (when == p->FOREVER) return p->FOREVER;
	if (when == 0) return 0;
	dec_t d = Decode(p, when, now);
	I n = d.clock == WALL ? now->wall : d.clock == UP ? now->up : now->mono;
	return n >= d.value ? 0 : d.value - n;
}
static I NanosSinceEpochF(const par_t *p, int F, I when, const now_t *now)
{
	if (when == p->FOREVER) return p->FOREVER;
	if ((F & FX_EPC) ? (S(p, when) < 0 && BitQ(p, when)) : S(p, when) < 0) return U(p, -S(p, when));
	return U(p, now->wall + TimeoutM(p, when, now));
}

/* PART 2 -- the reference */
typedef struct { int kind, clock; I t; } ref_t;
static int RefClock(const par_t *p, I t) { return t < p->H ? UP : t < p->H + p->Q ? MONO : WALL; }
static int RefOutOfRange(const par_t *p, I t) { return (t < p->H && t > p->MAXV) || t == p->H + p->Q; }
static I NowOf(int c, const now_t *now) { return c == UP ? now->up : c == MONO ? now->mono : now->wall; }
static I RefAbs(const par_t *p, I t, const now_t *now)
{
	if (t < p->H) return t == 0 ? now->up : t;
	if (t < p->H + p->Q) return t == p->MONONOW ? now->mono : t - p->H;
	return t == p->WALLNOW ? now->wall : p->M - t;
}
static I MinRep(int c) { return c == WALL ? 3 : 1; }
static I RefEnc(const par_t *p, int c, I v) { return c == UP ? v : c == MONO ? p->H + v : p->M - v; }
static int RefElapsed(const par_t *p, I t, const now_t *now)
{
	return t != p->FOREVER && !RefOutOfRange(p, t) && RefAbs(p, t, now) <= NowOf(RefClock(p, t), now);
}
static ref_t RefShift(const par_t *p, int c, I v, I delta)
{
	I s = v + delta; ref_t r; r.clock = c;
	if (s > p->MAXV) { r.kind = FOREVER_K; r.t = p->FOREVER; }
	else if (s < MinRep(c)) { r.kind = ELAPSED; r.t = 0; }
	else { r.kind = EXACT; r.t = RefEnc(p, c, s); }
	return r;
}
static ref_t RefTime(const par_t *p, I base, I delta, const now_t *now)
{
	if (base == p->FOREVER || RefOutOfRange(p, base)) {
		ref_t r = { FOREVER_K, RefClock(p, base), p->FOREVER }; return r;
	}
	return RefShift(p, RefClock(p, base), RefAbs(p, base, now), delta);
}
static ref_t RefWalltime(const par_t *p, int hasTs, I sec, I nsec, I delta, const now_t *now)
{
	return RefShift(p, WALL, hasTs ? sec * p->NPS + nsec : now->wall, delta);
}
static int RefOK(const par_t *p, const ref_t *ref, I r, const now_t *now)
{
	if (ref->kind == ELAPSED) return RefClock(p, r) == ref->clock && RefElapsed(p, r, now);
	return r == ref->t;
}
static I RefWait(const par_t *p, I r, const now_t *now)
{
	if (r == p->FOREVER || RefOutOfRange(p, r)) return p->M;
	I a = RefAbs(p, r, now), n = NowOf(RefClock(p, r), now);
	return a <= n ? 0 : a - n;
}
static int RefDeadlineOK(const par_t *p, I t, I r, const now_t *now)
{
	if (t == p->FOREVER) return r == p->FOREVER;
	if (RefOutOfRange(p, t)) return 1;
	if (RefElapsed(p, t, now)) return r <= now->wall;
	return r - now->wall == RefWait(p, t, now);
}
static int ClassEpoch(const par_t *p, I t) { return (t >= p->H && t < p->H + p->Q) ? 6 : 0; }
static int ClassTime(const par_t *p, I base, I delta, const now_t *now)
{
	if (base == p->FOREVER || RefOutOfRange(p, base)) return 0;
	I s = RefAbs(p, base, now) + delta;
	if (s == p->MAXV) return 1;
	if (RefClock(p, base) == WALL && s == 1) return 2;
	return 0;
}
static int ClassWalltime(const par_t *p, int hasTs, I sec, I nsec, I delta, const now_t *now)
{
	I b = hasTs ? sec * p->NPS + nsec : now->wall, s = b + delta;
	if (b > p->SMAX || b < p->SMIN || s > p->SMAX || s < p->SMIN) return 3;
	if (s >= p->Q) return 4;
	if (s <= 1 && delta >= 0) return 5;
	return 0;
}

/* --------------------------------------------------------------------- reporting */
static void pr128(FILE *f, I v)
{
	char buf[64]; int i = 63, neg = v < 0; buf[i] = 0;
	unsigned __int128 u = neg ? -(unsigned __int128)v : (unsigned __int128)v;
	do { buf[--i] = (char)('0' + (int)(u % 10)); u /= 10; } while (u);
	if (neg) buf[--i] = '-';
	fputs(buf + i, f);
}

typedef struct {
	int fn;            /* 0 dispatch_time 1 dispatch_walltime(&ts) 2 dispatch_walltime(NULL) 3 _dispatch_timeout
	                    * 4 _dispatch_time_nanoseconds_since_epoch */
	uint64_t base; int64_t delta, sec, nsec; now_t now;
} vec_t;

#define MAXREC 40
typedef struct { vec_t v; uint64_t got; ref_t ref; int cls; char what[112]; uint64_t pinned; } rec_t;
static rec_t g_viol[MAXREC]; static unsigned long g_nviol;
#define NKS 8
static rec_t g_known[NCLASS][NKS]; static unsigned long g_nknown[NCLASS];
static rec_t g_drift[6]; static unsigned long g_ndrift;
static rec_t g_samples[8]; static int g_nsamples;
static unsigned long g_nvec, g_ncalls, g_kind[3], g_eq_pinned_only, g_eq_fixed_only, g_timeouts;
static unsigned long g_mono_pairs, g_fnc[5], g_epochs;

static void put_rec(FILE *f, const rec_t *r)
{
	static const char *FN[] = { "dispatch_time", "dispatch_walltime", "dispatch_walltime_null", "_dispatch_timeout",
		"_dispatch_time_nanoseconds_since_epoch" };
	static const char *KN[] = { "exact", "forever", "elapsed" };
	static const char *CN[] = { "uptime", "monotonic", "wall" };
	fprintf(f, "{\"fn\":\"%s\",\"base\":\"0x%016" PRIx64 "\",\"delta\":%" PRId64 ",\"tv_sec\":%" PRId64
		",\"tv_nsec\":%" PRId64 ",\"now\":[%" PRIu64 ",%" PRIu64 ",%" PRIu64 "],\"got\":\"0x%016" PRIx64 "\","
		"\"expected\":\"%s", FN[r->v.fn], r->v.base, r->v.delta, r->v.sec, r->v.nsec,
		(uint64_t)r->v.now.up, (uint64_t)r->v.now.mono, (uint64_t)r->v.now.wall, r->got, KN[r->ref.kind]);
	if (r->v.fn == 3) fprintf(f, "\",\"what\":\"%s\"", r->what);
	else {
		if (r->ref.kind == ELAPSED) fprintf(f, " on %s", CN[r->ref.clock]);
		else fprintf(f, " 0x%016" PRIx64, (uint64_t)r->ref.t);
		fprintf(f, "\",\"class\":\"%s\",\"pinned_model\":\"0x%016" PRIx64 "\",\"what\":\"%s\"",
			CLASS_NAMES[r->cls], r->pinned, r->what);
	}
	/* replayable form: fn base delta sec nsec up mono wall */
	fprintf(f, ",\"vec\":\"%d %" PRIu64 " %" PRId64 " %" PRId64 " %" PRId64 " %" PRIu64 " %" PRIu64 " %" PRIu64 "\"}",
		r->v.fn, r->v.base, r->v.delta, r->v.sec, r->v.nsec,
		(uint64_t)r->v.now.up, (uint64_t)r->v.now.mono, (uint64_t)r->v.now.wall);
}

static void violation(const vec_t *v, uint64_t got, const ref_t *ref, int cls, uint64_t pinned, const char *what)
{
	if (g_nviol < MAXREC) {
		rec_t *r = &g_viol[g_nviol]; r->v = *v; r->got = got; r->ref = *ref; r->cls = cls; r->pinned = pinned;
		snprintf(r->what, sizeof r->what, "%s", what);
	}
	g_nviol++;
}

static par_t P64;
enum { ST_OK = 0, ST_KNOWN = 1, ST_VIOL = 2 };

/* One call of the real function judged against the reference.  *out = returned value. */
static int judge_call(const vec_t *v, uint64_t *out, ref_t *refout)
{
	const par_t *p = &P64;
	I base = (I)v->base; uint64_t r; ref_t ref; int cls; I pinned, fixed;
	g_ncalls++; g_fnc[v->fn]++;
	if (v->fn == 0) {
		r = real_time(v->base, v->delta, &v->now);
		ref = RefTime(p, base, v->delta, &v->now);
		cls = ClassTime(p, base, v->delta, &v->now);
		pinned = DispatchTimeF(p, 0, base, v->delta, &v->now);
		fixed = DispatchTimeF(p, FX_ALL, base, v->delta, &v->now);
	} else {
		int h = v->fn == 1;
		r = real_walltime(h, v->sec, v->nsec, v->delta, &v->now);
		ref = RefWalltime(p, h, v->sec, v->nsec, v->delta, &v->now);
		cls = ClassWalltime(p, h, v->sec, v->nsec, v->delta, &v->now);
		pinned = DispatchWalltimeF(p, 0, h, v->sec, v->nsec, v->delta, &v->now);
		fixed = DispatchWalltimeF(p, FX_ALL, h, v->sec, v->nsec, v->delta, &v->now);
	}
	*out = r; if (refout) *refout = ref;
	g_kind[ref.kind]++;
	if ((I)r == pinned && (I)r != fixed) g_eq_pinned_only++;
	if ((I)r == fixed && (I)r != pinned) g_eq_fixed_only++;
	if (!RefOK(p, &ref, (I)r, &v->now)) {
		if (cls && (I)r == pinned) {
			/* exactly the known deviation: named input class AND the value the
			 * transcription of the pinned code predicts */
			if (g_nknown[cls] < NKS) {
				rec_t *k = &g_known[cls][g_nknown[cls]];
				k->v = *v; k->got = r; k->ref = ref; k->cls = cls; k->pinned = (uint64_t)pinned;
				snprintf(k->what, sizeof k->what, "known deviation");
			}
			g_nknown[cls]++;
			return ST_KNOWN;
		}
		violation(v, r, &ref, cls, (uint64_t)pinned,
			ref.kind == EXACT ? "result is not base+delta" :
			ref.kind == FOREVER_K ? "result is not DISPATCH_TIME_FOREVER" :
			"result is not an elapsed time on the base's clock");
		return ST_VIOL;
	}
	if ((I)r != pinned && (I)r != fixed) {
		if (g_ndrift < 6) { rec_t *k = &g_drift[g_ndrift]; k->v = *v; k->got = r; k->ref = ref; k->cls = cls;
			k->pinned = (uint64_t)pinned; snprintf(k->what, sizeof k->what, "meets the reference, differs from both transcriptions"); }
		g_ndrift++;
	}
	if (ref.kind == ELAPSED && r != ~0ull) {
		/* (L4') the underflow result must not block */
		uint64_t tm = real_timeout(r, &v->now); g_timeouts++;
		if (tm != 0) { violation(v, r, &ref, cls, (uint64_t)pinned, "underflow result still blocks (_dispatch_timeout != 0)"); return ST_VIOL; }
	}
	if (g_nsamples < 8 && (g_ncalls % 977) == 1) {
		rec_t *k = &g_samples[g_nsamples++]; k->v = *v; k->got = r; k->ref = ref; k->cls = cls; k->pinned = (uint64_t)pinned;
		snprintf(k->what, sizeof k->what, "ok");
	}
	return ST_OK;
}

static void judge_timeout(const vec_t *v)
{
	const par_t *p = &P64; I base = (I)v->base;
	uint64_t tm = real_timeout(v->base, &v->now);
	g_ncalls++; g_timeouts++; g_fnc[3]++;
	ref_t ref = { RefElapsed(p, base, &v->now) ? ELAPSED : EXACT, RefClock(p, base), RefWait(p, base, &v->now) };
	if (ref.kind == ELAPSED && tm != 0) { violation(v, tm, &ref, 0, 0, "a time that is already past has a non-zero timeout"); return; }
	if ((I)tm != TimeoutM(p, base, &v->now)) {
		if (g_ndrift < 6) { rec_t *k = &g_drift[g_ndrift]; k->v = *v; k->got = tm; k->ref = ref; k->cls = 0; k->pinned = (uint64_t)TimeoutM(p, base, &v->now);
			snprintf(k->what, sizeof k->what, "_dispatch_timeout differs from its transcription"); }
		g_ndrift++;
	}
}

/* (L4'') the absolute wall-clock deadline of a wait until `base` (RefDeadlineOK of Time.tla).
 * ref.t carries the expected deadline: now.wall + reference wait (EXACT), ~0 (FOREVER). */
static void judge_epoch(const vec_t *v)
{
	const par_t *p = &P64; I base = (I)v->base;
	uint64_t r = real_epoch(v->base, &v->now);
	g_ncalls++; g_epochs++; g_fnc[4]++;
	I pinned = NanosSinceEpochF(p, 0, base, &v->now), fixed = NanosSinceEpochF(p, FX_ALL, base, &v->now);
	int cls = ClassEpoch(p, base);
	ref_t ref = { EXACT, RefClock(p, base), 0 };
	if (base == p->FOREVER || RefOutOfRange(p, base)) { ref.kind = FOREVER_K; ref.t = p->FOREVER; }
	else if (RefElapsed(p, base, &v->now)) ref.kind = ELAPSED;
	else ref.t = v->now.wall + RefWait(p, base, &v->now);
	if ((I)r == pinned && (I)r != fixed) g_eq_pinned_only++;
	if ((I)r == fixed && (I)r != pinned) g_eq_fixed_only++;
	if (!RefDeadlineOK(p, base, (I)r, &v->now)) {
		if (cls && (I)r == pinned) {
			if (g_nknown[cls] < NKS) {
				rec_t *k = &g_known[cls][g_nknown[cls]];
				k->v = *v; k->got = r; k->ref = ref; k->cls = cls; k->pinned = (uint64_t)pinned;
				snprintf(k->what, sizeof k->what, "known deviation");
			}
			g_nknown[cls]++;
			return;
		}
		violation(v, r, &ref, cls, (uint64_t)pinned,
			ref.kind == ELAPSED ? "a time already past on its own clock gets a deadline after the wall clock's now" :
			ref.kind == FOREVER_K ? "the deadline of DISPATCH_TIME_FOREVER is not DISPATCH_TIME_FOREVER" :
			"deadline - now.wall is not the time remaining on the time's own clock");
		return;
	}
	if ((I)r != pinned && (I)r != fixed) {
		if (g_ndrift < 6) { rec_t *k = &g_drift[g_ndrift]; k->v = *v; k->got = r; k->ref = ref; k->cls = cls; k->pinned = (uint64_t)pinned;
			snprintf(k->what, sizeof k->what, "meets the reference, differs from both transcriptions"); }
		g_ndrift++;
	}
	if (g_nsamples < 8 && (g_epochs % 97) == 1) {
		rec_t *k = &g_samples[g_nsamples++]; k->v = *v; k->got = r; k->ref = ref; k->cls = cls; k->pinned = (uint64_t)pinned;
		snprintf(k->what, sizeof k->what, "ok");
	}
}

/* (L2) a larger delta never yields an earlier time, never another clock */
static void judge_pair(const vec_t *a, int64_t delta2)
{
	const par_t *p = &P64; uint64_t r1, r2; ref_t ref1, ref2;
	vec_t b = *a; b.delta = delta2;
	int s1 = judge_call(a, &r1, &ref1), s2 = judge_call(&b, &r2, &ref2);
	g_nvec += 2;
	if (s1 != ST_OK || s2 != ST_OK) return;      /* reported (or known) already */
	g_mono_pairs++;
	I w1 = RefWait(p, (I)r1, &a->now), w2 = RefWait(p, (I)r2, &a->now);
	if (w1 > w2) violation(&b, r2, &ref2, 0, r1, "larger delta, earlier time (pinned_model = result for the smaller delta)");
	else if (r1 != ~0ull && r2 != ~0ull && RefClock(p, (I)r1) != RefClock(p, (I)r2))
		violation(&b, r2, &ref2, 0, r1, "the two results are on different clocks");
}

static void judge_vec(const vec_t *v)
{
	if (v->fn == 3) { g_nvec++; judge_timeout(v); return; }
	if (v->fn == 4) { g_nvec++; judge_epoch(v); return; }
	if (v->delta < INT64_MAX) judge_pair(v, v->delta + 1);
	else { uint64_t r; g_nvec++; judge_call(v, &r, NULL); }
}

/* --------------------------------------------------------------------- selftest */
static int selftest(void)
{
	now_t n = { 1111111111111ull, 2222222222222ull, 1790000000123456789ull };
	unsigned long c0 = g_clock_calls;
	uint64_t a = real_time(DISPATCH_TIME_NOW, 5, &n);
	uint64_t b = real_time(1ull << 63, 5, &n);
	uint64_t c = real_time(DISPATCH_WALLTIME_NOW, 5, &n);
	uint64_t d = real_walltime(0, 0, 0, 7, &n);
	uint64_t e = real_timeout(1111111111111ull + 40, &n);
	/* _dispatch_time_nanoseconds_since_epoch: only that it reads the interposed clocks is required
	 * here (its value is judged against the spec, never by the selftest) */
	unsigned long c1 = g_clock_calls;
	uint64_t f = real_epoch(1111111111111ull + 40, &n);
	if (g_clock_calls == c1 && f != 1790000000123456789ull + 40) {
		fprintf(stderr, "drv_time: _dispatch_time_nanoseconds_since_epoch does not read the interposed clocks: %" PRIu64 "\n", f);
		return 3;
	}
	if (a != 1111111111116ull || b != ((1ull << 63) | 2222222222227ull) || c != (uint64_t)-1790000000123456794ll ||
		d != (uint64_t)-1790000000123456796ll || e != 40 || g_clock_calls - c0 < 5) {
		fprintf(stderr, "drv_time: clock_gettime interposition is not effective: %" PRIu64 " %" PRIx64 " %" PRIx64 " %" PRIx64
			" %" PRIu64 " calls=%lu\n", a, b, c, d, e, g_clock_calls - c0);
		return 3;
	}
	return 0;
}

/* ----------------------------------------------------------------- table (W = 8) */
static int next_int(char **s, I *out)
{
	char *c = *s; int neg = 0; I v = 0;
	while (*c && !(*c == '-' || (*c >= '0' && *c <= '9'))) c++;
	if (!*c) return 0;
	if (*c == '-') { neg = 1; c++; }
	if (!(*c >= '0' && *c <= '9')) return 0;
	while (*c >= '0' && *c <= '9') { v = v * 10 + (*c - '0'); c++; }
	*out = neg ? -v : v; *s = c; return 1;
}

static int mode_table(int W, long nps, int nfiles, char **files)
{
	par_t p = mkpar(W, nps); unsigned long rows = 0, bad = 0; char line[512];
	for (int k = 0; k < nfiles; k++) {
		FILE *f = fopen(files[k], "r");
		if (!f) { fprintf(stderr, "drv_time: cannot open %s\n", files[k]); return 3; }
		while (fgets(line, sizeof line, f)) {
			I x[15]; char *s = line; int n = 0;
			while (n < 15 && next_int(&s, &x[n])) n++;
			if (n == 0) continue;
			if (n != 15) { fprintf(stderr, "drv_time: malformed row: %s", line); fclose(f); return 3; }
			int fn = (int)x[0]; now_t now = { x[5], x[6], x[7] };
			I kind, clock, t, cls, pinned, fixed, dev = 0;
			if (fn == 0) {
				ref_t r = RefTime(&p, x[1], x[2], &now);
				kind = r.kind; clock = r.clock; t = r.t; cls = ClassTime(&p, x[1], x[2], &now);
				pinned = DispatchTimeF(&p, 0, x[1], x[2], &now); fixed = DispatchTimeF(&p, FX_ALL, x[1], x[2], &now);
				dev = !RefOK(&p, &r, pinned, &now);
			} else if (fn == 1 || fn == 2) {
				ref_t r = RefWalltime(&p, fn == 1, x[3], x[4], x[2], &now);
				kind = r.kind; clock = r.clock; t = r.t; cls = ClassWalltime(&p, fn == 1, x[3], x[4], x[2], &now);
				pinned = DispatchWalltimeF(&p, 0, fn == 1, x[3], x[4], x[2], &now);
				fixed = DispatchWalltimeF(&p, FX_ALL, fn == 1, x[3], x[4], x[2], &now);
				dev = !RefOK(&p, &r, pinned, &now);
			} else if (fn == 3) {
				kind = RefElapsed(&p, x[1], &now); clock = RefClock(&p, x[1]); t = RefWait(&p, x[1], &now); cls = 0;
				pinned = fixed = TimeoutM(&p, x[1], &now);
			} else {
				kind = RefElapsed(&p, x[1], &now); clock = RefClock(&p, x[1]); t = RefWait(&p, x[1], &now);
				cls = ClassEpoch(&p, x[1]);
				pinned = NanosSinceEpochF(&p, 0, x[1], &now); fixed = NanosSinceEpochF(&p, FX_ALL, x[1], &now);
				dev = !RefDeadlineOK(&p, x[1], pinned, &now);
			}
			rows++;
			if (kind != x[8] || clock != x[9] || t != x[10] || cls != x[11] || pinned != x[12] || fixed != x[13] || dev != x[14]) {
				if (bad++ < 5) {
					fprintf(stderr, "drv_time: oracle != spec on row %s  oracle: kind=%d clock=%d t=", line, (int)kind, (int)clock);
					pr128(stderr, t); fprintf(stderr, " class=%d pinned=", (int)cls); pr128(stderr, pinned);
					fprintf(stderr, " fixed="); pr128(stderr, fixed); fprintf(stderr, "\n");
				}
			}
		}
		fclose(f);
	}
	printf("{\"mode\":\"table\",\"W\":%d,\"rows_checked\":%lu,\"mismatches\":%lu}\n", W, rows, bad);
	return bad ? 4 : 0;
}

/* ---------------------------------------------------------------- vectors (W = 64) */
/* line: fn base delta sec nsec up mono wall [kind clock t class]   (decimal) */
static void print_summary(const char *mode, unsigned long extra_ok);

static int mode_vectors(const char *path)
{
	FILE *f = fopen(path, "r"); char line[512]; unsigned long carried = 0, disagree = 0;
	if (!f) { fprintf(stderr, "drv_time: cannot open %s\n", path); return 3; }
	while (fgets(line, sizeof line, f)) {
		I x[12]; char *s = line; int n = 0;
		if (line[0] == '#') continue;
		while (n < 12 && next_int(&s, &x[n])) n++;
		if (n == 0) continue;
		if (n != 8 && n != 12) { fprintf(stderr, "drv_time: malformed vector: %s", line); fclose(f); return 3; }
		vec_t v = { (int)x[0], (uint64_t)x[1], (int64_t)x[2], (int64_t)x[3], (int64_t)x[4], { x[5], x[6], x[7] } };
		if (n == 12) {
			/* the expectation the vector carries (from TLC / Apalache) must be what the
			 * W=64 oracle computes: two independent routes from the spec to the value */
			I kind, clock, t, cls;
			if (v.fn == 3 || v.fn == 4) { kind = RefElapsed(&P64, x[1], &v.now); clock = RefClock(&P64, x[1]); t = RefWait(&P64, x[1], &v.now);
				cls = v.fn == 4 ? ClassEpoch(&P64, x[1]) : 0; }
			else {
				ref_t r = v.fn == 0 ? RefTime(&P64, x[1], x[2], &v.now) : RefWalltime(&P64, v.fn == 1, x[3], x[4], x[2], &v.now);
				kind = r.kind; clock = r.clock; t = r.t;
				cls = v.fn == 0 ? ClassTime(&P64, x[1], x[2], &v.now) : ClassWalltime(&P64, v.fn == 1, x[3], x[4], x[2], &v.now);
			}
			carried++;
			if (kind != x[8] || clock != x[9] || (kind != ELAPSED && t != x[10]) || cls != x[11]) {
				if (disagree++ < 5) fprintf(stderr, "drv_time: W=64 oracle disagrees with the carried expectation: %s", line);
				continue;
			}
		}
		judge_vec(&v);
	}
	fclose(f);
	print_summary("vectors", carried);
	if (disagree) { fprintf(stderr, "drv_time: %lu carried expectations disagree\n", disagree); return 4; }
	return g_nviol ? 2 : 0;
}

/* ------------------------------------------------------------------------ random */
static uint64_t g_rng;
static uint64_t rnd(void)
{
	uint64_t z = (g_rng += 0x9e3779b97f4a7c15ull);
	z = (z ^ (z >> 30)) * 0xbf58476d1ce4e5b9ull; z = (z ^ (z >> 27)) * 0x94d049bb133111ebull;
	return z ^ (z >> 31);
}
static uint64_t rnd_below(uint64_t n) { return n ? rnd() % n : 0; }
static int64_t small_off(void) { return (int64_t)rnd_below(41) - 20; }
static uint64_t magnitude(void)
{
	/* a random number of random bit length: covers ns ... centuries evenly on a log scale */
	unsigned bits = (unsigned)rnd_below(63) + 1;
	return rnd() >> (64 - bits);
}
#define Q64 (1ull << 62)
#define H64 (1ull << 63)

static uint64_t gen_word(void)
{
	switch (rnd_below(20)) {
	case 0: return 0; case 1: return ~0ull; case 2: return ~1ull; case 3: return H64;
	case 4: case 5: case 6: case 7: case 8: case 9: case 10:
		return (uint64_t)rnd_below(4) * Q64 + (uint64_t)small_off();           /* encoding landmarks +- k */
	case 11: return rnd();
	case 12: return magnitude() & (Q64 - 1);                                   /* uptime */
	case 13: return H64 | (magnitude() & (Q64 - 1));                           /* monotonic */
	case 14: case 15: return (uint64_t)-(int64_t)(magnitude() & (Q64 - 1));   /* wall */
	case 16: return (uint64_t)-(int64_t)(1700000000000000000ull + rnd_below(200000000000000000ull));
	case 17: return rnd() & (H64 - 1);                                         /* incl. out of range */
	default: return (uint64_t)rnd_below(4) * Q64 + (uint64_t)((int64_t)rnd_below(7) - 3);
	}
}
static uint64_t gen_now1(uint64_t lo)
{
	uint64_t v;
	switch (rnd_below(8)) {
	case 0: v = lo + rnd_below(4); break;
	case 1: v = (Q64 - 1) - rnd_below(20); break;
	case 2: v = 1790000000000000000ull + rnd_below(1000000000000000ull); break;
	case 3: v = rnd_below(100000000000000ull) + lo; break;
	case 4: v = Q64 / 2 + (uint64_t)small_off(); break;
	default: v = magnitude() & (Q64 - 1); break;
	}
	if (v < lo) v = lo; if (v > Q64 - 1) v = Q64 - 1;
	return v;
}
static void gen_now(now_t *n) { n->up = gen_now1(1); n->mono = gen_now1(1); n->wall = gen_now1(3); }

static int64_t clamp64(I x) { return x > INT64_MAX ? INT64_MAX : x < INT64_MIN ? INT64_MIN : (int64_t)x; }

/* delta aimed at a boundary of the sum, given the value the base denotes */
static int64_t gen_delta(I absval)
{
	static const int tk[] = { 0, 1, 2, 3 };
	switch (rnd_below(16)) {
	case 0: return 0; case 1: return small_off();
	case 2: return INT64_MAX - (int64_t)rnd_below(20); case 3: return INT64_MIN + (int64_t)rnd_below(20);
	case 4: return (int64_t)((rnd_below(2) ? Q64 : 0) + (uint64_t)small_off()) * (rnd_below(2) ? 1 : -1);
	case 5: return (int64_t)rnd();
	case 6: return (int64_t)magnitude(); case 7: return -(int64_t)magnitude();
	case 8: case 9: case 10: /* sum near the top of the representable range */
		return clamp64((I)(Q64 - 1) + small_off() - absval);
	case 11: case 12: case 13: /* sum near the bottom */
		return clamp64((I)tk[rnd_below(4)] + (int64_t)rnd_below(5) - 2 - absval);
	case 14: return clamp64((I)H64 + small_off() - absval);      /* sum near 2^63 */
	default: return clamp64((I)(rnd_below(2) ? INT64_MAX : INT64_MIN) - absval + small_off());
	}
}

static void mode_random(uint64_t seed, unsigned long n)
{
	const par_t *p = &P64; g_rng = seed * 0x2545f4914f6cdd1dull + 0x1234567;
	for (unsigned long i = 0; i < n; i++) {
		vec_t v; memset(&v, 0, sizeof v); gen_now(&v.now);
		unsigned k = (unsigned)rnd_below(22);
		if (k < 9) {                                   /* dispatch_time */
			v.fn = 0; v.base = gen_word();
			I a = ((I)v.base == p->FOREVER || RefOutOfRange(p, v.base)) ? 0 : RefAbs(p, v.base, &v.now);
			v.delta = gen_delta(a);
		} else if (k < 16) {                           /* dispatch_walltime(&ts) */
			v.fn = 1;
			switch (rnd_below(10)) {
			case 0: v.sec = 0; break; case 1: v.sec = small_off(); break;
			case 2: v.sec = (int64_t)(Q64 / 1000000000ull) + small_off(); break;
			case 3: v.sec = (int64_t)(H64 / 1000000000ull) + small_off(); break;
			case 4: v.sec = (int64_t)(18446744073ull) + small_off(); break;
			case 5: v.sec = (int64_t)rnd(); break;
			case 6: v.sec = rnd_below(2) ? INT64_MAX - (int64_t)rnd_below(5) : INT64_MIN + (int64_t)rnd_below(5); break;
			case 7: v.sec = -(int64_t)(magnitude() >> 30); break;
			default: v.sec = (int64_t)(magnitude() >> 30); break;
			}
			switch (rnd_below(12)) {
			case 0: v.nsec = -1 - (int64_t)rnd_below(3); break;
			case 1: v.nsec = 1000000000 + (int64_t)rnd_below(3); break;
			case 2: v.nsec = (int64_t)rnd(); break;
			case 3: v.nsec = (int64_t)((uint64_t)rnd_below(3) * Q64) + small_off(); break;
			case 4: v.nsec = 0; break; case 5: v.nsec = 999999999; break;
			default: v.nsec = (int64_t)rnd_below(1000000000); break;
			}
			v.delta = gen_delta((I)v.sec * 1000000000 + v.nsec);
			if (rnd_below(6) == 0) v.delta = gen_delta(0);
		} else if (k < 18) {                           /* dispatch_walltime(NULL) */
			v.fn = 2; v.delta = gen_delta(v.now.wall);
		} else {                                       /* _dispatch_timeout / ..._since_epoch */
			v.fn = k < 20 ? 3 : 4; v.base = gen_word();
			if (rnd_below(3) == 0) {                     /* around now on a random clock */
				int c = (int)rnd_below(3); I a = NowOf(c, &v.now) + small_off();
				if (a >= MinRep(c) && a <= p->MAXV) v.base = (uint64_t)RefEnc(p, c, a);
			}
		}
		judge_vec(&v);
	}
}

static void print_summary(const char *mode, unsigned long carried)
{
	printf("{\"mode\":\"%s\",\"vectors\":%lu,\"calls\":%lu,\"carried_expectations\":%lu,\"timeout_calls\":%lu,\"monotone_pairs\":%lu,"
		"\"by_fn\":[%lu,%lu,%lu,%lu,%lu],\"by_kind\":{\"exact\":%lu,\"forever\":%lu,\"elapsed\":%lu},"
		"\"eq_pinned_only\":%lu,\"eq_fixed_only\":%lu,\"clock_gettime_calls\":%lu,\"nviol\":%lu,\"ndrift\":%lu,\"known\":{",
		mode, g_nvec, g_ncalls, carried, g_timeouts, g_mono_pairs, g_fnc[0], g_fnc[1], g_fnc[2], g_fnc[3], g_fnc[4],
		g_kind[0], g_kind[1], g_kind[2], g_eq_pinned_only, g_eq_fixed_only, g_clock_calls, g_nviol, g_ndrift);
	int first = 1;
	for (int c = 1; c < NCLASS; c++) {
		if (!g_nknown[c]) continue;
		printf("%s\"%s\":{\"count\":%lu,\"samples\":[", first ? "" : ",", CLASS_NAMES[c], g_nknown[c]); first = 0;
		for (unsigned long i = 0; i < g_nknown[c] && i < NKS; i++) { if (i) printf(","); put_rec(stdout, &g_known[c][i]); }
		printf("]}");
	}
	printf("},\"violations\":[");
	for (unsigned long i = 0; i < g_nviol && i < MAXREC; i++) { if (i) printf(","); put_rec(stdout, &g_viol[i]); }
	printf("],\"drift\":[");
	for (unsigned long i = 0; i < g_ndrift && i < 6; i++) { if (i) printf(","); put_rec(stdout, &g_drift[i]); }
	printf("],\"samples\":[");
	for (int i = 0; i < g_nsamples; i++) { if (i) printf(","); put_rec(stdout, &g_samples[i]); }
	printf("]}\n");
}

/* ----------------------------------------------------------------------- semwait */
/* End to end, real clocks (g_fake = 0): dispatch_semaphore_wait(sema, t) on a semaphore that is
 * never signalled.  Each case runs in its own thread on its own semaphore, all concurrently;
 * the main thread gives them SEMWAIT_BOUND_S seconds.  Requirements (the law RefDeadlineOK of
 * Time.tla seen through the primitive):
 *   - the wait returns (within the bound) -- "still blocked" is the violation of "waiting until
 *     a time that is already past does not block" (and of the 50 ms timeout);
 *   - it returns non-zero (timed out; nobody signals);
 *   - when it returns, t has elapsed on its OWN clock (RefElapsed with the clocks read after the
 *     return; SEMWAIT_SLACK_NS tolerated: the deadline is handed to sem_timedwait on
 *     CLOCK_REALTIME, which may be slewed against the other clocks).
 * For a case that is still blocked the driver also says whether the transcription of the PINNED
 * conversion (NanosSinceEpochF without epoch_clock) predicts it: input class epoch_mono and a
 * predicted deadline later than the bound. */
#define SEMWAIT_BOUND_S 5
#define SEMWAIT_SLACK_NS 10000000ll
#define SEMWAIT_AHEAD_NS 50000000ll

typedef struct {
	const char *name, *expr; int clock; int64_t delta;
	dispatch_time_t t; now_t before, after; intptr_t ret;
	dispatch_semaphore_t sema; pthread_t th;
	volatile int done;
} swcase_t;

static void read_now(now_t *n)
{
	struct timespec ts;
	syscall(SYS_clock_gettime, CLOCK_MONOTONIC, &ts); n->up = (I)ts.tv_sec * 1000000000 + ts.tv_nsec;
	syscall(SYS_clock_gettime, CLOCK_BOOTTIME, &ts); n->mono = (I)ts.tv_sec * 1000000000 + ts.tv_nsec;
	syscall(SYS_clock_gettime, CLOCK_REALTIME, &ts); n->wall = (I)ts.tv_sec * 1000000000 + ts.tv_nsec;
}

static void *semwait_thread(void *arg)
{
	swcase_t *c = arg;
	c->ret = dispatch_semaphore_wait(c->sema, c->t);
	read_now(&c->after);
	__atomic_store_n(&c->done, 1, __ATOMIC_RELEASE);
	return NULL;
}

static int mode_semwait(void)
{
	static swcase_t cs[] = {
		{ "uptime_past", "dispatch_time(DISPATCH_TIME_NOW, -1s)", UP, -1000000000ll },
		{ "uptime_50ms", "dispatch_time(DISPATCH_TIME_NOW, 50ms)", UP, SEMWAIT_AHEAD_NS },
		{ "wall_past", "dispatch_walltime(NULL, -1s)", WALL, -1000000000ll },
		{ "wall_50ms", "dispatch_walltime(NULL, 50ms)", WALL, SEMWAIT_AHEAD_NS },
		{ "wallnow_past", "dispatch_time(DISPATCH_WALLTIME_NOW, -1s)", WALL, -1000000000ll },
		{ "wallnow_50ms", "dispatch_time(DISPATCH_WALLTIME_NOW, 50ms)", WALL, SEMWAIT_AHEAD_NS },
		{ "monotonic_past", "dispatch_time(DISPATCH_MONOTONICTIME_NOW, -1s)", MONO, -1000000000ll },
		{ "monotonic_50ms", "dispatch_time(DISPATCH_MONOTONICTIME_NOW, 50ms)", MONO, SEMWAIT_AHEAD_NS },
	};
	const int n = (int)(sizeof cs / sizeof cs[0]); const par_t *p = &P64;
	g_fake = 0;
	for (int i = 0; i < n; i++) {
		swcase_t *c = &cs[i];
		c->sema = dispatch_semaphore_create(0);
		if (!c->sema) { fprintf(stderr, "drv_time: dispatch_semaphore_create failed\n"); return 3; }
	}
	for (int i = 0; i < n; i++) {
		swcase_t *c = &cs[i];
		read_now(&c->before);
		if (c->clock == UP) c->t = dispatch_time(DISPATCH_TIME_NOW, c->delta);
		else if (c->clock == MONO) c->t = dispatch_time(DISPATCH_MONOTONICTIME_NOW, c->delta);
		else if (!strncmp(c->name, "wallnow", 7)) c->t = dispatch_time(DISPATCH_WALLTIME_NOW, c->delta);
		else c->t = dispatch_walltime(NULL, c->delta);
		if (RefClock(p, (I)c->t) != c->clock || c->t == DISPATCH_TIME_FOREVER) {
			fprintf(stderr, "drv_time: semwait %s: constructor returned 0x%" PRIx64 ", not a time on the intended clock\n", c->name, (uint64_t)c->t);
			return 3;
		}
		if (pthread_create(&c->th, NULL, semwait_thread, c)) { fprintf(stderr, "drv_time: pthread_create failed\n"); return 3; }
	}
	now_t start, cur; read_now(&start);
	for (;;) {
		int alldone = 1;
		for (int i = 0; i < n; i++) if (!__atomic_load_n(&cs[i].done, __ATOMIC_ACQUIRE)) alldone = 0;
		read_now(&cur);
		if (alldone || cur.up - start.up > (I)SEMWAIT_BOUND_S * 1000000000) break;
		struct timespec ts = { 0, 5000000 }; nanosleep(&ts, NULL);
	}
	int nviol = 0;
	printf("{\"mode\":\"semwait\",\"bound_s\":%d,\"cases\":[", SEMWAIT_BOUND_S);
	for (int i = 0; i < n; i++) {
		swcase_t *c = &cs[i]; const char *verdict = "ok"; int predicted = 0;
		int done = __atomic_load_n(&c->done, __ATOMIC_ACQUIRE);
		I pinned = NanosSinceEpochF(p, 0, (I)c->t, &c->before), fixed = NanosSinceEpochF(p, FX_ALL, (I)c->t, &c->before);
		if (!done) {
			verdict = "blocked";
			predicted = ClassEpoch(p, (I)c->t) != 0 && pinned - c->before.wall > (I)SEMWAIT_BOUND_S * 1000000000;
		} else if (c->ret == 0) verdict = "returned_zero";
		else {
			now_t late = c->after; late.up += SEMWAIT_SLACK_NS; late.mono += SEMWAIT_SLACK_NS; late.wall += SEMWAIT_SLACK_NS;
			if (!RefElapsed(p, (I)c->t, &late)) verdict = "returned_early";
		}
		if (strcmp(verdict, "ok")) nviol++;
		I took = done ? NowOf(c->clock, &c->after) - NowOf(c->clock, &c->before) : -1;
		printf("%s{\"case\":\"%s\",\"call\":\"dispatch_semaphore_wait(sema, %s)\",\"clock\":%d,\"t\":\"0x%016" PRIx64 "\","
			"\"verdict\":\"%s\",\"ret\":%ld,\"took_ns\":%" PRId64 ",\"class\":\"%s\",\"predicted_by_pinned_model\":%s,"
			"\"pinned_model_deadline_minus_wall_now_ns\":\"", i ? "," : "", c->name, c->expr, c->clock, (uint64_t)c->t,
			verdict, done ? (long)c->ret : -1l, (int64_t)took, CLASS_NAMES[ClassEpoch(p, (I)c->t)], predicted ? "true" : "false");
		pr128(stdout, pinned - c->before.wall);
		printf("\",\"repaired_model_deadline_minus_wall_now_ns\":\""); pr128(stdout, fixed - c->before.wall);
		printf("\"}");
	}
	printf("],\"nviol\":%d}\n", nviol);
	fflush(stdout);
	_exit(nviol ? 2 : 0);      /* blocked threads never return */
}

int main(int argc, char **argv)
{
	P64 = mkpar(64, 1000000000);
	if (argc < 2) { fprintf(stderr, "usage: drv_time selftest | table W NPS file... | vectors file | random seed n | semwait\n"); return 3; }
	int rc = selftest();
	if (rc) return rc;
	if (!strcmp(argv[1], "selftest")) { printf("{\"mode\":\"selftest\",\"ok\":true}\n"); return 0; }
	if (!strcmp(argv[1], "table") && argc >= 5) return mode_table(atoi(argv[2]), atol(argv[3]), argc - 4, argv + 4);
	if (!strcmp(argv[1], "vectors") && argc == 3) return mode_vectors(argv[2]);
	if (!strcmp(argv[1], "semwait")) return mode_semwait();
	if (!strcmp(argv[1], "random") && argc == 4) {
		mode_random(strtoull(argv[2], NULL, 10), strtoul(argv[3], NULL, 10));
		print_summary("random", 0);
		return g_nviol ? 2 : 0;
	}
	fprintf(stderr, "drv_time: bad arguments\n");
	return 3;
}
