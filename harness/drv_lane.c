/* Driver for the lane properties C01 C02 C04 C05 C06 (one serial or concurrent queue):
 * several client threads run seeded random programs of dispatch_async / barrier_async /
 * sync / barrier_sync / async_and_wait / suspend / resume (nesting across the inline
 * counter overflow) / ping-pong resubmission, under schedule perturbation injected inside
 * the library's atomicity windows.  Every API call, item start/end and every atomic access
 * to the queue's dq_state is recorded in one total order.  The property statements are
 * evaluated on that order (API-level oracles) and the dq_state records are written as
 * abstract DQState records for word-level trace validation (spec/LaneWordTrace.tla). */
#include "internal.h"
#include <pthread.h>
#include <malloc.h>
#include "verif_rt.h"

#define MAXI 8192
#define MAXW 4096
enum { K_ASYNC, K_BASYNC, K_SYNC, K_BSYNC, K_AAW, K_BAAW, K_GASYNC, K_AFTER };
#define IS_SYNC_KIND(k) ((k) == K_SYNC || (k) == K_BSYNC || (k) == K_AAW || (k) == K_BAAW)
static const char *KN[] = { "ra", "ba", "rs", "bs", "rw", "bw", "ga", "aa" };
static dispatch_group_t g_grp;
enum { B_NONE, B_SPIN, B_OWNSUSP, B_CHILD, B_NEST };
static dispatch_queue_t g_helper;        /* an unrelated serial queue that items call into synchronously (nested dispatch_sync frames) */
static _Atomic long g_nest_in, g_nest_runs;
static void nest_fn(void *c) { (void)c; if (atomic_fetch_add(&g_nest_in, 1) != 0) { fprintf(stderr, "ORACLE-FAIL C02 items of the helper serial queue overlapped a=0 b=0\n"); } atomic_fetch_add(&g_nest_runs, 1); atomic_fetch_sub(&g_nest_in, 1); }

typedef struct item {
	int id, kind, client, body, eb; /* eb: effectively a barrier */
	uint64_t call_seq, ret_seq, start_seq, end_seq;
	_Atomic int runs;
	int payload[4];
	int result;
	int child;
} item_t;

static int g_forms = 1, g_qosvar = 1;
static int NT = 3, g_execs = 10, g_ops = 30, g_W = 1, g_Wreq = 1, g_susp = 1, g_inact = 0, g_pp = 1, g_nest = 1;
static uint64_t g_seed;
static dispatch_queue_t g_q;
static int g_obj;
static item_t g_items[MAXI];
static _Atomic int g_nitems;
static pthread_barrier_t g_bar;
static _Atomic int g_fail, g_done_threads;
static long g_chain;             /* plain counter: bumped by exclusive items only */
static _Atomic long g_excl_items;
/* suspension windows */
typedef struct { uint64_t s1, s2; int own; } win_t;
static win_t g_win[MAXW];
static _Atomic int g_nwin;
static _Atomic int g_pending_resume, g_resumer_stop;
static _Atomic uint64_t g_resume_win_idx;
static uint64_t g_activate_seq;
static int g_exec_inactive;

static void oracle_fail(const char *prop, const char *what, long a, long b)
{
	fprintf(stderr, "ORACLE-FAIL %s %s a=%ld b=%ld\n", prop, what, a, b);
	atomic_store(&g_fail, 1);
}

static item_t *new_item(int kind, int client, int body)
{
	int id = atomic_fetch_add(&g_nitems, 1);
	if (id >= MAXI) return NULL;
	item_t *it = &g_items[id];
	memset(it, 0, sizeof(*it));
	it->id = id; it->kind = kind; it->client = client; it->body = body; it->child = -1;
	it->eb = (g_W == 1) || kind == K_BASYNC || kind == K_BSYNC || kind == K_BAAW;
	for (int k = 0; k < 4; k++) it->payload[k] = id * 7 + k;
	return it;
}

static void item_fn(void *ctxt);

static void submit(item_t *it)
{
	it->call_seq = vrt_api("Call", g_obj, it->id, it->kind, 0);
	/* every submission form of the API reaches the same queue machine: function + context, plain block, block
	 * object with private data (dispatch_block_create), and for barriers also dispatch_async of a BARRIER-flagged
	 * block object */
	unsigned form = g_forms ? (unsigned)(vrt_rand() % 10) : 0;
	if (g_forms && it->kind == K_AFTER) form = (unsigned)(vrt_rand() % 10) < 4 ? 0 : 6 + (unsigned)(vrt_rand() % 4);   /* block objects often */
	if (form < 6) {
		switch (it->kind) {
		case K_ASYNC: dispatch_async_f(g_q, it, item_fn); break;
		case K_BASYNC: dispatch_barrier_async_f(g_q, it, item_fn); break;
		case K_SYNC: dispatch_sync_f(g_q, it, item_fn); break;
		case K_BSYNC: dispatch_barrier_sync_f(g_q, it, item_fn); break;
		case K_AAW: dispatch_async_and_wait_f(g_q, it, item_fn); break;
		case K_BAAW: dispatch_barrier_async_and_wait_f(g_q, it, item_fn); break;
		case K_GASYNC: dispatch_group_async_f(g_grp, g_q, it, item_fn); break;
		case K_AFTER: dispatch_after_f(dispatch_time(DISPATCH_TIME_NOW, (int64_t)(vrt_rand() % 3000000)), g_q, it, item_fn); break;
		}
	} else {
		dispatch_block_t plain = ^{ item_fn(it); };
		dispatch_block_t b = plain, made = NULL;
		int viaflag = 0;
		if (form >= 8) {
			viaflag = (it->kind == K_BASYNC || it->kind == K_BSYNC) && (vrt_rand() & 1);
			/* a BARRIER-flagged block object handed to dispatch_after is a barrier item when its timer fires */
			if (it->kind == K_AFTER && (vrt_rand() & 1)) { viaflag = 1; it->eb = 1; }
			made = dispatch_block_create(viaflag ? DISPATCH_BLOCK_BARRIER : 0, plain);
			b = made;
		}
		switch (it->kind) {
		case K_ASYNC: dispatch_async(g_q, b); break;
		case K_BASYNC: if (viaflag) dispatch_async(g_q, b); else dispatch_barrier_async(g_q, b); break;
		case K_SYNC: dispatch_sync(g_q, b); break;
		case K_BSYNC: if (viaflag) dispatch_sync(g_q, b); else dispatch_barrier_sync(g_q, b); break;
		case K_AAW: dispatch_async_and_wait(g_q, b); break;
		case K_BAAW: dispatch_barrier_async_and_wait(g_q, b); break;
		case K_GASYNC: dispatch_group_async(g_grp, g_q, b); break;
		case K_AFTER: dispatch_after(dispatch_time(DISPATCH_TIME_NOW, (int64_t)(vrt_rand() % 3000000)), g_q, b); break;
		}
		if (made) _Block_release(made);
	}
	it->ret_seq = vrt_api("Ret", g_obj, it->id, it->kind, 0);
	if (IS_SYNC_KIND(it->kind)) {
		/* C05: a synchronous submission returns after completion and sees the item's writes */
		if (atomic_load(&it->runs) != 1 || it->end_seq == 0) oracle_fail("C05", "sync returned before its item finished", it->id, it->kind);
		if (it->result != (it->id ^ 0x5a5a)) oracle_fail("C05", "item's writes not visible after sync return", it->id, it->result);
	}
	vrt_progress();
}

static void item_fn(void *ctxt)
{
	item_t *it = ctxt;
	it->start_seq = vrt_api("Start", g_obj, it->id, it->kind, 0);
	atomic_fetch_add(&it->runs, 1);
	for (int k = 0; k < 4; k++) if (it->payload[k] != it->id * 7 + k) oracle_fail("C05", "submitter's writes not visible in item", it->id, k);
	if (it->eb) { g_chain++; }
	switch (it->body) {
	case B_SPIN: {
		volatile int x = 0; int n = (int)(vrt_rand() % 2000); for (int i = 0; i < n; i++) x++;
		/* on a concurrent queue some readers stay inside their body long enough for suspensions, resumes and barriers
		 * of other threads to happen meanwhile (seeds C04-2, C04-5) */
		if (g_W != 1 && !it->eb && (vrt_rand() % 3) == 0) usleep(60 + (unsigned)(vrt_rand() % 400));
		break;
	}
	case B_OWNSUSP: {
		/* the item suspends its own queue; now and then nested deeper than the inline count holds, leaving exactly one
		 * transfer unit (32) outstanding when it returns: the drainer that ran this item still holds the drain lock and
		 * must see "suspended" although the inline count is 0 (seed C06-6).  The resumer thread gives the rest back. */
		int deep = (vrt_rand() % 3) == 0, n = deep ? 64 + (int)(vrt_rand() % 8) : 1, left = deep ? 32 : 1;
		for (int d = 0; d < n; d++) dispatch_suspend(g_q);
		int w = atomic_fetch_add(&g_nwin, 1);
		if (w < MAXW) { g_win[w].own = 1; g_win[w].s2 = 0; g_win[w].s1 = vrt_api("OwnSusp", g_obj, it->id, w, 0); }
		for (int d = 0; d < n - left; d++) dispatch_resume(g_q);
		atomic_store(&g_resume_win_idx, (uint64_t)w);
		atomic_fetch_add(&g_pending_resume, left);
		break;
	}
	case B_NEST: {
		/* a work item that itself submits synchronously to another queue and asynchronously to it */
		long before = atomic_load(&g_nest_runs);
		if (vrt_rand() & 1) dispatch_sync_f(g_helper, NULL, nest_fn); else dispatch_barrier_sync_f(g_helper, NULL, nest_fn);
		if (atomic_load(&g_nest_runs) <= before) oracle_fail("C05", "nested dispatch_sync returned before its item ran", it->id, 0);
		dispatch_async_f(g_helper, NULL, nest_fn);
		break;
	}
	case B_CHILD: {
		/* ping-pong: resubmit to the same queue from inside an item (the DIRTY window) */
		/* every asynchronous entry point from inside a work item too: a pool thread has a non-empty continuation
		 * cache there, which is a different path through dispatch_async_f / dispatch_barrier_async_f (seed C01-6) */
		unsigned ck = (unsigned)(vrt_rand() % 4);
		item_t *c = new_item(ck == 0 ? K_BASYNC : ck == 1 ? K_GASYNC : K_ASYNC, it->client, B_NONE);
		if (c) { it->child = c->id; submit(c); }
		break;
	}
	default: break;
	}
	it->result = it->id ^ 0x5a5a;
	it->end_seq = vrt_api("End", g_obj, it->id, it->kind, 0);
}

static void *resumer(void *arg)
{
	(void)arg; (void)vrt_tid();
	while (!atomic_load(&g_resumer_stop)) {
		if (atomic_load(&g_pending_resume) > 0) {
			usleep((unsigned)(vrt_rand() % 400));
			uint64_t w = atomic_load(&g_resume_win_idx);
			uint64_t s = vrt_api("ResCall", g_obj, -1, (long)w, 0);
			if (w < MAXW) g_win[w].s2 = s;
			dispatch_resume(g_q);
			vrt_api("ResRet", g_obj, -1, (long)w, 0);
			atomic_fetch_sub(&g_pending_resume, 1);
		} else usleep(50);
	}
	return NULL;
}

static _Atomic int g_pb_window;   /* a drainer holding a pending-barrier reservation is about to unlock */
static unsigned g_hold_us;
static void susp_pair(int depth)
{
	int w = atomic_fetch_add(&g_nwin, 1);
	for (int d = 0; d < depth; d++) {
		vrt_api("SuspCall", g_obj, -1, w, 0);
		dispatch_suspend(g_q);
		uint64_t s = vrt_api("SuspRet", g_obj, -1, w, 0);
		if (d == 0 && w < MAXW) { g_win[w].own = 0; g_win[w].s1 = s; g_win[w].s2 = 0; }
	}
	if (depth == 1) usleep(g_hold_us ? g_hold_us : (unsigned)(vrt_rand() % 300));
	for (int d = 0; d < depth; d++) {
		uint64_t s = vrt_api("ResCall", g_obj, -1, w, 0);
		if (d == 0 && w < MAXW) g_win[w].s2 = s;   /* the queue stays suspended at least until the first resume call */
		dispatch_resume(g_q);
		vrt_api("ResRet", g_obj, -1, w, 0);
	}
	vrt_progress();
}

/* susp = 2: "nesting storm".  Nesting depths are drawn around the capacities of the inline suspend count (63) and of
 * the transfer unit (32), and a thread inside _dispatch_lane_{suspend,resume}_slow is held for a few ms at its
 * accesses to dq_state (it owns the side lock, not the state word) so that fast-path suspends and resumes of other
 * threads land inside the transfer: the overflow / underflow give-ups of the slow paths become reachable. */
static int storm_depth(void)
{
	static const int around[] = { 31, 32, 33, 34, 62, 63, 64, 65, 66, 95, 96, 97, 127, 128, 129 };
	unsigned r = (unsigned)(vrt_rand() % 24);
	return r < 15 ? around[r] : 2 + (int)(vrt_rand() % 140);
}
static void storm_steer(struct dispatch_verif_site_s *s, const volatile void *a, int obj)
{
	(void)a; (void)obj;
	/* a first enqueuer between its exchange of the tail and the store that publishes the head (or links the item behind
	 * its predecessor): the list is non-empty but not walkable yet - the window of finding F1 and of every consumer
	 * that must wait for the enqueuer (os_mpsc_get_head / pop_head).  Hold the enqueuer there now and then. */
	if (!strcmp(s->dvs_func, "_dispatch_lane_push") && s->dvs_op[0] == 's' &&
			(strstr(s->dvs_expr, "head") || strstr(s->dvs_expr, "do_next")) && (vrt_rand() % 8) == 0) {
		usleep(100 + (unsigned)(vrt_rand() % 1200));
		return;
	}
	if (!strstr(s->dvs_expr, "dq_state")) return;
	if (g_susp && a && s->dvs_op[0] != 'l' && !strcmp(s->dvs_func, "_dispatch_queue_drain_try_unlock") &&
			(*(const volatile uint64_t *)a & DISPATCH_QUEUE_PENDING_BARRIER) && (vrt_rand() & 1)) {
		/* ask the clients for a push and a suspension inside this window (see client()) */
		atomic_store(&g_pb_window, 2);
		usleep(1500);
		return;
	}
	if (g_susp == 2 && strstr(s->dvs_func, "_slow") && (vrt_rand() & 1)) { usleep(300 + (unsigned)(vrt_rand() % 2500)); return; }
	/* the window between a drainer's decision to leave and its unlock is where DIRTY, suspensions and late pushes
	 * land (C01's no-stranding argument, finding F3): hold a drainer there now and then */
	if (s->dvs_op[0] != 'l' && (vrt_rand() % 6) == 0 &&
			(!strcmp(s->dvs_func, "_dispatch_queue_drain_try_unlock") || !strcmp(s->dvs_func, "_dispatch_queue_invoke_finish") ||
			 !strcmp(s->dvs_func, "_dispatch_lane_class_barrier_complete") || !strcmp(s->dvs_func, "_dispatch_lane_drain_non_barriers") ||
			 !strcmp(s->dvs_func, "_dispatch_queue_try_upgrade_full_width")))
		usleep(100 + (unsigned)(vrt_rand() % 1500));
}

static void *client(void *arg)
{
	long me = (long)arg;
	(void)vrt_tid();
	for (int e = 0; e < g_execs; e++) {
		pthread_barrier_wait(&g_bar);
		for (int i = 0; i < g_ops; i++) {
			unsigned k = (unsigned)(vrt_rand() % 100);
			int body = (vrt_rand() % 4 == 0) ? B_SPIN : (vrt_rand() % 12 == 0) ? B_NEST : B_NONE;
			item_t *it = NULL;
			if (g_susp && atomic_load(&g_pb_window) > 0 && atomic_fetch_sub(&g_pb_window, 1) > 0) {
				it = new_item(K_ASYNC, (int)me, B_NONE);
				if (!it) break;
				submit(it);
				g_hold_us = 1200; susp_pair(1); g_hold_us = 0;
				continue;
			}
			if (g_susp == 2 && vrt_rand() % 100 < 40) { susp_pair(storm_depth()); continue; }
			/* concurrent queue: suspend, queue a barrier behind whatever readers are in flight, resume while they still
			 * run (dispatch_resume's own lock-transfer path; seed C04-2) */
			if (g_susp && g_W != 1 && !g_exec_inactive && vrt_rand() % 100 < 4) {
				int w = atomic_fetch_add(&g_nwin, 1);
				vrt_api("SuspCall", g_obj, -1, w, 0);
				dispatch_suspend(g_q);
				uint64_t s1 = vrt_api("SuspRet", g_obj, -1, w, 0);
				if (w < MAXW) { g_win[w].own = 0; g_win[w].s1 = s1; g_win[w].s2 = 0; }
				it = new_item(K_BASYNC, (int)me, B_NONE);
				if (it) submit(it);
				usleep((unsigned)(vrt_rand() % 200));
				uint64_t s2 = vrt_api("ResCall", g_obj, -1, w, 0);
				if (w < MAXW) g_win[w].s2 = s2;
				dispatch_resume(g_q);
				vrt_api("ResRet", g_obj, -1, w, 0);
				if (!it) break;
				continue;
			}
			if (vrt_rand() % 100 < 7) { it = new_item(K_AFTER, (int)me, body); if (!it) break; submit(it); continue; }
			if (g_W == 1) {
				if (k < 26) it = new_item(K_ASYNC, (int)me, body);
				else if (k < 34) it = new_item(K_GASYNC, (int)me, body);
				else if (k < 58) it = new_item(K_SYNC, (int)me, body);
				else if (k < 63) it = new_item(K_BSYNC, (int)me, body);
				else if (k < 68) it = new_item(K_BASYNC, (int)me, body);
				else if (k < 76) it = new_item(K_AAW, (int)me, body);
				else if (k < 86 && g_pp) it = new_item(K_ASYNC, (int)me, B_CHILD);
				else if (k < 90 && g_susp && !g_exec_inactive) it = new_item(K_ASYNC, (int)me, B_OWNSUSP);
				else if (k < 97 && g_susp) { susp_pair(1); continue; }
				else if (g_susp && g_nest) { susp_pair(2 + (int)(vrt_rand() % 120)); continue; }
				else it = new_item(K_ASYNC, (int)me, body);
			} else {
				if (k < 22) it = new_item(K_ASYNC, (int)me, body);
				else if (k < 28) it = new_item(K_GASYNC, (int)me, body);
				else if (k < 40) it = new_item(K_BASYNC, (int)me, body);
				else if (k < 58) it = new_item(K_SYNC, (int)me, body);
				else if (k < 68) it = new_item(K_BSYNC, (int)me, body);
				else if (k < 74) it = new_item(K_AAW, (int)me, body);
				else if (k < 78) it = new_item(K_BAAW, (int)me, body);
				else if (k < 88 && g_pp) it = new_item(K_ASYNC, (int)me, B_CHILD);
				else if (k < 91 && g_susp && !g_exec_inactive) it = new_item(K_BASYNC, (int)me, B_OWNSUSP);
				else if (k < 97 && g_susp) { susp_pair(1); continue; }
				else if (g_susp && g_nest) { susp_pair(2 + (int)(vrt_rand() % 120)); continue; }
				else it = new_item(K_ASYNC, (int)me, body);
			}
			if (!it) break;
			/* a synchronous call on a queue that is still inactive would block this client until the
			 * activation, which main issues only after a delay: allowed, it exercises C06's sync half */
			submit(it);
		}
		atomic_fetch_add(&g_done_threads, 1);
		pthread_barrier_wait(&g_bar);
	}
	return NULL;
}

/* ------------------------------- projection ------------------------------- */
/* thread events live on waiters' stacks (or in continuations): identified by address */
#define MAXEV 4096
static const volatile void *g_evaddr[MAXEV];
static int g_nev;
static int ev_id(const volatile void *a, int create)
{
	for (int i = 0; i < g_nev; i++) if (g_evaddr[i] == a) return i;
	if (!create || g_nev >= MAXEV) return -1;
	g_evaddr[g_nev] = a;
	return g_nev++;
}

static void pabs(FILE *f, const char *k, uint64_t s)
{
	int64_t wb = (int64_t)((s & DISPATCH_QUEUE_WIDTH_MASK) >> DISPATCH_QUEUE_WIDTH_SHIFT);
	int used = (int)(wb - (int64_t)(DISPATCH_QUEUE_WIDTH_FULL - (unsigned)g_W));
	uint64_t ow = s & DISPATCH_QUEUE_DRAIN_OWNER_MASK;
	char owner[24] = "\"null\"";
	if (ow) {
		int n = vrt_nthreads(), found = -1;
		for (int i = 0; i < n; i++) if (((uint64_t)_dispatch_lock_value_from_tid((dispatch_tid)vrt_ktid(i)) & DISPATCH_QUEUE_DRAIN_OWNER_MASK) == ow) { found = i; break; }
		snprintf(owner, sizeof(owner), "\"%d\"", found);
	}
	int odd = !!(s & (DISPATCH_QUEUE_ENQUEUED_ON_MGR | DISPATCH_QUEUE_SYNC_TRANSFER)) ||
			((s & DISPATCH_QUEUE_ROLE_MASK) == DISPATCH_QUEUE_ROLE_BASE_WLH);
	int base = (s & DISPATCH_QUEUE_ROLE_MASK) == DISPATCH_QUEUE_ROLE_BASE_ANON;
	fprintf(f, "\"%s\":{\"sc\":%d,\"side\":%s,\"inact\":%s,\"na\":%s,\"ib\":%s,\"pb\":%s,\"used\":%d,\"dirty\":%s,"
			"\"enq\":%s,\"ro\":%s,\"qos\":%d,\"owner\":%s}", k, (int)(s / DISPATCH_QUEUE_SUSPEND_INTERVAL),
			(s & DISPATCH_QUEUE_HAS_SIDE_SUSPEND_CNT) ? "true" : "false", _dq_state_is_inactive(s) ? "true" : "false",
			(s & DISPATCH_QUEUE_NEEDS_ACTIVATION) ? "true" : "false", _dq_state_is_in_barrier(s) ? "true" : "false",
			_dq_state_has_pending_barrier(s) ? "true" : "false", used, _dq_state_is_dirty(s) ? "true" : "false",
			_dq_state_is_enqueued_on_target(s) ? "true" : "false", _dq_state_received_override(s) ? "true" : "false",
			_dq_state_max_qos(s) ? 1 : 0, owner);
	fprintf(f, ",\"base_%s\":%s", k, base ? "true" : "false");
	if (odd) fprintf(f, ",\"odd_%s\":true", k);
}

static void proj(FILE *f, const vrt_rec_t *r)
{
	switch (r->kind) {
	case VRT_MARK:
		fprintf(f, "{\"e\":\"%s\",\"w\":%ld,\"inactive\":%s}\n", r->name, r->a, r->b ? "true" : "false");
		break;
	case VRT_API:
	{
		int isitem = !strcmp(r->name, "Call") || !strcmp(r->name, "Ret") || !strcmp(r->name, "Start") || !strcmp(r->name, "End");
		fprintf(f, "{\"e\":\"%s\",\"t\":%d,\"i\":%ld,\"k\":\"%s\",\"n\":%llu}\n", r->name, r->tid, r->a,
				(isitem && r->b >= 0 && r->b < 7) ? KN[r->b] : "-", (unsigned long long)r->seq);
		break;
	}
	case VRT_PROBE: {
		int id = ev_id(r->addr, 0);
		if (id < 0 || strncmp(r->name, "futex_", 6)) break;   /* only futex calls on words known to be thread events */
		fprintf(f, "{\"e\":\"Tf\",\"t\":%d,\"a\":%d,\"k\":\"%s\",\"v\":%d,\"b\":%ld}\n", r->tid, id, r->name, (int)(int32_t)r->a, r->b);
		break;
	}
	case VRT_ATOMIC:
		if (r->cls == 100) {
			fprintf(f, "{\"e\":\"Te\",\"t\":%d,\"a\":%d,\"op\":\"%s\",\"mo\":\"%s\",\"old\":%d,\"new\":%d,\"f\":\"%s\"}\n", r->tid,
					ev_id(r->addr, 1), r->site->dvs_op, r->site->dvs_mo, (int)(int32_t)r->oldv, (int)(int32_t)r->newv, r->site->dvs_func);
			break;
		}
		if (r->cls == 2) {
			/* item list of the queue: who made the list non-empty (exchange of dq_items_tail) and when it became empty again */
			if (r->obj == g_obj && strstr(r->site->dvs_expr, "tail")) {
				if (!strcmp(r->site->dvs_op, "xchg"))
					fprintf(f, "{\"e\":\"Tail\",\"t\":%d,\"f\":\"%s\",\"first\":%s,\"null\":%s}\n", r->tid, r->site->dvs_func,
							r->oldv == 0 ? "true" : "false", r->newv == 0 ? "true" : "false");
				else if (!strcmp(r->site->dvs_op, "cmpxchg") && r->ok && r->newv == 0)
					fprintf(f, "{\"e\":\"Tail\",\"t\":%d,\"f\":\"%s\",\"first\":false,\"null\":true}\n", r->tid, r->site->dvs_func);
			}
			break;
		}
		if (r->cls != 1) break;
		if (r->size == 4) {
			/* 32-bit access to one half of the word: not modelled, report as unknown */
			fprintf(f, "{\"e\":\"St\",\"t\":%d,\"f\":\"%s\",\"op\":\"half\",\"mo\":\"%s\",\"ok\":%d,\"line\":%d}\n", r->tid,
					r->site->dvs_func, r->site->dvs_mo, r->ok, r->site->dvs_line);
			break;
		}
		fprintf(f, "{\"e\":\"St\",\"t\":%d,\"f\":\"%s\",\"op\":\"%s\",\"mo\":\"%s\",\"ok\":%d,\"line\":%d,\"off\":%ld,\"n\":%llu,", r->tid,
				r->site->dvs_func, r->site->dvs_op, r->site->dvs_mo, r->ok, r->site->dvs_line, r->off, (unsigned long long)r->seq);
		pabs(f, "old", r->oldv); fputc(',', f); pabs(f, "new", r->newv);
		fprintf(f, "}\n");
		break;
	default: break;
	}
}

/* ------------------------------- oracles ------------------------------- */
static void check_execution(int nitems, int serial)
{
	long excl = 0;
	for (int i = 0; i < nitems; i++) {
		item_t *a = &g_items[i];
		int runs = atomic_load(&a->runs);
		if (runs != 1) oracle_fail("C01", runs == 0 ? "item never ran (stranded)" : "item ran more than once", a->id, runs);
		if (runs == 0) continue;
		if (a->eb) excl++;
		if (g_exec_inactive && a->start_seq < g_activate_seq) oracle_fail("C06", "item started before dispatch_activate", a->id, 0);
	}
	if (g_chain != excl) oracle_fail("C02", "exclusive items raced on a plain counter (overlap or lost visibility)", g_chain, excl);
	/* pairwise: exclusion and ordering for pairs involving a barrier (every pair on a serial queue) */
	for (int i = 0; i < nitems; i++) {
		item_t *a = &g_items[i];
		if (!atomic_load(&a->runs)) continue;
		for (int j = 0; j < nitems; j++) {
			if (i == j) continue;
			item_t *b = &g_items[j];
			if (!atomic_load(&b->runs)) continue;
			if (!(a->eb || b->eb)) continue;
			if (i < j && a->start_seq < b->end_seq && b->start_seq < a->end_seq)
				oracle_fail(serial ? "C02" : "C04", "barrier/serial item overlapped another item", a->id, b->id);
			/* a's submission returned before b's began  =>  a finished before b started.
			 * (a child submitted from inside an item is ordered by its own Call/Ret like any other) */
			/* (dispatch_after enqueues its item when the timer fires, not when the call returns) */
			if (a->kind != K_AFTER && a->ret_seq && a->ret_seq < b->call_seq && !(a->end_seq < b->start_seq))
				oracle_fail(serial ? "C02" : "C04", "submission order not respected", a->id, b->id);
		}
	}
	/* C06: suspension windows */
	int nw = atomic_load(&g_nwin); if (nw > MAXW) nw = MAXW;
	for (int w = 0; w < nw; w++) {
		if (!g_win[w].s1 || !g_win[w].s2) continue;
		int starts = 0; int first = -1;
		for (int i = 0; i < nitems; i++) {
			item_t *a = &g_items[i];
			if (atomic_load(&a->runs) && a->start_seq > g_win[w].s1 && a->start_seq < g_win[w].s2) { starts++; if (first < 0) first = a->id; }
		}
		if (g_win[w].own && starts > 0) oracle_fail("C06", "item started while the queue was suspended from its own context", first, w);
		if (!g_win[w].own && serial && starts > 1) oracle_fail("C06", "more than one item started after dispatch_suspend returned", starts, w);
	}
}

static uint64_t now_ms(void) { struct timespec ts; clock_gettime(CLOCK_MONOTONIC, &ts); return (uint64_t)ts.tv_sec * 1000 + (uint64_t)ts.tv_nsec / 1000000; }
static void nop(void *c) { (void)c; }

int main(int argc, char **argv)
{
	const char *out = argc > 1 ? argv[1] : "/dev/null";
	g_seed = argc > 2 ? strtoull(argv[2], NULL, 0) : 1;
	int perturb = argc > 3 ? atoi(argv[3]) : 2;
	if (argc > 4) g_execs = atoi(argv[4]);
	if (argc > 5) g_ops = atoi(argv[5]);
	if (argc > 6) g_Wreq = atoi(argv[6]);
	if (argc > 7) g_susp = atoi(argv[7]);
	if (argc > 8) g_inact = atoi(argv[8]);
	if (argc > 9) g_pp = atoi(argv[9]);
	if (argc > 10) NT = atoi(argv[10]);
	vrt_init(out, g_seed, perturb);
	vrt_set_projector(proj);
	vrt_add_class("dte_value", 100);     /* thread events: any address */
	vrt_set_probe_filter(0);             /* futex probes on them are recorded (and perturbed) too */
	vrt_add_class("dq_state", 1);
	vrt_add_class("dq_items_tail", 2);
	vrt_add_class("_os_mpsc_tail", 2);
	vrt_add_class("_os_mpsc_head", 2);
	vrt_add_class("dq_items_head", 2);
	vrt_add_class("do_next", 2);
	vrt_set_hang_seconds(25);
	if (perturb > 0) vrt_set_steer(storm_steer);
	(void)vrt_tid();
	g_helper = dispatch_queue_create("verif.lane.helper", DISPATCH_QUEUE_SERIAL);
	pthread_barrier_init(&g_bar, NULL, (unsigned)NT + 1);
	pthread_t th[16], rth;
	for (long i = 0; i < NT; i++) pthread_create(&th[i], NULL, client, (void *)i);
	pthread_create(&rth, NULL, resumer, NULL);
	for (int e = 0; e < g_execs; e++) {
		vrt_pause(1);
		g_exec_inactive = g_inact && (vrt_rand() % 2 == 0);
		dispatch_queue_attr_t attr = g_Wreq == 1 ? DISPATCH_QUEUE_SERIAL : DISPATCH_QUEUE_CONCURRENT;
		/* queue QoS varies (inert for scheduling on this platform, but it flows through dq_priority, the max_qos bits of
		 * dq_state and the wakeup / override decisions) */
		if (g_qosvar) {
			static const dispatch_qos_class_t qc[] = { QOS_CLASS_UNSPECIFIED, QOS_CLASS_UTILITY, QOS_CLASS_USER_INITIATED, QOS_CLASS_BACKGROUND, QOS_CLASS_DEFAULT };
			unsigned qk = (unsigned)(vrt_rand() % 5);
			if (qc[qk] != QOS_CLASS_UNSPECIFIED) attr = dispatch_queue_attr_make_with_qos_class(attr, qc[qk], -(int)(vrt_rand() % 3));
		}
		if (g_exec_inactive) attr = dispatch_queue_attr_make_initially_inactive(attr);
		{
			/* the lane's target: the default (legacy creation), or a global queue of another priority / an overcommit
			 * one given at creation */
			static const long prio[] = { DISPATCH_QUEUE_PRIORITY_DEFAULT, DISPATCH_QUEUE_PRIORITY_HIGH, DISPATCH_QUEUE_PRIORITY_LOW, DISPATCH_QUEUE_PRIORITY_BACKGROUND };
			unsigned tk = (unsigned)(vrt_rand() % 6);
			if (tk < 2) g_q = dispatch_queue_create("verif.lane", attr);
			else g_q = dispatch_queue_create_with_target("verif.lane", attr, dispatch_get_global_queue(prio[tk - 2], (vrt_rand() & 1) ? 2ul /* DISPATCH_QUEUE_OVERCOMMIT */ : 0));
		}
		if (!g_grp) g_grp = dispatch_group_create();
		if (g_Wreq > 1 && !g_exec_inactive) {
			/* narrow the queue so that "no width left" / PENDING_BARRIER paths are reachable */
			dispatch_queue_set_width(g_q, g_Wreq);
			dispatch_barrier_sync_f(g_q, NULL, nop);
		}
		g_W = upcast(g_q)._dl->dq_width;   /* inactive concurrent queues keep their natural width */
		vrt_unregister_all();
		g_obj = vrt_register(g_q, malloc_usable_size(g_q), 1);
		atomic_store(&g_nitems, 0); atomic_store(&g_nwin, 0); atomic_store(&g_done_threads, 0);
		g_chain = 0; g_activate_seq = 0;
		vrt_pause(0);
		vrt_mark("Reset", g_W, g_exec_inactive, 0);
		pthread_barrier_wait(&g_bar);
		if (g_exec_inactive) {
			usleep(300 + (unsigned)(vrt_rand() % 2000));
			g_activate_seq = vrt_api("ActCall", g_obj, -1, -1, 0);
			dispatch_activate(g_q);
			vrt_api("ActRet", g_obj, -1, -1, 0);
		}
		while (atomic_load(&g_done_threads) < NT) { usleep(200); }
		pthread_barrier_wait(&g_bar);
		while (atomic_load(&g_pending_resume) > 0) usleep(100);
		/* flush: everything submitted so far finishes before this barrier runs */
		/* items still running when the flush was submitted may submit children (ping-pong) behind it:
		 * flush again until nothing new was submitted and nothing is pending */
		int n, clean = 0;
		uint64_t flush_t0 = now_ms();
		for (int round = 0; ; round++) {
			while (atomic_load(&g_pending_resume) > 0) usleep(100);
			int before = atomic_load(&g_nitems);
			item_t *fl = new_item(K_BSYNC, NT, B_NONE);
			if (fl) submit(fl);
			n = atomic_load(&g_nitems); if (n > MAXI) n = MAXI;
			/* pending = not FINISHED (an item that a timer or a still-running parent enqueued behind this flush may have
			 * started already and still be inside its body) */
			int pending = 0;
			for (int i = 0; i < n; i++) if (atomic_load(&g_items[i].runs) == 0 || g_items[i].end_seq == 0) pending++;
			if (n == before + 1 && pending == 0 && atomic_load(&g_pending_resume) == 0) { if (++clean >= 2) break; }
			else clean = 0;
			/* give up after 10 s: what has not run by then is reported as stranded by check_execution (dispatch_after
			 * items are enqueued by the manager thread, which the perturbation slows down like any other) */
			if (round > 200 && now_ms() - flush_t0 > 10000) break;
			if (pending) usleep(300);
		}
		{
			/* every item has finished its body: one more barrier waits for the width / the drain lock that the last of
			 * them still gives back after its body (the state word is idle only then) */
			item_t *fl = new_item(K_BSYNC, NT, B_NONE);
			if (fl) submit(fl);
			n = atomic_load(&g_nitems); if (n > MAXI) n = MAXI;
		}
		if (dispatch_group_wait(g_grp, dispatch_time(DISPATCH_TIME_NOW, 20ll * NSEC_PER_SEC)) != 0)
			oracle_fail("C01", "dispatch_group_async items all ran but the group never emptied", 0, 0);
		check_execution(n, g_W == 1);
		vrt_api("Quiesce", g_obj, -1, -1, 0);
		vrt_pause(1);
		dispatch_release(g_q);   /* _dispatch_lane_class_dispose crashes if the word is not idle */
		vrt_pause(0);
		vrt_progress();
	}
	atomic_store(&g_resumer_stop, 1);
	for (int i = 0; i < NT; i++) pthread_join(th[i], NULL);
	pthread_join(rth, NULL);
	vrt_dump();
	fprintf(stderr, "records=%zu overflow=%d threads=%d\n", vrt_count(), vrt_overflowed(), vrt_nthreads());
	return atomic_load(&g_fail) ? 2 : 0;
}
