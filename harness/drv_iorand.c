/* drv_iorand - replays spec/IoRandom.tla vectors on real DISPATCH_IO_RANDOM channels over temp files.
 * public API only (+ _dispatch_iocntl to shrink the chunk size so that operations take several
 * pread/pwrite rounds and interleave round-robin).
 * usage: drv_iorand <vectors.txt> <out.txt> <tmpdir>
 * vector line:  unit pages flen base nphases { nops stop pbase { k off len } }  (k: 0 read, 1 write; len 99 = SIZE_MAX;
 *               pbase != the channel's base: lseek(fd, pbase) and derive a new channel with dispatch_io_create_with_io;
 *               stop 1: dispatch_io_close(DISPATCH_IO_STOP) right after the batch was submitted)
 * output:       "R v p i calls dones after_done err total crc"  per operation,
 *               "F v p len crc"                                  file contents after each phase,
 *               "C v cleanups err"                               cleanup handler
 * The driver computes nothing about what SHOULD come out: tools/props/C14.py compares with the spec's vector. */
#include <dispatch/dispatch.h>
#include <stdio.h>
#include <stdlib.h>
#include <stdint.h>
#include <string.h>
#include <unistd.h>
#include <fcntl.h>
#include <errno.h>
#include <signal.h>

extern void _dispatch_iocntl(uint32_t param, uint64_t value);
#define IOCNTL_CHUNK_PAGES 1
#define INF_LEN 99
#define MAXOPS 8

static uint32_t crc_upd(uint32_t c, const unsigned char *p, size_t n)
{
	c = ~c;
	for (size_t i = 0; i < n; i++) {
		c ^= p[i];
		for (int k = 0; k < 8; k++) c = (c >> 1) ^ (0xEDB88320u & (0u - (c & 1)));
	}
	return ~c;
}

/* byte j of cell c: must match cell_bytes() in tools/props/C14.py */
static unsigned char cell_byte(long c, long j)
{
	if (c == 0) return 0;
	return (unsigned char)(((unsigned long)c * 131u + (unsigned long)j * 7u + (unsigned long)(j >> 8) * 13u + 1u) & 0xff);
}

struct opst {
	int k; long calls, dones, after_done, err; size_t total; uint32_t crc;
};

static void on_alarm(int s) { (void)s; const char m[] = "HANG drv_iorand\n"; (void)!write(2, m, sizeof m - 1); _exit(3); }

int main(int argc, char **argv)
{
	if (argc < 4) return 2;
	FILE *in = fopen(argv[1], "r"), *out = fopen(argv[2], "w");
	if (!in || !out) return 2;
	signal(SIGALRM, on_alarm);
	long unit, pages, flen, base, nph;
	int v = 0;
	dispatch_queue_t hq = dispatch_get_global_queue(0, 0);
	while (fscanf(in, "%ld %ld %ld %ld %ld", &unit, &pages, &flen, &base, &nph) == 5) {
		alarm(60);
		_dispatch_iocntl(IOCNTL_CHUNK_PAGES, (uint64_t)pages);
		char path[512];
		snprintf(path, sizeof path, "%s/iorand.%d.%d", argv[3], (int)getpid(), v);
		int fd = open(path, O_RDWR | O_CREAT | O_TRUNC, 0600);
		if (fd < 0) { perror("open"); return 2; }
		for (long c = 1; c <= flen; c++) {
			unsigned char *b = malloc((size_t)unit);
			for (long j = 0; j < unit; j++) b[j] = cell_byte(1000 + c, j);
			if (write(fd, b, (size_t)unit) != unit) return 2;
			free(b);
		}
		lseek(fd, (off_t)(base * unit), SEEK_SET);
		__block long cleanups = 0, cerr = 0;
		int closed = 0; long curbase = base, nchan = 1; dispatch_io_t old[8]; int nold = 0;
		dispatch_semaphore_t csem = dispatch_semaphore_create(0);
		dispatch_queue_t cq = dispatch_queue_create("iorand.chq", NULL);
		dispatch_io_t ch = dispatch_io_create(DISPATCH_IO_RANDOM, fd, cq, ^(int e) {
			cleanups++; if (e) cerr = e; dispatch_semaphore_signal(csem);
		});
		if (!ch) { fprintf(stderr, "dispatch_io_create failed\n"); return 2; }
		for (long p = 1; p <= nph; p++) {
			long nops, stop, pbase;
			if (fscanf(in, "%ld %ld %ld", &nops, &stop, &pbase) != 3 || nops > MAXOPS) return 2;
			if (pbase != curbase) {
				/* the old channel stays open until the end: closing it before the new one has initialised would cancel the new one */
				lseek(fd, (off_t)(pbase * unit), SEEK_SET);
				dispatch_io_t nch = dispatch_io_create_with_io(DISPATCH_IO_RANDOM, ch, cq, ^(int e) {
					cleanups++; if (e) cerr = e; dispatch_semaphore_signal(csem);
				});
				if (!nch) { fprintf(stderr, "dispatch_io_create_with_io failed\n"); return 2; }
				old[nold++] = ch; ch = nch; nchan++; curbase = pbase;
			}
			struct opst *st = calloc((size_t)nops, sizeof *st);
			dispatch_group_t g = dispatch_group_create();
			for (long i = 0; i < nops; i++) {
				long k, off, len;
				if (fscanf(in, "%ld %ld %ld", &k, &off, &len) != 3) return 2;
				struct opst *s = &st[i];
				s->k = (int)k;
				dispatch_group_enter(g);
				if (k == 0) {
					size_t l = len == INF_LEN ? SIZE_MAX : (size_t)(len * unit);
					dispatch_io_read(ch, (off_t)(off * unit), l, hq, ^(bool done, dispatch_data_t d, int e) {
						s->calls++;
						if (s->dones) s->after_done++;
						if (d) dispatch_data_apply(d, ^bool(dispatch_data_t r, size_t o, const void *b, size_t n) {
							(void)r; (void)o;
							s->crc = crc_upd(s->crc, b, n); s->total += n; return true;
						});
						if (e) s->err = e;
						if (done) { if (!s->dones++) dispatch_group_leave(g); }
					});
				} else {
					size_t n = (size_t)(len * unit);
					unsigned char *b = malloc(n ? n : 1);
					for (long c = 1; c <= len; c++)
						for (long j = 0; j < unit; j++) b[(c - 1) * unit + j] = cell_byte(2000 + 100 * p + 10 * (i + 1) + c, j);
					/* two regions when possible: the write path walks the data object */
					dispatch_data_t d;
					if (n >= 2) {
						dispatch_data_t d1 = dispatch_data_create(b, n / 2, NULL, DISPATCH_DATA_DESTRUCTOR_DEFAULT);
						dispatch_data_t d2 = dispatch_data_create(b + n / 2, n - n / 2, NULL, DISPATCH_DATA_DESTRUCTOR_DEFAULT);
						d = dispatch_data_create_concat(d1, d2);
						dispatch_release(d1); dispatch_release(d2);
					} else {
						d = dispatch_data_create(b, n, NULL, DISPATCH_DATA_DESTRUCTOR_DEFAULT);
					}
					free(b);
					dispatch_io_write(ch, (off_t)(off * unit), d, hq, ^(bool done, dispatch_data_t rem, int e) {
						s->calls++;
						if (s->dones) s->after_done++;
						if (e) s->err = e;
						if (done) {
							/* what the handler reports as NOT written at completion */
							s->total = rem ? dispatch_data_get_size(rem) : 0;
							if (!s->dones++) dispatch_group_leave(g);
						}
					});
					dispatch_release(d);
				}
			}
			if (stop) {
				/* race the stop against the batch: sometimes at once, sometimes after a few chunks */
				if ((v + p) % 3) usleep((unsigned)((v * 37 + p * 11) % 400));
				dispatch_io_close(ch, DISPATCH_IO_STOP);
				closed = 1;
			}
			if (dispatch_group_wait(g, dispatch_time(DISPATCH_TIME_NOW, 30ll * NSEC_PER_SEC))) {
				fprintf(stderr, "HANG vector %d phase %ld\n", v, p); _exit(3);
			}
			usleep(2000);      /* a duplicate completion would arrive now */
			for (long i = 0; i < nops; i++)
				fprintf(out, "R %d %ld %ld %ld %ld %ld %ld %zu %u\n", v, p, i + 1, st[i].calls, st[i].dones,
						st[i].after_done, st[i].err, st[i].total, st[i].crc);
			/* the file as any other reader sees it */
			int fd2 = open(path, O_RDONLY);
			uint32_t c = 0; size_t tot = 0; unsigned char buf[65536]; ssize_t r;
			while ((r = read(fd2, buf, sizeof buf)) > 0) { c = crc_upd(c, buf, (size_t)r); tot += (size_t)r; }
			close(fd2);
			fprintf(out, "F %d %ld %zu %u\n", v, p, tot, c);
			/* offsets stay relative to the position AT CREATION: move the descriptor's position now */
			lseek(fd, 0, p % 2 ? SEEK_END : SEEK_SET);
			dispatch_release(g);
			free(st);
		}
		if (!closed) dispatch_io_close(ch, 0);
		dispatch_release(ch);
		for (int i = 0; i < nold; i++) { dispatch_io_close(old[i], 0); dispatch_release(old[i]); }
		for (long i = 0; i < nchan; i++) if (dispatch_semaphore_wait(csem, dispatch_time(DISPATCH_TIME_NOW, 30ll * NSEC_PER_SEC))) {
			fprintf(stderr, "HANG cleanup vector %d\n", v); _exit(3);
		}
		usleep(500);
		fprintf(out, "C %d %ld %ld %ld\n", v, cleanups, cerr, nchan);
		dispatch_release(cq);
		dispatch_release(csem);
		close(fd);
		unlink(path);
		v++;
	}
	fclose(out);
	return 0;
}
