/* Driver for property C03 (a serial target queue or workloop serialises every queue
 * targeting it): builds target-queue hierarchies on the real library - the shapes of
 * spec/MCChain.tla and larger ones - and lets several client threads run seeded random
 * programs of dispatch_async / barrier_async / sync / barrier_sync / async_and_wait /
 * barrier_async_and_wait on RANDOM queues of the hierarchy (items may resubmit to any queue
 * of the hierarchy from inside an item) under schedule perturbation injected inside the
 * library's atomicity windows.  Every API call, item start/end and every atomic access to
 * the dq_state of EVERY queue of the hierarchy is recorded in one total order.
 *
 * Oracles (the statement of C03 evaluated on the recorded order):
 *   - the bottom is serial (or a workloop): no two items of the hierarchy overlap, whatever
 *     queue and whatever API they were submitted with; a plain (non-atomic) counter bumped
 *     by every item equals the number of items (exclusion + visibility hand-off);
 *   - each serial queue delivers its own items in submission order:
 *     Ret(a) < Call(b) on the same serial queue  =>  End(a) < Start(b);
 *   - every item runs exactly once; a synchronous submission returns after its item ended;
 *   - retargeted-then-activated queues run nothing before dispatch_activate;
 *   - no hang, no crash (runtime watchdog / signal handler: exit 71 / 70).
 * The dq_state records are written as abstract DQState records tagged with the queue id;
 * tools/props/C03.py splits them per queue and validates each against spec/LaneWordTrace.tla.
 *
 * shapes: 0 serial L -> serial B          1 fan-in L1,L2,L3 -> serial B
 *         2 concurrent L (narrowed) -> serial B    3 serial L -> serial M -> serial B
 *         4 serial L -> concurrent M -> serial B   5 = 1 with the leaves created inactive
 *           with the default target, retargeted with dispatch_set_target_queue and activated
 *           while clients already submit to them
 *         6 fan-in L1 (serial), L2 (concurrent) -> workloop
 *         7 concurrent L1, serial L2 -> concurrent M -> serial B (depth 3, fan-in 2)
 *         8 serial L -> workloop           9 concurrent L -> workloop
 *        10 fan-in of three serial leaves with different QoS classes (utility / default / user-initiated:
 *           three different buckets of the workloop) -> workloop
 *        11 serial L -> serial M -> workloop
 *        12 = 10 with the workloop created inactive (dispatch_workloop_create_inactive) and activated before use
 * On a workloop the clients use dispatch_async and dispatch_async_and_wait (the dispatch_sync family is not
 * permitted on a workloop itself, only on the queues targeting it).  The workloop is registered like the lanes: every
 * access to its dq_state (projected with the numeric max_qos) and every access to its per-bucket lists
 * dwl_heads[] / dwl_tails[] ("Bk" records: bucket index, field, operation) is recorded and validated against
 * spec/WorkloopWordTrace.tla.  VERIF_SITES=1 prints each distinct site that touches the workloop once. */
#include "internal.h"
#include <pthread.h>
#include <malloc.h>
#include <signal.h>
#include "verif_rt.h"

#define MAXI 16384
#define MAXQ 8
enum { K_ASYNC, K_BASYNC, K_SYNC, K_BSYNC, K_AAW, K_BAAW };
static const char *KN[] = { "ra", "ba", "rs", "bs", "rw", "bw" };
enum { B_NONE, B_SPIN, B_CHILD };

typedef struct item {
	int id, kind, client, body, q;
	uint64_t call_seq, ret_seq, start_seq, end_seq;
	_Atomic int runs;
	int payload[4];
	int result;
} item_t;

static int NT = 3, g_execs = 10, g_ops = 30, g_shape = 0, g_pp = 1;
static uint64_t g_seed;
/* the hierarchy of the current execution */
static int g_nq;
static dispatch_queue_t g_q[MAXQ];
static int g_tgt[MAXQ];         /* index of the target, -1 = root */
static int g_w[MAXQ];           /* dq_width */
static int g_obj[MAXQ];         /* runtime object id (== index) */
static int g_islane[MAXQ];      /* 0: workloop */
static int g_inact[MAXQ];       /* created inactive in this execution */
static uint64_t g_act_seq[MAXQ];
static int g_serial_bottom;
static int g_wfix[MAXQ];        /* width per queue index, fixed for the whole run (word-level cfg) */
static int g_lanefix[MAXQ];

static item_t g_items[MAXI];
static _Atomic int g_nitems;
static pthread_barrier_t g_bar;
static _Atomic int g_fail, g_done_threads;
static long g_chain;             /* plain counter: bumped by every item when the bottom is serial */
static _Atomic int g_active;     /* items between Start and End (online form of the exclusion oracle) */
static dispatch_semaphore_t g_flush_sem;

static void oracle_fail(const char *what, long a, long b)
{
	fprintf(stderr, "ORACLE-FAIL C03 %s a=%ld b=%ld\n", what, a, b);
	atomic_store(&g_fail, 1);
}

static item_t *new_item(int kind, int client, int body, int q)
{
	int id = atomic_fetch_add(&g_nitems, 1);
	if (id >= MAXI) return NULL;
	item_t *it = &g_items[id];
	memset(it, 0, sizeof(*it));
	it->id = id; it->kind = kind; it->client = client; it->body = body; it->q = q;
	for (int k = 0; k < 4; k++) it->payload[k] = id * 7 + k;
	return it;
}

static void item_fn(void *ctxt);

static void submit(item_t *it)
{
	dispatch_queue_t q = g_q[it->q];
	it->call_seq = vrt_api("Call", g_obj[it->q], it->id, it->kind, it->q);
	/* every form of each entry point: function + context, plain block, block object with private data */
	unsigned form = (unsigned)(vrt_rand() % 10);
	if (form < 7) {
		switch (it->kind) {
		case K_ASYNC: dispatch_async_f(q, it, item_fn); break;
		case K_BASYNC: dispatch_barrier_async_f(q, it, item_fn); break;
		case K_SYNC: dispatch_sync_f(q, it, item_fn); break;
		case K_BSYNC: dispatch_barrier_sync_f(q, it, item_fn); break;
		case K_AAW: dispatch_async_and_wait_f(q, it, item_fn); break;
		case K_BAAW: dispatch_barrier_async_and_wait_f(q, it, item_fn); break;
		}
	} else {
		dispatch_block_t plain = ^{ item_fn(it); };
		dispatch_block_t made = form >= 8 ? dispatch_block_create(0, plain) : NULL, b = made ? made : plain;
		switch (it->kind) {
		case K_ASYNC: dispatch_async(q, b); break;
		case K_BASYNC: dispatch_barrier_async(q, b); break;
		case K_SYNC: dispatch_sync(q, b); break;
		case K_BSYNC: dispatch_barrier_sync(q, b); break;
		case K_AAW: dispatch_async_and_wait(q, b); break;
		case K_BAAW: dispatch_barrier_async_and_wait(q, b); break;
		}
		if (made) _Block_release(made);
	}
	it->ret_seq = vrt_api("Ret", g_obj[it->q], it->id, it->kind, it->q);
	if (it->kind >= K_SYNC) {
		if (atomic_load(&it->runs) != 1 || it->end_seq == 0) oracle_fail("synchronous submission returned before its item finished", it->id, it->kind);
		if (it->result != (it->id ^ 0x5a5a)) oracle_fail("item's writes not visible after the synchronous call returned", it->id, it->result);
	}
	vrt_progress();
}

static void item_fn(void *ctxt)
{
	item_t *it = ctxt;
	it->start_seq = vrt_api("Start", g_obj[it->q], it->id, it->kind, it->q);
	atomic_fetch_add(&it->runs, 1);
	/* online: reported even if the execution later hangs or crashes and the recorded order is never judged */
	if (atomic_fetch_add(&g_active, 1) != 0 && g_serial_bottom) oracle_fail("an item started while another item of the hierarchy was executing", it->id, it->q);
	for (int k = 0; k < 4; k++) if (it->payload[k] != it->id * 7 + k) oracle_fail("submitter's writes not visible in item", it->id, k);
	if (g_serial_bottom) g_chain++;
	switch (it->body) {
	case B_SPIN: { volatile int x = 0; int n = (int)(vrt_rand() % 2000); for (int i = 0; i < n; i++) x++; break; }
	case B_CHILD: {
		/* resubmit asynchronously to ANY queue of the hierarchy from inside an item */
		int q = (int)(vrt_rand() % (unsigned)g_nq);
		item_t *c = new_item((g_islane[q] && vrt_rand() % 4 == 0) ? K_BASYNC : K_ASYNC, it->client, B_NONE, q);
		if (c) submit(c);
		break;
	}
	default: break;
	}
	it->result = it->id ^ 0x5a5a;
	atomic_fetch_sub(&g_active, 1);
	it->end_seq = vrt_api("End", g_obj[it->q], it->id, it->kind, it->q);
}

static void *client(void *arg)
{
	long me = (long)arg;
	(void)vrt_tid();
	for (int e = 0; e < g_execs; e++) {
		pthread_barrier_wait(&g_bar);
		for (int i = 0; i < g_ops; i++) {
			unsigned k = (unsigned)(vrt_rand() % 100);
			int q = (int)(vrt_rand() % (unsigned)g_nq);
			int body = (vrt_rand() % 4 == 0) ? B_SPIN : B_NONE;
			int kind;
			if (!g_islane[q]) {
				/* a workloop takes every queue API except the dispatch_sync family: dispatch_async_and_wait instead */
				if (k < 55) kind = K_ASYNC;
				else if (k < 75) kind = K_AAW;
				else if (k < 85) kind = K_BAAW;
				else if (k < 93 && g_pp) { kind = K_ASYNC; body = B_CHILD; }
				else kind = K_ASYNC;
			}
			else if (k < 30) kind = K_ASYNC;
			else if (k < 38) kind = K_BASYNC;
			else if (k < 60) kind = K_SYNC;
			else if (k < 68) kind = K_BSYNC;
			else if (k < 76) kind = K_AAW;
			else if (k < 80) kind = K_BAAW;
			else if (k < 92 && g_pp) { kind = K_ASYNC; body = B_CHILD; }
			else kind = K_ASYNC;
			item_t *it = new_item(kind, (int)me, body, q);
			if (!it) break;
			/* a synchronous call on a queue that is still inactive blocks until main activates it */
			submit(it);
		}
		atomic_fetch_add(&g_done_threads, 1);
		pthread_barrier_wait(&g_bar);
	}
	return NULL;
}

/* ------------------------------- projection ------------------------------- */
#define MAXEV 4096
static const volatile void *g_evaddr[MAXEV];
static int g_nev;
static int ev_id(const volatile void *a, int create)
{
	for (int i = 0; i < g_nev; i++) if (g_evaddr[i] == a) return i;
	if (!create || g_nev >= MAXEV) return -1;
	g_evaddr[g_nev] = a;
	return g_nev++;
}

static int g_numqos;   /* project max_qos as its number (the workloop's word) instead of the one-bit abstraction of the lanes */
static void pabs(FILE *f, const char *k, uint64_t s, int W)
{
	int64_t wb = (int64_t)((s & DISPATCH_QUEUE_WIDTH_MASK) >> DISPATCH_QUEUE_WIDTH_SHIFT);
	int used = (int)(wb - (int64_t)(DISPATCH_QUEUE_WIDTH_FULL - (unsigned)W));
	uint64_t ow = s & DISPATCH_QUEUE_DRAIN_OWNER_MASK;
	char owner[24] = "\"null\"";
	if (ow) {
		int n = vrt_nthreads(), found = -1;
		for (int i = 0; i < n; i++) if (((uint64_t)_dispatch_lock_value_from_tid((dispatch_tid)vrt_ktid(i)) & DISPATCH_QUEUE_DRAIN_OWNER_MASK) == ow) { found = i; break; }
		snprintf(owner, sizeof(owner), "\"%d\"", found);
	}
	int odd = !!(s & (DISPATCH_QUEUE_ENQUEUED_ON_MGR | DISPATCH_QUEUE_SYNC_TRANSFER)) ||
			((s & DISPATCH_QUEUE_ROLE_MASK) == DISPATCH_QUEUE_ROLE_BASE_WLH);
	int base = (s & DISPATCH_QUEUE_ROLE_MASK) == DISPATCH_QUEUE_ROLE_BASE_ANON;
	fprintf(f, "\"%s\":{\"sc\":%d,\"side\":%s,\"inact\":%s,\"na\":%s,\"ib\":%s,\"pb\":%s,\"used\":%d,\"dirty\":%s,"
			"\"enq\":%s,\"ro\":%s,\"qos\":%d,\"owner\":%s}", k, (int)(s / DISPATCH_QUEUE_SUSPEND_INTERVAL),
			(s & DISPATCH_QUEUE_HAS_SIDE_SUSPEND_CNT) ? "true" : "false", _dq_state_is_inactive(s) ? "true" : "false",
			(s & DISPATCH_QUEUE_NEEDS_ACTIVATION) ? "true" : "false", _dq_state_is_in_barrier(s) ? "true" : "false",
			_dq_state_has_pending_barrier(s) ? "true" : "false", used, _dq_state_is_dirty(s) ? "true" : "false",
			_dq_state_is_enqueued_on_target(s) ? "true" : "false", _dq_state_received_override(s) ? "true" : "false",
			g_numqos ? (int)_dq_state_max_qos(s) : (_dq_state_max_qos(s) ? 1 : 0), owner);
	fprintf(f, ",\"base_%s\":%s", k, base ? "true" : "false");
	if (odd) fprintf(f, ",\"odd_%s\":true", k);
}

/* VERIF_SITES=1: print every distinct site (expression, function, operation) that touches the workloop, once */
static void show_site(const vrt_rec_t *r)
{
	static struct dispatch_verif_site_s *seen[512];
	static int nseen, on = -1;
	if (on < 0) on = getenv("VERIF_SITES") != NULL;
	if (!on) return;
	for (int i = 0; i < nseen; i++) if (seen[i] == r->site) return;
	if (nseen < 512) seen[nseen++] = r->site;
	fprintf(stderr, "SITE cls=%d off=%ld size=%u %s | %s | %s | %s | line %d\n", r->cls, r->off, r->size, r->site->dvs_expr,
			r->site->dvs_func, r->site->dvs_op, r->site->dvs_mo, r->site->dvs_line);
}

static void proj(FILE *f, const vrt_rec_t *r)
{
	switch (r->kind) {
	case VRT_MARK:
		/* a = queue index, b = width (0: a workloop), c = created inactive | (index of the final target + 1) << 1 (0: root) */
		fprintf(f, "{\"e\":\"%s\",\"q\":%ld,\"w\":%ld,\"lane\":%s,\"inactive\":%s,\"tq\":%ld}\n", r->name, r->a, r->b ? r->b : 1,
				r->b ? "true" : "false", (r->c & 1) ? "true" : "false", (r->c >> 1) - 1);
		break;
	case VRT_API:
	{
		int isitem = !strcmp(r->name, "Call") || !strcmp(r->name, "Ret") || !strcmp(r->name, "Start") || !strcmp(r->name, "End");
		fprintf(f, "{\"e\":\"%s\",\"t\":%d,\"i\":%ld,\"k\":\"%s\",\"q\":%ld,\"n\":%llu}\n", r->name, r->tid, r->a,
				(isitem && r->b >= 0 && r->b < 6) ? KN[r->b] : "-", r->c, (unsigned long long)r->seq);
		break;
	}
	case VRT_PROBE: {
		int id = ev_id(r->addr, 0);
		if (id < 0 || strncmp(r->name, "futex_", 6)) break;   /* only futex calls on words known to be thread events */
		fprintf(f, "{\"e\":\"Tf\",\"t\":%d,\"a\":%d,\"k\":\"%s\",\"v\":%d,\"b\":%ld}\n", r->tid, id, r->name, (int)(int32_t)r->a, r->b);
		break;
	}
	case VRT_ATOMIC:
		if (r->cls == 100) {
			/* dispatch_thread_event_t of a blocked synchronous caller (spec/ThreadEventTrace.tla) */
			fprintf(f, "{\"e\":\"Te\",\"t\":%d,\"a\":%d,\"op\":\"%s\",\"mo\":\"%s\",\"old\":%d,\"new\":%d,\"f\":\"%s\"}\n", r->tid,
					ev_id(r->addr, 1), r->site->dvs_op, r->site->dvs_mo, (int)(int32_t)r->oldv, (int)(int32_t)r->newv, r->site->dvs_func);
			break;
		}
		if (r->obj < 0 || r->obj >= MAXQ) break;
		if (!g_lanefix[r->obj]) show_site(r);
		if (r->cls == 2 && !g_lanefix[r->obj]) {
			/* per-bucket MPSC lists of the workloop: dwl_heads[b] / dwl_tails[b] (b = DISPATCH_QOS_BUCKET(qos) = qos - 1) */
			long oh = (long)offsetof(struct dispatch_workloop_s, dwl_heads), ot = (long)offsetof(struct dispatch_workloop_s, dwl_tails);
			long sz = (long)(sizeof(void *) * DISPATCH_QOS_NBUCKETS);
			const char *fld = NULL; long b = -1;
			if (r->off >= oh && r->off < oh + sz) { fld = "head"; b = (r->off - oh) / (long)sizeof(void *); }
			else if (r->off >= ot && r->off < ot + sz) { fld = "tail"; b = (r->off - ot) / (long)sizeof(void *); }
			if (!fld || !strcmp(r->site->dvs_op, "load")) break;     /* do_next of the workloop object itself; scans */
			fprintf(f, "{\"e\":\"Bk\",\"q\":%d,\"t\":%d,\"f\":\"%s\",\"op\":\"%s\",\"fld\":\"%s\",\"b\":%ld,\"ok\":%d,\"oldnull\":%s,\"newnull\":%s}\n",
					r->obj, r->tid, r->site->dvs_func, r->site->dvs_op, fld, b, r->ok, r->oldv == 0 ? "true" : "false", r->newv == 0 ? "true" : "false");
			break;
		}
		if (r->cls == 2) {
			/* item list of queue q: who made it non-empty (exchange of dq_items_tail) and when it became empty again */
			if (strstr(r->site->dvs_expr, "tail") && g_lanefix[r->obj]) {
				if (!strcmp(r->site->dvs_op, "xchg"))
					fprintf(f, "{\"e\":\"Tail\",\"q\":%d,\"t\":%d,\"f\":\"%s\",\"first\":%s,\"null\":%s}\n", r->obj, r->tid, r->site->dvs_func,
							r->oldv == 0 ? "true" : "false", r->newv == 0 ? "true" : "false");
				else if (!strcmp(r->site->dvs_op, "cmpxchg") && r->ok && r->newv == 0)
					fprintf(f, "{\"e\":\"Tail\",\"q\":%d,\"t\":%d,\"f\":\"%s\",\"first\":false,\"null\":true}\n", r->obj, r->tid, r->site->dvs_func);
			}
			break;
		}
		if (r->cls != 1) break;
		if (r->size == 4) {
			fprintf(f, "{\"e\":\"St\",\"q\":%d,\"t\":%d,\"f\":\"%s\",\"op\":\"half\",\"mo\":\"%s\",\"ok\":%d,\"line\":%d}\n", r->obj, r->tid,
					r->site->dvs_func, r->site->dvs_mo, r->ok, r->site->dvs_line);
			break;
		}
		fprintf(f, "{\"e\":\"St\",\"q\":%d,\"t\":%d,\"f\":\"%s\",\"op\":\"%s\",\"mo\":\"%s\",\"ok\":%d,\"line\":%d,", r->obj, r->tid,
				r->site->dvs_func, r->site->dvs_op, r->site->dvs_mo, r->ok, r->site->dvs_line);
		g_numqos = !g_lanefix[r->obj];
		pabs(f, "old", r->oldv, g_wfix[r->obj]); fputc(',', f); pabs(f, "new", r->newv, g_wfix[r->obj]);
		g_numqos = 0;
		fprintf(f, "}\n");
		break;
	default: break;
	}
}

/* ------------------------------- oracles ------------------------------- */
static void check_execution(int nitems)
{
	long ran = 0;
	for (int i = 0; i < nitems; i++) {
		item_t *a = &g_items[i];
		int runs = atomic_load(&a->runs);
		if (runs != 1) oracle_fail(runs == 0 ? "item never ran (stranded)" : "item ran more than once", a->id, runs);
		if (runs == 0) continue;
		ran++;
		/* retarget-then-activate: nothing of a leaf runs before dispatch_activate was called on it */
		if (g_inact[a->q] && a->start_seq < g_act_seq[a->q]) oracle_fail("item started before dispatch_activate of its queue", a->id, a->q);
	}
	if (g_serial_bottom && g_chain != ran)
		oracle_fail("items of the hierarchy raced on a plain counter (overlap or lost visibility)", g_chain, ran);
	for (int i = 0; i < nitems; i++) {
		item_t *a = &g_items[i];
		if (!atomic_load(&a->runs)) continue;
		for (int j = 0; j < nitems; j++) {
			if (i == j) continue;
			item_t *b = &g_items[j];
			if (!atomic_load(&b->runs)) continue;
			/* HierarchyExclusion: every queue reaches the serial bottom / workloop */
			if (g_serial_bottom && i < j && a->start_seq < b->end_seq && b->start_seq < a->end_seq)
				oracle_fail("two items of the hierarchy overlapped", a->id, b->id);
			/* per-serial-queue FIFO */
			if (a->q == b->q && g_islane[a->q] && g_w[a->q] == 1 &&
					a->ret_seq && a->ret_seq < b->call_seq && !(a->end_seq < b->start_seq))
				oracle_fail("serial queue of the hierarchy did not respect submission order", a->id, b->id);
		}
	}
}

static void nop(void *c) { (void)c; }
/* fingerprint of one known defect of the pinned tree (DESIGN 9 / known_findings.d/C03.json): a memory fault at
 * DISPATCH_WLH_ANON + (an offset inside struct dispatch_workloop_s), i.e. the thread's anonymous wlh
 * was dereferenced as a workloop.  Any other fault is reported as an ordinary crash. */
static void on_segv(int sig, siginfo_t *si, void *uc)
{
	(void)uc;
	uintptr_t a = (uintptr_t)si->si_addr, anon = (uintptr_t)DISPATCH_WLH_ANON;
	if (sig == SIGSEGV && (uintptr_t)(a - anon) < sizeof(struct dispatch_workloop_s)) {
		static const char m[] = "WLH-ANON-DEREF\n";
		(void)!write(2, m, sizeof(m) - 1);
	}
	vrt_fatal("Crash", sig, 70);
}
static void flush_sig(void *c) { item_fn(c); dispatch_semaphore_signal(g_flush_sem); }

static dispatch_queue_t mkq2(const char *label, int width, int inactive, dispatch_queue_t tq, unsigned qc)
{
	dispatch_queue_attr_t attr = width == 1 ? DISPATCH_QUEUE_SERIAL : DISPATCH_QUEUE_CONCURRENT;
	if (qc) attr = dispatch_queue_attr_make_with_qos_class(attr, (dispatch_qos_class_t)qc, 0);
	if (inactive) attr = dispatch_queue_attr_make_initially_inactive(attr);
	dispatch_queue_t q = tq && !inactive ? dispatch_queue_create_with_target(label, attr, tq) : dispatch_queue_create(label, attr);
	if (width > 1 && !inactive) {
		/* narrow the queue so that "no width left" / PENDING_BARRIER paths are reachable */
		dispatch_queue_set_width(q, width);
		dispatch_barrier_sync_f(q, NULL, nop);
	}
	return q;
}

static dispatch_queue_t mkq(const char *label, int width, int inactive, dispatch_queue_t tq)
{
	return mkq2(label, width, inactive, tq, 0);
}

static void add(dispatch_queue_t q, int tgt, int islane, int inact)
{
	int k = g_nq++;
	g_q[k] = q; g_tgt[k] = tgt; g_islane[k] = islane; g_inact[k] = inact; g_act_seq[k] = 0;
	g_w[k] = islane ? upcast(q)._dl->dq_width : 1;
}

/* builds the hierarchy bottom first: index 0 is the bottom */
static void build(int shape, int cw)
{
	g_nq = 0;
	dispatch_queue_t B;
	if (shape == 6 || (shape >= 8 && shape <= 12)) {
		int inact = shape == 12;
		B = inact ? (dispatch_queue_t)dispatch_workloop_create_inactive("verif.wl") : (dispatch_queue_t)dispatch_workloop_create("verif.wl");
		add(B, -1, 0, inact);
		switch (shape) {
		case 6: add(mkq("verif.L1", 1, 0, B), 0, 1, 0); add(mkq("verif.L2", cw, 0, B), 0, 1, 0); break;
		case 8: add(mkq("verif.L", 1, 0, B), 0, 1, 0); break;
		case 9: add(mkq("verif.L", cw, 0, B), 0, 1, 0); break;
		case 10: case 12:
			add(mkq2("verif.Lut", 1, 0, B, QOS_CLASS_UTILITY), 0, 1, 0);
			add(mkq("verif.Ldef", 1, 0, B), 0, 1, 0);
			add(mkq2("verif.Lin", 1, 0, B, QOS_CLASS_USER_INITIATED), 0, 1, 0);
			break;
		case 11: add(mkq("verif.M", 1, 0, B), 0, 1, 0); add(mkq("verif.L", 1, 0, g_q[1]), 1, 1, 0); break;
		}
		return;
	}
	B = mkq("verif.B", 1, 0, NULL);
	add(B, -1, 1, 0);
	switch (shape) {
	case 0: add(mkq("verif.L", 1, 0, B), 0, 1, 0); break;
	case 1: for (int k = 0; k < 3; k++) add(mkq("verif.Lk", 1, 0, B), 0, 1, 0); break;
	case 2: add(mkq("verif.L", cw, 0, B), 0, 1, 0); break;
	case 3: add(mkq("verif.M", 1, 0, B), 0, 1, 0); add(mkq("verif.L", 1, 0, g_q[1]), 1, 1, 0); break;
	case 4: add(mkq("verif.M", cw, 0, B), 0, 1, 0); add(mkq("verif.L", 1, 0, g_q[1]), 1, 1, 0); break;
	case 5: for (int k = 0; k < 2; k++) add(mkq("verif.Lk", 1, 1, NULL), 0, 1, 1); break;
	case 7: add(mkq("verif.M", cw, 0, B), 0, 1, 0); add(mkq("verif.L1", cw, 0, g_q[1]), 1, 1, 0);
		add(mkq("verif.L2", 1, 0, g_q[1]), 1, 1, 0); break;
	default: break;
	}
}

static int settled(void)
{
	for (int k = 0; k < g_nq; k++) {
		uint64_t s = *(volatile uint64_t *)&g_q[k]->dq_state;
		if ((s & DISPATCH_QUEUE_DRAIN_OWNER_MASK) || _dq_state_is_enqueued(s)) return 0;
		if (g_islane[k] && (upcast(g_q[k])._dl->dq_items_tail || upcast(g_q[k])._dl->dq_items_head)) return 0;
	}
	return 1;
}

/* A thread that pushed a synchronous waiter onto the workloop and made the word dirty must not touch the waiter's
 * context any more: the lock owner may hand the lock over and the waiter return (its context lives on its stack)
 * at once.  Holding the pusher right after that access gives a late write time to land on the reused stack
 * (finding F6: dsc_wlh_was_first was written after the publication). */
static void chain_post_steer(struct dispatch_verif_site_s *s, const volatile void *a, int obj)
{
	(void)a; (void)obj;
	if (!strcmp(s->dvs_func, "_dispatch_workloop_push_waiter") && strstr(s->dvs_expr, "dq_state") && s->dvs_op[0] == 'c')
		usleep(2000 + (unsigned)(vrt_rand() % 4000));
}

int main(int argc, char **argv)
{
	const char *out = argc > 1 ? argv[1] : "/dev/null";
	g_seed = argc > 2 ? strtoull(argv[2], NULL, 0) : 1;
	int perturb = argc > 3 ? atoi(argv[3]) : 2;
	if (argc > 4) g_execs = atoi(argv[4]);
	if (argc > 5) g_ops = atoi(argv[5]);
	if (argc > 6) g_shape = atoi(argv[6]);
	int cw = argc > 7 ? atoi(argv[7]) : 2;
	if (argc > 8) g_pp = atoi(argv[8]);
	if (argc > 9) NT = atoi(argv[9]);
	vrt_init(out, g_seed, perturb);
	if (perturb > 0) vrt_set_post_steer(chain_post_steer);
	vrt_set_projector(proj);
	vrt_add_class("dte_value", 100);     /* thread events: any address */
	vrt_set_probe_filter(0);             /* futex probes on them are recorded (and perturbed) too */
	vrt_add_class("dq_state", 1);
	vrt_add_class("dq_items_tail", 2);
	vrt_add_class("_os_mpsc_tail", 2);
	vrt_add_class("_os_mpsc_head", 2);
	vrt_add_class("dq_items_head", 2);
	vrt_add_class("do_next", 2);
	vrt_set_hang_seconds(25);
	(void)vrt_tid();
	struct sigaction sa;
	memset(&sa, 0, sizeof(sa));
	sa.sa_sigaction = on_segv; sa.sa_flags = SA_SIGINFO;
	sigaction(SIGSEGV, &sa, NULL);
	g_flush_sem = dispatch_semaphore_create(0);
	pthread_barrier_init(&g_bar, NULL, (unsigned)NT + 1);
	pthread_t th[16];
	if (NT > 16) NT = 16;
	for (long i = 0; i < NT; i++) pthread_create(&th[i], NULL, client, (void *)i);
	for (int e = 0; e < g_execs; e++) {
		vrt_pause(1);
		build(g_shape, cw);
		g_serial_bottom = 1;    /* every shape has a serial queue or a workloop at the bottom */
		vrt_unregister_all();
		for (int k = 0; k < g_nq; k++) {
			g_obj[k] = vrt_register(g_q[k], malloc_usable_size(g_q[k]), 1);
			if (e == 0) { g_wfix[k] = g_w[k]; g_lanefix[k] = g_islane[k]; }
		}
		atomic_store(&g_nitems, 0); atomic_store(&g_done_threads, 0);
		g_chain = 0;
		vrt_pause(0);
		for (int k = 0; k < g_nq; k++) vrt_mark("Reset", k, g_islane[k] ? g_w[k] : 0, g_inact[k] | ((g_tgt[k] + 1) << 1));
		if (!g_islane[0] && g_inact[0]) {
			/* a workloop created inactive: submitting to (or through) it before activation is undefined, so it is
			 * activated (recorded) before the clients are released; activating an active object has no effect */
			g_act_seq[0] = vrt_api("ActCall", g_obj[0], -1, -1, 0);
			dispatch_activate(g_q[0]);
			if (vrt_rand() % 2) dispatch_activate(g_q[0]);
			vrt_api("ActRet", g_obj[0], -1, -1, 0);
		}
		pthread_barrier_wait(&g_bar);
		if (g_shape == 5) {
			/* retarget the inactive leaves while clients already submit to them, then activate */
			for (int k = 1; k < g_nq; k++) {
				usleep(100 + (unsigned)(vrt_rand() % 1500));
				vrt_api("SetTargetCall", g_obj[k], -1, -1, k);
				dispatch_set_target_queue(g_q[k], g_q[0]);
				vrt_api("SetTargetRet", g_obj[k], -1, -1, k);
				if (vrt_rand() % 2) usleep((unsigned)(vrt_rand() % 500));
				g_act_seq[k] = vrt_api("ActCall", g_obj[k], -1, -1, k);
				dispatch_activate(g_q[k]);
				vrt_api("ActRet", g_obj[k], -1, -1, k);
			}
		}
		while (atomic_load(&g_done_threads) < NT) { usleep(200); }
		pthread_barrier_wait(&g_bar);
		/* flush every queue (leaves first) until nothing new was submitted and nothing is pending: items still
		 * running when a flush was submitted may resubmit anywhere in the hierarchy */
		int n;
		for (int round = 0; ; round++) {
			int before = atomic_load(&g_nitems);
			for (int k = g_nq - 1; k >= 0; k--) {
				if (g_islane[k]) {
					item_t *fl = new_item(K_BSYNC, NT, B_NONE, k);
					if (fl) submit(fl);
				} else {
					item_t *fl = new_item(K_ASYNC, NT, B_NONE, k);
					if (!fl) continue;
					fl->call_seq = vrt_api("Call", g_obj[k], fl->id, fl->kind, k);
					dispatch_async_f(g_q[k], fl, flush_sig);
					fl->ret_seq = vrt_api("Ret", g_obj[k], fl->id, fl->kind, k);
					dispatch_semaphore_wait(g_flush_sem, DISPATCH_TIME_FOREVER);
				}
			}
			n = atomic_load(&g_nitems); if (n > MAXI) n = MAXI;
			int pending = 0;
			for (int i = 0; i < n; i++) if (atomic_load(&g_items[i].runs) == 0) pending++;
			if ((n == before + g_nq && pending == 0) || round > 200) break;
		}
		/* every End was logged; wait until the drainers have let go of every word (bounded: a lock that is
		 * never released shows in the Quiesce check of the word-level validation and in the next execution) */
		for (int w = 0; w < 20000 && !settled(); w++) { usleep(500); if (w % 1000 == 999) vrt_progress(); }
		check_execution(n);
		for (int k = 0; k < g_nq; k++) vrt_api("Quiesce", g_obj[k], -1, -1, k);
		vrt_pause(1);
		for (int k = g_nq - 1; k >= 0; k--) dispatch_release(g_q[k]);   /* _dispatch_lane_class_dispose crashes if a word is not idle */
		vrt_pause(0);
		vrt_progress();
	}
	for (int i = 0; i < NT; i++) pthread_join(th[i], NULL);
	vrt_dump();
	fprintf(stderr, "records=%zu overflow=%d threads=%d nq=%d widths=", vrt_count(), vrt_overflowed(), vrt_nthreads(), g_nq);
	for (int k = 0; k < g_nq; k++) fprintf(stderr, "%d%s", g_wfix[k], k + 1 < g_nq ? "," : "\n");
	return atomic_load(&g_fail) ? 2 : 0;
}
