/* Driver for C20 (data transforms).
 *
 *   drv_transform replay <vectors.in> <results.out>
 *       Replays spec-generated vectors (spec/Transform.tla) on the real
 *       dispatch_data_create_with_transform.  One vector per input line:
 *           <id> <flags> <fin> <fout> <nregions> <hex> <hex> ...
 *       The data object is built with EXACTLY that fragmentation (one
 *       dispatch_data_create per region, dispatch_data_create_concat, checked with
 *       dispatch_data_apply).  Output line:  <id> <st> <size> <hex|-> <inv>
 *           st: N (NULL) R (result) A (absurd size, never read) X (crashed; forked vectors only)
 *               G (fragmentation could not be established)
 *           inv: 1/0 = inverse transform accepted / rejected the real result, a = absurd, - = n/a
 *       flags: F = run the vector in a forked child (vectors the spec predicts to be unsafe
 *       under a known defect), - = in process.  Comparison with the spec's expectation is done
 *       by tools/props/C20.py (the expectation comes from TLC).
 *
 *   drv_transform random <seed> <iters> <maxlen> <out> [fork]
 *       Evaluates the LAWS of spec/Transform.tla (not a second implementation) on seeded random
 *       inputs with random fragmentation: fragmentation independence, encode/decode round trip,
 *       whitespace independence of decoders, composition, "NULL or the inverse accepts".
 *       A failing case is shrunk (delta debugging on items and cuts) and written as one JSON
 *       line; C20.py lets TLC classify the shrunk witness against the spec's named defects.
 *
 * Formats: 0 NONE 1 BASE32 2 BASE32HEX 3 BASE64 4 UTF8 5 UTF16LE 6 UTF16BE 7 UTF_ANY
 */
#define _GNU_SOURCE
#include "internal.h"
#include <sys/wait.h>
#include <sys/mman.h>

#define MAXREG 64
static dispatch_data_format_type_t FMT(int i)
{
	switch (i) {
	case 0: return DISPATCH_DATA_FORMAT_TYPE_NONE;
	case 1: return DISPATCH_DATA_FORMAT_TYPE_BASE32;
	case 2: return DISPATCH_DATA_FORMAT_TYPE_BASE32HEX;
	case 3: return DISPATCH_DATA_FORMAT_TYPE_BASE64;
	case 4: return DISPATCH_DATA_FORMAT_TYPE_UTF8;
	case 5: return DISPATCH_DATA_FORMAT_TYPE_UTF16LE;
	case 6: return DISPATCH_DATA_FORMAT_TYPE_UTF16BE;
	default: return DISPATCH_DATA_FORMAT_TYPE_UTF_ANY;
	}
}

typedef struct { uint8_t *p; size_t n; } bytes_t;
typedef struct { int st; /* 'N','R','A' */ size_t size; bytes_t b; } res_t;

static void *xmalloc(size_t n) { void *p = malloc(n ? n : 1); if (!p) { perror("malloc"); exit(3); } return p; }

/* ---- building a data object with an exact fragmentation ---- */
struct geo { const bytes_t *regs; int n, k; int bad; };

static dispatch_data_t make_data(const bytes_t *regs, int n)
{
	dispatch_data_t d = dispatch_data_empty;
	for (int i = 0; i < n; i++) {
		/* DESTRUCTOR_DEFAULT copies into a fresh exact-size allocation: the sanitizer build
		 * sees every region as its own heap object */
		dispatch_data_t r = dispatch_data_create(regs[i].p, regs[i].n, NULL, DISPATCH_DATA_DESTRUCTOR_DEFAULT);
		dispatch_data_t c = dispatch_data_create_concat(d, r);
		dispatch_release(r);
		dispatch_release(d);
		d = c;
	}
	/* check the fragmentation is exactly as intended */
	__block int k = 0, bad = 0;
	__block size_t off = 0;
	dispatch_data_apply(d, ^bool(dispatch_data_t rg, size_t o, const void *buf, size_t sz) {
		(void)rg;
		if (k >= n || sz != regs[k].n || o != off || memcmp(buf, regs[k].p, sz) != 0) { bad = 1; return false; }
		off += sz; k++;
		return true;
	});
	if (bad || k != n) { dispatch_release(d); return NULL; }
	return d;
}

/* ---- reading a result defensively: an absurd object is never dereferenced ---- */
static res_t read_result(dispatch_data_t d, size_t bound)
{
	res_t r = { 'R', 0, { NULL, 0 } };
	if (d == NULL) { r.st = 'N'; return r; }
	size_t sz = dispatch_data_get_size(d);
	r.size = sz;
	if (sz > bound) { r.st = 'A'; return r; }
	uint8_t *buf = xmalloc(sz + 1);
	__block size_t got = 0;
	__block int absurd = 0;
	dispatch_data_apply(d, ^bool(dispatch_data_t rg, size_t o, const void *p, size_t n) {
		(void)rg; (void)o;
		if (n > bound || got + n > sz) { absurd = 1; return false; }
		memcpy(buf + got, p, n); got += n;
		return true;
	});
	if (absurd || got != sz) { free(buf); r.st = 'A'; return r; }
	r.b.p = buf; r.b.n = sz;
	return r;
}

static size_t out_bound(size_t insz) { return insz * 8 + 64; }

static int inverse_of(int fin, int fout, int *ifin, int *ifout)
{
	if (fin == 7 || fout == 7) return 0;
	*ifin = fout; *ifout = fin;
	return 1;
}

static int family(int f) { return f <= 3 ? 0 : 1; }
static int compatible(int fin, int fout) { return fout != 7 && family(fin) == family(fout); }

/* run T on an existing object; consumes nothing */
static dispatch_data_t xform(dispatch_data_t d, int fin, int fout)
{
	return dispatch_data_create_with_transform(d, FMT(fin), FMT(fout));
}

static void release_result(dispatch_data_t in, dispatch_data_t out)
{
	/* a zero-sized input is returned as is (not retained) */
	if (out && out != in) dispatch_release(out);
}

/* one vector: result + inverse acceptance */
static void run_vector(const bytes_t *regs, int n, int fin, int fout, res_t *res, char *inv)
{
	size_t insz = 0;
	for (int i = 0; i < n; i++) insz += regs[i].n;
	*inv = '-';
	dispatch_data_t d = make_data(regs, n);
	if (d == NULL) { res->st = 'G'; res->size = 0; res->b.p = NULL; res->b.n = 0; return; }
	dispatch_data_t t = xform(d, fin, fout);
	*res = read_result(t, out_bound(insz));
	int ifin, ifout;
	if (res->st == 'R' && inverse_of(fin, fout, &ifin, &ifout) && compatible(fin, fout)) {
		dispatch_data_t u = xform(t, ifin, ifout);
		res_t ir = read_result(u, out_bound(res->size));
		*inv = ir.st == 'N' ? '0' : ir.st == 'A' ? 'a' : '1';
		free(ir.b.p);
		release_result(t, u);
	}
	release_result(d, t);
	dispatch_release(d);
}

static int hexval(int c) { return c <= '9' ? c - '0' : (c | 32) - 'a' + 10; }
static bytes_t parse_hex(const char *s)
{
	bytes_t b; size_t l = strlen(s);
	if (l == 1 && s[0] == '-') l = 0;
	b.n = l / 2; b.p = xmalloc(b.n);
	for (size_t i = 0; i < b.n; i++) b.p[i] = (uint8_t)(hexval(s[2*i]) * 16 + hexval(s[2*i+1]));
	return b;
}
static void put_hex(FILE *f, const uint8_t *p, size_t n)
{
	if (n == 0) { fputc('-', f); return; }
	for (size_t i = 0; i < n; i++) fprintf(f, "%02x", p[i]);
}

static int do_replay(const char *in, const char *out)
{
	FILE *fi = fopen(in, "r"), *fo = fopen(out, "w");
	if (!fi || !fo) { perror("open"); return 3; }
	/* read everything before the first fork: a child must not share an input position with us */
	char *all = NULL; size_t alln = 0, allcap = 0;
	for (;;) {
		if (alln + 65536 + 1 > allcap) { allcap = allcap ? allcap * 2 : 1 << 20; all = realloc(all, allcap); if (!all) return 3; }
		size_t k = fread(all + alln, 1, 65536, fi);
		if (k == 0) break;
		alln += k;
	}
	all[alln] = 0;
	fclose(fi);
	int ncrash = 0;
	char *lsave = NULL;
	for (char *line = strtok_r(all, "\n", &lsave); line; line = strtok_r(NULL, "\n", &lsave)) {
		char *save = NULL;
		char *tok = strtok_r(line, " \n", &save);
		if (!tok) continue;
		char id[64]; snprintf(id, sizeof id, "%s", tok);
		char *flags = strtok_r(NULL, " \n", &save);
		int fin = atoi(strtok_r(NULL, " \n", &save));
		int fout = atoi(strtok_r(NULL, " \n", &save));
		int n = atoi(strtok_r(NULL, " \n", &save));
		bytes_t regs[MAXREG];
		if (n > MAXREG) { fprintf(stderr, "too many regions\n"); return 3; }
		for (int i = 0; i < n; i++) regs[i] = parse_hex(strtok_r(NULL, " \n", &save));
		res_t r; char inv;
		if (flags[0] == 'F') {
			fflush(fo);
			int pfd[2];
			if (pipe(pfd)) { perror("pipe"); return 3; }
			pid_t pid = fork();
			if (pid == 0) {
				close(pfd[0]);
				FILE *pw = fdopen(pfd[1], "w");
				if (ncrash >= 5) { int fd = open("/dev/null", O_WRONLY); dup2(fd, 2); }
				run_vector(regs, n, fin, fout, &r, &inv);
				fprintf(pw, "%s %c %zu ", id, r.st, r.size);
				if (r.st == 'R') put_hex(pw, r.b.p, r.b.n); else fputc('-', pw);
				fprintf(pw, " %c\n", inv);
				fflush(pw);
				_exit(0);
			}
			close(pfd[1]);
			char buf[1 << 16]; size_t got = 0; ssize_t k;
			while ((k = read(pfd[0], buf + got, sizeof buf - 1 - got)) > 0) got += (size_t)k;
			buf[got] = 0; close(pfd[0]);
			int status = 0; waitpid(pid, &status, 0);
			if (WIFEXITED(status) && WEXITSTATUS(status) == 0 && got > 0 && buf[got-1] == '\n') fputs(buf, fo);
			else { ncrash++; fprintf(fo, "%s X %d - -\n", id, WIFSIGNALED(status) ? 1000 + WTERMSIG(status) : WEXITSTATUS(status)); }
		} else {
			run_vector(regs, n, fin, fout, &r, &inv);
			fprintf(fo, "%s %c %zu ", id, r.st, r.size);
			if (r.st == 'R') put_hex(fo, r.b.p, r.b.n); else fputc('-', fo);
			fprintf(fo, " %c\n", inv);
			free(r.b.p);
		}
		fflush(fo);
		for (int i = 0; i < n; i++) free(regs[i].p);
	}
	fclose(fo);
	return 0;
}

/* ================= random law oracle ================= */
static uint64_t g_rng;
static uint64_t rnd(void)
{
	uint64_t z = (g_rng += 0x9e3779b97f4a7c15ull);
	z = (z ^ (z >> 30)) * 0xbf58476d1ce4e5b9ull;
	z = (z ^ (z >> 27)) * 0x94d049bb133111ebull;
	return z ^ (z >> 31);
}
static uint32_t rndn(uint32_t n) { return n ? (uint32_t)(rnd() % n) : 0; }

/* a case: items (indivisible for shrinking: one byte, or one encoded code point), cut marks
 * (byte offsets where a new region starts), a predicate and its formats */
enum { P_FRAG, P_RT, P_WS, P_INV, P_COMP, P_ANY, P_RTUTF, P_NPRED };
static const char *PN[] = { "frag", "roundtrip", "whitespace", "inverse", "compose", "utfany", "roundtrip_utf" };

typedef struct {
	int pred, fin, fout, fmid;
	int nitems; bytes_t *items;
	uint8_t *cut;       /* cut[k]=1: a region boundary before byte offset k (k in 1..len-1) */
	size_t len;
} case_t;

static size_t case_flat(const case_t *c, uint8_t *buf)
{
	size_t o = 0;
	for (int i = 0; i < c->nitems; i++) { memcpy(buf + o, c->items[i].p, c->items[i].n); o += c->items[i].n; }
	return o;
}
static int case_regions(const case_t *c, const uint8_t *flat, size_t len, bytes_t *regs)
{
	int n = 0; size_t start = 0;
	if (len == 0) return 0;
	for (size_t k = 1; k <= len; k++) {
		if (k == len || (c->cut[k] && n < MAXREG - 1)) {
			regs[n].p = (uint8_t *)flat + start; regs[n].n = k - start; n++; start = k;
		}
	}
	return n;
}

/* results of UTF transforms are compared modulo leading byte-order marks (spec: Norm) */
static size_t bom_prefix(const uint8_t *p, size_t n, int fout)
{
	size_t o = 0;
	if (fout == 4) while (n - o >= 3 && p[o] == 0xef && p[o+1] == 0xbb && p[o+2] == 0xbf) o += 3;
	else if (fout == 5) while (n - o >= 2 && p[o] == 0xff && p[o+1] == 0xfe) o += 2;
	else if (fout == 6) while (n - o >= 2 && p[o] == 0xfe && p[o+1] == 0xff) o += 2;
	return o;
}
static int same(const res_t *a, const res_t *b, int fout)
{
	if (a->st != b->st) return 0;
	if (a->st != 'R') return a->st == 'N';
	size_t oa = bom_prefix(a->b.p, a->b.n, fout), ob = bom_prefix(b->b.p, b->b.n, fout);
	return a->b.n - oa == b->b.n - ob && memcmp(a->b.p + oa, b->b.p + ob, a->b.n - oa) == 0;
}
static res_t T(const bytes_t *regs, int n, int fin, int fout, dispatch_data_t *keep)
{
	size_t insz = 0;
	for (int i = 0; i < n; i++) insz += regs[i].n;
	dispatch_data_t d = make_data(regs, n);
	res_t r = { 'G', 0, { NULL, 0 } };
	if (!d) return r;
	dispatch_data_t t = xform(d, fin, fout);
	r = read_result(t, out_bound(insz));
	if (keep && r.st == 'R') { *keep = t; if (t == d) dispatch_retain(t); }
	else release_result(d, t);
	dispatch_release(d);
	return r;
}
static size_t strip_boms(const uint8_t *p, size_t n)
{
	size_t o = 0;
	while (n - o >= 3 && p[o] == 0xef && p[o+1] == 0xbb && p[o+2] == 0xbf) o += 3;
	return o;
}

static char g_detail[256];
/* returns 1 if the law is VIOLATED on this case */
static int pred_eval(const case_t *c)
{
	uint8_t *flat = xmalloc(c->len + 1);
	size_t len = case_flat(c, flat);
	bytes_t regs[MAXREG]; int n = case_regions(c, flat, len, regs);
	bytes_t one = { flat, len };
	int bad = 0;
	g_detail[0] = 0;
	switch (c->pred) {
	case P_FRAG: {   /* T(regions) = T(<<flat>>) */
		res_t a = T(regs, n, c->fin, c->fout, NULL), b = T(&one, len ? 1 : 0, c->fin, c->fout, NULL);
		if (a.st == 'A' || b.st == 'A') { bad = 1; snprintf(g_detail, sizeof g_detail, "absurd result size %zu", a.st == 'A' ? a.size : b.size); }
		else if (!same(&a, &b, c->fout)) { bad = 1; snprintf(g_detail, sizeof g_detail, "fragmented %c/%zu vs single region %c/%zu", a.st, a.size, b.st, b.size); }
		free(a.b.p); free(b.b.p);
		break; }
	case P_RT: {     /* Dec(<<Enc(<<x>>)>>) = x   (fin = codec) */
		res_t e = T(&one, len ? 1 : 0, 0, c->fin, NULL);
		if (e.st != 'R') { bad = 1; snprintf(g_detail, sizeof g_detail, "encode gives %c size %zu", e.st, e.size); free(e.b.p); break; }
		res_t d = T(&e.b, e.b.n ? 1 : 0, c->fin, 0, NULL);
		if (d.st != 'R' || d.b.n != len || memcmp(d.b.p, flat, len)) { bad = 1; snprintf(g_detail, sizeof g_detail, "decode(encode(x)) gives %c size %zu, |x|=%zu", d.st, d.size, len); }
		free(e.b.p); free(d.b.p);
		break; }
	case P_WS: {     /* Dec(regions) = Dec(<<flat without whitespace>>) */
		uint8_t *nw = xmalloc(len + 1); size_t m = 0;
		for (size_t i = 0; i < len; i++) if (flat[i] != '\n' && flat[i] != '\t' && flat[i] != ' ') nw[m++] = flat[i];
		bytes_t o2 = { nw, m };
		res_t a = T(regs, n, c->fin, c->fout, NULL), b = T(&o2, m ? 1 : 0, c->fin, c->fout, NULL);
		if (a.st == 'A' || b.st == 'A') { bad = 1; snprintf(g_detail, sizeof g_detail, "absurd result size"); }
		else if (!same(&a, &b, c->fout)) { bad = 1; snprintf(g_detail, sizeof g_detail, "with whitespace %c/%zu vs without %c/%zu", a.st, a.size, b.st, b.size); }
		free(a.b.p); free(b.b.p); free(nw);
		break; }
	case P_INV: {    /* T(regions) is NULL, or sane and accepted by the inverse */
		dispatch_data_t t = NULL;
		res_t a = T(regs, n, c->fin, c->fout, &t);
		if (a.st == 'A') { bad = 1; snprintf(g_detail, sizeof g_detail, "absurd result size %zu", a.size); }
		else if (a.st == 'R') {
			dispatch_data_t u = xform(t, c->fout, c->fin);
			res_t ir = read_result(u, out_bound(a.size));
			if (ir.st != 'R') { bad = 1; snprintf(g_detail, sizeof g_detail, "result of size %zu: inverse gives %c", a.size, ir.st); }
			free(ir.b.p);
			release_result(t, u);
		}
		if (t) dispatch_release(t);
		free(a.b.p);
		break; }
	case P_COMP: {   /* T(a->b)(regions) = T(m->b)(T(a->m)(regions))   m = NONE or UTF8 */
		res_t a = T(regs, n, c->fin, c->fout, NULL);
		dispatch_data_t t = NULL;
		res_t m = T(regs, n, c->fin, c->fmid, &t);
		res_t b = { 'N', 0, { NULL, 0 } };
		if (m.st == 'A' || a.st == 'A') { bad = 1; snprintf(g_detail, sizeof g_detail, "absurd result size"); }
		else {
			if (m.st == 'R') {
				dispatch_data_t u = xform(t, c->fmid, c->fout);
				b = read_result(u, out_bound(m.size));
				release_result(t, u);
			}
			if (b.st == 'A' || !same(&a, &b, c->fout)) { bad = 1; snprintf(g_detail, sizeof g_detail, "direct %c/%zu vs two steps %c/%zu", a.st, a.size, b.st, b.size); }
		}
		if (t) dispatch_release(t);
		free(a.b.p); free(m.b.p); free(b.b.p);
		break; }
	case P_ANY: {    /* T(UTF_ANY->out) = T(detected->out); detection rule of the spec: BOM FF FE -> LE,
	                  * FE FF -> BE, otherwise UTF-8; fewer than 2 bytes -> NULL */
		res_t a = T(regs, n, 7, c->fout, NULL);
		if (len < 2) { if (a.st != 'N') { bad = 1; snprintf(g_detail, sizeof g_detail, "UTF_ANY on %zu bytes gives %c", len, a.st); } free(a.b.p); break; }
		int det = (flat[0] == 0xff && flat[1] == 0xfe) ? 5 : (flat[0] == 0xfe && flat[1] == 0xff) ? 6 : 4;
		res_t b = T(regs, n, det, c->fout, NULL);
		if (a.st == 'A' || !same(&a, &b, c->fout)) { bad = 1; snprintf(g_detail, sizeof g_detail, "UTF_ANY %c/%zu vs explicit(%d) %c/%zu", a.st, a.size, det, b.st, b.size); }
		free(a.b.p); free(b.b.p);
		break; }
	case P_RTUTF: {  /* well-formed UTF-8 x: from16(<<to16(<<x>>)>>) = x modulo leading BOMs; fout = UTF16 flavour */
		res_t e = T(&one, len ? 1 : 0, 4, c->fout, NULL);
		if (e.st != 'R') { bad = 1; snprintf(g_detail, sizeof g_detail, "to UTF-16 gives %c size %zu", e.st, e.size); free(e.b.p); break; }
		res_t d = T(&e.b, e.b.n ? 1 : 0, c->fout, 4, NULL);
		if (d.st != 'R') { bad = 1; snprintf(g_detail, sizeof g_detail, "back to UTF-8 gives %c size %zu", d.st, d.size); }
		else {
			size_t o1 = strip_boms(flat, len), o2 = strip_boms(d.b.p, d.b.n);
			if (len - o1 != d.b.n - o2 || memcmp(flat + o1, d.b.p + o2, len - o1)) { bad = 1; snprintf(g_detail, sizeof g_detail, "round trip differs (|x|=%zu, got %zu)", len, d.b.n); }
		}
		free(e.b.p); free(d.b.p);
		break; }
	}
	free(flat);
	return bad;
}

static int g_forkeval;
/* 0 holds, 1 violated, 2 crashed */
static int pred_run(const case_t *c)
{
	if (!g_forkeval) return pred_eval(c);
	fflush(NULL);
	pid_t pid = fork();
	if (pid == 0) { int fd = open("/dev/null", O_WRONLY); dup2(fd, 2); _exit(pred_eval(c) ? 1 : 0); }
	int status = 0; waitpid(pid, &status, 0);
	if (WIFEXITED(status) && WEXITSTATUS(status) <= 1) return WEXITSTATUS(status);
	return 2;
}

static case_t case_clone(const case_t *c)
{
	case_t d = *c;
	d.items = xmalloc(sizeof(bytes_t) * (size_t)(c->nitems + 1));
	memcpy(d.items, c->items, sizeof(bytes_t) * (size_t)c->nitems);
	d.cut = xmalloc(c->len + 2);
	memcpy(d.cut, c->cut, c->len + 1);
	return d;
}
static void case_free(case_t *c) { free(c->items); free(c->cut); }

/* delete items [a, b) */
static case_t case_delete(const case_t *c, int a, int b)
{
	case_t d = *c;
	d.items = xmalloc(sizeof(bytes_t) * (size_t)(c->nitems + 1));
	d.cut = xmalloc(c->len + 2);
	memset(d.cut, 0, c->len + 2);
	size_t off = 0, noff = 0; int k = 0;
	for (int i = 0; i < c->nitems; i++) {
		size_t n = c->items[i].n;
		if (i >= a && i < b) {
			/* cuts inside the deleted range collapse onto its start */
			for (size_t j = 0; j < n; j++) if (off + j < c->len && c->cut[off + j] && noff > 0) d.cut[noff] = 1;
		} else {
			for (size_t j = 0; j < n; j++) if (c->cut[off + j] && noff + j > 0) d.cut[noff + j] = 1;
			d.items[k++] = c->items[i]; noff += n;
		}
		off += n;
	}
	d.nitems = k; d.len = noff;
	if (noff < c->len + 2) d.cut[noff] = 0;
	d.cut[0] = 0;
	return d;
}

static void shrink(case_t *c, int want, int budget)
{
	int progress = 1;
	while (progress && budget > 0) {
		progress = 0;
		for (int chunk = c->nitems > 1 ? c->nitems / 2 : 1; chunk >= 1 && budget > 0; chunk /= 2) {
			for (int a = 0; a + chunk <= c->nitems && budget > 0; ) {
				case_t d = case_delete(c, a, a + chunk);
				budget--;
				if (pred_run(&d) == want) { case_free(c); *c = d; progress = 1; }
				else { case_free(&d); a += chunk; }
			}
			if (chunk == 1) break;
		}
		for (size_t k = 1; k < c->len && budget > 0; k++) {
			if (!c->cut[k]) continue;
			c->cut[k] = 0; budget--;
			if (pred_run(c) == want) progress = 1; else c->cut[k] = 1;
		}
	}
}

static void report(FILE *fo, const case_t *c, int verdict, uint64_t iter)
{
	uint8_t *flat = xmalloc(c->len + 1);
	size_t len = case_flat(c, flat);
	bytes_t regs[MAXREG]; int n = case_regions(c, flat, len, regs);
	if (verdict == 1) pred_run(c); /* refresh detail (in-process only) */
	fprintf(fo, "{\"kind\":\"%s\",\"pred\":\"%s\",\"fin\":%d,\"fout\":%d,\"fmid\":%d,\"iter\":%llu,\"regions\":[",
		verdict == 2 ? "crash" : "fail", PN[c->pred], c->fin, c->fout, c->fmid, (unsigned long long)iter);
	for (int i = 0; i < n; i++) {
		fprintf(fo, "%s\"", i ? "," : "");
		for (size_t j = 0; j < regs[i].n; j++) fprintf(fo, "%02x", regs[i].p[j]);
		fputc('"', fo);
	}
	fprintf(fo, "],\"detail\":\"%s\"}\n", (verdict == 1 && !g_forkeval) ? g_detail : "");
	fflush(fo);
	free(flat);
}

/* ---- generators ---- */
static size_t pick_len(size_t maxlen)
{
	uint32_t r = rndn(100);
	if (r < 45) return rndn(12);
	if (r < 80) return rndn(80);
	if (r < 95) return rndn(maxlen > 600 ? 600 : (uint32_t)maxlen + 1);
	return rndn((uint32_t)maxlen + 1);
}
static void random_cuts(case_t *c)
{
	c->cut = xmalloc(c->len + 2);
	memset(c->cut, 0, c->len + 2);
	if (c->len < 2) return;
	uint32_t mode = rndn(4);
	int ncut = mode == 0 ? 1 : mode == 1 ? 2 : mode == 2 ? (int)rndn(8) : (int)rndn(MAXREG - 2);
	for (int i = 0; i < ncut; i++) {
		size_t k = 1 + rndn((uint32_t)c->len - 1);
		/* favour cuts near the end (padding groups) */
		if (rndn(4) == 0) { size_t back = 1 + rndn(9); k = c->len > back ? c->len - back : 1; }
		c->cut[k] = 1;
	}
}
static bytes_t one_byte(uint8_t v) { bytes_t b; b.p = xmalloc(1); b.p[0] = v; b.n = 1; return b; }
static bytes_t utf8_of(uint32_t cp)
{
	bytes_t b; b.p = xmalloc(4);
	if (cp < 0x80) { b.p[0] = (uint8_t)cp; b.n = 1; }
	else if (cp < 0x800) { b.p[0] = (uint8_t)(0xc0 | (cp >> 6)); b.p[1] = (uint8_t)(0x80 | (cp & 0x3f)); b.n = 2; }
	else if (cp < 0x10000) { b.p[0] = (uint8_t)(0xe0 | (cp >> 12)); b.p[1] = (uint8_t)(0x80 | ((cp >> 6) & 0x3f)); b.p[2] = (uint8_t)(0x80 | (cp & 0x3f)); b.n = 3; }
	else { b.p[0] = (uint8_t)(0xf0 | (cp >> 18)); b.p[1] = (uint8_t)(0x80 | ((cp >> 12) & 0x3f)); b.p[2] = (uint8_t)(0x80 | ((cp >> 6) & 0x3f)); b.p[3] = (uint8_t)(0x80 | (cp & 0x3f)); b.n = 4; }
	return b;
}
static uint32_t random_cp(void)
{
	static const uint32_t edge[] = { 0, 0x7f, 0x80, 0x7ff, 0x800, 0xd7ff, 0xe000, 0xfeff, 0xfffe, 0xffff, 0x10000, 0x10ffff, 0xfffd, 0x1f600 };
	uint32_t r = rndn(100);
	if (r < 40) return 0x20 + rndn(0x5f);
	if (r < 55) return 0x80 + rndn(0x780);
	if (r < 70) { uint32_t c = 0x800 + rndn(0xf800); return (c >= 0xd800 && c <= 0xdfff) ? 0x20ac : c; }
	if (r < 85) return 0x10000 + rndn(0x100000);
	return edge[rndn(sizeof edge / sizeof *edge)];
}

static case_t gen_bytes(size_t maxlen)
{
	case_t c; memset(&c, 0, sizeof c);
	size_t n = pick_len(maxlen);
	c.items = xmalloc(sizeof(bytes_t) * (n + 1));
	uint32_t mode = rndn(3);
	for (size_t i = 0; i < n; i++) c.items[i] = one_byte(mode == 0 ? (uint8_t)rnd() : mode == 1 ? (uint8_t)(rndn(4) ? 0 : 0xff) : (uint8_t)(0x20 + rndn(0x60)));
	c.nitems = (int)n; c.len = n;
	random_cuts(&c);
	return c;
}
/* take flat bytes as single-byte items */
static case_t case_of_bytes(const uint8_t *p, size_t n)
{
	case_t c; memset(&c, 0, sizeof c);
	c.items = xmalloc(sizeof(bytes_t) * (n + 1));
	for (size_t i = 0; i < n; i++) c.items[i] = one_byte(p[i]);
	c.nitems = (int)n; c.len = n;
	random_cuts(&c);
	return c;
}
static case_t gen_utf8(size_t maxlen, int wellformed)
{
	case_t c; memset(&c, 0, sizeof c);
	size_t n = pick_len(maxlen / 2);
	c.items = xmalloc(sizeof(bytes_t) * (n + 2));
	size_t len = 0; int k = 0;
	if (rndn(5) == 0) { c.items[k] = utf8_of(0xfeff); len += 3; k++; }
	for (size_t i = 0; i < n; i++) {
		if (!wellformed && rndn(6) == 0) {
			static const uint8_t junk[] = { 0x80, 0xbf, 0xc0, 0xc3, 0xe2, 0xed, 0xf0, 0xf4, 0xf8, 0xff, 0xa0, 0xed };
			c.items[k] = one_byte(junk[rndn(sizeof junk)]);
		} else if (!wellformed && rndn(12) == 0) {
			/* encoded surrogate */
			bytes_t b; b.p = xmalloc(3); uint32_t cp = 0xd800 + rndn(0x800); if (rndn(3) == 0) cp = 0xdfff;
			b.p[0] = (uint8_t)(0xe0 | (cp >> 12)); b.p[1] = (uint8_t)(0x80 | ((cp >> 6) & 0x3f)); b.p[2] = (uint8_t)(0x80 | (cp & 0x3f)); b.n = 3;
			c.items[k] = b;
		} else c.items[k] = utf8_of(random_cp());
		len += c.items[k].n; k++;
	}
	c.nitems = k; c.len = len;
	random_cuts(&c);
	return c;
}
static case_t gen_utf16(size_t maxlen, int be)
{
	case_t c; memset(&c, 0, sizeof c);
	size_t n = pick_len(maxlen / 2);
	c.items = xmalloc(sizeof(bytes_t) * (n + 2));
	size_t len = 0; int k = 0;
	for (size_t i = 0; i < n; i++) {
		uint32_t r = rndn(20);
		uint16_t u[2]; int nu = 1;
		if (r == 0) u[0] = (uint16_t)(0xd800 + rndn(0x800));                 /* lone surrogate */
		else if (r < 5) { uint32_t cp = 0x10000 + rndn(0x100000) - 0x10000; u[0] = (uint16_t)(0xd800 + (cp >> 10)); u[1] = (uint16_t)(0xdc00 + (cp & 0x3ff)); nu = 2; }
		else if (r == 5) u[0] = rndn(2) ? 0xfeff : 0xfffe;
		else { uint32_t cp = random_cp(); if (cp >= 0x10000) cp = 0x41; u[0] = (uint16_t)cp; }
		bytes_t b; b.p = xmalloc(4); b.n = (size_t)nu * 2;
		for (int j = 0; j < nu; j++) { b.p[2*j] = be ? (uint8_t)(u[j] >> 8) : (uint8_t)u[j]; b.p[2*j+1] = be ? (uint8_t)u[j] : (uint8_t)(u[j] >> 8); }
		if (rndn(60) == 0) b.n -= 1;  /* odd total size */
		c.items[k] = b; len += b.n; k++;
	}
	c.nitems = k; c.len = len;
	random_cuts(&c);
	return c;
}
static case_t gen_basetext(size_t maxlen, int codec)
{
	static const char *alpha[] = { "", "ABCDEFGHIJKLMNOPQRSTUVWXYZ234567", "0123456789ABCDEFGHIJKLMNOPQRSTUV",
		"ABCDEFGHIJKLMNOPQRSTUVWXYZabcdefghijklmnopqrstuvwxyz0123456789+/" };
	case_t c; memset(&c, 0, sizeof c);
	size_t n = pick_len(maxlen);
	c.items = xmalloc(sizeof(bytes_t) * (n + 1));
	size_t al = strlen(alpha[codec]);
	for (size_t i = 0; i < n; i++) {
		uint32_t r = rndn(40);
		uint8_t v = r < 30 ? (uint8_t)alpha[codec][rndn((uint32_t)al)] : r < 35 ? '=' : r < 38 ? (uint8_t)"\n\t "[rndn(3)] : r == 38 ? (uint8_t)rnd() : 'a';
		if (i + 8 >= n && rndn(3)) v = '=';
		c.items[i] = one_byte(v);
	}
	c.nitems = (int)n; c.len = n;
	random_cuts(&c);
	return c;
}

static uint64_t g_cases, g_evals;
static FILE *g_fo;
static uint64_t g_iter;
static int g_nfail;

static void check(case_t *c)
{
	g_evals++;
	int v = pred_run(c);
	if (v == 0) return;
	g_nfail++;
	case_t s = case_clone(c);
	if (g_nfail <= 400) shrink(&s, v, v == 2 ? 600 : 4000);
	report(g_fo, &s, v, g_iter);
	case_free(&s);
}

static void with(case_t *c, int pred, int fin, int fout, int fmid)
{
	c->pred = pred; c->fin = fin; c->fout = fout; c->fmid = fmid;
	check(c);
}

static void iteration(size_t maxlen)
{
	uint32_t sc = rndn(10);
	g_cases++;
	if (sc < 3) {                     /* raw bytes through the base codecs */
		case_t c = gen_bytes(maxlen);
		int codec = 1 + (int)rndn(3), c2 = 1 + (int)rndn(3);
		with(&c, P_FRAG, 0, codec, 0);
		with(&c, P_RT, codec, 0, 0);
		with(&c, P_INV, 0, codec, 0);
		/* the canonical encoding, re-fragmented, with and without whitespace */
		uint8_t *flat = xmalloc(c.len + 1); size_t len = case_flat(&c, flat);
		bytes_t one = { flat, len };
		res_t e = T(&one, len ? 1 : 0, 0, codec, NULL);
		if (e.st == 'R') {
			case_t y = case_of_bytes(e.b.p, e.b.n);
			with(&y, P_FRAG, codec, 0, 0);
			with(&y, P_FRAG, codec, c2, 0);
			with(&y, P_COMP, codec, c2, 0);
			with(&y, P_INV, codec, 0, 0);
			/* whitespace inserted at random places, usually also a trailing newline */
			uint8_t *w = xmalloc(e.b.n * 2 + 2); size_t o = 0;
			for (size_t i = 0; i < e.b.n; i++) {
				if (rndn(8) == 0) w[o++] = (uint8_t)"\n\t "[rndn(3)];
				w[o++] = e.b.p[i];
			}
			if (rndn(4)) w[o++] = '\n';
			case_t yw = case_of_bytes(w, o);
			with(&yw, P_WS, codec, 0, 0);
			free(w);
			for (int i = 0; i < y.nitems; i++) free(y.items[i].p);
			for (int i = 0; i < yw.nitems; i++) free(yw.items[i].p);
			case_free(&y); case_free(&yw);
		}
		free(e.b.p); free(flat);
		for (int i = 0; i < c.nitems; i++) free(c.items[i].p);
		case_free(&c);
	} else if (sc < 5) {              /* arbitrary text through the base decoders */
		int codec = 1 + (int)rndn(3);
		case_t c = gen_basetext(maxlen, codec);
		with(&c, P_INV, codec, 0, 0);
		with(&c, P_INV, codec, 1 + (int)rndn(3), 0);
		for (int i = 0; i < c.nitems; i++) free(c.items[i].p);
		case_free(&c);
	} else if (sc < 8) {              /* well-formed UTF-8 */
		case_t c = gen_utf8(maxlen, 1);
		int u16 = 5 + (int)rndn(2), other = 11 - u16;
		with(&c, P_FRAG, 4, u16, 0);
		with(&c, P_RTUTF, 4, u16, 0);
		with(&c, P_INV, 4, u16, 0);
		with(&c, P_FRAG, 4, 4, 0);
		with(&c, P_ANY, 4, u16, 0);
		uint8_t *flat = xmalloc(c.len + 1); size_t len = case_flat(&c, flat);
		bytes_t one = { flat, len };
		res_t e = T(&one, len ? 1 : 0, 4, u16, NULL);
		if (e.st == 'R') {
			/* items = code points (a surrogate pair is one item), so shrinking keeps it well-formed */
			case_t y; memset(&y, 0, sizeof y);
			y.items = xmalloc(sizeof(bytes_t) * (e.b.n / 2 + 2));
			for (size_t i = 0; i + 1 < e.b.n; ) {
				unsigned hi = u16 == 5 ? e.b.p[i+1] : e.b.p[i];
				size_t k = (hi >= 0xd8 && hi <= 0xdb && i + 3 < e.b.n) ? 4 : 2;
				bytes_t b; b.p = xmalloc(4); memcpy(b.p, e.b.p + i, k); b.n = k; y.items[y.nitems++] = b; y.len += k; i += k;
			}
			random_cuts(&y);
			with(&y, P_FRAG, u16, 4, 0);
			with(&y, P_FRAG, u16, other, 0);
			with(&y, P_INV, u16, 4, 0);
			with(&y, P_ANY, u16, 4, 0);
			for (int i = 0; i < y.nitems; i++) free(y.items[i].p);
			case_free(&y);
		}
		free(e.b.p); free(flat);
		for (int i = 0; i < c.nitems; i++) free(c.items[i].p);
		case_free(&c);
	} else if (sc < 9) {              /* arbitrary bytes as UTF-8 */
		case_t c = gen_utf8(maxlen, 0);
		int u16 = 5 + (int)rndn(2);
		with(&c, P_INV, 4, u16, 0);
		for (int i = 0; i < c.nitems; i++) free(c.items[i].p);
		case_free(&c);
	} else {                          /* arbitrary code units as UTF-16 */
		int be = (int)rndn(2);
		case_t c = gen_utf16(maxlen, be);
		with(&c, P_INV, 5 + be, 4, 0);
		with(&c, P_INV, 5 + be, 6 - be, 0);
		for (int i = 0; i < c.nitems; i++) free(c.items[i].p);
		case_free(&c);
	}
}

static int do_random(uint64_t seed, uint64_t iters, size_t maxlen, const char *out, int forked)
{
	g_fo = fopen(out, "w");
	if (!g_fo) { perror("open"); return 3; }
	uint64_t *shared = mmap(NULL, 4096, PROT_READ | PROT_WRITE, MAP_SHARED | MAP_ANONYMOUS, -1, 0);
	uint64_t crashes = 0;
	for (g_iter = 0; g_iter < iters; g_iter++) {
		uint64_t s = seed * 0x100000001b3ull + g_iter * 0x9e3779b97f4a7c15ull + 1;
		if (!forked) { g_rng = s; iteration(maxlen); continue; }
		fflush(NULL);
		pid_t pid = fork();
		if (pid == 0) {
			int fd = open("/dev/null", O_WRONLY); dup2(fd, 2);
			g_rng = s; g_cases = g_evals = 0; iteration(maxlen);
			shared[0] += g_cases; shared[1] += g_evals;
			fflush(NULL); _exit(0);
		}
		int status = 0; waitpid(pid, &status, 0);
		if (!(WIFEXITED(status) && WEXITSTATUS(status) == 0)) {
			/* the iteration died (sanitizer report or signal): run it again with every law
			 * evaluation in its own child to find and shrink the crashing case */
			crashes++;
			if (crashes <= 150) {
				pid = fork();
				if (pid == 0) { g_forkeval = 1; g_rng = s; iteration(maxlen); fflush(NULL); _exit(0); }
				waitpid(pid, &status, 0);
			} else {
				fprintf(g_fo, "{\"kind\":\"crash-unshrunk\",\"iter\":%llu}\n", (unsigned long long)g_iter);
			}
		}
	}
	if (forked) { g_cases = shared[0]; g_evals = shared[1]; }
	fprintf(g_fo, "{\"kind\":\"done\",\"cases\":%llu,\"evals\":%llu,\"crashed_iterations\":%llu}\n",
		(unsigned long long)g_cases, (unsigned long long)g_evals, (unsigned long long)crashes);
	fclose(g_fo);
	return 0;
}

int main(int argc, char **argv)
{
	if (argc >= 4 && !strcmp(argv[1], "replay")) return do_replay(argv[2], argv[3]);
	if (argc >= 6 && !strcmp(argv[1], "random"))
		return do_random(strtoull(argv[2], NULL, 10), strtoull(argv[3], NULL, 10), (size_t)atol(argv[4]), argv[5], argc > 6 && !strcmp(argv[6], "fork"));
	fprintf(stderr, "usage: drv_transform replay IN OUT | random SEED ITERS MAXLEN OUT [fork]\n");
	return 3;
}
