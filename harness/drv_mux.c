/* Driver for the muxnote element (spec/Muxnote.tla): several dispatch sources on ONE descriptor share one epoll
 * registration (src/event/event_epoll.c).  Every execution creates a socketpair (or a pipe), puts a READ source
 * r1 whose slow handler reads the descriptor empty, optionally a second READ source r2 that only looks, and / or a
 * WRITE source w1 on the SAME end, and lets peer threads produce the readiness patterns: data arrives (one chunk at a
 * time, acknowledged, or free running), the reader drains, the write handler fills the send buffer, the peer drains
 * it later.  Meanwhile the main thread suspends / resumes the sources, activates one of them late, cancels one of
 * them while the others stay (and sometimes creates a new source in its place), and ends the execution either by
 * cancelling everything or by a hang-up (the peer closes).
 *
 * Recorded in ONE total order (verif_rt): the epoll system calls the library makes for that descriptor - epoll_ctl and
 * epoll_wait are interposed HERE, at the library/kernel boundary, with the exact event mask and the result -, the
 * guarded probes of event_epoll.c (which unote a registration / re-arm / unregistration / merge is for), every store to
 * the unotes' du_state, every store / exchange of ds_pending_data, handler start / end with dispatch_source_get_data()
 * and FIONREAD, and the client's calls.  spec/MuxnoteTrace.tla validates the records against Muxnote.tla.
 *
 * API oracles, evaluated here, sound for every schedule as long as r1 is the only consumer of the descriptor:
 *   - no handler is entered while it is running;
 *   - r1 is never invoked with dispatch_source_get_data() == 0 unless the peer has closed;
 *   - r1 never finds the descriptor empty at the start of an invocation unless the peer has closed (an event that was
 *     consumed is not delivered again), and get_data() never exceeds what is there (the estimate was sampled earlier
 *     and only the peer adds bytes);
 *   - r1 is invoked at most once per chunk the peer wrote (+ end of file); in the acknowledged mode get_data() is the
 *     size of the chunk and every chunk is consumed (a chunk never consumed within 10 s: lost event);
 *   - no event handler invocation after the source's cancel handler ran.
 *
 * usage: drv_mux OUT SEED PERTURB NEXEC [CFGMASK] [FLAGS]
 *   CFGMASK bit0 RW, bit1 RR, bit2 RRW, bit3 RAW (directed: the READ source registers after the WRITE source, whose
 *           direction is armed at that moment) (default 1)
 *   FLAGS   bit0: readers first - a READ source is only ever registered while the descriptor has no WRITE source
 *           (activation order, late activation and re-creation are restricted accordingly)
 * exit: 0 ok, 2 an oracle failed, 70 crash inside the library, 71 hang. */
#include "internal.h"
#include <pthread.h>
#include <malloc.h>
#include <poll.h>
#include <sys/socket.h>
#include <sys/ioctl.h>
#include <sys/epoll.h>
#include <sys/syscall.h>
#include "verif_rt.h"

enum { U_R1, U_R2, U_W1, U_N };
static const char *UNAME[] = { "r1", "r2", "w1" };
/* RAW: directed "reader after writer": w1 is registered with its direction armed (the send buffer is full, so no
 * EPOLLOUT event disarms it), THEN r1 registers */
enum { CFG_RW, CFG_RR, CFG_RRW, CFG_RAW, CFG_N };
static const char *CFGNAME[] = { "RW", "RR", "RRW", "RAW" };
#define F_SAFEORDER 1   /* never register a READ source on a descriptor that already has a WRITE source */
enum { W_IDLE, W_SMALL, W_FILL };

struct exec_s;
typedef struct slot_s {
	struct exec_s *x;
	int idx, obj, inc;
	dispatch_source_t ds;
	dispatch_source_refs_t dr;
	dispatch_queue_t q;
	_Atomic int inside, starts, activated, cancelled, ch_ran, fin, eof_seen;
	dispatch_semaphore_t ch_sem, fin_sem;
} slot_t;

typedef struct exec_s {
	int id, cfg, pipe, ack, wmode, hup_end, nchunks, ack_timeout_ms;
	int a, b;                       /* our end (monitored), the peer's end */
	slot_t *slot[U_N];
	_Atomic int eof, stop, writes, acked, chunk_len, drained_total, written_total, peer_w_done, lost;
	_Atomic long r1_reported;
} exec_t;

static uint64_t g_seed;
static int g_nexec = 10, g_cfgmask = 1, g_flags = 0;
static _Atomic int g_fail;
static _Atomic long g_st_exec[CFG_N], g_st_r1, g_st_w1, g_st_r2, g_st_susp, g_st_midcancel, g_st_recreate, g_st_hup, g_st_late, g_st_fill;

#define MAXOBJ 4096
static int g_obj_idx[MAXOBJ], g_obj_exec[MAXOBJ];

static void oracle_fail(exec_t *x, const char *u, const char *what, long a, long b)
{
	fprintf(stderr, "ORACLE-FAIL MUX exec=%d cfg=%s fd=%s ack=%d unote=%s: %s a=%ld b=%ld\n", x ? x->id : -1,
			x ? CFGNAME[x->cfg] : "-", x ? (x->pipe ? "pipe" : "socket") : "-", x ? x->ack : -1, u, what, a, b);
	vrt_api("OracleFail", -1, x ? x->id : -1, a, b);
	atomic_store(&g_fail, 1);
}

static void msleep_us(unsigned us)
{
	struct timespec ts = { us / 1000000u, (long)(us % 1000000u) * 1000 };
	while (nanosleep(&ts, &ts) < 0 && errno == EINTR) { }
}

/* ---------------- the library / kernel boundary: epoll_ctl and epoll_wait, interposed ---------------- */
#define MAXPTR 64
static struct { void *ptr; int fd; } g_ptrs[MAXPTR];
static pthread_mutex_t g_ptr_lock = PTHREAD_MUTEX_INITIALIZER;
static _Atomic int g_cur_fd = -1;
/* the manager is known to have left _dispatch_event_merge_fd of a hang-up delivery once it has entered epoll_wait again */
static _Atomic long g_wait_entries, g_hup_mark = -1;
/* monitored descriptors stay open until the end of the run: their numbers are never reused, so a late epoll_ctl of an
 * old execution (the hang-up path's EPOLL_CTL_DEL can trail its acknowledgement by any amount of time) can neither be
 * attributed to a later execution nor hit its registration */
static int g_keep[4096], g_nkeep;

int epoll_ctl(int epfd, int op, int fd, struct epoll_event *ev)
{
	uint32_t mask = ev ? ev->events : 0;
	void *ptr = ev ? ev->data.ptr : NULL;
	int r = (int)syscall(SYS_epoll_ctl, epfd, op, fd, ev);
	int e = errno;
	if (fd == atomic_load(&g_cur_fd)) {
		if (op == EPOLL_CTL_ADD && r == 0) {
			pthread_mutex_lock(&g_ptr_lock);
			int k = -1;
			for (int i = 0; i < MAXPTR; i++) { if (g_ptrs[i].fd == fd || (k < 0 && !g_ptrs[i].ptr)) k = i; if (g_ptrs[i].fd == fd) break; }
			if (k >= 0) { g_ptrs[k].ptr = ptr; g_ptrs[k].fd = fd; }
			pthread_mutex_unlock(&g_ptr_lock);
		}
		vrt_api("Ctl", -1, op, fd, (long)mask | ((long)(r != 0) << 40));
	}
	errno = e;
	return r;
}

int epoll_wait(int epfd, struct epoll_event *evs, int maxevents, int timeout)
{
	atomic_fetch_add(&g_wait_entries, 1);
	int n = (int)syscall(SYS_epoll_pwait, epfd, evs, maxevents, timeout, NULL, 8);
	int e = errno;
	for (int i = 0; i < n; i++) {
		void *p = evs[i].data.ptr;
		if ((uintptr_t)p < 4096) continue;            /* the manager's eventfd / timerfds */
		int fd = -1;
		pthread_mutex_lock(&g_ptr_lock);
		for (int k = 0; k < MAXPTR; k++) if (g_ptrs[k].ptr == p) { fd = g_ptrs[k].fd; break; }
		pthread_mutex_unlock(&g_ptr_lock);
		if (fd >= 0 && fd == atomic_load(&g_cur_fd)) {
			if (evs[i].events & EPOLLHUP) atomic_store(&g_hup_mark, atomic_load(&g_wait_entries));
			vrt_api("Wait", -1, fd, (long)evs[i].events, 0);
		}
	}
	errno = e;
	return n;
}

static void forget_fd(int fd)
{
	pthread_mutex_lock(&g_ptr_lock);
	for (int k = 0; k < MAXPTR; k++) if (g_ptrs[k].fd == fd && g_ptrs[k].ptr) { g_ptrs[k].ptr = NULL; g_ptrs[k].fd = -1; }
	pthread_mutex_unlock(&g_ptr_lock);
}

/* ---------------- handlers ---------------- */
static long fionread(int fd) { int n = 0; if (ioctl(fd, FIONREAD, &n) != 0) return -1; return n; }

static void ev_handler(void *ctxt)
{
	slot_t *s = ctxt;
	exec_t *x = s->x;
	unsigned long data = dispatch_source_get_data(s->ds);
	int reader = s->idx != U_W1;
	long avail = reader ? fionread(x->a) : -1;
	int eof = atomic_load(&x->eof);
	int n = atomic_fetch_add(&s->starts, 1) + 1;
	vrt_api("HStart", s->obj, (long)data, avail, eof);
	if (atomic_fetch_add(&s->inside, 1) != 0) oracle_fail(x, UNAME[s->idx], "event handler entered while it is running", n, 0);
	if (atomic_load(&s->ch_ran)) oracle_fail(x, UNAME[s->idx], "event handler invoked after the cancel handler ran", n, 0);
	if (s->idx == U_R1) {
		atomic_fetch_add(&g_st_r1, 1);
		int w = atomic_load(&x->writes);
		if (!eof) {
			if (data == 0) oracle_fail(x, "r1", "read handler invoked with dispatch_source_get_data() == 0 and no end of file", n, avail);
			if (avail == 0) oracle_fail(x, "r1", "read handler invoked but the descriptor is empty: an event it had consumed was delivered again", n, (long)data);
			else if (avail > 0 && (long)data > avail) oracle_fail(x, "r1", "dispatch_source_get_data() exceeds the bytes present (stale estimate)", (long)data, avail);
			if (x->ack && avail > 0 && data != 0 && (long)data != atomic_load(&x->chunk_len))
				oracle_fail(x, "r1", "acknowledged mode: dispatch_source_get_data() is not the size of the chunk", (long)data, atomic_load(&x->chunk_len));
			if (n > w) oracle_fail(x, "r1", "more read handler invocations than chunks written by the peer", n, w);
		} else {
			atomic_store(&s->eof_seen, 1);
			if (n > w + 2) oracle_fail(x, "r1", "more read handler invocations than chunks written by the peer (+ end of file)", n, w);
		}
		atomic_fetch_add(&x->r1_reported, (long)data);
		msleep_us((unsigned)(vrt_rand() % 3000));           /* slow consumer: the bytes stay in the descriptor for a while */
		char buf[4096]; long got = 0;
		for (;;) {
			ssize_t k = read(x->a, buf, sizeof(buf));
			if (k > 0) { got += k; continue; }
			if (k < 0 && errno == EINTR) continue;
			break;                                         /* EAGAIN, or end of file */
		}
		atomic_fetch_add(&x->drained_total, (int)got);
		vrt_api("Drained", s->obj, got, 0, 0);
		if (got > 0) atomic_store(&x->acked, atomic_load(&x->writes));
	} else if (s->idx == U_R2) {
		atomic_fetch_add(&g_st_r2, 1);
		if (eof) atomic_store(&s->eof_seen, 1);
		msleep_us(100 + (unsigned)(vrt_rand() % 1500));     /* looks, does not read */
	} else {
		atomic_fetch_add(&g_st_w1, 1);
		if (eof) atomic_store(&s->eof_seen, 1);
		long wrote = 0; int full = 0;
		if (x->wmode == W_SMALL && !eof) {
			char buf[64]; memset(buf, 'w', sizeof(buf));
			ssize_t k = write(x->a, buf, 1 + (size_t)(vrt_rand() % 64));
			if (k > 0) wrote = k;
		} else if (x->wmode == W_FILL && !eof && (vrt_rand() % 3) == 0) {
			char buf[1024]; memset(buf, 'f', sizeof(buf));
			for (int i = 0; i < 4096; i++) {
				ssize_t k = write(x->a, buf, sizeof(buf));
				if (k > 0) { wrote += k; continue; }
				if (k < 0 && errno == EINTR) continue;
				full = (k < 0 && errno == EAGAIN); break;
			}
			if (full) atomic_fetch_add(&g_st_fill, 1);
		}
		vrt_api("Wrote", s->obj, wrote, full, 0);
		msleep_us(100 + (unsigned)(vrt_rand() % 900));
	}
	atomic_fetch_sub(&s->inside, 1);
	vrt_api("HEnd", s->obj, 0, 0, 0);
}

static void cancel_handler(void *ctxt)
{
	slot_t *s = ctxt;
	vrt_api("ChStart", s->obj, 0, 0, 0);
	if (atomic_load(&s->inside)) oracle_fail(s->x, UNAME[s->idx], "cancel handler while the event handler is running", 0, 0);
	atomic_store(&s->ch_ran, 1);
	dispatch_semaphore_signal(s->ch_sem);
}
static void finalizer(void *ctxt)
{
	slot_t *s = ctxt;
	atomic_store(&s->fin, 1);
	dispatch_semaphore_signal(s->fin_sem);
}

/* ---------------- the peer ---------------- */
static void *peer_writer(void *arg)
{
	exec_t *x = arg;
	(void)vrt_tid();
	char chunk[16]; memset(chunk, 'x', sizeof(chunk));
	for (int i = 0; i < x->nchunks && !atomic_load(&x->stop); i++) {
		size_t len = 1 + (size_t)(vrt_rand() % 7);
		atomic_store(&x->chunk_len, (int)len);
		atomic_fetch_add(&x->writes, 1);
		vrt_api("PeerWrite", -1, (long)len, i, 0);
		ssize_t k;
		do { k = write(x->b, chunk, len); } while (k < 0 && errno == EINTR);
		if (k != (ssize_t)len) { fprintf(stderr, "peer write failed: %s\n", strerror(errno)); break; }
		atomic_fetch_add(&x->written_total, (int)len);
		vrt_progress();
		if (x->ack) {
			/* the next chunk only after the read handler drained this one; suspension / late activation of r1 delay it */
			int waited = 0;
			while (atomic_load(&x->acked) < i + 1 && !atomic_load(&x->stop)) {
				msleep_us(100);
				if (++waited > x->ack_timeout_ms * 10) { atomic_store(&x->lost, 1); break; }
			}
			if (atomic_load(&x->lost)) break;
		}
		msleep_us((unsigned)(vrt_rand() % (x->ack ? 600 : 2500)));
	}
	atomic_store(&x->peer_w_done, 1);
	return NULL;
}

static void *peer_reader(void *arg)
{
	exec_t *x = arg;
	(void)vrt_tid();
	char buf[8192];
	while (!atomic_load(&x->stop)) {
		struct pollfd p = { x->b, POLLIN, 0 };
		int r = poll(&p, 1, 2);
		if (r > 0 && (p.revents & POLLIN)) {
			if (x->wmode == W_FILL) msleep_us(500 + (unsigned)(vrt_rand() % 2500));    /* room appears later */
			for (;;) {
				ssize_t k = recv(x->b, buf, sizeof(buf), MSG_DONTWAIT);
				if (k > 0) continue;
				if (k < 0 && errno == EINTR) continue;
				break;
			}
		}
	}
	return NULL;
}

/* ---------------- sources ---------------- */
static slot_t *make_slot(exec_t *x, int idx, int inc)
{
	slot_t *s = calloc(1, sizeof(*s));
	s->x = x; s->idx = idx; s->inc = inc;
	char name[32]; snprintf(name, sizeof(name), "mux.%s", UNAME[idx]);
	s->q = dispatch_queue_create(name, NULL);
	s->ds = dispatch_source_create(idx == U_W1 ? DISPATCH_SOURCE_TYPE_WRITE : DISPATCH_SOURCE_TYPE_READ, (uintptr_t)x->a, 0, s->q);
	if (!s->ds) { fprintf(stderr, "dispatch_source_create failed\n"); exit(3); }
	s->dr = s->ds->ds_refs;
	s->ch_sem = dispatch_semaphore_create(0); s->fin_sem = dispatch_semaphore_create(0);
	dispatch_set_context(s->ds, s);
	dispatch_source_set_event_handler_f(s->ds, ev_handler);
	dispatch_source_set_cancel_handler_f(s->ds, cancel_handler);
	dispatch_set_finalizer_f(s->ds, finalizer);
	s->obj = vrt_register(s->dr, dux_type(s->dr)->dst_size, 2);
	if (s->obj < 0 || s->obj >= MAXOBJ) { fprintf(stderr, "too many objects\n"); exit(3); }
	g_obj_idx[s->obj] = idx; g_obj_exec[s->obj] = x->id;
	x->slot[idx] = s;
	return s;
}
static void activate(slot_t *s)
{
	vrt_api("Act", s->obj, 0, 0, 0);
	dispatch_activate(s->ds);
	atomic_store(&s->activated, 1);
}
/* the registration happens on the manager thread some time after dispatch_activate returned */
static void wait_registered(slot_t *s)
{
	for (int i = 0; i < 300000; i++) {
		if (*(volatile dispatch_unote_state_t *)&s->dr->du_state != 0) return;
		msleep_us(100);
	}
}
static void cancel(slot_t *s)
{
	vrt_api("Cancel", s->obj, 0, 0, 0);
	atomic_store(&s->cancelled, 1);
	dispatch_source_cancel(s->ds);
}
static void wait_cancelled_and_free(slot_t *s)
{
	dispatch_semaphore_wait(s->ch_sem, DISPATCH_TIME_FOREVER);       /* a cancel handler that never runs: watchdog, exit 71 */
	dispatch_release(s->ds);
	(void)dispatch_semaphore_wait(s->fin_sem, dispatch_time(DISPATCH_TIME_NOW, 5 * (int64_t)NSEC_PER_SEC));
	dispatch_release(s->q);
}

static int pick_cfg(void)
{
	int c = 0, idx[CFG_N];
	for (int i = 0; i < CFG_N; i++) if (g_cfgmask & (1 << i)) idx[c++] = i;
	return c ? idx[vrt_rand() % (unsigned)c] : CFG_RW;
}

static void run_one(int id)
{
	exec_t *x = calloc(1, sizeof(*x));
	vrt_pause(1);
	x->id = id; x->cfg = pick_cfg();
	int raw = x->cfg == CFG_RAW, safe = g_flags & F_SAFEORDER;
	x->pipe = (x->cfg == CFG_RR) && (vrt_rand() % 3 == 0);
	x->ack = raw || (vrt_rand() % 10) < 6;
	x->wmode = raw ? W_IDLE : (int)(vrt_rand() % 3);
	x->hup_end = !raw && (vrt_rand() % 5) == 0;
	x->nchunks = raw ? 2 : 6 + (int)(vrt_rand() % 12);
	x->ack_timeout_ms = raw ? 3000 : 10000;
	int sv[2];
	if (x->pipe) { if (pipe(sv) != 0) { perror("pipe"); exit(3); } x->a = sv[0]; x->b = sv[1]; }
	else {
		if (socketpair(AF_UNIX, SOCK_STREAM, 0, sv) != 0) { perror("socketpair"); exit(3); }
		x->a = sv[0]; x->b = sv[1];
		int sz = 4096; setsockopt(x->a, SOL_SOCKET, SO_SNDBUF, &sz, sizeof(sz));
	}
	fcntl(x->a, F_SETFL, fcntl(x->a, F_GETFL) | O_NONBLOCK);
	int have[U_N] = { 1, x->cfg == CFG_RR || x->cfg == CFG_RRW, x->cfg != CFG_RR };
	for (int i = 0; i < U_N; i++) if (have[i]) make_slot(x, i, 0);
	atomic_store(&g_cur_fd, x->a);
	atomic_fetch_add(&g_st_exec[x->cfg], 1);
	vrt_pause(0);
	vrt_mark("Reset", id, x->cfg | (x->pipe << 4) | (x->ack << 5) | (x->wmode << 6) | (x->hup_end << 8), x->a);

	int order[U_N], n = 0, late = -1;
	if (raw) {
		/* directed: the send buffer is full, so the WRITE source registers and STAYS armed (no EPOLLOUT event);
		 * then the READ source registers on the same muxnote; then the peer sends chunks (acknowledged, 3 s each)
		 * and, 100 ms later, starts to drain what we sent */
		char buf[1024]; memset(buf, 'f', sizeof(buf));
		for (int i = 0; i < 4096; i++) { ssize_t k = write(x->a, buf, sizeof(buf)); if (k < 0 && errno != EINTR) break; }
		activate(x->slot[U_W1]); wait_registered(x->slot[U_W1]);
		msleep_us(2000);
		activate(x->slot[U_R1]); wait_registered(x->slot[U_R1]);
		n = 2;
	} else {
		/* activation: random order (readers first when asked to); one source possibly late (after the others have
		 * been through some events) */
		for (int i = 0; i < U_N; i++) if (have[i]) order[n++] = i;
		for (int i = n - 1; i > 0; i--) { int j = (int)(vrt_rand() % (unsigned)(i + 1)); int t = order[i]; order[i] = order[j]; order[j] = t; }
		if (safe) {      /* stable: readers before the writer */
			for (int i = 0; i < n; i++) for (int j = i + 1; j < n; j++) if (order[i] == U_W1) { int t = order[i]; order[i] = order[j]; order[j] = t; }
		}
		late = (n > 1 && (vrt_rand() % 2)) ? order[n - 1] : -1;
		if (vrt_rand() % 4 == 0) {     /* an event is already due when the first source registers */
			atomic_store(&x->chunk_len, 1); atomic_fetch_add(&x->writes, 1);
			vrt_api("PeerWrite", -1, 1, -1, 0);
			(void)!write(x->b, "p", 1); atomic_fetch_add(&x->written_total, 1);
			x->ack = 0;               /* the chunk protocol starts with one byte already there */
		}
		for (int i = 0; i < n; i++) if (order[i] != late) {
			activate(x->slot[order[i]]);
			if (safe) wait_registered(x->slot[order[i]]);
			msleep_us((unsigned)(vrt_rand() % 400));
		}
	}
	pthread_t tw, tr;
	pthread_create(&tw, NULL, peer_writer, x);
	int have_reader_thread = !x->pipe;
	if (raw) msleep_us(100000);
	if (have_reader_thread) pthread_create(&tr, NULL, peer_reader, x);
	uint64_t t_late = 300 + vrt_rand() % 6000, t0 = _dispatch_uptime();
	int midcancel = (!raw && n > 1 && vrt_rand() % 2) ? (have[U_W1] && (vrt_rand() % 3) ? U_W1 : (have[U_R2] ? U_R2 : U_W1)) : -1;
	int midcancel_at = 1 + (int)(vrt_rand() % (unsigned)x->nchunks);
	int recreate = (int)(vrt_rand() % 2);
	if (safe && midcancel == U_R2 && have[U_W1]) recreate = 0;      /* a new reader would join a descriptor that has a writer */
	while (!atomic_load(&x->peer_w_done)) {
		msleep_us(200 + (unsigned)(vrt_rand() % 1500));
		uint64_t el = (_dispatch_uptime() - t0) / 1000;
		if (late >= 0 && el >= t_late) { activate(x->slot[late]); late = -1; atomic_fetch_add(&g_st_late, 1); continue; }
		if (midcancel >= 0 && atomic_load(&x->writes) >= midcancel_at && x->slot[midcancel] && atomic_load(&x->slot[midcancel]->activated)) {
			/* one source leaves while the others stay */
			slot_t *s = x->slot[midcancel];
			cancel(s);
			atomic_fetch_add(&g_st_midcancel, 1);
			wait_cancelled_and_free(s);
			x->slot[midcancel] = NULL;
			if (recreate) {
				msleep_us((unsigned)(vrt_rand() % 1000));
				slot_t *s2 = make_slot(x, midcancel, s->inc + 1);
				vrt_api("Recreate", s2->obj, 0, 0, 0);
				activate(s2);
				atomic_fetch_add(&g_st_recreate, 1);
			}
			midcancel = -1;
			continue;
		}
		if (vrt_rand() % 3 == 0) {
			int k = (int)(vrt_rand() % U_N);
			slot_t *s = x->slot[k];
			if (s && atomic_load(&s->activated)) {
				vrt_api("Susp", s->obj, 0, 0, 0);
				dispatch_suspend(s->ds);
				msleep_us(100 + (unsigned)(vrt_rand() % 2500));
				vrt_api("Res", s->obj, 0, 0, 0);
				dispatch_resume(s->ds);
				atomic_fetch_add(&g_st_susp, 1);
			}
		}
	}
	pthread_join(tw, NULL);
	if (late >= 0) { activate(x->slot[late]); late = -1; }
	if (atomic_load(&x->lost)) oracle_fail(x, "r1", "a chunk written by the peer was never consumed by the read handler (lost event)", atomic_load(&x->writes), x->ack_timeout_ms);
	/* let r1 consume what is still there, and let a trailing (bogus) invocation show itself */
	for (int i = 0; i < 2000 && !atomic_load(&x->lost) && atomic_load(&x->drained_total) < atomic_load(&x->written_total); i++) msleep_us(500);
	msleep_us(1000 + (unsigned)(vrt_rand() % 3000));
	if (!atomic_load(&x->lost) && atomic_load(&x->drained_total) != atomic_load(&x->written_total))
		oracle_fail(x, "r1", "bytes written by the peer were never delivered to the read handler (lost event)", atomic_load(&x->written_total), atomic_load(&x->drained_total));
	atomic_store(&x->stop, 1);
	if (have_reader_thread) pthread_join(tr, NULL);
	if (x->hup_end) {
		/* hang-up: every linked unote gets its end-of-file event, the registration is deleted */
		atomic_store(&x->eof, 1);
		vrt_api("PeerClose", -1, 0, 0, 0);
		close(x->b); x->b = -1;
		atomic_fetch_add(&g_st_hup, 1);
		for (int i = 0; i < 10000 && !atomic_load(&x->slot[U_R1]->eof_seen); i++) msleep_us(500);
		if (!atomic_load(&x->slot[U_R1]->eof_seen)) oracle_fail(x, "r1", "end of file never delivered to the read handler", 0, 0);
		msleep_us((unsigned)(vrt_rand() % 2000));
	}
	/* the sources leave one after the other, in random order */
	int rest[U_N], m = 0;
	for (int i = 0; i < U_N; i++) if (x->slot[i]) rest[m++] = i;
	for (int i = m - 1; i > 0; i--) { int j = (int)(vrt_rand() % (unsigned)(i + 1)); int t = rest[i]; rest[i] = rest[j]; rest[j] = t; }
	for (int i = 0; i < m; i++) {
		cancel(x->slot[rest[i]]);
		if (vrt_rand() % 2) msleep_us((unsigned)(vrt_rand() % 2500));
	}
	for (int i = 0; i < m; i++) wait_cancelled_and_free(x->slot[rest[i]]);
	/* a hang-up was delivered: the execution ends only when the manager is out of that delivery's merge (it still
	 * issues the EPOLL_CTL_DEL after the sources may have acknowledged the deletion on their own threads) */
	long mark = atomic_load(&g_hup_mark);
	for (int i = 0; mark >= 0 && i < 50000 && atomic_load(&g_wait_entries) <= mark; i++) msleep_us(100);
	atomic_store(&g_hup_mark, -1);
	vrt_api("Quiesce", -1, id, 0, 0);
	vrt_pause(1);
	atomic_store(&g_cur_fd, -1);
	forget_fd(x->a);
	if (g_nkeep < 4096) g_keep[g_nkeep++] = x->a; else close(x->a);
	if (x->b >= 0) close(x->b);
	vrt_pause(0);
	vrt_progress();
}

/* ---------------- projection ---------------- */
static int p_exec = -1, p_fd = -1;
static void pmask(FILE *f, long m)
{
	const char *sep = "";
	fprintf(f, "[");
	if (m & EPOLLIN) { fprintf(f, "%s\"in\"", sep); sep = ","; }
	if (m & EPOLLOUT) { fprintf(f, "%s\"out\"", sep); sep = ","; }
	if (m & EPOLLHUP) { fprintf(f, "%s\"hup\"", sep); sep = ","; }
	if (m & EPOLLERR) { fprintf(f, "%s\"err\"", sep); sep = ","; }
	fprintf(f, "]");
}
static const char *uname_of(const vrt_rec_t *r)
{
	if (r->obj < 0 || r->obj >= MAXOBJ || g_obj_exec[r->obj] != p_exec) return NULL;
	return UNAME[g_obj_idx[r->obj]];
}
static void proj(FILE *f, const vrt_rec_t *r)
{
	const char *u;
	switch (r->kind) {
	case VRT_MARK:
		if (!strcmp(r->name, "Reset")) {
			p_exec = (int)r->a; p_fd = (int)r->c;
			fprintf(f, "{\"e\":\"Reset\",\"x\":%ld,\"cfg\":\"%s\",\"fdk\":\"%s\",\"ack\":%s,\"wmode\":%ld,\"hup\":%s}\n", r->a, CFGNAME[r->b & 7],
					(r->b & 16) ? "pipe" : "socket", (r->b & 32) ? "true" : "false", (r->b >> 6) & 3, (r->b & 256) ? "true" : "false");
		}
		break;
	case VRT_API:
		if (!strcmp(r->name, "Ctl")) {
			if ((int)r->b != p_fd) break;
			long m = r->c & 0xffffffffl;
			fprintf(f, "{\"e\":\"Ctl\",\"t\":%d,\"op\":\"%s\",\"mask\":", r->tid, r->a == EPOLL_CTL_ADD ? "add" : r->a == EPOLL_CTL_MOD ? "mod" : "del");
			pmask(f, r->a == EPOLL_CTL_DEL ? 0 : m);
			fprintf(f, ",\"oneshot\":%s,\"ok\":%s,\"raw\":%ld}\n", (m & EPOLLONESHOT) ? "true" : "false", (r->c >> 40) ? "false" : "true", m);
		} else if (!strcmp(r->name, "Wait")) {
			if ((int)r->a != p_fd) break;
			fprintf(f, "{\"e\":\"Wait\",\"t\":%d,\"ev\":", r->tid); pmask(f, r->b); fprintf(f, ",\"raw\":%ld}\n", r->b);
		} else if (!strcmp(r->name, "HStart")) {
			if (!(u = uname_of(r))) break;
			fprintf(f, "{\"e\":\"HStart\",\"t\":%d,\"u\":\"%s\",\"data\":%ld,\"avail\":%ld,\"eof\":%s}\n", r->tid, u, r->a, r->b, r->c ? "true" : "false");
		} else if (!strcmp(r->name, "Drained") || !strcmp(r->name, "Wrote")) {
			if (!(u = uname_of(r))) break;
			fprintf(f, "{\"e\":\"%s\",\"t\":%d,\"u\":\"%s\",\"n\":%ld}\n", r->name, r->tid, u, r->a);
		} else if (!strcmp(r->name, "HEnd") || !strcmp(r->name, "ChStart") || !strcmp(r->name, "Act") || !strcmp(r->name, "Cancel") ||
				!strcmp(r->name, "Susp") || !strcmp(r->name, "Res") || !strcmp(r->name, "Recreate")) {
			if (!(u = uname_of(r))) break;
			fprintf(f, "{\"e\":\"%s\",\"t\":%d,\"u\":\"%s\"}\n", r->name, r->tid, u);
		} else if (!strcmp(r->name, "PeerWrite")) {
			fprintf(f, "{\"e\":\"PeerWrite\",\"t\":%d,\"n\":%ld}\n", r->tid, r->a);
		} else if (!strcmp(r->name, "PeerClose") || !strcmp(r->name, "Quiesce")) {
			fprintf(f, "{\"e\":\"%s\",\"t\":%d}\n", r->name, r->tid);
		} else if (!strcmp(r->name, "OracleFail")) {
			fprintf(f, "{\"e\":\"OracleFail\",\"t\":%d,\"x\":%ld}\n", r->tid, r->a);
		}
		break;
	case VRT_ATOMIC: {
		if (!(u = uname_of(r))) break;
		const char *op = r->site->dvs_op;
		if (r->cls == 3) {
			if (strcmp(op, "store")) break;               /* loads of du_state change nothing */
			uint64_t v = r->newv;
			fprintf(f, "{\"e\":\"DU\",\"t\":%d,\"u\":\"%s\",\"reg\":%s,\"armed\":%s,\"ndel\":%s,\"f\":\"%s\"}\n", r->tid, u, v != 0 ? "true" : "false",
					(v & DU_STATE_ARMED) ? "true" : "false", (v & DU_STATE_NEEDS_DELETE) ? "true" : "false", r->site->dvs_func);
		} else if (r->cls == 4) {
			if (!strcmp(op, "load") || !strcmp(op, "giveup")) break;    /* (a give-up is attributed to the word loaded last) */
			/* READ / WRITE sources keep ~data in ds_pending_data (0 = nothing pending) */
			if (!strcmp(op, "store"))
				fprintf(f, "{\"e\":\"PD\",\"t\":%d,\"u\":\"%s\",\"op\":\"store\",\"set\":%s,\"val\":%ld,\"f\":\"%s\"}\n", r->tid, u, r->newv ? "true" : "false",
						r->newv ? (long)~r->newv : 0, r->site->dvs_func);
			else if (!strcmp(op, "xchg"))
				fprintf(f, "{\"e\":\"PD\",\"t\":%d,\"u\":\"%s\",\"op\":\"xchg\",\"set\":%s,\"val\":%ld,\"f\":\"%s\"}\n", r->tid, u, r->oldv ? "true" : "false",
						r->oldv ? (long)~r->oldv : 0, r->site->dvs_func);
			else
				fprintf(f, "{\"e\":\"PD\",\"t\":%d,\"u\":\"%s\",\"op\":\"%s\",\"set\":%s,\"val\":%ld,\"f\":\"%s\"}\n", r->tid, u, op, r->newv ? "true" : "false",
						r->newv ? (long)~r->newv : 0, r->site->dvs_func);
		}
		break;
	}
	case VRT_PROBE:
		if (strncmp(r->name, "c16_", 4)) break;
		if (!(u = uname_of(r))) break;
		fprintf(f, "{\"e\":\"P\",\"t\":%d,\"p\":\"%s\",\"u\":\"%s\",\"a\":%ld,\"b\":%ld}\n", r->tid, r->name + 4, u, r->a, r->b);
		break;
	}
}

int main(int argc, char **argv)
{
	const char *out = argc > 1 ? argv[1] : "/dev/null";
	g_seed = argc > 2 ? strtoull(argv[2], NULL, 0) : 1;
	int perturb = argc > 3 ? atoi(argv[3]) : 2;
	if (argc > 4) g_nexec = atoi(argv[4]);
	if (argc > 5) g_cfgmask = (int)strtol(argv[5], NULL, 0);
	if (argc > 6) g_flags = (int)strtol(argv[6], NULL, 0);
	signal(SIGPIPE, SIG_IGN);
	for (int k = 0; k < MAXPTR; k++) g_ptrs[k].fd = -1;
	vrt_init(out, g_seed, perturb);
	vrt_set_projector(proj);
	vrt_set_probe_filter(1);
	vrt_add_class("du_state", 3);
	vrt_add_class("ds_pending_data", 4);
	vrt_set_hang_seconds(40);
	(void)vrt_tid();
	for (int e = 0; e < g_nexec && !atomic_load(&g_fail); e++) run_one(e);
	vrt_dump();
	for (int i = 0; i < g_nkeep; i++) close(g_keep[i]);
	fprintf(stderr, "records=%zu overflow=%d threads=%d exec_RW=%ld exec_RR=%ld exec_RRW=%ld exec_RAW=%ld r1_invocations=%ld r2_invocations=%ld w1_invocations=%ld "
			"suspensions=%ld mid_cancels=%ld recreated=%ld hangups=%ld late_activations=%ld buffer_fills=%ld\n",
			vrt_count(), vrt_overflowed(), vrt_nthreads(), atomic_load(&g_st_exec[0]), atomic_load(&g_st_exec[1]), atomic_load(&g_st_exec[2]), atomic_load(&g_st_exec[3]),
			atomic_load(&g_st_r1), atomic_load(&g_st_r2), atomic_load(&g_st_w1), atomic_load(&g_st_susp), atomic_load(&g_st_midcancel),
			atomic_load(&g_st_recreate), atomic_load(&g_st_hup), atomic_load(&g_st_late), atomic_load(&g_st_fill));
	return atomic_load(&g_fail) ? 2 : 0;
}
