/* Driver for C18 (a): queue-specific data and queue identity inside work items.
 *
 * Replays the cases emitted by TLC from spec/Frames.tla on the real library.  A case is a
 * hierarchy shape (A1->A2->A3->root, optional submitting hierarchy B1->B2->root, every lane
 * serial or concurrent), a key placement, and a submission path; for every observation point
 * the case carries what the property demands: the lane whose value dispatch_get_specific must
 * return for each key, and the set of queues dispatch_assert_queue must accept.
 *
 * The driver builds the hierarchy, places the keys (set, replace, remove), runs the item and at
 * each observation point
 *   - compares dispatch_get_specific(key) with the expected value,
 *   - forks one child that performs every assertion that must hold (dispatch_assert_queue for
 *     the accepted queues, dispatch_assert_queue_not for the others): it must exit normally,
 *   - forks one child per assertion that must fail: it must die in the library's client crash.
 * The fork happens on the thread that runs the item, so the child inherits exactly the
 * thread-specific frame state under test; the child only calls the assertion and _exit()s.
 *
 * usage: drv_frames <cases.txt> <first> <count> <seed>
 * case line:  C id da ka db kb bpath path var k1 k2 rm nobs { tag g1 g2 accept }*
 * output: "P id" progress, "FAIL id ..." per mismatch, "DRIFT ...", "DONE ..." summary. */
#define _GNU_SOURCE
#include "internal.h"
#include <stdio.h>
#include <stdlib.h>
#include <string.h>
#include <pthread.h>
#include <signal.h>
#include <sys/wait.h>
#include <sys/resource.h>
#include <stdatomic.h>

enum { QA1, QA2, QA3, QB1, QB2, QRO, QRN, QRU, NQ };
static const char *QN[NQ] = { "A1", "A2", "A3", "B1", "B2", "RO", "RN", "RU" };
#define MAXOBS 4

struct obs { char tag[16]; int g1, g2; unsigned accept; };   /* g: queue index or -1 */
struct kase {
	long id; int da, db; char ka[8], kb[8]; char bpath[8]; char path[32]; int var;
	unsigned k1, k2; int rm; int nobs; struct obs obs[MAXOBS];
	dispatch_queue_t q[NQ]; unsigned universe;
	pthread_t apply_caller; _Atomic int seen_caller, seen_helper;
	dispatch_semaphore_t done;
};

static char key1, key2, dummyval;
static _Atomic long n_fail, n_obs, n_asserts, n_forks, n_drift, n_helper;
static int opt_all_crash = 1;
static _Atomic long progress; static _Atomic long cur_case = -1;

/* no observation and no new case for two minutes: the item under test never ran to completion */
static void *watchdog(void *a)
{
	(void)a; long last = -1; int idle = 0;
	for (;;) {
		sleep(5);
		long p = atomic_load(&progress);
		if (p != last) { last = p; idle = 0; continue; }
		if (++idle >= 24) {
			printf("HANG %ld\n", (long)atomic_load(&cur_case)); fflush(stdout);
			_exit(71);
		}
	}
	return NULL;
}

#define FAILF(k, ...) do { if (atomic_fetch_add(&n_fail, 1) < 60) { \
	char _b[1024]; snprintf(_b, sizeof _b, __VA_ARGS__); printf("FAIL %ld %s\n", (k)->id, _b); } } while (0)

static int qindex(const char *n)
{
	if (!strcmp(n, "-")) return -1;
	for (int i = 0; i < NQ; i++) if (!strcmp(QN[i], n)) return i;
	fprintf(stderr, "bad queue name %s\n", n); exit(3);
}
static unsigned qset(char *csv)
{
	unsigned m = 0;
	if (!strcmp(csv, "-")) return 0;
	for (char *s = strtok(csv, ","); s; s = strtok(NULL, ",")) m |= 1u << qindex(s);
	return m;
}
static void *val_of(int qi, int key) { return (void *)(uintptr_t)(0x1000 + qi * 16 + key); }

/* run one assertion (or all that must hold) in a forked copy of the calling thread */
static int child_status(struct kase *k, int which_not, int qi, unsigned pass_assert, unsigned pass_not)
{
	atomic_fetch_add(&n_forks, 1);
	pid_t p = fork();
	if (p < 0) { perror("fork"); exit(3); }
	if (p == 0) {
		alarm(30);
		if (qi >= 0) {
			if (which_not) dispatch_assert_queue_not(k->q[qi]); else dispatch_assert_queue(k->q[qi]);
		} else {
			for (int i = 0; i < NQ; i++) {
				if (pass_assert & (1u << i)) dispatch_assert_queue(k->q[i]);
				if (pass_not & (1u << i)) dispatch_assert_queue_not(k->q[i]);
			}
		}
		_exit(0);
	}
	atomic_fetch_add(&progress, 1);
	int st = 0;
	while (waitpid(p, &st, 0) < 0 && errno == EINTR) {}
	return st;
}
static int crashed(int st)
{
	return WIFSIGNALED(st) && (WTERMSIG(st) == SIGILL || WTERMSIG(st) == SIGTRAP ||
			WTERMSIG(st) == SIGABRT || WTERMSIG(st) == SIGSEGV || WTERMSIG(st) == SIGBUS);
}

static void observe(struct kase *k, const char *tag)
{
	struct obs *o = NULL;
	for (int i = 0; i < k->nobs; i++) if (!strcmp(k->obs[i].tag, tag)) o = &k->obs[i];
	if (!o) {
		if (atomic_fetch_add(&n_drift, 1) < 5)
			printf("DRIFT case %ld: observation %s happened where the model has none\n", k->id, tag);
		return;
	}
	atomic_fetch_add(&n_obs, 1); atomic_fetch_add(&progress, 1);
	void *g1 = dispatch_get_specific(&key1), *g2 = dispatch_get_specific(&key2);
	void *e1 = o->g1 < 0 ? NULL : val_of(o->g1, 1), *e2 = o->g2 < 0 ? NULL : val_of(o->g2, 2);
	if (g1 != e1) FAILF(k, "%s: dispatch_get_specific(key1) = %p, spec: value set on %s (%p)", tag, g1,
			o->g1 < 0 ? "no queue (NULL)" : QN[o->g1], e1);
	if (g2 != e2) FAILF(k, "%s: dispatch_get_specific(key2) = %p, spec: value set on %s (%p)", tag, g2,
			o->g2 < 0 ? "no queue (NULL)" : QN[o->g2], e2);
	unsigned acc = o->accept & k->universe, rej = k->universe & ~o->accept;
	/* all the assertions that must hold, in one child */
	int st = child_status(k, 0, -1, acc, rej);
	atomic_fetch_add(&n_asserts, __builtin_popcount(k->universe));
	if (!(WIFEXITED(st) && WEXITSTATUS(st) == 0)) {
		/* pinpoint */
		int found = 0;
		for (int i = 0; i < NQ; i++) {
			if (!(k->universe & (1u << i))) continue;
			int not = !(acc & (1u << i));
			int s2 = child_status(k, not, i, 0, 0);
			if (!(WIFEXITED(s2) && WEXITSTATUS(s2) == 0)) {
				found = 1;
				FAILF(k, "%s: dispatch_assert_queue%s(%s) failed (status %#x) although %s %s the chain", tag,
					not ? "_not" : "", QN[i], s2, QN[i], not ? "is outside" : "belongs to");
			}
		}
		if (!found) FAILF(k, "%s: the child running the assertions that must hold ended with status %#x", tag, st);
	}
	/* every assertion that must fail, one child each */
	for (int i = 0; i < NQ; i++) {
		if (!(k->universe & (1u << i))) continue;
		if (!opt_all_crash && ((k->id + i) % 3)) continue;
		int not = (acc & (1u << i)) != 0;     /* accepted queue: assert_queue_not must fail */
		st = child_status(k, not, i, 0, 0);
		atomic_fetch_add(&n_asserts, 1);
		if (!crashed(st)) {
			FAILF(k, "%s: dispatch_assert_queue%s(%s) returned (status %#x) although %s %s the chain", tag,
				not ? "_not" : "", QN[i], st, QN[i], not ? "belongs to" : "is outside");
		}
	}
}

/* ---------------------------------------------------------------- running a case */
static void busy_item(void *c) { (void)c; usleep(300); }
static void item_fn(void *c) { struct kase *k = c; observe(k, "obs_item"); }
static void async_item_fn(void *c) { struct kase *k = c; observe(k, "obs_item"); dispatch_semaphore_signal(k->done); }
static void apply_fn(void *c, size_t idx)
{
	struct kase *k = c; (void)idx;
	if (pthread_equal(pthread_self(), k->apply_caller)) {
		if (!atomic_exchange(&k->seen_caller, 1)) observe(k, "obs_item");
	} else {
		if (!atomic_exchange(&k->seen_helper, 1)) { atomic_fetch_add(&n_helper, 1); observe(k, "obs_helper"); }
	}
}

static void submit_A(struct kase *k)
{
	dispatch_queue_t top = k->da == 0 ? k->q[QRN] : k->q[QA1];
	int lane = k->da > 0;
	const char *p = k->path;
	if (!strcmp(p, "async") || !strcmp(p, "barrier_async")) {
		if (k->var && lane) dispatch_suspend(top);
		if (!strcmp(p, "async")) dispatch_async_f(top, k, async_item_fn);
		else dispatch_barrier_async_f(top, k, async_item_fn);
		if (k->var && lane) dispatch_resume(top);
		dispatch_semaphore_wait(k->done, DISPATCH_TIME_FOREVER);
		return;
	}
	if (k->var && lane) dispatch_async_f(top, NULL, busy_item);   /* make the slow (waiter) path likely */
	if (!strcmp(p, "sync")) dispatch_sync_f(top, k, item_fn);
	else if (!strcmp(p, "barrier_sync")) dispatch_barrier_sync_f(top, k, item_fn);
	else if (!strcmp(p, "async_and_wait")) dispatch_async_and_wait_f(top, k, item_fn);
	else if (!strcmp(p, "barrier_async_and_wait")) dispatch_barrier_async_and_wait_f(top, k, item_fn);
	else if (!strcmp(p, "apply")) {
		k->apply_caller = pthread_self();
		dispatch_apply_f(4, top, k, apply_fn);
	} else { fprintf(stderr, "bad path %s\n", p); exit(3); }
}

static void outer_fn(void *c)
{
	struct kase *k = c;
	observe(k, "obs_before");
	submit_A(k);
	observe(k, "obs_after");
}
static dispatch_semaphore_t outer_done;
static void outer_async_fn(void *c) { outer_fn(c); dispatch_semaphore_signal(outer_done); }

static void check_direct(struct kase *k)
{
	for (int i = 0; i < NQ; i++) {
		if (!(k->universe & (1u << i))) continue;
		void *e1 = (k->k1 & (1u << i)) ? val_of(i, 1) : NULL, *e2 = (k->k2 & (1u << i)) ? val_of(i, 2) : NULL;
		void *g1 = dispatch_queue_get_specific(k->q[i], &key1), *g2 = dispatch_queue_get_specific(k->q[i], &key2);
		if (g1 != e1 || g2 != e2)
			FAILF(k, "dispatch_queue_get_specific(%s) = (%p, %p), spec (%p, %p)", QN[i], g1, g2, e1, e2);
	}
}

static void run_case(struct kase *k)
{
	k->q[QRO] = (dispatch_queue_t)&_dispatch_root_queues[DISPATCH_ROOT_QUEUE_IDX_DEFAULT_QOS_OVERCOMMIT];
	k->q[QRN] = (dispatch_queue_t)&_dispatch_root_queues[DISPATCH_ROOT_QUEUE_IDX_DEFAULT_QOS];
	k->q[QRU] = (dispatch_queue_t)&_dispatch_root_queues[DISPATCH_ROOT_QUEUE_IDX_UTILITY_QOS];
	k->universe = (1u << QRO) | (1u << QRN) | (1u << QRU);
	for (int h = 0; h < 2; h++) {
		int depth = h ? k->db : k->da, base = h ? QB1 : QA1; const char *kinds = h ? k->kb : k->ka;
		dispatch_queue_t below = NULL;
		for (int i = depth - 1; i >= 0; i--) {
			int conc = kinds[i] == 'c';
			if (!below) below = conc ? k->q[QRN] : k->q[QRO];
			char label[32]; snprintf(label, sizeof label, "c18.%s", QN[base + i]);
			dispatch_queue_t q = dispatch_queue_create_with_target(label, conc ? DISPATCH_QUEUE_CONCURRENT : NULL, below);
			if (q->do_targetq != below) { printf("FAIL %ld setup: target of %s is not the queue it was created with\n", k->id, label); atomic_fetch_add(&n_fail, 1); }
			k->q[base + i] = q; k->universe |= 1u << (base + i);
			below = q;
			/* place the keys: set + replace; set + remove; set */
			if (k->k1 & (1u << (base + i))) {
				dispatch_queue_set_specific(q, &key1, &dummyval, NULL);
				dispatch_queue_set_specific(q, &key1, val_of(base + i, 1), NULL);
			} else if (k->rm) {
				dispatch_queue_set_specific(q, &key1, &dummyval, NULL);
				dispatch_queue_set_specific(q, &key1, NULL, NULL);
			}
			if (k->k2 & (1u << (base + i))) dispatch_queue_set_specific(q, &key2, val_of(base + i, 2), NULL);
		}
	}
	check_direct(k);
	k->done = dispatch_semaphore_create(0);
	if (k->db == 0) {
		submit_A(k);
	} else if (!strcmp(k->bpath, "sync")) {
		if (k->var) dispatch_async_f(k->q[QB1], NULL, busy_item);
		dispatch_sync_f(k->q[QB1], k, outer_fn);
	} else {
		outer_done = dispatch_semaphore_create(0);
		if (k->var) dispatch_suspend(k->q[QB1]);
		dispatch_async_f(k->q[QB1], k, outer_async_fn);
		if (k->var) dispatch_resume(k->q[QB1]);
		dispatch_semaphore_wait(outer_done, DISPATCH_TIME_FOREVER);
		dispatch_release(outer_done);
	}
	/* the plain thread is back outside every queue */
	if (dispatch_get_specific(&key1) || dispatch_get_specific(&key2))
		FAILF(k, "after the case the submitting thread still sees queue-specific data");
	dispatch_release(k->done);
	for (int i = QA1; i <= QB2; i++) if (k->universe & (1u << i)) dispatch_release(k->q[i]);
}

struct args { const char *path; long first, count; };
static void *runner(void *a_)
{
	struct args *a = a_;
	FILE *f = fopen(a->path, "r");
	if (!f) { perror(a->path); exit(3); }
	char *line = NULL; size_t cap = 0; long n = 0, ran = 0;
	while (getline(&line, &cap, f) > 0) {
		if (line[0] != 'C') continue;
		if (n++ < a->first) continue;
		if (ran >= a->count) break;
		struct kase *k = calloc(1, sizeof *k);
		char k1[64], k2[64]; int off = 0;
		if (sscanf(line, "C %ld %d %7s %d %7s %7s %31s %d %63s %63s %d %d%n", &k->id, &k->da, k->ka, &k->db, k->kb,
				k->bpath, k->path, &k->var, k1, k2, &k->rm, &k->nobs, &off) != 12 || k->nobs > MAXOBS) {
			fprintf(stderr, "bad case line: %s", line); exit(3);
		}
		char *s = line + off;
		struct { char g1[8], g2[8], acc[64]; } raw[MAXOBS];
		for (int i = 0; i < k->nobs; i++) {
			int o2 = 0;
			if (sscanf(s, " %15s %7s %7s %63s%n", k->obs[i].tag, raw[i].g1, raw[i].g2, raw[i].acc, &o2) != 4) {
				fprintf(stderr, "bad obs in: %s", line); exit(3);
			}
			s += o2;
		}
		for (int i = 0; i < k->nobs; i++) {
			k->obs[i].g1 = qindex(raw[i].g1); k->obs[i].g2 = qindex(raw[i].g2); k->obs[i].accept = qset(raw[i].acc);
		}
		k->k1 = qset(k1); k->k2 = qset(k2);
		printf("P %ld\n", k->id);
		atomic_store(&cur_case, k->id); atomic_fetch_add(&progress, 1);
		run_case(k);
		free(k);
		ran++;
	}
	fclose(f);
	printf("DONE frames cases=%ld obs=%ld asserts=%ld forks=%ld helper_obs=%ld fail=%ld drift=%ld\n", ran, (long)n_obs,
		(long)n_asserts, (long)n_forks, (long)n_helper, (long)n_fail, (long)n_drift);
	fflush(stdout);
	return NULL;
}

int main(int argc, char **argv)
{
	if (argc < 4) { fprintf(stderr, "usage: drv_frames <cases.txt> <first> <count> [all-crash=1]\n"); return 3; }
	setenv("LIBDISPATCH_LOG", "NO", 1);       /* the client-crash message goes nowhere */
	struct rlimit rl = { 0, 0 }; setrlimit(RLIMIT_CORE, &rl);
	setvbuf(stdout, NULL, _IOLBF, 0);
	_dispatch_log("c18");                     /* run the logging dispatch_once before any fork */
	struct args a = { argv[1], atol(argv[2]), atol(argv[3]) };
	if (argc >= 5) opt_all_crash = atoi(argv[4]);
	pthread_t t, w;
	pthread_create(&w, NULL, watchdog, NULL);
	pthread_create(&t, NULL, runner, &a);     /* a plain thread: no current queue, no frames */
	pthread_join(t, NULL);
	return 0;
}
