/* Driver for C17 (objects live while referenced or busy and are finalised exactly once).
 *
 * Seeded random histories per object type.  One EXECUTION builds a small object graph
 *   queue    : (legacy variant: active Q from dispatch_queue_create, retargeted with dispatch_set_target_queue to
 *              fresh queues N1, N2 <- T while it is idle / suspended / busy, the application dropping each new target
 *              right after the call)
 *   queue    : bottom target T [<- middle M] <- Q (serial | concurrent, maybe initially inactive and retargeted
 *              before activation; context + finalizer + queue-specific keys with destructors) [<- child C]
 *   source   : T <- S (DATA_ADD or TIMER source, context + finalizer, event [+ cancel] handler)
 *   group    : G (context + finalizer), work entered through dispatch_group_async_f / enter-leave / notify on T
 *   semaphore: S (context + finalizer)
 *   data     : D with a destructor block on T, derived concat / subrange objects
 * and lets NT client threads retain / release randomly (never below what they hold), submit work (async,
 * barrier_async, sync, apply, after, self-resubmitting items, items that own and release a reference),
 * suspend / resume, change the context, and finally drop ALL external references while work is still
 * pending or running.  Every API call, item start / end, finalizer and destructor invocation and every atomic
 * access to os_obj_ref_cnt / os_obj_xref_cnt / dq_sref_cnt / dq_state / dq_items_tail / dq_items_head of the
 * registered objects is recorded in one total order (hooked build).  The property's statements are evaluated
 * on that order here (API oracles); the counter records are written for spec/RefsTrace.tla. */
#include "internal.h"
#include <pthread.h>
#include <malloc.h>
#include "verif_rt.h"

enum { KO_LANE = 1, KO_SOURCE, KO_GROUP, KO_SEMA, KO_DATA };
static const char *KON[] = { "?", "lane", "source", "group", "sema", "data" };
enum { CL_REF = 1, CL_XREF, CL_SREF, CL_STATE, CL_TAIL, CL_HEAD };
enum { SC_QUEUE, SC_SOURCE, SC_GROUP, SC_SEMA, SC_DATA, SC_N };
enum { IK_ASYNC, IK_BASYNC, IK_SYNC, IK_APPLY, IK_AFTER, IK_GROUP, IK_NOTIFY };
enum { B_NONE, B_SPIN, B_SLEEP, B_CHILD, B_RELEASE };

#define NT 3
#define MAXO 8
#define MAXI 4096
#define MAXCTX 6

typedef struct ctxcell { int slot; long id; } ctxcell_t;
typedef struct tobj {
	int idx, kind, W, inactive, strict, target;   /* target: slot of the target object or -1 (root queue) */
	void *ptr;
	_Atomic long cur_ctx;          /* id of the context currently set (0 = NULL) */
	_Atomic int fin_runs, dtor_runs[2];
	_Atomic uint64_t fin_seq, dtor_seq[2], last_rel_seq, disp_seen;
	_Atomic uint64_t needed_until;  /* recorded moment until which some live queue had it as current or pending target */
	long fin_ctx; long fin_where;
	int nkeys;
	ctxcell_t ctx[MAXCTX], key[2];
	int gone;                      /* no finalizer / destructor expected any more */
} tobj_t;

typedef struct item {
	int id, slot, kind, body, n, depth, gslot, gbusy;   /* gslot: group involved; gbusy: the item keeps that group non-empty */
	_Atomic int runs;
	uint64_t sub_seq; _Atomic uint64_t start_seq, end_seq;
} item_t;

static int g_execs = 8, g_ops = 14, g_scen_mask = 0x1f, g_mode;
static uint64_t g_seed;
static tobj_t g_o[MAXO];
static int g_no, g_scen, g_after, g_timer, g_exec, g_legacy;
static item_t g_items[MAXI];
static _Atomic int g_nitems;
static _Atomic int g_hold[NT][MAXO];
static pthread_barrier_t g_bar;
static _Atomic int g_fail, g_done_threads, g_handlers_running, g_cancelled;
static _Atomic long g_data_destructed;
static _Atomic uint64_t g_data_destruct_seq;
static long g_data_where;
static int k_id; /* queue-specific key: identity of the queue an invocation runs on */
static char k_d0, k_d1;

/* steering (DESIGN 5.4 in miniature): when a client hands its last reference to a block, its thread is held for
 * a few milliseconds at the +2 that _dispatch_lane_push takes for the wakeup.  In the library as written that is
 * between the tail exchange and the head store (the drainer just waits for the enqueuer); if the +2 is taken later the
 * stall opens exactly the window of rdar://6932776. */
static int g_steer;
static __thread int t_stall_retain;
static void steer(struct dispatch_verif_site_s *site, const volatile void *addr, int obj)
{
	(void)addr;
	if (!t_stall_retain || obj < 0) return;
	if (strstr(site->dvs_expr, "os_obj_ref_cnt") && !strcmp(site->dvs_op, "add")) {
		t_stall_retain = 0;
		usleep(3000 + (unsigned)(vrt_rand() % 3000));
	}
}

static void oracle_fail(const char *what, long a, long b)
{
	fprintf(stderr, "ORACLE-FAIL C17 exec=%d scen=%d %s a=%ld b=%ld\n", g_exec, g_scen, what, a, b);
	atomic_store(&g_fail, 1);
}
static void amax(_Atomic uint64_t *p, uint64_t v)
{
	uint64_t o = atomic_load(p);
	while (o < v && !atomic_compare_exchange_weak(p, &o, v)) { }
}
static void rest(void) { vrt_api("Rest", -1, 0, 0, 0); }
static long where_am_i(void) { return (long)(intptr_t)dispatch_get_specific(&k_id); }

/* ------------------------------- objects ------------------------------- */
static void fin_fn(void *c)
{
	ctxcell_t *cc = c; tobj_t *o = &g_o[cc->slot];
	long w = where_am_i();
	uint64_t s = vrt_api("Fin", o->idx, cc->id, w, 0);
	o->fin_ctx = cc->id; o->fin_where = w;
	atomic_store(&o->fin_seq, s);
	if (atomic_fetch_add(&o->fin_runs, 1) != 0) oracle_fail("finalizer ran more than once", cc->slot, cc->id);
}
static void dtor_fn(void *c)
{
	ctxcell_t *cc = c; tobj_t *o = &g_o[cc->slot];
	uint64_t s = vrt_api("Dtor", o->idx, cc->id, 0, 0);
	atomic_store(&o->dtor_seq[cc->id], s);
	if (atomic_fetch_add(&o->dtor_runs[cc->id], 1) != 0) oracle_fail("queue-specific destructor ran more than once", cc->slot, cc->id);
}

static tobj_t *add_obj(int kind, void *ptr, int W, int inactive, int strict, int target, int ctxid, int nkeys)
{
	tobj_t *o = &g_o[g_no];
	memset(o, 0, sizeof(*o));
	int slot = g_no++;
	o->kind = kind; o->ptr = ptr; o->W = W; o->inactive = inactive; o->strict = strict; o->target = target; o->nkeys = nkeys;
	for (int i = 0; i < MAXCTX; i++) { o->ctx[i].slot = slot; o->ctx[i].id = i; }
	for (int i = 0; i < 2; i++) { o->key[i].slot = slot; o->key[i].id = i; }
	o->idx = vrt_register(ptr, malloc_usable_size(ptr), kind);
	_os_object_t oo = (_os_object_t)ptr;
	vrt_api("Create", o->idx, kind, W, inactive | (strict << 1));
	vrt_api("Init", o->idx, oo->os_obj_ref_cnt, oo->os_obj_xref_cnt, 0);
	if (kind != KO_DATA) {
		dispatch_set_finalizer_f(ptr, fin_fn);
		if (ctxid) dispatch_set_context(ptr, &o->ctx[ctxid]);
		atomic_store(&o->cur_ctx, ctxid);
	}
	if (kind == KO_LANE) {
		dispatch_queue_set_specific(ptr, &k_id, (void *)(intptr_t)(slot + 1), NULL);
		if (nkeys > 0) dispatch_queue_set_specific(ptr, &k_d0, &o->key[0], dtor_fn);
		if (nkeys > 1) dispatch_queue_set_specific(ptr, &k_d1, &o->key[1], dtor_fn);
	}
	return o;
}
static int slot_of(tobj_t *o) { return (int)(o - g_o); }
static void targets(tobj_t *child, int newt, int oldt)
{
	vrt_api("Targ", child->idx, newt >= 0 ? g_o[newt].idx : -1, oldt >= 0 ? g_o[oldt].idx : -1, 0);
	child->target = newt;
}

static void do_retain(int me, int slot)
{
	/* logged AFTER the call (and releases BEFORE it): the recorded number of references the application holds
	 * never exceeds the real one, whatever the interleaving */
	dispatch_retain(g_o[slot].ptr);
	vrt_api("Retain", g_o[slot].idx, 0, 0, 0);
	if (me >= 0) atomic_fetch_add(&g_hold[me][slot], 1);
	rest();
}
static void do_release_raw(int slot)
{
	tobj_t *o = &g_o[slot];
	void *p = o->ptr;
	uint64_t s = vrt_api("Release", o->idx, 0, 0, 0);
	amax(&o->last_rel_seq, s);
	dispatch_release(p);
	rest();
}
static void do_release(int me, int slot)
{
	if (me >= 0) atomic_fetch_sub(&g_hold[me][slot], 1);
	do_release_raw(slot);
}

/* ------------------------------- items ------------------------------- */
static item_t *new_item(int slot, int kind, int body, int n, int depth)
{
	int id = atomic_fetch_add(&g_nitems, 1);
	if (id >= MAXI) return NULL;
	item_t *it = &g_items[id];
	memset(it, 0, sizeof(*it));
	it->id = id; it->slot = slot; it->kind = kind; it->body = body; it->n = n; it->depth = depth; it->gslot = -1;
	return it;
}
static void submit(item_t *it);
static void spin(unsigned n) { volatile unsigned x = 0; for (unsigned i = 0; i < n; i++) x++; }

static void item_body(item_t *it)
{
	tobj_t *o = &g_o[it->slot];
	uint64_t s = vrt_api("Start", o->idx, it->id, it->kind, 0);
	if (atomic_load(&it->start_seq) == 0) atomic_store(&it->start_seq, s);
	atomic_fetch_add(&it->runs, 1);
	if (atomic_load(&o->fin_runs) > 0) oracle_fail("item ran after the finalizer of its object", it->slot, it->id);
	switch (it->body) {
	case B_SPIN: spin((unsigned)(vrt_rand() % 3000)); break;
	case B_SLEEP: usleep((unsigned)(vrt_rand() % 600)); break;
	case B_CHILD: {
		/* the last block of a queue asyncing to that queue: no external reference is involved */
		item_t *c = new_item(it->slot, IK_ASYNC, it->depth < 2 && (vrt_rand() & 1) ? B_CHILD : B_NONE, 1, it->depth + 1);
		if (c) submit(c);
		break;
	}
	case B_RELEASE:
		/* the block owns a reference taken by its submitter and gives it up here (rdar://6932776) */
		do_release_raw(it->slot);
		break;
	default: break;
	}
	if (it->gbusy) vrt_api("Busy", g_o[it->gslot].idx, -1, 0, 0);
	s = vrt_api("End", o->idx, it->id, it->kind, 0);
	amax(&it->end_seq, s);
}
static void item_fn(void *c) { item_body(c); }
static void apply_fn(void *c, size_t i) { (void)i; item_body(c); }

static void submit(item_t *it)
{
	tobj_t *o = &g_o[it->slot];
	dispatch_queue_t q = o->ptr;
	it->sub_seq = vrt_api("Sub", o->idx, it->id, it->kind, it->n);
	switch (it->kind) {
	case IK_ASYNC: dispatch_async_f(q, it, item_fn); break;
	case IK_BASYNC: dispatch_barrier_async_f(q, it, item_fn); break;
	case IK_SYNC: dispatch_sync_f(q, it, item_fn); break;
	case IK_APPLY: dispatch_apply_f((size_t)it->n, q, it, apply_fn); break;
	case IK_AFTER: dispatch_after_f(dispatch_time(DISPATCH_TIME_NOW, (int64_t)(vrt_rand() % 2000000)), q, it, item_fn); break;
	case IK_GROUP:
		vrt_api("Busy", g_o[it->gslot].idx, 1, 0, 0);
		dispatch_group_async_f(g_o[it->gslot].ptr, q, it, item_fn); break;
	case IK_NOTIFY: dispatch_group_notify_f(g_o[it->gslot].ptr, q, it, item_fn); break;
	}
	rest();
	if (it->kind == IK_SYNC || it->kind == IK_APPLY) {
		if (atomic_load(&it->runs) != it->n) oracle_fail("synchronous submission returned before its item ran", it->id, atomic_load(&it->runs));
	}
	vrt_progress();
}

/* ------------------------------- clients ------------------------------- */
static int pick_body(void)
{
	unsigned k = (unsigned)(vrt_rand() % 10);
	return k < 3 ? B_NONE : k < 5 ? B_SPIN : k < 8 ? B_SLEEP : B_CHILD;
}

static void queue_ops(int me, int slot)
{
	tobj_t *o = &g_o[slot];
	unsigned k = (unsigned)(vrt_rand() % 100);
	item_t *it = NULL;
	if (k < 8) { if (atomic_load(&g_hold[me][slot]) < 3) do_retain(me, slot); }
	else if (k < 16) { if (atomic_load(&g_hold[me][slot]) > 1) do_release(me, slot); }
	else if (k < 40) it = new_item(slot, IK_ASYNC, pick_body(), 1, 0);
	else if (k < 50) it = new_item(slot, IK_BASYNC, pick_body(), 1, 0);
	/* (legacy-retarget executions used to avoid client dispatch_sync / dispatch_apply next to the retargets: the pinned
	 * _dispatch_sync_complete_recurse re-read dq->do_targetq after it had unlocked dq - finding F4, fixed by ea40453 and
	 * guarded by C01's Retarget.tla / drv_retarget - so they are back in the mix) */
	else if (k < 60) it = new_item(slot, IK_SYNC, vrt_rand() & 1 ? B_SPIN : B_NONE, 1, 0);
	else if (k < 66) it = new_item(slot, IK_APPLY, B_NONE, 3, 0);
	else if (k < 74) { if (g_after && slot == 2) it = new_item(slot, IK_AFTER, B_NONE, 1, 0); else it = new_item(slot, IK_ASYNC, B_SLEEP, 1, 0); }
	else if (k < 82) {
		/* now and then nested deeper than the inline suspend count holds (63): the suspension's +2 must survive the
		 * moment the inline count is back to 0 while the side count still holds the rest (seed C17-5) */
		int depth = (vrt_rand() % 9 == 0) ? 64 + (int)(vrt_rand() % 8) : 1;
		for (int d = 0; d < depth; d++) { vrt_api("Susp", o->idx, 0, 0, 0); dispatch_suspend(o->ptr); rest(); }
		usleep((unsigned)(vrt_rand() % 300));
		for (int d = 0; d < depth; d++) { vrt_api("Res", o->idx, 0, 0, 0); dispatch_resume(o->ptr); rest(); }
	} else if (k < 90) {
		if (me == 0 && slot == 2) {
			long id = 1 + (long)(vrt_rand() % (MAXCTX - 1));
			if (vrt_rand() % 7 == 0) id = 0;
			vrt_api("SetCtx", o->idx, id, 0, 0);
			dispatch_set_context(o->ptr, id ? &o->ctx[id] : NULL);
			atomic_store(&o->cur_ctx, id);
			rest();
		}
	} else {
		/* hand a reference to a block that releases it when it runs */
		do_retain(-1, slot);
		it = new_item(slot, IK_ASYNC, B_RELEASE, 1, 0);
		if (!it) do_release_raw(slot);
	}
	if (it) submit(it);
}

static void drop_all(int me)
{
	/* a last burst of work, then every reference this client holds goes away while that work is pending */
	for (int s = 0; s < g_no; s++) {
		int h = atomic_load(&g_hold[me][s]);
		if (h <= 0) continue;
		if (g_o[s].kind == KO_LANE) {
			int nb = (int)(vrt_rand() % 3);
			for (int i = 0; i < nb; i++) { item_t *it = new_item(s, IK_ASYNC, vrt_rand() & 1 ? B_SLEEP : B_CHILD, 1, 0); if (it) submit(it); }
		}
		while (atomic_load(&g_hold[me][s]) > 1) do_release(me, s);
		if (g_o[s].kind == KO_LANE && (vrt_rand() & 1)) {
			/* the last reference this client holds is handed to a block that releases it when it runs (the case
			 * of rdar://6932776: after the submission the client never touches the queue again) */
			item_t *it = new_item(s, IK_ASYNC, B_RELEASE, 1, 0);
			if (it) { atomic_fetch_sub(&g_hold[me][s], 1); t_stall_retain = g_steer; submit(it); t_stall_retain = 0; }
		}
		while (atomic_load(&g_hold[me][s]) > 0) do_release(me, s);
	}
}

static void src_handler(void *c)
{
	ctxcell_t *cc = c; tobj_t *o = &g_o[cc->slot];
	vrt_api("Busy", o->idx, 1, 0, 0);
	atomic_fetch_add(&g_handlers_running, 1);
	if (atomic_load(&o->fin_runs) > 0) oracle_fail("source handler ran after the finalizer", cc->slot, 0);
	if (where_am_i() != o->target + 1) oracle_fail("source handler not on the target queue", where_am_i(), o->target + 1);
	if (vrt_rand() & 1) usleep((unsigned)(vrt_rand() % 300));
	atomic_fetch_sub(&g_handlers_running, 1);
	uint64_t s = vrt_api("Busy", o->idx, -1, 0, 0);
	amax(&o->disp_seen, s);   /* reused: last handler end */
}
static void src_cancel_handler(void *c)
{
	ctxcell_t *cc = c; tobj_t *o = &g_o[cc->slot];
	vrt_api("Busy", o->idx, 1, 0, 0);
	if (atomic_fetch_add(&g_cancelled, 1) != 0) oracle_fail("cancel handler ran more than once", cc->slot, 0);
	uint64_t s = vrt_api("Busy", o->idx, -1, 0, 0);
	amax(&o->disp_seen, s);
}

static void *client(void *arg)
{
	int me = (int)(long)arg;
	(void)vrt_tid();
	for (int e = 0; e < g_execs; e++) {
		pthread_barrier_wait(&g_bar);
		int activated = 0;
		for (int i = 0; i < g_ops; i++) {
			switch (g_scen) {
			case SC_QUEUE: {
				tobj_t *q = &g_o[2];
				if (q->inactive && me == 0 && !activated && i >= 2) {
					vrt_api("Act", q->idx, 0, 0, 0);
					dispatch_activate(q->ptr); rest();
					activated = 1;
				}
				int slot = 2;
				if (g_no > 3 && atomic_load(&g_hold[me][3]) > 0 && vrt_rand() % 3 == 0) slot = 3;
				if (q->inactive && !activated && me == 0) {
					item_t *it = new_item(2, IK_ASYNC, B_NONE, 1, 0); if (it) submit(it);   /* queued before activation */
				} else queue_ops(me, slot);
				break;
			}
			case SC_SOURCE: {
				tobj_t *s = &g_o[1];
				unsigned k = (unsigned)(vrt_rand() % 100);
				if (k < 15) { if (atomic_load(&g_hold[me][1]) < 3) do_retain(me, 1); }
				else if (k < 30) { if (atomic_load(&g_hold[me][1]) > 1) do_release(me, 1); }
				else if (k < 75) { if (!g_timer) { dispatch_source_merge_data(s->ptr, 1); rest(); } else usleep(200); }
				else if (k < 85) {
					vrt_api("Susp", s->idx, 0, 0, 0); dispatch_suspend(s->ptr); rest();
					usleep((unsigned)(vrt_rand() % 200));
					vrt_api("Res", s->idx, 0, 0, 0); dispatch_resume(s->ptr); rest();
				} else if (k < 92 && me == 1) { vrt_api("Cancel", s->idx, 0, 0, 0); dispatch_source_cancel(s->ptr); rest(); }
				else usleep(100);
				break;
			}
			case SC_GROUP: {
				tobj_t *g = &g_o[1];
				unsigned k = (unsigned)(vrt_rand() % 100);
				if (k < 12) { if (atomic_load(&g_hold[me][1]) < 3) do_retain(me, 1); }
				else if (k < 24) { if (atomic_load(&g_hold[me][1]) > 1) do_release(me, 1); }
				else if (k < 60) { item_t *it = new_item(0, IK_GROUP, pick_body() == B_CHILD ? B_SLEEP : B_SPIN, 1, 0); if (it) { it->gslot = 1; it->gbusy = 1; submit(it); } }
				else if (k < 80) {
					vrt_api("Busy", g->idx, 1, 0, 0);
					dispatch_group_enter(g->ptr); rest();
					usleep((unsigned)(vrt_rand() % 200));
					vrt_api("Busy", g->idx, -1, 0, 0);
					dispatch_group_leave(g->ptr); rest();
				} else { item_t *it = new_item(0, IK_NOTIFY, B_NONE, 1, 0); if (it) { it->gslot = 1; submit(it); } }   /* does not keep the group busy */
				break;
			}
			case SC_SEMA: {
				tobj_t *s = &g_o[0];
				unsigned k = (unsigned)(vrt_rand() % 100);
				if (k < 15) { if (atomic_load(&g_hold[me][0]) < 3) do_retain(me, 0); }
				else if (k < 30) { if (atomic_load(&g_hold[me][0]) > 1) do_release(me, 0); }
				else { dispatch_semaphore_signal(s->ptr); rest();
					dispatch_semaphore_wait(s->ptr, vrt_rand() & 1 ? DISPATCH_TIME_NOW : dispatch_time(DISPATCH_TIME_NOW, 50000)); rest(); }
				break;
			}
			case SC_DATA: {
				tobj_t *d = &g_o[1];
				unsigned k = (unsigned)(vrt_rand() % 100);
				if (k < 20) { if (atomic_load(&g_hold[me][1]) < 3) do_retain(me, 1); }
				else if (k < 40) { if (atomic_load(&g_hold[me][1]) > 1) do_release(me, 1); }
				else if (k < 70) {
					dispatch_data_t c = dispatch_data_create_concat(d->ptr, d->ptr); rest();
					dispatch_data_t sr = dispatch_data_create_subrange(c, 8, 40); rest();
					const void *buf; size_t sz;
					dispatch_data_t m = dispatch_data_create_map(sr, &buf, &sz); rest();
					if (sz != 40 || ((const char *)buf)[0] != 8) oracle_fail("data contents wrong", (long)sz, 0);
					dispatch_release(c); rest(); usleep((unsigned)(vrt_rand() % 100));
					dispatch_release(m); rest(); dispatch_release(sr); rest();
				} else {
					dispatch_data_t sr = dispatch_data_create_subrange(d->ptr, 4, 16); rest();
					usleep((unsigned)(vrt_rand() % 100));
					if (dispatch_data_get_size(sr) != 16) oracle_fail("subrange size wrong", 0, 0);
					dispatch_release(sr); rest();
				}
				break;
			}
			}
			vrt_progress();
		}
		if (g_scen == SC_QUEUE && g_o[2].inactive && me == 0 && !activated) {
			vrt_api("Act", g_o[2].idx, 0, 0, 0); dispatch_activate(g_o[2].ptr); rest();
		}
		drop_all(me);
		atomic_fetch_add(&g_done_threads, 1);
		pthread_barrier_wait(&g_bar);
	}
	return NULL;
}

/* ------------------------------- projection ------------------------------- */
static struct { int kind, W; } g_pt[4096];   /* per execution: trace id -> kind / width (filled from Create marks) */

static void pabs(FILE *f, const char *k, uint64_t s, int W)
{
	int64_t wb = (int64_t)((s & DISPATCH_QUEUE_WIDTH_MASK) >> DISPATCH_QUEUE_WIDTH_SHIFT);
	int used = (int)(wb - (int64_t)(DISPATCH_QUEUE_WIDTH_FULL - (unsigned)W));
	uint64_t ow = s & DISPATCH_QUEUE_DRAIN_OWNER_MASK;
	fprintf(f, "\"%s\":{\"sc\":%d,\"side\":%s,\"inact\":%s,\"na\":%s,\"ib\":%s,\"pb\":%s,\"used\":%d,\"dirty\":%s,"
			"\"enq\":%s,\"enqm\":%s,\"locked\":%s}", k, (int)(s / DISPATCH_QUEUE_SUSPEND_INTERVAL),
			(s & DISPATCH_QUEUE_HAS_SIDE_SUSPEND_CNT) ? "true" : "false", _dq_state_is_inactive(s) ? "true" : "false",
			(s & DISPATCH_QUEUE_NEEDS_ACTIVATION) ? "true" : "false", _dq_state_is_in_barrier(s) ? "true" : "false",
			_dq_state_has_pending_barrier(s) ? "true" : "false", used, _dq_state_is_dirty(s) ? "true" : "false",
			_dq_state_is_enqueued_on_target(s) ? "true" : "false", _dq_state_is_enqueued_on_manager(s) ? "true" : "false",
			ow ? "true" : "false");
}

static void proj(FILE *f, const vrt_rec_t *r)
{
	switch (r->kind) {
	case VRT_MARK:
		fprintf(f, "{\"e\":\"%s\",\"scen\":%ld,\"mode\":%ld}\n", r->name, r->a, r->b);
		break;
	case VRT_API:
		if (!strcmp(r->name, "Create") && r->obj >= 0 && r->obj < 4096) { g_pt[r->obj].kind = (int)r->a; g_pt[r->obj].W = (int)r->b; }
		if (!strcmp(r->name, "Create"))
			fprintf(f, "{\"e\":\"Create\",\"t\":%d,\"o\":%d,\"kind\":\"%s\",\"w\":%ld,\"inactive\":%s,\"strict\":%s}\n", r->tid, r->obj,
					KON[r->a], r->b, (r->c & 1) ? "true" : "false", (r->c & 2) ? "true" : "false");
		else
			fprintf(f, "{\"e\":\"%s\",\"t\":%d,\"o\":%d,\"a\":%ld,\"b\":%ld,\"c\":%ld,\"n\":%llu}\n", r->name, r->tid, r->obj, r->a, r->b, r->c,
					(unsigned long long)r->seq);
		break;
	case VRT_PROBE:
		if (!strcmp(r->name, "dispose") && r->obj >= 0)
			fprintf(f, "{\"e\":\"DisposeProbe\",\"t\":%d,\"o\":%d,\"a\":%ld,\"b\":%ld}\n", r->tid, r->obj, r->a, r->b);
		break;
	case VRT_ATOMIC: {
		if (r->obj < 0) break;
		const char *op = r->site->dvs_op;
		if (op[0] == 'g') break;                     /* give-up of an rmw loop: no access */
		int isload = op[0] == 'l';
		switch (r->cls) {
		case CL_REF: case CL_XREF: case CL_SREF:
			if (r->size != 4) break;
			fprintf(f, "{\"e\":\"%s\",\"t\":%d,\"o\":%d,\"f\":\"%s\",\"op\":\"%s\",\"old\":%d,\"new\":%d,\"ok\":%d,\"mo\":\"%s\"}\n",
					r->cls == CL_REF ? "R" : r->cls == CL_XREF ? "X" : "SR", r->tid, r->obj, r->site->dvs_func, op,
					(int)(uint32_t)r->oldv, (int)(uint32_t)r->newv, r->ok, r->site->dvs_mo);
			break;
		case CL_STATE:
			if (r->size != 8) { fprintf(f, "{\"e\":\"StHalf\",\"t\":%d,\"o\":%d}\n", r->tid, r->obj); break; }
			if (isload || !r->ok || r->oldv == r->newv) break;
			fprintf(f, "{\"e\":\"St\",\"t\":%d,\"o\":%d,\"f\":\"%s\",\"op\":\"%s\",", r->tid, r->obj, r->site->dvs_func, op);
			pabs(f, "old", r->oldv, g_pt[r->obj].W ? g_pt[r->obj].W : 1); fputc(',', f);
			pabs(f, "new", r->newv, g_pt[r->obj].W ? g_pt[r->obj].W : 1);
			fprintf(f, "}\n");
			break;
		case CL_TAIL:
			if (isload || !r->ok) break;
			fprintf(f, "{\"e\":\"Tail\",\"t\":%d,\"o\":%d,\"f\":\"%s\",\"op\":\"%s\",\"first\":%s,\"nn\":%s}\n", r->tid, r->obj,
					r->site->dvs_func, op, (op[0] == 'x' && r->oldv == 0) ? "true" : "false", r->newv ? "true" : "false");
			break;
		case CL_HEAD:
			if (isload || !r->ok) break;
			fprintf(f, "{\"e\":\"Head\",\"t\":%d,\"o\":%d,\"f\":\"%s\",\"nn\":%s}\n", r->tid, r->obj, r->site->dvs_func,
					(r->newv && r->newv != 0x200) ? "true" : "false");
			break;
		}
		break;
	}
	}
}

/* ------------------------------- executions ------------------------------- */
static dispatch_queue_t mkq(const char *label, int conc, int inactive, dispatch_queue_t tq)
{
	dispatch_queue_attr_t a = conc ? DISPATCH_QUEUE_CONCURRENT : DISPATCH_QUEUE_SERIAL;
	if (inactive) a = dispatch_queue_attr_make_initially_inactive(a);
	return tq ? dispatch_queue_create_with_target(label, a, tq) : dispatch_queue_create(label, a);
}

static int expected_events_done(void)
{
	for (int s = 0; s < g_no; s++) {
		tobj_t *o = &g_o[s];
		if (o->gone) continue;
		if (o->kind == KO_DATA) { if (!atomic_load(&g_data_destructed)) return 0; continue; }
		if (atomic_load(&o->cur_ctx) && atomic_load(&o->fin_runs) < 1) return 0;
		for (int k = 0; k < o->nkeys; k++) if (atomic_load(&o->dtor_runs[k]) < 1) return 0;
	}
	return 1;
}
static void wait_events(const char *what)
{
	/* no vrt_progress here: if nothing happens any more and an expected finalizer / destructor has not run,
	 * the runtime's watchdog dumps the trace and exits 71 (the object was never disposed: a leak) */
	(void)what;
	while (!expected_events_done()) usleep(300);
}

static void check_object(int s, uint64_t last_end)
{
	tobj_t *o = &g_o[s];
	long ctx = atomic_load(&o->cur_ctx);
	int fr = atomic_load(&o->fin_runs);
	if (o->kind == KO_DATA) return;
	if (ctx && fr != 1) oracle_fail("finalizer of an object with a context did not run exactly once", s, fr);
	if (!ctx && fr != 0) oracle_fail("finalizer ran for an object without context", s, fr);
	if (fr) {
		uint64_t fs = atomic_load(&o->fin_seq);
		if (o->fin_ctx != ctx) oracle_fail("finalizer got a context that was not the current one", o->fin_ctx, ctx);
		if (fs < atomic_load(&o->last_rel_seq)) oracle_fail("finalizer ran before the last external release", s, 0);
		if (fs < last_end) oracle_fail("finalizer ran before the object's pending work finished", s, 0);
		if (fs < atomic_load(&o->needed_until)) oracle_fail("object finalized while a live queue had it as its current or pending target", s, 0);
		if (o->fin_where != (o->target >= 0 ? o->target + 1 : 0)) oracle_fail("finalizer did not run on the target queue", o->fin_where, o->target + 1);
	}
	for (int k = 0; k < o->nkeys; k++) {
		int dr = atomic_load(&o->dtor_runs[k]);
		if (dr != 1) oracle_fail("queue-specific destructor did not run exactly once", s, dr);
		uint64_t ds = atomic_load(&o->dtor_seq[k]);
		if (dr && ds < atomic_load(&o->last_rel_seq)) oracle_fail("queue-specific destructor ran before the last external release", s, k);
		if (dr && ds < last_end) oracle_fail("queue-specific destructor ran before the pending work finished", s, k);
		if (dr && ds < atomic_load(&o->needed_until)) oracle_fail("object disposed while a live queue had it as its current or pending target", s, k);
	}
}

static void check_items(uint64_t *last_end)
{
	int n = atomic_load(&g_nitems); if (n > MAXI) n = MAXI;
	for (int i = 0; i < n; i++) {
		item_t *it = &g_items[i];
		int r = atomic_load(&it->runs);
		if (r != it->n) oracle_fail(r < it->n ? "submitted item never ran although its queue was released only afterwards" : "item ran more than once", i, r);
		uint64_t e = atomic_load(&it->end_seq);
		if (e > last_end[it->slot]) last_end[it->slot] = e;
		if (it->gbusy && e > last_end[it->gslot]) last_end[it->gslot] = e;
	}
}

/* dispatch_set_target_queue on the ACTIVE queue Q (slot 2) while the clients work on it: Q is idle-or-whatever,
 * suspended by this thread, or made busy, at the call; right after the call the application drops its only reference
 * on the new target (the canonical "dispatch_set_target_queue(q, tq); dispatch_release(tq);"), later resumes.  From the
 * call on the new target is Q's pending target; the old one stays its target until the retarget barrier ran. */
static int g_lcur, g_ldone, g_ln;
static void legacy_retarget_one(int mode)
{
	tobj_t *q = &g_o[2];
	int k = g_ldone++, nt = 3 + k, cur = g_lcur;
	if (mode == 1) { vrt_api("Susp", q->idx, 0, 0, 0); dispatch_suspend(q->ptr); rest(); }
	else if (mode == 2) for (int i = 0; i < 3; i++) { item_t *it = new_item(2, IK_ASYNC, B_SLEEP, 1, 0); if (it) submit(it); }
	uint64_t sq = vrt_api("Retarget", q->idx, g_o[nt].idx, cur >= 0 ? g_o[cur].idx : -1, 0);
	if (cur >= 0) amax(&g_o[cur].needed_until, sq);
	q->target = nt;
	dispatch_set_target_queue(q->ptr, g_o[nt].ptr); rest();
	do_release_raw(nt);
	if (mode == 1) {
		usleep((unsigned)(vrt_rand() % 1200));
		vrt_api("Res", q->idx, 0, 0, 0); dispatch_resume(q->ptr); rest();
	} else if (vrt_rand() & 1) { item_t *it = new_item(2, IK_SYNC, B_NONE, 1, 0); if (it) submit(it); }
	g_lcur = nt;
	vrt_progress();
}
static void legacy_retargets(void)
{
	while (g_ldone < g_ln) {
		usleep((unsigned)(vrt_rand() % 1500));
		legacy_retarget_one((int)(vrt_rand() % 3));
	}
	/* a target that was never used goes away with the application's reference */
	for (int k = g_ln; k < 2; k++) do_release_raw(3 + k);
	do_release_raw(2);
}

static void run_execution(int e)
{
	g_exec = e;
	/* every enabled type at least once, queues most often */
	int sc = e < SC_N ? e : (vrt_rand() % 2 ? SC_QUEUE : (int)(vrt_rand() % SC_N));
	for (int k = 0; k < SC_N && !(g_scen_mask & (1 << sc)); k++) sc = (sc + 1) % SC_N;
	g_scen = sc;
	vrt_unregister_all();
	g_no = 0; atomic_store(&g_nitems, 0); atomic_store(&g_done_threads, 0);
	atomic_store(&g_handlers_running, 0); atomic_store(&g_cancelled, 0); atomic_store(&g_data_destructed, 0);
	memset(g_hold, 0, sizeof(g_hold));
	g_after = 0; g_timer = 0; g_legacy = 0;
	vrt_mark("Reset", g_scen, g_mode, 0);
	tobj_t *T = NULL, *X = NULL;
	switch (g_scen) {
	case SC_QUEUE: {
		int conc = (int)(vrt_rand() % 3 == 0), depth2 = (int)(vrt_rand() & 1), inact = (int)(vrt_rand() % 4 == 0);
		int child = (int)(vrt_rand() % 3 == 0);
		g_legacy = (g_mode & 1) ? 1 : (int)(vrt_rand() % 3 == 0);
		if (g_legacy) { child = 0; inact = 0; }
		g_after = !child && !g_legacy && (vrt_rand() % 3 == 0);
		T = add_obj(KO_LANE, mkq("verif.T", 0, 0, NULL), 1, 0, 1, -1, 1, 1);
		/* slot 1 is always the middle queue (created even when unused so that slots are fixed) */
		tobj_t *M = add_obj(KO_LANE, mkq("verif.M", 0, 0, T->ptr), 1, 0, 1, 0, 1, 1);
		targets(M, 0, -1);
		int tgt = depth2 ? 1 : 0;
		dispatch_queue_t q;
		if (inact && (vrt_rand() & 1)) {
			/* created inactive on the default target, retargeted before activation (dispatch_set_target_queue) */
			q = mkq("verif.Q", conc, 1, NULL);
			X = add_obj(KO_LANE, q, conc ? (int)upcast(q)._dl->dq_width : 1, 1, !conc && !g_after, -1, (int)(vrt_rand() % 3), 2);
			targets(X, tgt, -1);
			dispatch_set_target_queue(q, g_o[tgt].ptr); rest();
		} else if (inact) {
			/* created inactive directly on its target; sometimes retargeted to the other level before activation */
			q = mkq("verif.Q", conc, 1, g_o[tgt].ptr);
			X = add_obj(KO_LANE, q, conc ? (int)upcast(q)._dl->dq_width : 1, 1, !conc && !g_after, tgt, (int)(vrt_rand() % 3), 2);
			targets(X, tgt, -1);
			if (vrt_rand() & 1) {
				int nt = 1 - tgt;
				targets(X, nt, tgt);
				dispatch_set_target_queue(q, g_o[nt].ptr); rest();
				tgt = nt;
			}
		} else if (g_legacy) {
			/* dispatch_queue_create: active, default target, still mutable ("legacy"): retargeted later while it works */
			q = mkq("verif.Q", conc, 0, NULL);
			X = add_obj(KO_LANE, q, conc ? (int)upcast(q)._dl->dq_width : 1, 0, !conc, -1, (int)(vrt_rand() % 3), 2);
			for (int k = 0; k < 2; k++) {
				tobj_t *N = add_obj(KO_LANE, mkq(k ? "verif.N2" : "verif.N1", 0, 0, T->ptr), 1, 0, 1, 0, 1, 1);
				targets(N, 0, -1);
			}
		} else {
			q = mkq("verif.Q", conc, 0, g_o[tgt].ptr);
			X = add_obj(KO_LANE, q, conc ? (int)upcast(q)._dl->dq_width : 1, 0, !conc && !g_after, tgt, (int)(vrt_rand() % 3), 2);
			targets(X, tgt, -1);
		}
		if (child) {
			tobj_t *C = add_obj(KO_LANE, mkq("verif.C", 0, 0, q), 1, 0, 1, 2, 1, 1);
			targets(C, 2, -1);
		}
		/* hand one reference on Q to every client (on C to clients 0 and 1), then drop the creator's */
		for (int c = 0; c < NT; c++) { do_retain(c, 2); if (child && c < 2) do_retain(c, 3); }
		if (!g_legacy) do_release_raw(2);     /* the legacy variant keeps the creator's reference for the retargets */
		if (child) do_release_raw(3);
		break;
	}
	case SC_SOURCE: {
		g_timer = (int)(vrt_rand() & 1);
		T = add_obj(KO_LANE, mkq("verif.T", 0, 0, NULL), 1, 0, 1, -1, 1, 1);
		dispatch_source_t s = dispatch_source_create(g_timer ? DISPATCH_SOURCE_TYPE_TIMER : DISPATCH_SOURCE_TYPE_DATA_ADD, 0, 0, T->ptr);
		X = add_obj(KO_SOURCE, s, 1, 1, 0, 0, 1, 0);
		targets(X, 0, -1);
		dispatch_source_set_event_handler_f(s, src_handler);
		if (vrt_rand() & 1) dispatch_source_set_cancel_handler_f(s, src_cancel_handler);
		if (g_timer) dispatch_source_set_timer(s, dispatch_time(DISPATCH_TIME_NOW, 200000), 300000, 0);
		vrt_api("Act", X->idx, 0, 0, 0);
		dispatch_activate(s); rest();
		for (int c = 0; c < NT; c++) do_retain(c, 1);
		do_release_raw(1);
		break;
	}
	case SC_GROUP: {
		/* T is not "strict": every pending notification holds an anonymous +1 on it */
		T = add_obj(KO_LANE, mkq("verif.T", 0, 0, NULL), 1, 0, 0, -1, 1, 1);
		X = add_obj(KO_GROUP, dispatch_group_create(), 0, 0, 0, -1, 1, 0);
		for (int c = 0; c < NT; c++) do_retain(c, 1);
		do_release_raw(1);
		break;
	}
	case SC_SEMA: {
		X = add_obj(KO_SEMA, dispatch_semaphore_create((long)(vrt_rand() % 3)), 0, 0, 0, -1, 1, 0);
		for (int c = 0; c < NT; c++) do_retain(c, 0);
		do_release_raw(0);
		break;
	}
	case SC_DATA: {
		/* the data object holds an anonymous +1 on its destructor queue */
		T = add_obj(KO_LANE, mkq("verif.T", 0, 0, NULL), 1, 0, 0, -1, 1, 1);
		char *buf = malloc(64); for (int i = 0; i < 64; i++) buf[i] = (char)i;
		dispatch_data_t d = dispatch_data_create(buf, 64, T->ptr, ^{
			long w = where_am_i();
			uint64_t sq = vrt_api("DataDtor", -1, w, 0, 0);
			g_data_where = w; atomic_store(&g_data_destruct_seq, sq);
			if (atomic_fetch_add(&g_data_destructed, 1) != 0) oracle_fail("data destructor ran more than once", 0, 0);
			free(buf);
		});
		X = add_obj(KO_DATA, d, 0, 0, 0, -1, 0, 0);
		for (int c = 0; c < NT; c++) do_retain(c, 1);
		do_release_raw(1);
		break;
	}
	}
	if (g_scen == SC_QUEUE && g_legacy) {
		g_lcur = -1; g_ldone = 0; g_ln = 1 + (int)(vrt_rand() & 1);
		/* sometimes the first retarget finds the queue idle (nobody uses it yet): the barrier runs inline (trysync) */
		if (vrt_rand() % 3 == 0) legacy_retarget_one(0);
	}
	pthread_barrier_wait(&g_bar);
	if (g_scen == SC_QUEUE && g_legacy) legacy_retargets();
	while (atomic_load(&g_done_threads) < NT) usleep(200);
	pthread_barrier_wait(&g_bar);
	/* every client dropped everything; the bottom / middle queues are still held by this thread */
	for (int s = 0; s < g_no; s++) if (&g_o[s] == T || (g_scen == SC_QUEUE && s == 1)) g_o[s].gone = 1;
	wait_events("objects under test");
	/* now the hierarchy below them, top down */
	if (g_scen == SC_QUEUE) { g_o[1].gone = 0; do_release_raw(1); wait_events("middle queue"); }
	if (T) { T->gone = 0; do_release_raw(slot_of(T)); wait_events("bottom queue"); }
	vrt_api("Idle", -1, 0, 0, 0);
	/* oracles on the recorded order */
	uint64_t last_end[MAXO]; memset(last_end, 0, sizeof(last_end));
	check_items(last_end);
	/* work submitted to a child also is pending work of its target chain */
	for (int pass = 0; pass < 4; pass++)
		for (int s = g_no - 1; s >= 0; s--) if (g_o[s].target >= 0 && last_end[s] > last_end[g_o[s].target]) last_end[g_o[s].target] = last_end[s];
	/* a target must outlive the application's references on the queues that (finally) target it */
	for (int pass = 0; pass < 4; pass++)
		for (int s = 0; s < g_no; s++) if (g_o[s].target >= 0) {
			tobj_t *t = &g_o[g_o[s].target];
			amax(&t->needed_until, atomic_load(&g_o[s].last_rel_seq));
			amax(&t->needed_until, atomic_load(&g_o[s].needed_until));
		}
	for (int s = 0; s < g_no; s++) {
		uint64_t le = last_end[s];
		if (g_o[s].kind == KO_SOURCE && atomic_load(&g_o[s].disp_seen) > le) le = atomic_load(&g_o[s].disp_seen);
		check_object(s, le);
	}
	if (g_scen == SC_DATA) {
		if (atomic_load(&g_data_destructed) != 1) oracle_fail("data destructor did not run exactly once", atomic_load(&g_data_destructed), 0);
		if (atomic_load(&g_data_destruct_seq) < atomic_load(&g_o[1].last_rel_seq)) oracle_fail("data destructor ran before the last release", 0, 0);
		if (g_data_where != 1) oracle_fail("data destructor did not run on its queue", g_data_where, 1);
	}
	if (g_scen == SC_SOURCE && atomic_load(&g_handlers_running) != 0) oracle_fail("source handler still running at the end", 0, 0);
	vrt_progress();
}

int main(int argc, char **argv)
{
	const char *out = argc > 1 ? argv[1] : "/dev/null";
	g_seed = argc > 2 ? strtoull(argv[2], NULL, 0) : 1;
	int perturb = argc > 3 ? atoi(argv[3]) : 2;
	if (argc > 4) g_execs = atoi(argv[4]);
	if (argc > 5) g_ops = atoi(argv[5]);
	if (argc > 6) g_scen_mask = (int)strtol(argv[6], NULL, 0);
	if (argc > 9) g_mode = atoi(argv[9]);     /* bit 0: every queue execution is the legacy-retarget variant */
	vrt_init(out, g_seed, perturb);
	vrt_set_projector(proj);
	vrt_add_class("os_obj_xref_cnt", CL_XREF);
	vrt_add_class("do_xref_cnt", CL_XREF);
	vrt_add_class("os_obj_ref_cnt", CL_REF);
	vrt_add_class("do_ref_cnt", CL_REF);
	vrt_add_class("dq_sref_cnt", CL_SREF);
	vrt_add_class("dq_state", CL_STATE);
	/* the os_mpsc macros stringify as "_os_mpsc_tail (dq, dq_items, )" / "_os_mpsc_head (dq, dq_items, )" */
	vrt_add_class("_os_mpsc_tail", CL_TAIL);
	vrt_add_class("dq_items_tail", CL_TAIL);
	vrt_add_class("_os_mpsc_head", CL_HEAD);
	vrt_add_class("dq_items_head", CL_HEAD);
	/* progress-based: "no record and no driver progress for N seconds", never total elapsed time */
	vrt_set_hang_seconds(argc > 7 ? atoi(argv[7]) : 90);
	g_steer = argc > 8 ? atoi(argv[8]) : 0;
	if (g_steer) vrt_set_steer(steer);
	(void)vrt_tid();
	pthread_barrier_init(&g_bar, NULL, NT + 1);
	pthread_t th[NT];
	for (long i = 0; i < NT; i++) pthread_create(&th[i], NULL, client, (void *)i);
	for (int e = 0; e < g_execs; e++) run_execution(e);
	for (int i = 0; i < NT; i++) pthread_join(th[i], NULL);
	vrt_dump();
	fprintf(stderr, "records=%zu overflow=%d threads=%d\n", vrt_count(), vrt_overflowed(), vrt_nthreads());
	return atomic_load(&g_fail) ? 2 : 0;
}
