/* Driver for C09: many executions of dispatch_once / dispatch_once_f on a fresh zeroed
 * predicate, raced by 3-5 threads released by a barrier, under seeded schedule
 * perturbation, with initialisers that are sometimes slow so that waiters really sleep.
 * Emits an ndjson trace for OnceTrace.tla (every os_atomic on dgo_once, the futex probes,
 * CallOnce/RetOnce/InitStart/InitEnd in the same total order) and evaluates the
 * API-level oracles of the property itself:
 *   - the initialiser ran exactly once per predicate,
 *   - at every return the initialiser had completed,
 *   - the payload written by the initialiser is seen intact by every returning caller.
 * usage: drv_once OUT SEED PERTURB EXECS */
#define _GNU_SOURCE
#include "internal.h"          /* the repository's own definition of the gate word */
#include <pthread.h>
#include <stdatomic.h>
#include <stdlib.h>
#include <string.h>
#include <unistd.h>
#include <time.h>
#include "verif_rt.h"

/* ---- the four ways a C client reaches the implementation ------------------------------ */
/* with the public header on x86-64 `dispatch_once` / `dispatch_once_f` are macros for the
 * inline fast path (_dispatch_once / _dispatch_once_f) */
#ifdef __BLOCKS__
static void call_inline_block(dispatch_once_t *p, dispatch_block_t b) { dispatch_once(p, b); }
#endif
static void call_inline_f(dispatch_once_t *p, void *c, dispatch_function_t f) { dispatch_once_f(p, c, f); }
#if DISPATCH_ONCE_INLINE_FASTPATH
#define HAVE_INLINE_FASTPATH 1
#else
#define HAVE_INLINE_FASTPATH 0
#endif
#undef dispatch_once
#undef dispatch_once_f
/* ... and these are the exported functions themselves */
#ifdef __BLOCKS__
static void call_direct_block(dispatch_once_t *p, dispatch_block_t b) { dispatch_once(p, b); }
#endif
static void call_direct_f(dispatch_once_t *p, void *c, dispatch_function_t f) { dispatch_once_f(p, c, f); }

#define NW 5          /* worker threads; 3..5 of them take part in an execution */
#define MAXT (NW + 1)
#define NPAY 16

struct payload {      /* written with plain stores by the initialiser */
	uint64_t f[NPAY];
	uint64_t sum;
};

static int g_execs = 30;
static uint64_t g_seed;
static pthread_barrier_t g_bar;
static dispatch_once_t *g_pred;
static int g_obj;
static struct payload *g_pay;
static uint64_t g_key;                     /* what the initialiser of this execution writes */
static _Atomic int g_init_started, g_init_ended;
static _Atomic int g_fail;
static int g_part[MAXT];                   /* takes part in this execution */
static int g_ncalls[MAXT];
static unsigned g_initus;                  /* duration of the initialiser (0 = immediate) */
static int g_mode;                         /* steering mode of this execution */
static _Atomic int g_wcas_seen;            /* waiters that reached their waiters-bit CAS */
static _Atomic int g_callers_in;           /* threads that entered a call */
static uint32_t g_lockval[64];             /* _dispatch_lock_value_for_self() per vrt thread */
static _Atomic long g_cov_ret_inline, g_cov_slept;

static void oracle_fail(const char *what, long a, long b)
{
	fprintf(stderr, "ORACLE-FAIL C09 %s a=%ld b=%ld\n", what, a, b);
	atomic_store(&g_fail, 1);
}

static uint64_t mix(uint64_t x)
{
	x ^= x >> 33; x *= 0xff51afd7ed558ccdull; x ^= x >> 33; x *= 0xc4ceb9fe1a85ec53ull; x ^= x >> 33;
	return x;
}

/* the initialiser */
static void init_fn(void *ctxt)
{
	struct payload *p = ctxt;
	int n = atomic_fetch_add(&g_init_started, 1) + 1;
	vrt_api("InitStart", g_obj, 0, 0, 0);
	if (n != 1) oracle_fail("initialiser executed more than once", n, 0);
	uint64_t s = 0;
	for (int i = 0; i < NPAY; i++) {
		p->f[i] = mix(g_key + (uint64_t)i);
		s += p->f[i];
		if (g_initus && i == NPAY / 2) usleep(g_initus);
	}
	p->sum = s;
	atomic_fetch_add(&g_init_ended, 1);
	vrt_api("InitEnd", g_obj, 0, 0, 0);
}

static void check_after_return(void)
{
	/* read before the return is logged: the call has returned, so all of this must hold */
	int ended = atomic_load(&g_init_ended);
	uint64_t s = 0; int bad = 0;
	for (int i = 0; i < NPAY; i++) {
		uint64_t x = ((volatile struct payload *)g_pay)->f[i];
		if (x != mix(g_key + (uint64_t)i)) bad++;
		s += x;
	}
	if (((volatile struct payload *)g_pay)->sum != s) bad++;
	vrt_api("RetOnce", g_obj, ended, bad, 0);
	if (ended < 1) oracle_fail("a call returned before the initialiser completed", ended, 0);
	if (bad) oracle_fail("a returning caller saw an incomplete payload", bad, 0);
}

static void one_call(unsigned how)
{
	if (!HAVE_INLINE_FASTPATH) how |= 2;
	int direct = (how & 2) != 0, block = (how & 1) != 0;
#ifndef __BLOCKS__
	block = 0;
#endif
	vrt_api("CallOnce", g_obj, direct, block, 0);
	atomic_fetch_add(&g_callers_in, 1);
	struct payload *pay = g_pay;
#ifdef __BLOCKS__
	if (block) {
		if (direct) call_direct_block(g_pred, ^{ init_fn(pay); });
		else call_inline_block(g_pred, ^{ init_fn(pay); });
	} else
#endif
	{
		if (direct) call_direct_f(g_pred, pay, init_fn);
		else call_inline_f(g_pred, pay, init_fn);
	}
	check_after_return();
}

static void *worker(void *arg)
{
	(void)arg;
	int me = vrt_tid();
	g_lockval[me] = _dispatch_lock_value_for_self();
	for (int e = 0; e < g_execs; e++) {
		pthread_barrier_wait(&g_bar);   /* execution set up: all racers are released together */
		if (g_part[me]) {
			uint64_t r = vrt_rand();
			/* spread the arrivals over the life of the initialiser */
			unsigned k = (unsigned)(r % 8);
			if (k == 1) sched_yield();
			else if (k == 2) { for (volatile unsigned i = 0; i < ((r >> 8) & 4095); i++) ; }
			else if (k == 3) usleep((unsigned)((r >> 8) % (g_initus + 50)));
			else if (k == 4) usleep((unsigned)(g_initus + (r >> 8) % 200));
			for (int c = 0; c < g_ncalls[me]; c++) {
				one_call((unsigned)(vrt_rand() >> 20) & 3);
				vrt_progress();
			}
		}
		pthread_barrier_wait(&g_bar);   /* execution finished */
	}
	return NULL;
}

/* Steering (consulted before a traced access, outside the log lock): widen the two windows the
 * property names.  All waits are bounded, so steering can delay but never block an execution. */
static void steer(struct dispatch_verif_site_s *s, const volatile void *addr, int obj)
{
	(void)addr;
	if (obj < 0) return;
	const char *op = s->dvs_op;
	if (!strcmp(op, "cmpxchg") && strstr(s->dvs_func, "wait")) atomic_fetch_add(&g_wcas_seen, 1);
	if (strcmp(op, "xchg")) return;
	if (g_mode == 1) {
		/* hold the owner just before it publishes DONE until a waiter is at its waiters-bit
		 * RMW: the broadcast then races with that waiter's futex_wait */
		struct timespec t0, t1;
		clock_gettime(CLOCK_MONOTONIC, &t0);
		for (unsigned i = 0; atomic_load(&g_wcas_seen) == 0; i++) {
			if ((i & 63) == 63) {
				clock_gettime(CLOCK_MONOTONIC, &t1);
				if ((t1.tv_sec - t0.tv_sec) * 1000000000l + (t1.tv_nsec - t0.tv_nsec) > 3000000l) break;
				sched_yield();
			}
		}
	} else if (g_mode == 2) {
		/* the initialiser has ended, DONE is not yet published: let late callers arrive here */
		usleep(100 + (unsigned)(vrt_rand() % 600));
	}
}

/* ---- projection of the gate word into the spec's record -------------------------------- */
static void word_json(char *b, size_t n, uint64_t w, int is32)
{
	uint64_t done = is32 ? (uint64_t)(dispatch_lock)DLOCK_ONCE_DONE : (uint64_t)DLOCK_ONCE_DONE;
	if (w == (uint64_t)DLOCK_ONCE_UNLOCKED) { snprintf(b, n, "{\"st\":\"U\",\"own\":-1,\"w\":0}"); return; }
	if (w == done) { snprintf(b, n, "{\"st\":\"D\",\"own\":-1,\"w\":0}"); return; }
	dispatch_lock lv = (dispatch_lock)w;
	/* anything outside tid|waiters (high half, failed-trylock bit, waiters without owner) is
	 * not a value of the spec's gate */
	if ((w >> 32) || (lv & DLOCK_FAILED_TRYLOCK_BIT) || !_dispatch_lock_is_locked(lv)) {
		snprintf(b, n, "{\"st\":\"X\",\"own\":-2,\"w\":%d}", (lv & DLOCK_WAITERS_BIT) != 0);
		return;
	}
	int own = -2;
	for (int i = 0; i < 64; i++) {
		if (g_lockval[i] && _dispatch_lock_is_locked_by(lv, g_lockval[i])) { own = i; break; }
	}
	snprintf(b, n, "{\"st\":\"L\",\"own\":%d,\"w\":%d}", own, (lv & DLOCK_WAITERS_BIT) != 0);
}

static void proj(FILE *f, const vrt_rec_t *r)
{
	char o[64], nw[64];
	switch (r->kind) {
	case VRT_MARK:
		fprintf(f, "{\"e\":\"%s\",\"k\":%ld,\"initus\":%ld,\"mode\":%ld}\n", r->name, r->a, r->b, r->c);
		break;
	case VRT_API:
		if (!strcmp(r->name, "CallOnce"))
			fprintf(f, "{\"e\":\"CallOnce\",\"t\":%d,\"kind\":\"%s\",\"api\":\"%s\"}\n", r->tid,
					r->a ? "direct" : "inline", r->b ? "dispatch_once" : "dispatch_once_f");
		else if (!strcmp(r->name, "RetOnce"))
			fprintf(f, "{\"e\":\"RetOnce\",\"t\":%d,\"ended\":%ld,\"bad\":%ld}\n", r->tid, r->a, r->b);
		else
			fprintf(f, "{\"e\":\"%s\",\"t\":%d}\n", r->name, r->tid);
		break;
	case VRT_ATOMIC: {
		const char *op = r->site->dvs_op;
		const char *e = !strcmp(op, "cmpxchg") ? "Cas" : !strcmp(op, "xchg") ? "Xchg" :
				!strcmp(op, "load") ? "Load" : !strcmp(op, "giveup") ? "Giveup" :
				!strcmp(op, "store") ? "Store" : "Unknown";
		if (!strcmp(e, "Giveup")) {
			fprintf(f, "{\"e\":\"Giveup\",\"t\":%d,\"mo\":\"%s\",\"site\":\"%s:%d\"}\n", r->tid,
					r->site->dvs_mo, r->site->dvs_func, r->site->dvs_line);
			break;
		}
		if (r->size != sizeof(uintptr_t) || r->off != 0) e = "Unknown";
		word_json(o, sizeof(o), r->oldv, 0);
		word_json(nw, sizeof(nw), r->newv, 0);
		fprintf(f, "{\"e\":\"%s\",\"t\":%d,\"old\":%s,\"new\":%s,\"ok\":%d,\"mo\":\"%s\",\"op\":\"%s\",\"site\":\"%s:%d\"}\n",
				e, r->tid, o, nw, r->ok, r->site->dvs_mo, op, r->site->dvs_func, r->site->dvs_line);
		break;
	}
	case VRT_PROBE:
		if (!strcmp(r->name, "futex_wait")) {
			word_json(o, sizeof(o), (uint64_t)(uint32_t)r->a, 1);
			fprintf(f, "{\"e\":\"FutexWait\",\"t\":%d,\"val\":%s,\"timed\":%ld}\n", r->tid, o, r->b);
		} else if (!strcmp(r->name, "futex_wait_ret"))
			fprintf(f, "{\"e\":\"FutexWaitRet\",\"t\":%d,\"rc\":%ld}\n", r->tid, r->a);
		else if (!strcmp(r->name, "futex_wake"))
			fprintf(f, "{\"e\":\"FutexWake\",\"t\":%d,\"all\":%d}\n", r->tid, r->a == INT_MAX);
		else if (!strcmp(r->name, "dispose")) { /* end of the object's life (_dispatch_dispose probe): C17's business */ }
		else fprintf(f, "{\"e\":\"Unknown\",\"t\":%d,\"probe\":\"%s\"}\n", r->tid, r->name);
		break;
	}
}

int main(int argc, char **argv)
{
	const char *out = argc > 1 ? argv[1] : "/dev/null";
	g_seed = argc > 2 ? strtoull(argv[2], NULL, 0) : 1;
	int perturb = argc > 3 ? atoi(argv[3]) : 2;
	if (argc > 4) g_execs = atoi(argv[4]);
	vrt_init(out, g_seed, perturb);
	vrt_set_projector(proj);
	vrt_add_class("dgo_once", 1);
	vrt_set_steer(steer);
	vrt_set_hang_seconds(15);
	int me = vrt_tid(); /* main = thread 0 */
	g_lockval[me] = _dispatch_lock_value_for_self();
	pthread_barrier_init(&g_bar, NULL, NW + 1);
	pthread_t th[NW];
	for (long i = 0; i < NW; i++) pthread_create(&th[i], NULL, worker, (void *)i);
	dispatch_once_t **preds = calloc((size_t)g_execs, sizeof(*preds));
	for (int e = 0; e < g_execs; e++) {
		uint64_t r = vrt_rand();
		/* a fresh zeroed predicate (own cache line; never reused inside a run) */
		void *mem = NULL;
		if (posix_memalign(&mem, 64, 64)) return 3;
		memset(mem, 0, 64);
		preds[e] = g_pred = mem;
		g_pay = calloc(1, sizeof(*g_pay));
		g_key = mix(g_seed * 1000003u + (uint64_t)e);
		vrt_unregister_all();
		g_obj = vrt_register(g_pred, sizeof(*g_pred), 1);
		atomic_store(&g_init_started, 0); atomic_store(&g_init_ended, 0);
		atomic_store(&g_wcas_seen, 0); atomic_store(&g_callers_in, 0);
		int k = 3 + (int)(r % 3);                 /* 3..5 racing threads */
		for (int t = 1; t <= NW; t++) { g_part[t] = t <= k; g_ncalls[t] = 1 + (int)((r >> (8 + t)) & 1); }
		/* rotate who takes part */
		int rot = (int)((r >> 20) % NW);
		for (int i = 0; i < rot; i++) {
			int p0 = g_part[1];
			for (int t = 1; t < NW; t++) g_part[t] = g_part[t + 1];
			g_part[NW] = p0;
		}
		unsigned sl = (unsigned)((r >> 24) % 10);
		g_initus = sl < 3 ? 0 : sl < 6 ? 50 + (unsigned)((r >> 32) % 300) : sl < 9 ? 500 + (unsigned)((r >> 32) % 2500)
				: 4000 + (unsigned)((r >> 32) % 6000);
		g_mode = (int)((r >> 44) % 4);            /* 0,3: free; 1: hold xchg for a waiter; 2: stall before xchg */
		vrt_mark("Reset", k, (long)g_initus, g_mode);
		pthread_barrier_wait(&g_bar);
		pthread_barrier_wait(&g_bar);
		int n = atomic_load(&g_init_started), m = atomic_load(&g_init_ended);
		if (n != 1 || m != 1) oracle_fail("initialiser count != 1 after all racers returned", n, m);
		/* later calls return without running it again (main thread, every form) */
		for (unsigned how = 0; how < 4; how++) if (((r >> (50 + how)) & 1) || how == (unsigned)(e & 3)) one_call(how);
		n = atomic_load(&g_init_started);
		if (n != 1) oracle_fail("a later call ran the initialiser again", n, 0);
		if (*(volatile dispatch_once_t *)g_pred != ~0l) oracle_fail("predicate is not ~0 after completion", 0, 0);
		free(g_pay);
		vrt_progress();
	}
	vrt_mark("Reset", 0, 0, 0);    /* closes the last execution: everything must be idle again */
	for (int i = 0; i < NW; i++) pthread_join(th[i], NULL);
	vrt_dump();
	fprintf(stderr, "records=%zu overflow=%d\n", vrt_count(), vrt_overflowed());
	if (vrt_overflowed()) return 3;
	return atomic_load(&g_fail) ? 2 : 0;
}
