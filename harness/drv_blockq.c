/* Steered history of finding F9: the three places that publish the queue of a submitted block object in its private
 * data (dbpd_queue: _dispatch_continuation_init_slow for async, _dispatch_sync_block_with_privdata for sync,
 * _dispatch_async_and_wait_block_with_privdata) did   if (cmpxchg(dbpd_queue, NULL, dq)) _dispatch_retain_2(dq);
 * i.e. published the pointer BEFORE taking the +2 that whoever clears the field gives back.  dispatch_block_wait()
 * clears the field (xchg) and consumes the +2 (dx_wakeup(.., CONSUME_2)): called between the cmpxchg and the retain
 * it releases references nobody took yet - over-release / dispose of a queue that is still referenced.
 * Here the submitter is held right after its cmpxchg on dbpd_queue while another thread calls dispatch_block_wait
 * with a short timeout; then the queue must still be usable and the block must complete exactly once.
 * argv: out seed rounds */
#include "internal.h"
#include <pthread.h>
#include "verif_rt.h"

static _Atomic int g_sub_tid = -1, g_held, g_release, g_runs, g_fail, g_fin;
static void oracle_fail(const char *what, long a, long b)
{
	fprintf(stderr, "ORACLE-FAIL C19 %s a=%ld b=%ld\n", what, a, b);
	atomic_store(&g_fail, 1);
}
static void post_steer(struct dispatch_verif_site_s *s, const volatile void *a, int obj)
{
	(void)a; (void)obj;
	if (vrt_tid() != atomic_load(&g_sub_tid) || !strstr(s->dvs_expr, "dbpd_queue") || s->dvs_op[0] != 'c') return;
	atomic_store(&g_held, 1);
	for (int k = 0; k < 3000 && !atomic_load(&g_release); k++) usleep(100);        /* at most 300 ms */
}
static dispatch_queue_t g_q;
static dispatch_block_t g_b;
static int g_form;
static void *submitter(void *c)
{
	(void)c;
	atomic_store(&g_sub_tid, vrt_tid());
	switch (g_form) {
	case 0: dispatch_async(g_q, g_b); break;
	case 1: dispatch_sync(g_q, g_b); break;
	default: dispatch_async_and_wait(g_q, g_b); break;
	}
	return NULL;
}
static void fin(void *c) { (void)c; atomic_fetch_add(&g_fin, 1); }
static void nop(void *c) { (void)c; }

int main(int argc, char **argv)
{
	const char *out = argc > 1 ? argv[1] : "/dev/null";
	uint64_t seed = argc > 2 ? strtoull(argv[2], NULL, 0) : 1;
	int rounds = argc > 3 ? atoi(argv[3]) : 9;
	vrt_init(out, seed, 0);
	vrt_add_class("dbpd_queue", VRT_CLASS_ANY + 2);
	vrt_set_hang_seconds(20);
	vrt_set_post_steer(post_steer);
	(void)vrt_tid();
	int windows = 0;
	for (int r = 0; r < rounds && !atomic_load(&g_fail); r++) {
		g_form = r % 3;
		atomic_store(&g_held, 0); atomic_store(&g_release, 0); atomic_store(&g_runs, 0); atomic_store(&g_sub_tid, -1);
		int fin0 = atomic_load(&g_fin);
		g_q = dispatch_queue_create("verif.blockq", DISPATCH_QUEUE_SERIAL);
		dispatch_set_context(g_q, g_q);
		dispatch_set_finalizer_f(g_q, fin);
		g_b = dispatch_block_create(0, ^{ atomic_fetch_add(&g_runs, 1); });
		pthread_t t;
		pthread_create(&t, NULL, submitter, NULL);
		for (int k = 0; k < 20000 && !atomic_load(&g_held); k++) usleep(100);
		if (atomic_load(&g_held)) windows++;
		/* the queue pointer is published; wait with a short timeout: clears the field and gives a +2 back */
		long w = dispatch_block_wait(g_b, dispatch_time(DISPATCH_TIME_NOW, 5 * NSEC_PER_MSEC));
		if (atomic_load(&g_fin) != fin0) oracle_fail("the queue was finalized while the application and a submission in progress still reference it", r, g_form);
		atomic_store(&g_release, 1);
		pthread_join(t, NULL);
		if (w != 0) w = dispatch_block_wait(g_b, dispatch_time(DISPATCH_TIME_NOW, 5 * NSEC_PER_SEC));
		if (w != 0) oracle_fail("dispatch_block_wait timed out although the block object was submitted once", r, g_form);
		if (atomic_load(&g_runs) != 1) oracle_fail("block object did not run exactly once", r, atomic_load(&g_runs));
		dispatch_barrier_sync_f(g_q, NULL, nop);                  /* the queue must still be a working queue */
		if (atomic_load(&g_fin) != fin0) oracle_fail("the queue was finalized before its last reference was dropped", r, g_form);
		_Block_release(g_b);
		dispatch_release(g_q);
		for (int k = 0; k < 20000 && atomic_load(&g_fin) == fin0; k++) usleep(100);
		if (atomic_load(&g_fin) != fin0 + 1) oracle_fail("the queue was not finalized exactly once after its last release", r, atomic_load(&g_fin) - fin0);
		vrt_progress();
	}
	vrt_dump();
	fprintf(stderr, "rounds=%d windows_hit=%d\n", rounds, windows);
	return atomic_load(&g_fail) ? 2 : 0;
}
