/* Driver for C18 (b) attributes and (c) dispatch_get_global_queue.
 *
 * Replays the vectors emitted by TLC from spec/Attr.tla and spec/AttrGlobal.tla on the
 * real functions.  Everything that is judged comes from those vectors:
 *   radices                print DISPATCH_QUEUE_ATTR_*_COUNT of this build (the spec's CONSTANTS)
 *   table <vectors.txt>    T1 bijection of the real _dispatch_queue_attr_to_info over all entries,
 *                          T2 from_info(to_info(a)) == a through an identity constructor call,
 *                          T3 every constructor application from every attribute (the complete
 *                             transition relation of the spec), T4 all 24 orders of the four
 *                             constructors for the emitted value tuples, T5 a queue created from
 *                             every attribute reports what the spec row says
 *   global <vectors.txt>   every (identifier, flags) of the emitted domain: prints the label of
 *                          every non-NULL result, the comparison is done by tools/props/C18.py
 * Output: "FAIL ..." lines (property-level mismatches), "DRIFT ..." (spec transcription differs
 * from the code without the property being affected), "DONE ..." summary.  Exit code 0 unless
 * the vectors cannot be read (3). */
#define _GNU_SOURCE
#include "internal.h"
#include <stdio.h>
#include <stdlib.h>
#include <string.h>

#define MAXN 20000
#define MAXAPPS 400
#define MAXT 8

struct fields { int qos, relpri, oc, af, conc, inact; };
struct crep { int skip; char label[32]; int qos_class, relpri, conc, inact, root; };
struct row { int i; struct fields f; int *next; struct crep c[MAXT]; };
struct app { char c; int x, y; };
struct tgt { char kind[16]; char label[32]; int qos, oc; };

static int R_oc, R_af, R_qos, R_prio, R_conc, R_inact, N;
static struct app apps[MAXAPPS]; static int napps;
static struct tgt tgts[MAXT]; static int ntgts;
static struct row *rows; static int nrows;          /* rows[0] is the NULL attribute */
static dispatch_queue_attr_t real_of_spec[MAXN + 1]; /* index a+1 */
static long nfail, ndrift, nchecked;

#define FAIL(...) do { if (nfail++ < 40) { printf("FAIL " __VA_ARGS__); printf("\n"); } } while (0)
#define DRIFT(...) do { if (ndrift++ < 10) { printf("DRIFT " __VA_ARGS__); printf("\n"); } } while (0)

static struct fields real_fields(dispatch_queue_attr_t a)
{
	dispatch_queue_attr_info_t i = _dispatch_queue_attr_to_info(a);
	struct fields f = { (int)i.dqai_qos, (int)i.dqai_relpri, (int)i.dqai_overcommit,
		(int)i.dqai_autorelease_frequency, (int)i.dqai_concurrent, (int)i.dqai_inactive };
	return f;
}
static int feq(struct fields a, struct fields b) { return !memcmp(&a, &b, sizeof a); }
static int in_table(dispatch_queue_attr_t a)
{
	return a >= &_dispatch_queue_attrs[0] && a < &_dispatch_queue_attrs[DISPATCH_QUEUE_ATTR_COUNT];
}
static long ridx(dispatch_queue_attr_t a) { return a ? (long)(a - _dispatch_queue_attrs) : -1; }

static dispatch_queue_attr_t apply_app(dispatch_queue_attr_t a, const struct app *p)
{
	switch (p->c) {
	case 'q': return dispatch_queue_attr_make_with_qos_class(a, (dispatch_qos_class_t)p->x, p->y);
	case 'i': return dispatch_queue_attr_make_initially_inactive(a);
	case 'o': return dispatch_queue_attr_make_with_overcommit(a, p->x != 0);
	case 'a': return dispatch_queue_attr_make_with_autorelease_frequency(a,
			(dispatch_autorelease_frequency_t)p->x);
	}
	abort();
}

static void read_vectors(const char *path)
{
	FILE *f = fopen(path, "r");
	if (!f) { perror(path); exit(3); }
	char tag[16];
	while (fscanf(f, "%15s", tag) == 1) {
		if (!strcmp(tag, "R")) {
			if (fscanf(f, "%d %d %d %d %d %d %d", &R_oc, &R_af, &R_qos, &R_prio, &R_conc, &R_inact, &N) != 7) exit(3);
			if (N > MAXN) exit(3);
			rows = calloc((size_t)N + 1, sizeof *rows);
		} else if (!strcmp(tag, "APP")) {
			char c[8]; int x, y;
			if (fscanf(f, "%7s %d %d", c, &x, &y) != 3 || napps >= MAXAPPS) exit(3);
			apps[napps].c = c[0]; apps[napps].x = x; apps[napps].y = y; napps++;
		} else if (!strcmp(tag, "TGT")) {
			struct tgt *t = &tgts[ntgts++];
			if (ntgts > MAXT || fscanf(f, "%15s %31s %d %d", t->kind, t->label, &t->qos, &t->oc) != 4) exit(3);
			if (!strcmp(t->label, "-")) t->label[0] = 0;
		} else if (!strcmp(tag, "ROW")) {
			struct row *r = &rows[nrows++];
			if (nrows > N + 1) exit(3);
			if (fscanf(f, "%d %d %d %d %d %d %d", &r->i, &r->f.qos, &r->f.relpri, &r->f.oc, &r->f.af,
					&r->f.conc, &r->f.inact) != 7) exit(3);
			r->next = malloc(sizeof(int) * (size_t)napps);
			for (int k = 0; k < napps; k++) if (fscanf(f, "%d", &r->next[k]) != 1) exit(3);
			for (int t = 0; t < ntgts; t++) {
				struct crep *c = &r->c[t];
				if (fscanf(f, "%d", &c->skip) != 1) exit(3);
				if (c->skip) continue;
				if (fscanf(f, "%31s %d %d %d %d %d", c->label, &c->qos_class, &c->relpri, &c->conc,
						&c->inact, &c->root) != 6) exit(3);
				if (!strcmp(c->label, "-")) c->label[0] = 0;
			}
		} else if (!strcmp(tag, "PERM") || !strcmp(tag, "END")) {
			break;      /* perms are read by the caller from the same stream position */
		} else exit(3);
	}
	fclose(f);
}

struct perm { int start, cls, rp, oc, af, final; };

static void do_table(const char *path, int create_stride)
{
	read_vectors(path);
	if (nrows != N + 1 || rows[0].i != -1) { printf("FAIL vectors malformed\n"); exit(3); }
	/* T0 the build's radices are the ones the spec was instantiated with */
	if (DISPATCH_QUEUE_ATTR_COUNT != N) {
		printf("BROKEN radices of the build changed since they were read (%d vs %d)\n",
				(int)DISPATCH_QUEUE_ATTR_COUNT, N);
		exit(3);
	}
	/* T1 bijection: real to_info over every entry hits every spec field record once */
	unsigned char *hit = calloc((size_t)N + 1, 1);
	for (int r = 0; r < N; r++) {
		struct fields f = real_fields(&_dispatch_queue_attrs[r]);
		int found = -1;
		/* the spec table is sorted by its own encoding: try the same slot first */
		if (feq(rows[r + 1].f, f)) found = r + 1;
		else for (int k = 1; k <= N; k++) if (feq(rows[k].f, f)) { found = k; break; }
		nchecked++;
		if (found < 0) {
			FAIL("T1 to_info(entry %d) = {qos=%d relpri=%d oc=%d af=%d conc=%d inact=%d} is outside "
				"the field domain", r, f.qos, f.relpri, f.oc, f.af, f.conc, f.inact);
			continue;
		}
		if (hit[found]) {
			FAIL("T1 table not injective: entries %ld and %d denote the same fields",
				ridx(real_of_spec[found]), r);
			continue;
		}
		hit[found] = 1;
		real_of_spec[found] = &_dispatch_queue_attrs[r];
		if (found != r + 1) DRIFT("layout: entry %d carries the fields the spec puts at %d", r, found - 1);
	}
	real_of_spec[0] = NULL;
	for (int k = 1; k <= N; k++) if (!hit[k]) {
		FAIL("T1 no table entry denotes {qos=%d relpri=%d oc=%d af=%d conc=%d inact=%d}", rows[k].f.qos,
			rows[k].f.relpri, rows[k].f.oc, rows[k].f.af, rows[k].f.conc, rows[k].f.inact);
	}
	if (nfail) goto done;      /* without the bijection the remaining expectations are not addressable */
	/* the NULL attribute and DISPATCH_QUEUE_CONCURRENT denote the spec's start records */
	if (!feq(real_fields(NULL), rows[0].f)) FAIL("T1 NULL attribute does not denote the all-default record");
	if (!feq(real_fields(DISPATCH_QUEUE_CONCURRENT), rows[1].f))
		FAIL("T1 DISPATCH_QUEUE_CONCURRENT does not denote {concurrent} only");

	/* T2 from_info(to_info(a)) == a, through a constructor call that rewrites a field with itself */
	for (int k = 1; k <= N; k++) {
		dispatch_queue_attr_t a = real_of_spec[k];
		dispatch_queue_attr_t b = dispatch_queue_attr_make_with_autorelease_frequency(a,
				(dispatch_autorelease_frequency_t)rows[k].f.af);
		nchecked++;
		if (b != a) FAIL("T2 from_info(to_info(entry %ld)) = entry %ld", ridx(a), ridx(b));
	}
	/* T3 every constructor application from every attribute */
	for (int k = 0; k <= N; k++) {
		dispatch_queue_attr_t a = real_of_spec[k];
		for (int j = 0; j < napps; j++) {
			dispatch_queue_attr_t got = apply_app(a, &apps[j]);
			dispatch_queue_attr_t want = real_of_spec[rows[k].next[j] + 1];
			nchecked++;
			if (got == want) continue;
			if (got && !in_table(got)) {
				FAIL("T3 attr %d %c(%d,%d) returned a pointer outside the table", rows[k].i, apps[j].c,
					apps[j].x, apps[j].y);
				continue;
			}
			struct fields g = real_fields(got), w = rows[rows[k].next[j] + 1].f;
			FAIL("T3 attr %d {qos=%d relpri=%d oc=%d af=%d conc=%d inact=%d} %c(%d,%d) -> "
				"{qos=%d relpri=%d oc=%d af=%d conc=%d inact=%d}, spec {qos=%d relpri=%d oc=%d af=%d conc=%d inact=%d}",
				rows[k].i, rows[k].f.qos, rows[k].f.relpri, rows[k].f.oc, rows[k].f.af, rows[k].f.conc,
				rows[k].f.inact, apps[j].c, apps[j].x, apps[j].y, g.qos, g.relpri, g.oc, g.af, g.conc, g.inact,
				w.qos, w.relpri, w.oc, w.af, w.conc, w.inact);
		}
	}
	/* T4 permutations */
	{
		FILE *f = fopen(path, "r"); char line[256]; long nperm = 0;
		static const int P[24][4] = {
			{0,1,2,3},{0,1,3,2},{0,2,1,3},{0,2,3,1},{0,3,1,2},{0,3,2,1},{1,0,2,3},{1,0,3,2},
			{1,2,0,3},{1,2,3,0},{1,3,0,2},{1,3,2,0},{2,0,1,3},{2,0,3,1},{2,1,0,3},{2,1,3,0},
			{2,3,0,1},{2,3,1,0},{3,0,1,2},{3,0,2,1},{3,1,0,2},{3,1,2,0},{3,2,0,1},{3,2,1,0}};
		while (fgets(line, sizeof line, f)) {
			struct perm p;
			if (strncmp(line, "PERM ", 5)) continue;
			if (sscanf(line + 5, "%d %d %d %d %d %d", &p.start, &p.cls, &p.rp, &p.oc, &p.af, &p.final) != 6) exit(3);
			struct app four[4] = { { 'q', p.cls, p.rp }, { 'i', 0, 0 }, { 'o', p.oc, 0 }, { 'a', p.af, 0 } };
			for (int o = 0; o < 24; o++) {
				dispatch_queue_attr_t a = p.start < 0 ? NULL : DISPATCH_QUEUE_CONCURRENT;
				for (int s = 0; s < 4; s++) a = apply_app(a, &four[P[o][s]]);
				nchecked++;
				if (a != real_of_spec[p.final + 1]) {
					struct fields g = real_fields(a);
					FAIL("T4 start=%s qos_class(%d,%d) inactive overcommit(%d) autorelease(%d) in order %d%d%d%d "
						"-> {qos=%d relpri=%d oc=%d af=%d conc=%d inact=%d}, spec attr %d", p.start < 0 ? "SERIAL" : "CONCURRENT",
						p.cls, p.rp, p.oc, p.af, P[o][0], P[o][1], P[o][2], P[o][3], g.qos, g.relpri, g.oc, g.af,
						g.conc, g.inact, p.final);
				}
			}
			nperm++;
		}
		fclose(f);
		printf("INFO perms=%ld\n", nperm);
	}
	/* T5 creation */
	for (int k = 0; k <= N; k++) {
		if (create_stride > 1 && (k % create_stride) && k > 2) continue;
		dispatch_queue_attr_t a = real_of_spec[k];
		for (int t = 0; t < ntgts; t++) {
			const struct crep *c = &rows[k].c[t];
			if (c->skip) continue;
			char *buf = NULL; const char *label = NULL;
			if (tgts[t].label[0]) { buf = strdup(tgts[t].label); label = buf; }
			else if (k & 1) label = "";
			dispatch_queue_t q;
			if (!strcmp(tgts[t].kind, "default")) {
				q = dispatch_queue_create(label, a);
			} else {
				dispatch_queue_t g = (dispatch_queue_t)&_dispatch_root_queues[2 * (tgts[t].qos - 1) + tgts[t].oc];
				q = dispatch_queue_create_with_target(label, a, g);
			}
			if (buf) { memset(buf, 'X', strlen(buf)); free(buf); }   /* the label is the queue's own copy */
			int relpri = 12345;
			unsigned cls = (unsigned)dispatch_queue_get_qos_class(q, &relpri);
			const char *lab = dispatch_queue_get_label(q);
			uint64_t st = os_atomic_load2o(upcast(q)._dl, dq_state, relaxed);
			int inact = _dq_state_is_inactive(st) ? 1 : 0;
			int width = upcast(q)._dl->dq_width;
			int conc = width == 1 ? 0 : (width == DISPATCH_QUEUE_WIDTH_MAX ? 1 : -width);
			nchecked++;
			if (!lab || strcmp(lab, c->label) || (int)cls != c->qos_class || relpri != c->relpri ||
					conc != c->conc || inact != c->inact) {
				FAIL("T5 queue from attr %d {qos=%d relpri=%d oc=%d af=%d conc=%d inact=%d} target %s/%d/%d reports "
					"label=\"%s\" qos_class=%#x relpri=%d concurrent=%d inactive=%d; spec label=\"%s\" qos_class=%#x "
					"relpri=%d concurrent=%d inactive=%d", rows[k].i, rows[k].f.qos, rows[k].f.relpri, rows[k].f.oc,
					rows[k].f.af, rows[k].f.conc, rows[k].f.inact, tgts[t].kind, tgts[t].qos, tgts[t].oc,
					lab ? lab : "(null)", cls, relpri, conc, inact, c->label, (unsigned)c->qos_class, c->relpri,
					c->conc, c->inact);
			}
			if (q->do_targetq != (dispatch_queue_t)&_dispatch_root_queues[c->root]) {
				DRIFT("T5 attr %d target %s: root queue %s, spec %s", rows[k].i, tgts[t].kind,
					q->do_targetq ? q->do_targetq->dq_label : "(null)", _dispatch_root_queues[c->root].dq_label);
			}
			if (inact) {
				dispatch_activate(q);
				st = os_atomic_load2o(upcast(q)._dl, dq_state, relaxed);
				if (_dq_state_is_inactive(st)) FAIL("T5 attr %d: still inactive after dispatch_activate", rows[k].i);
			}
			dispatch_release(q);
		}
	}
done:
	printf("DONE table n=%d checked=%ld fail=%ld drift=%ld\n", N, nchecked, nfail, ndrift);
}

static void do_global(const char *path)
{
	FILE *f = fopen(path, "r");
	if (!f) { perror(path); exit(3); }
	long lo = 0, hi = -1; unsigned long flags[64]; int nfl = 0; long wide[64][2]; int nw = 0;
	char tag[16];
	while (fscanf(f, "%15s", tag) == 1) {
		if (!strcmp(tag, "DOM")) { if (fscanf(f, "%ld %ld", &lo, &hi) != 2) exit(3); }
		else if (!strcmp(tag, "FLAG")) { if (nfl >= 64 || fscanf(f, "%lu", &flags[nfl++]) != 1) exit(3); }
		else if (!strcmp(tag, "WIDE")) { if (nw >= 64 || fscanf(f, "%ld %ld", &wide[nw][0], &wide[nw][1]) != 2) exit(3); nw++; }
		else if (!strcmp(tag, "END")) break;
		else exit(3);
	}
	fclose(f);
	long calls = 0, nulls = 0;
	for (int pass = 0; pass < 2; pass++) {
		long n = pass == 0 ? hi - lo + 1 : nw;
		for (long k = 0; k < n; k++) {
			long h = pass == 0 ? 0 : wide[k][0], l = pass == 0 ? lo + k : wide[k][1];
			intptr_t id = (intptr_t)((uint64_t)h << 32) + (intptr_t)l;
			for (int j = 0; j < nfl; j++) {
				dispatch_queue_global_t g = dispatch_get_global_queue(id, flags[j]);
				calls++;
				if (!g) { nulls++; continue; }
				dispatch_queue_t q = (dispatch_queue_t)g;
				int in_roots = (void *)g >= (void *)&_dispatch_root_queues[0] &&
						(void *)g < (void *)&_dispatch_root_queues[DISPATCH_ROOT_QUEUE_COUNT];
				int rp = 0;
				printf("G %ld %ld %lu %s %#x %d\n", h, l, flags[j], dispatch_queue_get_label(q),
					(unsigned)dispatch_queue_get_qos_class(q, &rp), in_roots);
			}
		}
	}
	printf("DONE global calls=%ld null=%ld\n", calls, nulls);
}

int main(int argc, char **argv)
{
	setvbuf(stdout, NULL, _IOFBF, 1 << 16);
	if (argc >= 2 && !strcmp(argv[1], "radices")) {
		printf("RADICES %d %d %d %d %d %d %d %d\n", DISPATCH_QUEUE_ATTR_OVERCOMMIT_COUNT,
			DISPATCH_QUEUE_ATTR_AUTORELEASE_FREQUENCY_COUNT, (int)DISPATCH_QUEUE_ATTR_QOS_COUNT,
			DISPATCH_QUEUE_ATTR_PRIO_COUNT, DISPATCH_QUEUE_ATTR_CONCURRENCY_COUNT,
			DISPATCH_QUEUE_ATTR_INACTIVE_COUNT, (int)DISPATCH_QUEUE_ATTR_COUNT, HAVE_PTHREAD_WORKQUEUE_QOS);
		return 0;
	}
	if (argc >= 3 && !strcmp(argv[1], "table")) { do_table(argv[2], argc >= 4 ? atoi(argv[3]) : 1); return 0; }
	if (argc >= 3 && !strcmp(argv[1], "global")) { do_global(argv[2]); return 0; }
	fprintf(stderr, "usage: drv_attr radices | table <vectors> [create-stride] | global <vectors>\n");
	return 3;
}
