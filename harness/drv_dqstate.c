/* Function-level conformance of the dq_state transition functions (C01-C06 mechanisms).
 * Enumerates the abstract state domain of spec/DQState.tla, concretises every abstract
 * state into a 64-bit dq_state with the repository's own macros, calls the REAL inline
 * functions of src/inline_internal.h on a scratch lane, projects the result back and
 * writes one ndjson row per call.  TLC then checks every row against the DQState
 * operators (spec/DQStateConf.tla).  Deterministic and schedule independent. */
#include "internal.h"
#include <stdio.h>

static FILE *out;
static uint16_t W;
static uint64_t SELF, OTHER;

typedef struct { int sc, side, inact, na, ib, pb, used, dirty, enq, ro, qos, owner; } abs_t; /* owner: 0 none 1 self 2 other */

static uint64_t conc(abs_t a)
{
	uint64_t s = 0;
	s += (uint64_t)a.sc * DISPATCH_QUEUE_SUSPEND_INTERVAL;
	if (a.side) s |= DISPATCH_QUEUE_HAS_SIDE_SUSPEND_CNT;
	if (a.inact) s |= DISPATCH_QUEUE_INACTIVE;
	if (a.na) s |= DISPATCH_QUEUE_NEEDS_ACTIVATION;
	if (a.ib) s |= DISPATCH_QUEUE_IN_BARRIER;
	s += (uint64_t)(DISPATCH_QUEUE_WIDTH_FULL - W + (unsigned)a.used) << DISPATCH_QUEUE_WIDTH_SHIFT;
	if (a.pb) s |= DISPATCH_QUEUE_PENDING_BARRIER;
	if (a.dirty) s |= DISPATCH_QUEUE_DIRTY;
	s |= DISPATCH_QUEUE_ROLE_BASE_ANON;
	if (a.ro) s |= DISPATCH_QUEUE_RECEIVED_OVERRIDE;
	s |= ((uint64_t)(a.qos ? DISPATCH_QOS_DEFAULT : 0)) << DISPATCH_QUEUE_MAX_QOS_SHIFT;
	if (a.enq) s |= DISPATCH_QUEUE_ENQUEUED;
	if (a.owner == 1) s |= SELF; else if (a.owner == 2) s |= OTHER;
	return s;
}

/* returns 0 if the word has no abstract counterpart (reported as such) */
static int proj(uint64_t s, abs_t *a)
{
	memset(a, 0, sizeof(*a));
	a->sc = (int)(s / DISPATCH_QUEUE_SUSPEND_INTERVAL);
	a->side = !!(s & DISPATCH_QUEUE_HAS_SIDE_SUSPEND_CNT);
	a->inact = !!_dq_state_is_inactive(s);
	a->na = !!(s & DISPATCH_QUEUE_NEEDS_ACTIVATION);
	a->ib = !!_dq_state_is_in_barrier(s);
	int64_t wb = (int64_t)((s & DISPATCH_QUEUE_WIDTH_MASK) >> DISPATCH_QUEUE_WIDTH_SHIFT);
	a->used = (int)(wb - (int64_t)(DISPATCH_QUEUE_WIDTH_FULL - W));
	a->pb = !!_dq_state_has_pending_barrier(s);
	a->dirty = !!_dq_state_is_dirty(s);
	a->enq = !!_dq_state_is_enqueued_on_target(s);
	a->ro = !!_dq_state_received_override(s);
	dispatch_qos_t q = _dq_state_max_qos(s);
	a->qos = q ? 1 : 0;
	uint64_t ow = s & DISPATCH_QUEUE_DRAIN_OWNER_MASK;
	a->owner = ow == 0 ? 0 : ow == (SELF & DISPATCH_QUEUE_DRAIN_OWNER_MASK) ? 1 : ow == (OTHER & DISPATCH_QUEUE_DRAIN_OWNER_MASK) ? 2 : 3;
	if ((s & DISPATCH_QUEUE_ROLE_MASK) != DISPATCH_QUEUE_ROLE_BASE_ANON) return 0;
	if (s & (DISPATCH_QUEUE_ENQUEUED_ON_MGR | DISPATCH_QUEUE_SYNC_TRANSFER)) return 0;
	if (q && q != DISPATCH_QOS_DEFAULT) return 0;
	if (a->owner == 3) return 0;
	return 1;
}

static void pabs(const char *k, abs_t a)
{
	static const char *OW[] = { "null", "self", "other", "?" };
	fprintf(out, "\"%s\":{\"sc\":%d,\"side\":%s,\"inact\":%s,\"na\":%s,\"ib\":%s,\"pb\":%s,\"used\":%d,\"dirty\":%s,"
			"\"enq\":%s,\"ro\":%s,\"qos\":%d,\"owner\":\"%s\"}", k, a.sc, a.side ? "true" : "false",
			a.inact ? "true" : "false", a.na ? "true" : "false", a.ib ? "true" : "false", a.pb ? "true" : "false",
			a.used, a.dirty ? "true" : "false", a.enq ? "true" : "false", a.ro ? "true" : "false", a.qos, OW[a.owner]);
}

static struct dispatch_lane_s *mk(abs_t a, int tail)
{
	static struct dispatch_lane_s lane;
	static struct dispatch_continuation_s dummy;
	memset(&lane, 0, sizeof(lane));
	*(uint16_t *)&lane.dq_width = W;
	lane.dq_state = conc(a);
	lane.dq_items_tail = tail ? (struct dispatch_object_s *)&dummy : NULL;
	return &lane;
}

static long rows;
static void row(const char *f, abs_t in, int tail, long arg1, long arg2, long ret, uint64_t owned, uint64_t res)
{
	abs_t o; int okp = proj(res, &o);
	fprintf(out, "{\"f\":\"%s\",\"w\":%d,\"tail\":%s,\"a1\":%ld,\"a2\":%ld,\"ret\":%ld,", f, W, tail ? "true" : "false", arg1, arg2, ret);
	/* owned: in-barrier bit, width units, enqueued bit, and (adjust_owned) the pending-barrier reservation */
	int64_t ow = (int64_t)owned;
	int oib = 0, oenq = 0, ores = 0; long ouw = 0;
	if (owned != 0) {
		uint64_t x = owned;
		if (x & DISPATCH_QUEUE_ENQUEUED) { oenq = 1; x -= DISPATCH_QUEUE_ENQUEUED; }
		if (x & DISPATCH_QUEUE_IN_BARRIER) { oib = 1; x -= DISPATCH_QUEUE_IN_BARRIER; }
		ouw = (long)((int64_t)x / (int64_t)DISPATCH_QUEUE_WIDTH_INTERVAL);
		if ((int64_t)x % (int64_t)DISPATCH_QUEUE_WIDTH_INTERVAL) ores = -1; /* not a whole number of units */
	}
	(void)ow;
	fprintf(out, "\"o_ib\":%s,\"o_w\":%ld,\"o_enq\":%s,\"o_bad\":%d,", oib ? "true" : "false", ouw, oenq ? "true" : "false", ores);
	pabs("in", in); fputc(',', out);
	pabs("out", o);
	fprintf(out, ",\"proj\":%s}\n", okp ? "true" : "false");
	rows++;
}

int main(int argc, char **argv)
{
	out = fopen(argc > 1 ? argv[1] : "/dev/stdout", "w");
	int scmax = argc > 2 ? atoi(argv[2]) : 2;
	SELF = _dispatch_lock_value_for_self();
	OTHER = _dispatch_lock_value_from_tid(_dispatch_tid_self() + 8);
	uint16_t onlyw = argc > 3 ? (uint16_t)atoi(argv[3]) : 0;
	static const uint16_t widths[] = { 1, 2, 3 };
	for (unsigned wi = 0; wi < 3; wi++) {
		W = widths[wi];
		if (onlyw && W != onlyw) continue;
		abs_t a;
		for (a.sc = 0; a.sc <= scmax; a.sc++)
		for (a.side = 0; a.side <= 1; a.side++)
		for (a.inact = 0; a.inact <= 1; a.inact++)
		for (a.na = 0; a.na <= 1; a.na++)
		for (a.ib = 0; a.ib <= 1; a.ib++)
		for (a.pb = 0; a.pb <= 1; a.pb++)
		for (a.used = 0; a.used <= 2 * W; a.used++)
		for (a.dirty = 0; a.dirty <= 1; a.dirty++)
		for (a.enq = 0; a.enq <= 1; a.enq++)
		for (a.ro = 0; a.ro <= 1; a.ro++)
		for (a.qos = 0; a.qos <= 1; a.qos++)
		for (a.owner = 0; a.owner <= 2; a.owner++) {
			/* keep the enumeration tractable: inactive/na/side combos only with the rest quiet-ish */
			if ((a.inact || a.na || a.side) && (a.pb || a.ro)) continue;
			struct dispatch_lane_s *dq;
			uint64_t r;
			/* predicates used everywhere */
			dq = mk(a, 0);
			row("pred", a, 0, _dq_state_is_runnable(dq->dq_state), _dq_state_is_sync_runnable(dq->dq_state),
					_dq_state_is_suspended(dq->dq_state) * 2 + _dq_state_drain_locked(dq->dq_state), 0, dq->dq_state);
			/* drain_try_lock: a worker holding the ENQUEUED bit tries to lock (assert(old & dequeue_mask) in C) */
			if (a.enq) {
				dq = mk(a, 0); r = _dispatch_queue_drain_try_lock((dispatch_queue_t)dq, 0);
				row("drain_try_lock", a, 0, 0, 0, r != 0, r, dq->dq_state);
			}
			for (int t = 0; t <= 1; t++) {
				dq = mk(a, t); bool b = _dispatch_queue_try_acquire_barrier_sync(dq, (uint32_t)SELF);
				row("try_acquire_barrier_sync", a, t, 0, 0, b, 0, dq->dq_state);
				dq = mk(a, t); b = _dispatch_queue_try_reserve_sync_width(dq);
				row("try_reserve_sync_width", a, t, 0, 0, b, 0, dq->dq_state);
			}
			for (int sc = 0; sc <= 1; sc++) {
				dq = mk(a, 0); bool b = _dispatch_queue_try_acquire_barrier_sync_and_suspend(dq, (uint32_t)SELF, (uint64_t)sc);
				row("try_acquire_barrier_sync_and_suspend", a, 0, sc, 0, b, 0, dq->dq_state);
			}
			if (a.used < 2 * W) {
				dq = mk(a, 0); _dispatch_queue_reserve_sync_width(dq);
				row("reserve_sync_width", a, 0, 0, 0, 1, 0, dq->dq_state);
			}
			{
				dq = mk(a, 0); bool b = _dispatch_queue_try_acquire_async(dq);
				row("try_acquire_async", a, 0, 0, 0, b, 0, dq->dq_state);
			}
			/* try_upgrade_full_width: the drainer (self) owns `ow` units, not in barrier */
			if (a.owner == 1 && !a.ib && !a.sc && !a.side && !a.inact && !a.na && W > 1) {
				for (int ow = 0; ow <= W && ow <= a.used; ow++) {
					if (a.pb && a.used - ow + 1 > 2 * W) continue;
					dq = mk(a, 0); bool b = _dispatch_queue_try_upgrade_full_width(dq, (uint64_t)ow * DISPATCH_QUEUE_WIDTH_INTERVAL);
					row("try_upgrade_full_width", a, 0, ow, 0, b, 0, dq->dq_state);
				}
			}
			/* drain_try_unlock: self owns the lock; owned = (ib ? IB + W : ow) units (+ ENQUEUED) */
			if (a.owner == 1) {
				for (int done = 0; done <= 1; done++)
				for (int oe = 0; oe <= (a.enq ? 1 : 0); oe++)
				for (int ow = 0; ow <= W; ow++) {
					int oib = a.ib;
					int w = oib ? W : ow;
					if (oib && ow != 0) continue;
					if (w > a.used) continue;
					uint64_t owned = (uint64_t)w * DISPATCH_QUEUE_WIDTH_INTERVAL + (oib ? DISPATCH_QUEUE_IN_BARRIER : 0) +
							(oe ? DISPATCH_QUEUE_ENQUEUED : 0);
					dq = mk(a, 0); bool b = _dispatch_queue_drain_try_unlock((dispatch_queue_t)dq, owned, done);
					row("drain_try_unlock", a, 0, done, 0, b, owned, dq->dq_state);
				}
			}
			/* try_inactive_suspend crashes (by design) when the count overflows into the side counter */
			if (!a.side && a.sc < scmax) {
				dq = mk(a, 0); bool b = _dispatch_lane_try_inactive_suspend(dq);
				row("try_inactive_suspend", a, 0, 0, 0, b, 0, dq->dq_state);
			}
			/* merge_qos as used by wakeups */
			for (int q = 0; q <= 1; q++) {
				dq = mk(a, 0); r = _dq_state_merge_qos(dq->dq_state, q ? DISPATCH_QOS_DEFAULT : 0);
				row("merge_qos", a, 0, q, 0, 1, 0, r);
			}
		}
		/* adjust_owned: reserves the pending barrier unless the (lock-holding) drainer already did */
		for (int pb = 0; pb <= 1; pb++) for (int ow = 0; ow <= W; ow++) for (int barrier = 0; barrier <= 2; barrier++) {
			static struct dispatch_continuation_s dcb, dcn;
			dcb.dc_flags = DC_FLAG_BARRIER; dcn.dc_flags = 0;
			struct dispatch_object_s *next = barrier == 2 ? NULL : barrier ? (void *)&dcb : (void *)&dcn;
			abs_t a0; memset(&a0, 0, sizeof(a0)); a0.pb = pb; a0.owner = 1; a0.used = W;
			struct dispatch_lane_s *dq = mk(a0, 0);
			uint64_t in = (uint64_t)ow * DISPATCH_QUEUE_WIDTH_INTERVAL;
			uint64_t o = _dispatch_queue_adjust_owned(dq, in, next);
			int res = (in - o) == (DISPATCH_QUEUE_PENDING_BARRIER + (uint64_t)(W - 1) * DISPATCH_QUEUE_WIDTH_INTERVAL) ? 1 :
					(in == o ? 0 : -1);
			fprintf(out, "{\"f\":\"adjust_owned\",\"w\":%d,\"a1\":%d,\"a2\":%d,\"pb\":%s,\"ret\":%d}\n", W, ow, barrier, pb ? "true" : "false", res);
			rows++;
		}
	}
	fclose(out);
	fprintf(stderr, "rows=%ld\n", rows);
	return 0;
}
