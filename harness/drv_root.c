/* Driver for the root-queue half of C01: items submitted to a global queue run exactly once even
 * when every pool thread is blocked inside an item that waits for a LATER item of the same queue
 * (the pool monitor of event/workqueue.c must grow the pool), and under bursts from many threads.
 * Records the atomics on dgq_pending / dgq_thread_pool_size of the default global queue for
 * word-level validation against spec/RootTrace.tla. */
#include "internal.h"
#include <pthread.h>
#include "verif_rt.h"

static dispatch_queue_global_t g_rq, g_oq;   /* default global queue; its overcommit sibling */
static int g_obj, g_oobj;
static _Atomic int g_fail;
#define MAXI 4096
static _Atomic int g_runs[MAXI];
static _Atomic int g_done;
static dispatch_semaphore_t g_gate;

static void oracle_fail(const char *what, long a, long b)
{
	fprintf(stderr, "ORACLE-FAIL C01 %s a=%ld b=%ld\n", what, a, b);
	atomic_store(&g_fail, 1);
}
static void blocker(void *c)
{
	long id = (long)c;
	vrt_api("Start", g_obj, id, 0, 0);
	atomic_fetch_add(&g_runs[id], 1);
	dispatch_semaphore_wait(g_gate, DISPATCH_TIME_FOREVER);   /* waits for the releaser, submitted after us */
	vrt_api("End", g_obj, id, 0, 0);
	atomic_fetch_add(&g_done, 1);
}
static int g_nblock;
static void releaser(void *c)
{
	long id = (long)c;
	vrt_api("Start", g_obj, id, 1, 0);
	atomic_fetch_add(&g_runs[id], 1);
	for (int i = 0; i < g_nblock; i++) dispatch_semaphore_signal(g_gate);
	vrt_api("End", g_obj, id, 1, 0);
	atomic_fetch_add(&g_done, 1);
}
static void quick(void *c)
{
	long id = (long)c;
	atomic_fetch_add(&g_runs[id], 1);
	atomic_fetch_add(&g_done, 1);
}
static int g_burst_n;
static void *burster(void *a)
{
	long base = (long)a;
	(void)vrt_tid();
	for (int i = 0; i < g_burst_n; i++) {
		dispatch_async_f(g_rq->_as_dq, (void *)(base + i), quick);
		if (vrt_rand() % 8 == 0) sched_yield();
		vrt_progress();
	}
	return NULL;
}

/* (A, B) pairs on the overcommit queue: A blocks until B, submitted just after it, has run.  Nothing but the
 * library's own thread requests can get B served there (no pool monitor for overcommit queues). */
static dispatch_semaphore_t g_pair_sem[64];
static void pair_a(void *c) { long k = (long)c; dispatch_semaphore_wait(g_pair_sem[k % 64], DISPATCH_TIME_FOREVER); atomic_fetch_add(&g_runs[2 * k], 1); atomic_fetch_add(&g_done, 1); }
static void pair_b(void *c) { long k = (long)c; atomic_fetch_add(&g_runs[2 * k + 1], 1); dispatch_semaphore_signal(g_pair_sem[k % 64]); atomic_fetch_add(&g_done, 1); }

static void proj(FILE *f, const vrt_rec_t *r)
{
	if (r->kind == VRT_MARK) { fprintf(f, "{\"e\":\"%s\",\"ncpu\":%ld,\"pool\":%ld,\"pending\":%ld}\n", r->name, r->a, r->b, r->c); return; }
	if (r->kind == VRT_API) { fprintf(f, "{\"e\":\"%s\",\"t\":%d,\"i\":%ld}\n", r->name, r->tid, r->a); return; }
	if (r->kind != VRT_ATOMIC) return;
	if (r->cls == 2) {
		/* item list of a root queue: the drain_one / push protocol (RootTrace: a worker that lost the race to
		 * clear the tail must request a thread for the item that appeared) */
		const char *x = r->site->dvs_expr;
		/* spin predicates of the contended wait are not steps of the protocol */
		if (!strcmp(r->site->dvs_op, "load") && strcmp(r->site->dvs_func, "_dispatch_queue_class_probe")) return;
		fprintf(f, "{\"e\":\"Rl\",\"t\":%d,\"q\":%d,\"f\":\"%s\",\"w\":\"%s\",\"op\":\"%s\",\"ok\":%d,\"oldnull\":%s,\"newnull\":%s}\n", r->tid, r->obj,
				r->site->dvs_func, strstr(x, "tail") ? "tail" : strstr(x, "head") ? "head" : "?", r->site->dvs_op, r->ok,
				r->oldv == 0 ? "true" : "false", r->newv == 0 ? "true" : "false");
		return;
	}
	if (r->obj != g_obj) return;
	const char *w = strstr(r->site->dvs_expr, "dgq_pending") ? "pending" : strstr(r->site->dvs_expr, "dgq_thread_pool_size") ? "pool" : NULL;
	if (!w) return;
	fprintf(f, "{\"e\":\"Rq\",\"t\":%d,\"w\":\"%s\",\"f\":\"%s\",\"op\":\"%s\",\"ok\":%d,\"old\":%d,\"new\":%d}\n", r->tid, w,
			r->site->dvs_func, r->site->dvs_op, r->ok, (int)(int32_t)r->oldv, (int)(int32_t)r->newv);
}

static void wait_done(int n, const char *what)
{
	/* the watchdog (no progress for 60 s) turns a stall into exit 71 */
	int last = -1;
	while (atomic_load(&g_done) < n) { usleep(2000); int d = atomic_load(&g_done); if (d != last) { last = d; vrt_progress(); } }
	(void)what;
}

int main(int argc, char **argv)
{
	const char *out = argc > 1 ? argv[1] : "/dev/null";
	uint64_t seed = argc > 2 ? strtoull(argv[2], NULL, 0) : 1;
	int perturb = argc > 3 ? atoi(argv[3]) : 1;
	int rounds = argc > 4 ? atoi(argv[4]) : 1;
	vrt_init(out, seed, perturb);
	vrt_set_projector(proj);
	vrt_add_class("dgq_pending", 1);
	vrt_add_class("dgq_thread_pool_size", 1);
	vrt_add_class("dq_items_tail", 2);
	vrt_add_class("dq_items_head", 2);
	vrt_add_class("_os_mpsc_tail", 2);
	vrt_add_class("_os_mpsc_head", 2);
	vrt_set_hang_seconds(60);
	vrt_set_record_progress(0);   /* the pool monitor / background stream touch registered words on their own */
	(void)vrt_tid();
	g_rq = (dispatch_queue_global_t)dispatch_get_global_queue(0, 0);
	/* make sure the root queues and the pool monitor are initialised before recording starts */
	dispatch_sync_f(dispatch_queue_create("warm", NULL), NULL, quick); atomic_store(&g_done, 0);
	dispatch_group_t g = dispatch_group_create();
	dispatch_group_async_f(g, g_rq->_as_dq, (void *)(long)(MAXI - 1), quick);
	dispatch_group_wait(g, DISPATCH_TIME_FOREVER);
	usleep(20000);
	atomic_store(&g_done, 0);
	int ncpu = (int)dispatch_hw_config(active_cpus);
	g_obj = vrt_register(g_rq, sizeof(struct dispatch_queue_global_s), 1);
	g_oq = (dispatch_queue_global_t)dispatch_get_global_queue(0, DISPATCH_QUEUE_OVERCOMMIT);
	g_oobj = vrt_register(g_oq, sizeof(struct dispatch_queue_global_s), 2);
	for (int i = 0; i < 64; i++) g_pair_sem[i] = dispatch_semaphore_create(0);
	vrt_mark("Reset", ncpu, g_rq->dgq_thread_pool_size, g_rq->dgq_pending);
	for (int r = 0; r < rounds; r++) {
		/* (A) pool exhaustion */
		int extra = 1 + (int)(vrt_rand() % 3);
		g_nblock = ncpu + extra;
		g_gate = dispatch_semaphore_create(0);
		memset((void *)g_runs, 0, sizeof(g_runs));
		atomic_store(&g_done, 0);
		for (long i = 0; i < g_nblock; i++) dispatch_async_f(g_rq->_as_dq, (void *)i, blocker);
		dispatch_async_f(g_rq->_as_dq, (void *)(long)g_nblock, releaser);
		wait_done(g_nblock + 1, "exhaustion");
		for (int i = 0; i <= g_nblock; i++) if (atomic_load(&g_runs[i]) != 1) oracle_fail("global-queue item did not run exactly once", i, atomic_load(&g_runs[i]));
		dispatch_release(g_gate);
		/* (C) dependent pairs on the overcommit queue */
		memset((void *)g_runs, 0, sizeof(g_runs));
		atomic_store(&g_done, 0);
		int npairs = 1500;
		for (long k = 0; k < npairs; k++) {
			dispatch_async_f(g_oq->_as_dq, (void *)k, pair_a);
			if (vrt_rand() % 4 == 0) { volatile int x = 0; int n = (int)(vrt_rand() % 400); for (int i = 0; i < n; i++) x++; }
			dispatch_async_f(g_oq->_as_dq, (void *)k, pair_b);
			if ((k & 31) == 31) { wait_done((int)(2 * (k + 1)), "pairs"); }
			vrt_progress();
		}
		wait_done(2 * npairs, "pairs");
		for (int i = 0; i < 2 * npairs; i++) if (atomic_load(&g_runs[i]) != 1) oracle_fail("overcommit global-queue item did not run exactly once", i, atomic_load(&g_runs[i]));
		/* (B) bursts from several threads */
		memset((void *)g_runs, 0, sizeof(g_runs));
		atomic_store(&g_done, 0);
		g_burst_n = 300;
		pthread_t th[4];
		for (long t = 0; t < 4; t++) pthread_create(&th[t], NULL, burster, (void *)(t * g_burst_n));
		for (int t = 0; t < 4; t++) pthread_join(th[t], NULL);
		wait_done(4 * g_burst_n, "burst");
		for (int i = 0; i < 4 * g_burst_n; i++) if (atomic_load(&g_runs[i]) != 1) oracle_fail("global-queue item did not run exactly once (burst)", i, atomic_load(&g_runs[i]));
	}
	if (argc > 5 && atoi(argv[5])) {
		/* let every pool thread hit its 5 s park timeout: each must give its budget unit back and exit */
		/* (5 s timeout + scheduling latency; bounded at 40 s so that a leaked budget unit is reported, not waited for) */
		for (int k = 0; k < 80; k++) { usleep(500000); vrt_progress(); if (k >= 12 && g_rq->dgq_thread_pool_size == ncpu && g_rq->dgq_pending == 0) break; }
		vrt_mark("IdleQuiesce", ncpu, g_rq->dgq_thread_pool_size, g_rq->dgq_pending);
		/* and the pool must come back to life afterwards */
		memset((void *)g_runs, 0, sizeof(g_runs));
		atomic_store(&g_done, 0);
		for (long i = 0; i < 200; i++) dispatch_async_f(g_rq->_as_dq, (void *)i, quick);
		wait_done(200, "after idle");
		for (int i = 0; i < 200; i++) if (atomic_load(&g_runs[i]) != 1) oracle_fail("global-queue item did not run exactly once (after idle)", i, atomic_load(&g_runs[i]));
	}
	vrt_dump();
	fprintf(stderr, "records=%zu threads=%d\n", vrt_count(), vrt_nthreads());
	return atomic_load(&g_fail) ? 2 : 0;
}
