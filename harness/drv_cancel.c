/* Driver for C16 (cancelling a source): seeded random life-cycle scenarios on REAL dispatch
 * sources of every kind available on Linux (custom data add/or, timer, read/write on pipes
 * and socketpairs, signal), cancelled at random life-cycle points from every context the
 * property names (before activation, from the event handler, from an item on the target
 * queue, from a foreign thread once/twice, through dispatch_source_cancel_and_wait, while
 * suspended, racing with a hang-up), under schedule perturbation injected at the source's
 * own atomics (dq_atomic_flags, dq_state, du_state, ds_pending_data).
 *
 * Every API event, handler start/end and every traced atomic is recorded in ONE total order
 * (verif_rt).  The property's statements are evaluated on that order here (exit 2), and the
 * records are written as abstract Cancel.tla records for spec/CancelTrace.tla.
 *
 * usage: drv_cancel OUT SEED PERTURB NEXEC [KINDMASK] [MODEMASK] [STEER]
 *   KINDMASK  bit per source kind (K_* below), MODEMASK bit per cancellation mode (M_* below)
 *   STEER     bit 0: hold the manager between the NEEDS_DELETE store of _dispatch_event_merge_hangup and
 *                    _dispatch_source_merge_evt until the target queue has acknowledged the deletion (<= 50 ms);
 *                    in the cancel_and_wait/hang-up mode the EOF handler stays in its body until the call returned
 *             bit 1: hold the drainer between the flags load of _dispatch_source_invoke2 and the latch until a
 *                    foreign cancel has returned (<= 20 ms): the "one invocation already committed" of the property
 * exit: 0 ok, 2 an API-level oracle failed, 70 crash inside the library, 71 no progress for 45 s (hang).
 *
 * Oracles (all evaluated on the recorded total order / on the kernel's own state):
 *   - no event handler start after dispatch_source_cancel was CALLED from the handler or from an item on the
 *     serial target queue; at most one after a cancel issued elsewhere (or cancel_and_wait) RETURNED;
 *     (own context = the event handler, the REGISTRATION handler - it runs on the target queue as part of the source's
 *     invoke - and items on the serial target queue);
 *   - the registration handler runs at most once, on the target queue, before the first event handler invocation, never
 *     on a cancelled source; scenarios make an event pending BEFORE it runs (data merged before activation or inside
 *     it, descriptor already readable / writable, signal already raised) and let it cancel / merge / do both;
 *   - the event handler never runs on two threads, always on the target queue (dispatch_get_specific + current queue);
 *   - the cancel handler runs exactly once (waited for without a time bound: a hang is detected by the watchdog),
 *     on the target queue, after the last event handler end, never followed by an event handler start, with
 *     {CANCELED, DELETED} set, du_state unregistered and the descriptor absent from the library's epoll set
 *     (/proc/self/fdinfo/<epfd>; for signals: no signalfd left open);
 *   - inside the cancel handler (after cancel_and_wait returned) the descriptor number is recycled onto another open
 *     file while the old open file description is kept alive and made readable: the old handler must stay silent,
 *     a NEW source on the recycled number must get its event;
 *   - cancel_and_wait returns only in the final state; dispatch_source_testcancel != 0 after every cancel;
 *   - final state at quiescence for every entry point (before activation, twice, while suspended, hang-up race).
 *   - dispatch_source_set_cancel_handler / _f on an ACTIVATED source (modes set_ch_*; block and function form chosen at
 *     random per call; every handler is a GENERATION: 1 = the one set before activation, 2.. = the calls in issue order,
 *     which is a real-time order: the calls of one execution never overlap).  What src/source.c guarantees, and what is
 *     judged (Cancel.tla, "dispatch_source_set_cancel_handler on an activated source"):
 *       _dispatch_source_set_handler never drops a mutation (its "Ignore handlers mutations past cancelation" guards
 *       diagnostics only): the continuation is exchanged into ds_handler[DS_CANCEL_HANDLER] either inline under the
 *       source's barrier (_dispatch_barrier_trysync_or_async_f found dq_state completely idle) followed by
 *       dx_wakeup(BARRIER_COMPLETE), or by a barrier item on the source's own list that _dispatch_source_invoke2 drains
 *       FIRST, before its cancellation tests, on whatever queue it runs; _dispatch_source_wakeup sends a source with
 *       {CANCELED, DELETED} and a handler left (or items left) to its target queue, and _dispatch_source_invoke2 calls
 *       _dispatch_source_cancel_callout there whenever {CANCELED, DELETED} - also again, after an earlier callout.  Hence:
 *       (a) the handler of the LAST call (non-NULL), on a source that is or gets cancelled, is invoked exactly once - no
 *           matter whether the call came before the cancel, between the cancel and the first callout, or after the source
 *           had long reached its final state; 0 invocations is a violation (detected without a time bound: the source's
 *           dq_state idle + DSF_DELETED + empty item list for 5 ms with every client call returned means nothing is in
 *           flight any more; a hang is left to the watchdog);
 *       (b) an EARLIER generation is invoked 0 or 1 times: 1 when a callout found it in the slot before its replacement
 *           took effect (e.g. cancel + set from the event handler: the handler's own invoke2 is past the drain, its
 *           callout takes the old handler, the barrier item installs the new one afterwards and gets its own callout) -
 *           the C code leaves that race open, both outcomes are accepted; the exact clause "never after the replacement
 *           took effect" is checked on the recorded slot exchanges by CancelTrace.tla;
 *       (c) invocations happen in generation order (a later generation in the slot means the earlier one was taken out
 *           before), no generation twice, a NULL call installs nothing;
 *       (d) EVERY cancel handler invocation obeys the old clauses: target queue, no event handler running, after the
 *           last event handler end, {CANCELED, DELETED}, unote unregistered, descriptor not monitored, never followed by an
 *           event handler start.
 * Object ids given to verif_rt are unique per execution and the projector keeps only the records of the current
 * execution's two objects (source, refs); the next execution starts after the source's finalizer ran.
 */
#include "internal.h"
#include <pthread.h>
#include <malloc.h>
#include <signal.h>
#include <sys/socket.h>
#include <dirent.h>
#include <sys/epoll.h>
#include "verif_rt.h"

enum { K_DATA_ADD, K_DATA_OR, K_TIMER, K_READ_PIPE, K_READ_SOCK, K_WRITE_PIPE, K_WRITE_SOCK, K_SIGNAL, K_N };
static const char *KNAME[] = { "data", "data", "timer", "fd", "fd", "fd", "fd", "signal" };
static const char *KLONG[] = { "data_add", "data_or", "timer", "read_pipe", "read_sock", "write_pipe", "write_sock", "signal" };
/* cancellation modes (life-cycle point x context) */
enum { M_PRE, M_PRE_TWICE, M_HANDLER, M_TQITEM, M_FOREIGN, M_FOREIGN_TWICE, M_HANDLER_AND_FOREIGN, M_CAW, M_CAW_PRE,
       M_SUSPENDED, M_HANGUP_RACE, M_CAW_HANGUP,
       /* registration handler (runs once on the target queue as part of the source's invoke, after installation and
        * before the first event delivery) with an event ALREADY pending: it cancels its own source / merges data
        * (then a foreign thread cancels) / merges and cancels */
       M_REG_CANCEL, M_REG_MERGE, M_REG_MERGE_CANCEL,
       /* dispatch_source_set_cancel_handler[_f] after activation (see the header) */
       M_SCH_HANDLER,     /* event handler: dispatch_source_cancel(ds); dispatch_source_set_cancel_handler(ds, h) */
       M_SCH_FOREIGN,     /* another thread: cancel, then - at once / a little later / after the cancellation completed - set */
       M_SCH_TQITEM,      /* an item on the target queue: cancel + set, or set + cancel */
       M_SCH_REPLACE,     /* another thread replaces the handler BEFORE the cancel (cancel from there or from the event handler) */
       M_SCH_CLEAR,       /* another thread clears the handler with NULL, then cancels; sometimes installs one again afterwards */
       M_SCH_TWICE,       /* cancel, then install twice (from the event handler or from another thread) */
       M_N };
static const char *MNAME[] = { "pre_activation", "pre_activation_twice", "from_handler", "from_target_queue_item", "foreign",
       "foreign_twice", "handler_and_foreign", "cancel_and_wait", "cancel_and_wait_pre_activation", "while_suspended",
       "hangup_race", "cancel_and_wait_hangup_race", "from_registration_handler", "registration_handler_merges",
       "registration_handler_merges_and_cancels", "set_ch_from_handler_after_cancel", "set_ch_foreign_after_cancel",
       "set_ch_from_target_queue_item", "set_ch_replace_before_cancel", "set_ch_clear_then_cancel", "set_ch_twice_after_cancel" };
enum { CTX_MAIN_PRE = 0, CTX_HANDLER = 1, CTX_TQITEM = 2, CTX_FOREIGN = 3, CTX_CAW = 4, CTX_MAIN = 5, CTX_REGH = 6 };
static const char *CTXNAME[] = { "pre", "handler", "tqitem", "foreign", "caw", "foreign", "reghandler" };

#define MAXH 512
#define MAXC 8
#define MAXG 7          /* handler generations per execution (1 = set before activation) */
typedef struct exec_s {
	int id, kind, mode, serial, has_ch, obj, robj;
	dispatch_source_t ds;
	dispatch_source_refs_t dr;
	dispatch_queue_t tq;
	int fd, keepfd, peerfd, rd2, wr2;   /* monitored fd, dup of it, the peer end; recycled pipe */
	_Atomic int hrunning, hstarts, chstarts, chends, closed, peer_closed, stop_producer, activated;
	_Atomic uint64_t hstart_seq[MAXH], hend_last, chstart_seq, chend_seq;
	struct { int ctx; uint64_t call, ret; int own; } cancel[MAXC];
	_Atomic int ncancel;
	_Atomic uint64_t own_cancel_call;      /* first cancel CALL from the handler / an item on the serial target queue */
	_Atomic uint64_t foreign_cancel_ret;   /* first RETURN of a cancel issued from elsewhere */
	_Atomic uint64_t caw_ret;
	_Atomic int late_after_foreign, late_after_caw, running_at_caw_ret;
	_Atomic int handler_cancel_at;         /* cancel from the handler at this invocation (1-based), 0 = never */
	_Atomic int handler_cancelled;
	dispatch_semaphore_t ch_sem, h_sem, new_sem, fin_sem;
	dispatch_source_t ds2;
	_Atomic int new_events, old_after_recycle, steered_late, regstarts, regrunning, pending_at_reg;
	int recycled;
	/* cancel handler generations */
	_Atomic int ngen, final_gen, nsets, script_done, variant;
	_Atomic int gstarts[MAXG + 1], gends[MAXG + 1];
	_Atomic int handler_cancel_armed;      /* M_SCH_REPLACE: the event handler cancels once the replacement call returned */
} exec_t;

static uint64_t g_seed;
static int g_nexec = 20, g_kindmask = (1 << K_N) - 1, g_modemask = (1 << M_N) - 1, g_steer = 0;
static _Atomic int g_fail;
static exec_t *g_cur;
static pthread_t g_prod_th, g_canc_th;
static _Atomic int g_prod_go, g_canc_go, g_threads_exit;
static _Atomic long g_stat_reg_cancel_pending, g_stat_sets, g_stat_old_gen_ran, g_stat_set_after_final, g_stat_idle_timeout;
static _Atomic long g_stat_late1, g_stat_running_at_caw, g_stat_late_caw, g_stat_hangup_deleted;
static int g_epfd = -1;
static char g_key;

static void oracle_fail(exec_t *x, const char *what, long a, long b)
{
	fprintf(stderr, "ORACLE-FAIL C16 exec=%d kind=%s mode=%s target=%s: %s a=%ld b=%ld\n", x ? x->id : -1,
			x ? KLONG[x->kind] : "-", x ? MNAME[x->mode] : "-", x ? (x->serial ? "serial" : "global") : "-", what, a, b);
	vrt_api("OracleFail", x ? x->obj : -1, a, b, 0);
	atomic_store(&g_fail, 1);
}

/* ---------------- "has the library stopped monitoring the descriptor": ask the kernel ---------------- */
static int find_epfd(void)
{
	DIR *d = opendir("/proc/self/fd");
	if (!d) return -1;
	struct dirent *e; int found = -1;
	while ((e = readdir(d))) {
		char p[64], l[128];
		if (e->d_name[0] == '.') continue;
		snprintf(p, sizeof(p), "/proc/self/fd/%s", e->d_name);
		ssize_t n = readlink(p, l, sizeof(l) - 1);
		if (n <= 0) continue;
		l[n] = 0;
		if (strstr(l, "eventpoll")) { found = atoi(e->d_name); break; }
	}
	closedir(d);
	return found;
}
/* 1: the epoll set of the library holds an entry for fd; 0: not; -1: cannot tell */
static int epoll_monitors(int fd, unsigned mask)
{
	if (g_epfd < 0) g_epfd = find_epfd();
	if (g_epfd < 0) return -1;
	char p[64]; snprintf(p, sizeof(p), "/proc/self/fdinfo/%d", g_epfd);
	FILE *f = fopen(p, "r");
	if (!f) return -1;
	char line[256]; int res = 0;
	while (fgets(line, sizeof(line), f)) {
		int tfd; unsigned ev;
		/* a fired EPOLLONESHOT entry shows no EPOLLIN/EPOLLOUT bit but is still a registration: any entry counts
		 * (every scenario here has ONE source per descriptor) */
		if (sscanf(line, "tfd: %d events: %x", &tfd, &ev) == 2 && tfd == fd) res = 1;
	}
	fclose(f);
	return res;
}
static int count_signalfds(void)
{
	DIR *d = opendir("/proc/self/fd");
	if (!d) return -1;
	struct dirent *e; int n = 0;
	while ((e = readdir(d))) {
		char p[64], l[128];
		if (e->d_name[0] == '.') continue;
		snprintf(p, sizeof(p), "/proc/self/fd/%s", e->d_name);
		ssize_t k = readlink(p, l, sizeof(l) - 1);
		if (k <= 0) continue;
		l[k] = 0;
		if (strstr(l, "signalfd")) n++;
	}
	closedir(d);
	return n;
}

/* ---------------- steering: stretch two windows the spec has actions for ---------------- */
static _Atomic long g_stat_steer_hup, g_stat_steer_late;
static void steer(struct dispatch_verif_site_s *s, const volatile void *addr, int obj)
{
	(void)addr;
	if (!s->dvs_cookie) {
		/* 1: manager between the NEEDS_DELETE store of _dispatch_event_merge_hangup and _dispatch_source_merge_evt;
		 * 2: drainer between the flags load of _dispatch_source_invoke2 and the latch (the "committed" invocation) */
		s->dvs_cookie = (!strcmp(s->dvs_func, "_dispatch_event_merge_hangup") && strstr(s->dvs_expr, "ds_pending_data")) ? (void *)1 :
				(!strcmp(s->dvs_func, "_dispatch_source_invoke2") && strstr(s->dvs_expr, "ds_pending_data")) ? (void *)2 : (void *)3;
	}
	exec_t *x = g_cur;
	if (!x || obj < 0 || obj != x->robj) return;
	if (s->dvs_cookie == (void *)1 && (g_steer & 1)) {
		for (int i = 0; i < 1000; i++) {
			if (x->ds->dq_atomic_flags & DSF_DELETED) { atomic_fetch_add(&g_stat_steer_hup, 1); return; }
			usleep(50);
		}
	} else if (s->dvs_cookie == (void *)2 && (g_steer & 2)) {
		if (!atomic_load(&g_canc_go) || atomic_load(&x->foreign_cancel_ret) || atomic_load(&x->steered_late) >= 2) return;
		if (x->mode != M_FOREIGN && x->mode != M_FOREIGN_TWICE && x->mode != M_HANGUP_RACE) return;
		if (x->ds->dq_atomic_flags & DSF_CANCELED) return;
		if (vrt_rand() & 1) return;
		atomic_fetch_add(&x->steered_late, 1);
		for (int i = 0; i < 400; i++) {
			if (atomic_load(&x->foreign_cancel_ret)) { atomic_fetch_add(&g_stat_steer_late, 1); return; }
			usleep(50);
		}
	}
}

static int is_fdkind(int k) { return k >= K_READ_PIPE && k <= K_WRITE_SOCK; }
static int is_writekind(int k) { return k == K_WRITE_PIPE || k == K_WRITE_SOCK; }
static int on_target(exec_t *x)
{
	if (x->serial) return dispatch_get_specific(&g_key) == (void *)x->tq && _dispatch_queue_get_current() == x->tq;
	return _dispatch_queue_get_current() == x->ds->do_targetq && dx_hastypeflag(_dispatch_queue_get_current(), QUEUE_ROOT);
}

static void do_cancel(exec_t *x, int ctx)
{
	int i = atomic_fetch_add(&x->ncancel, 1);
	/* own context: the source's own handlers (event and registration handler: both run on the target queue as part of
	 * the source's invoke) and items on its SERIAL target queue */
	int own = ctx == CTX_HANDLER || ctx == CTX_REGH || (ctx == CTX_TQITEM && x->serial);
	uint64_t c = vrt_api("CancelCall", x->obj, x->id, ctx, own);
	if (own) { uint64_t z = 0; atomic_compare_exchange_strong(&x->own_cancel_call, &z, c); }
	dispatch_source_cancel(x->ds);
	uint64_t r = vrt_api("CancelRet", x->obj, x->id, ctx, own);
	if (!own) { uint64_t z = 0; atomic_compare_exchange_strong(&x->foreign_cancel_ret, &z, r); }
	if (i < MAXC) { x->cancel[i].ctx = ctx; x->cancel[i].call = c; x->cancel[i].ret = r; x->cancel[i].own = own; }
	if (!dispatch_source_testcancel(x->ds)) oracle_fail(x, "dispatch_source_testcancel == 0 after dispatch_source_cancel returned", ctx, 0);
}

/* final state every entry point converges to: {CANCELED, DELETED}, unote unregistered, no kernel registration */
static void check_final_state(exec_t *x, const char *when)
{
	dispatch_queue_flags_t dqf = os_atomic_load2o(x->ds, dq_atomic_flags, relaxed);
	dispatch_unote_state_t st = os_atomic_load2o(x->dr, du_state, relaxed);
	char msg[160];
	if (!(dqf & DSF_CANCELED) || !(dqf & DSF_DELETED)) {
		snprintf(msg, sizeof(msg), "%s: flags are not {CANCELED, DELETED}", when);
		oracle_fail(x, msg, !!(dqf & DSF_CANCELED), !!(dqf & DSF_DELETED));
	}
	if (dqf & (DSF_CANCEL_WAITER | DSF_NEEDS_EVENT)) {
		snprintf(msg, sizeof(msg), "%s: CANCEL_WAITER / NEEDS_EVENT left set", when);
		oracle_fail(x, msg, (long)(dqf >> 28), 0);
	}
	if (st != DU_STATE_UNREGISTERED && KNAME[x->kind][0] != 'd') {   /* data unotes have nothing to unregister */
		snprintf(msg, sizeof(msg), "%s: unote still registered (du_state != 0)", when);
		oracle_fail(x, msg, (long)(st & 3), 0);
	}
	if (is_fdkind(x->kind) && !x->recycled) {
		int m = epoll_monitors(x->fd, is_writekind(x->kind) ? EPOLLOUT : EPOLLIN);
		if (m == 1) { snprintf(msg, sizeof(msg), "%s: the library's epoll set still monitors the descriptor", when); oracle_fail(x, msg, x->fd, 0); }
	}
	if (x->kind == K_SIGNAL) {
		int n = count_signalfds();
		if (n > 0) { snprintf(msg, sizeof(msg), "%s: the signalfd of the cancelled source is still open", when); oracle_fail(x, msg, n, 0); }
	}
}

/* ---------------- second source on the recycled descriptor number ---------------- */
static void ev2_handler(void *ctx)
{
	exec_t *x = ctx;
	char b[8];
	(void)!read(x->fd, b, sizeof(b));
	if (atomic_fetch_add(&x->new_events, 1) == 0) dispatch_semaphore_signal(x->new_sem);
}
static void ch2_handler(void *ctx) { exec_t *x = ctx; dispatch_semaphore_signal(x->new_sem); }

static void recycle_descriptor(exec_t *x)
{
	/* close the descriptor the cancelled source monitored and immediately make the SAME number a different
	 * open file; the old open file description stays alive through keepfd and is made readable, so a stale
	 * kernel registration would fire */
	int p[2];
	if (pipe2(p, O_NONBLOCK | O_CLOEXEC)) return;
	if (dup2(p[0], x->fd) != x->fd) { close(p[0]); close(p[1]); return; }   /* closes the old file and reuses its number atomically */
	close(p[0]);
	x->wr2 = p[1];
	x->recycled = 1;
	(void)!write(x->wr2, "n", 1);
	if (x->peerfd >= 0 && !atomic_load(&x->peer_closed) && !is_writekind(x->kind)) (void)!write(x->peerfd, "o", 1);
	x->ds2 = dispatch_source_create(DISPATCH_SOURCE_TYPE_READ, (uintptr_t)x->fd, 0, x->tq);
	dispatch_set_context(x->ds2, x);
	dispatch_source_set_event_handler_f(x->ds2, ev2_handler);
	dispatch_source_set_cancel_handler_f(x->ds2, ch2_handler);
	dispatch_activate(x->ds2);
}

/* ---------------- handlers of the source under test ---------------- */
static int is_set_mode(int m);
static int do_set_ch(exec_t *x, int ctx, int nul);
static void ev_handler(void *ctx)
{
	exec_t *x = ctx;
	int on = on_target(x);
	int r = atomic_fetch_add(&x->hrunning, 1);
	int n = atomic_fetch_add(&x->hstarts, 1) + 1;
	uint64_t s = vrt_api("HStart", x->obj, x->id, on, n);
	if (n <= MAXH) atomic_store(&x->hstart_seq[n - 1], s);
	if (atomic_load(&x->closed)) oracle_fail(x, "event handler invoked after the execution was finished (after its cancel handler)", n, 0);
	if (r != 0) oracle_fail(x, "event handler running on two threads at once", r, n);
	if (!on) oracle_fail(x, "event handler not on the target queue", n, 0);
	if (atomic_load(&x->chstarts) > 0) oracle_fail(x, "event handler started after the cancel handler", n, 0);
	if (atomic_load(&x->regrunning)) oracle_fail(x, "event handler started while the registration handler was running", n, 0);
	if (x->recycled) { atomic_fetch_add(&x->old_after_recycle, 1); oracle_fail(x, "event delivered to the cancelled source after its descriptor was recycled (stale registration)", n, 0); }
	uint64_t oc = atomic_load(&x->own_cancel_call);
	if (oc && s > oc) {
		oracle_fail(x, "event handler started after dispatch_source_cancel was called from its own handler / serial target queue", (long)s, (long)oc);
		if (n > 64) vrt_fatal("OracleFail", n, 2);
	}
	uint64_t fr = atomic_load(&x->foreign_cancel_ret);
	if (fr && s > fr) {
		int late = atomic_fetch_add(&x->late_after_foreign, 1) + 1;
		if (late > 1) {
			oracle_fail(x, "more than one event handler invocation started after a foreign dispatch_source_cancel returned", late, (long)fr);
			if (late > 64) vrt_fatal("OracleFail", late, 2);
		}
	}
	uint64_t cr = atomic_load(&x->caw_ret);
	if (cr && s > cr) {
		int late = atomic_fetch_add(&x->late_after_caw, 1) + 1;
		if (late > 1) {
			oracle_fail(x, "more than one event handler invocation started after dispatch_source_cancel_and_wait returned", late, (long)cr);
			if (late > 64) vrt_fatal("OracleFail", late, 2);
		}
	}
	/* body */
	if (x->mode == M_CAW_HANGUP && (g_steer & 1) && (x->ds->dq_atomic_flags & (DSF_DELETED | DSF_CANCELED)) == DSF_DELETED) {
		/* deleted by the hang-up, not yet cancelled: stay in the handler until cancel_and_wait has returned (bounded) */
		for (int i = 0; i < 400 && !atomic_load(&x->caw_ret); i++) usleep(50);
	}
	uintptr_t data = dispatch_source_get_data(x->ds);
	(void)data;
	switch (x->kind) {
	case K_READ_PIPE: case K_READ_SOCK:
		if (vrt_rand() % 4) { char b[16]; (void)!read(x->fd, b, 1 + vrt_rand() % sizeof(b)); }
		break;
	case K_WRITE_PIPE: case K_WRITE_SOCK:
		if (vrt_rand() % 2) (void)!write(x->fd, "w", 1);
		break;
	default: break;
	}
	int hca = atomic_load(&x->handler_cancel_at);
	if (x->mode == M_SCH_REPLACE && !atomic_load(&x->handler_cancel_armed)) hca = 0;
	if (hca && n >= hca && !atomic_exchange(&x->handler_cancelled, 1)) {
		do_cancel(x, CTX_HANDLER);
		if (x->mode == M_HANDLER && (vrt_rand() & 1)) do_cancel(x, CTX_HANDLER);   /* cancel twice from the handler */
		if (x->mode == M_SCH_HANDLER || x->mode == M_SCH_TWICE) {
			/* "decide about the clean-up once we know we are done": install the cancel handler right after the cancel */
			do_set_ch(x, CTX_HANDLER, 0);
			if (x->mode == M_SCH_TWICE) do_set_ch(x, CTX_HANDLER, 0);
		}
		if (is_set_mode(x->mode)) atomic_store(&x->script_done, 1);
	}
	if (vrt_rand() % 3 == 0) { volatile int z = 0; int k = (int)(vrt_rand() % 3000); for (int i = 0; i < k; i++) z++; }
	if (n == 1) dispatch_semaphore_signal(x->h_sem);
	atomic_fetch_sub(&x->hrunning, 1);
	uint64_t e = vrt_api("HEnd", x->obj, x->id, on, n);
	atomic_store(&x->hend_last, e);
	vrt_progress();
}

static int is_set_mode(int m) { return m >= M_SCH_HANDLER && m <= M_SCH_TWICE; }

/* the cancel handler of generation g (1 = set before activation, 2.. = the dispatch_source_set_cancel_handler calls) */
static void cancel_handler_g(exec_t *x, int g)
{
	int on = on_target(x);
	int running = atomic_load(&x->hrunning);
	int n = atomic_fetch_add(&x->chstarts, 1) + 1;
	int gn = atomic_fetch_add(&x->gstarts[g], 1) + 1;
	/* is the kernel registration gone?  (asked before anything else touches the descriptor; once the first invocation
	 * has recycled the descriptor number the number belongs to another source) */
	int mon = 0;
	if (is_fdkind(x->kind) && !x->recycled) mon = epoll_monitors(x->fd, is_writekind(x->kind) ? EPOLLOUT : EPOLLIN);
	else if (x->kind == K_SIGNAL) mon = count_signalfds() > 0;
	dispatch_queue_flags_t dqf = os_atomic_load2o(x->ds, dq_atomic_flags, relaxed);
	dispatch_unote_state_t st = os_atomic_load2o(x->dr, du_state, relaxed);
	uint64_t s = vrt_api("ChStart", x->obj, g, on, mon == 1);
	if (n == 1) atomic_store(&x->chstart_seq, s);
	if (atomic_load(&x->closed)) oracle_fail(x, "cancel handler invoked after the execution was finished", n, g);
	if (gn != 1) oracle_fail(x, "cancel handler (one generation) invoked more than once", gn, g);
	if (n != 1 && !is_set_mode(x->mode)) oracle_fail(x, "cancel handler invoked more than once", n, 0);
	for (int h = g + 1; h <= MAXG; h++)
		if (atomic_load(&x->gstarts[h])) oracle_fail(x, "a replaced cancel handler was invoked after the handler that replaced it", g, h);
	if (!on) oracle_fail(x, "cancel handler not on the target queue", 0, 0);
	if (running) oracle_fail(x, "cancel handler started while the event handler was running", running, 0);
	if (atomic_load(&x->hend_last) > s) oracle_fail(x, "cancel handler started before the last event handler invocation returned", 0, 0);
	if (mon == 1) oracle_fail(x, "cancel handler started while the library still monitors the descriptor (epoll entry / signalfd present)", x->fd, 0);
	if (!(dqf & DSF_CANCELED) || !(dqf & DSF_DELETED)) oracle_fail(x, "cancel handler started before {CANCELED, DELETED}", !!(dqf & DSF_CANCELED), !!(dqf & DSF_DELETED));
	if (st != DU_STATE_UNREGISTERED && KNAME[x->kind][0] != 'd') oracle_fail(x, "cancel handler started while the unote is still registered", (long)(st & 3), 0);
	if (!dispatch_source_testcancel(x->ds)) oracle_fail(x, "dispatch_source_testcancel == 0 inside the cancel handler", 0, 0);
	if (is_fdkind(x->kind) && x->keepfd >= 0 && n == 1) recycle_descriptor(x);
	if (vrt_rand() % 2) { volatile int z = 0; int k = (int)(vrt_rand() % 2000); for (int i = 0; i < k; i++) z++; }
	uint64_t e = vrt_api("ChEnd", x->obj, g, on, 0);
	atomic_store(&x->chend_seq, e);
	atomic_fetch_add(&x->chends, 1);
	atomic_fetch_add(&x->gends[g], 1);
	dispatch_semaphore_signal(x->ch_sem);
	vrt_progress();
}
static void cancel_handler(void *ctx) { cancel_handler_g(ctx, 1); }
static void cancel_handler_f2(void *ctx) { cancel_handler_g(ctx, 2); }
static void cancel_handler_f3(void *ctx) { cancel_handler_g(ctx, 3); }
static void cancel_handler_f4(void *ctx) { cancel_handler_g(ctx, 4); }
static void cancel_handler_f5(void *ctx) { cancel_handler_g(ctx, 5); }
static void cancel_handler_f6(void *ctx) { cancel_handler_g(ctx, 6); }
static void cancel_handler_f7(void *ctx) { cancel_handler_g(ctx, 7); }
static dispatch_function_t const CHF[MAXG + 1] = { NULL, cancel_handler, cancel_handler_f2, cancel_handler_f3, cancel_handler_f4,
		cancel_handler_f5, cancel_handler_f6, cancel_handler_f7 };

/* nothing of the source is in flight: {CANCELED, DELETED}, dq_state without drain owner / enqueued bits / suspend count,
 * no item on the source's own list (only meaningful once every client call on the source has returned) */
static int source_at_rest(exec_t *x)
{
	dispatch_queue_flags_t dqf = x->ds->dq_atomic_flags;
	if (!(dqf & DSF_CANCELED) || !(dqf & DSF_DELETED)) return 0;
	uint64_t st = x->ds->dq_state;
	if (st & (DISPATCH_QUEUE_DRAIN_OWNER_MASK | DISPATCH_QUEUE_ENQUEUED | DISPATCH_QUEUE_ENQUEUED_ON_MGR)) return 0;
	if (_dq_state_is_suspended(st)) return 0;
	if (x->ds->dq_items_tail || x->ds->dq_items_head) return 0;
	return 1;
}

/* dispatch_source_set_cancel_handler / _f on the activated source: the next generation, or NULL.  Calls of one execution
 * are issued one after the other (never concurrently), so the issue order is the order of their effects. */
static int do_set_ch(exec_t *x, int ctx, int nul)
{
	int g = atomic_fetch_add(&x->ngen, 1) + 1;
	if (g > MAXG) return 0;
	int block = (int)(vrt_rand() & 1);
	if ((x->ds->dq_atomic_flags & DSF_DELETED) && !nul) atomic_fetch_add(&g_stat_set_after_final, 1);
	vrt_api("SchCall", x->obj, x->id, g | (nul << 8), ctx);
	if (block) {
		if (nul) dispatch_source_set_cancel_handler(x->ds, NULL);
		else dispatch_source_set_cancel_handler(x->ds, ^{ cancel_handler_g(x, g); });
	} else {
		dispatch_source_set_cancel_handler_f(x->ds, nul ? NULL : CHF[g]);
	}
	vrt_api("SchRet", x->obj, x->id, g | (nul << 8), ctx);
	atomic_store(&x->final_gen, nul ? 0 : g);
	atomic_fetch_add(&x->nsets, 1);
	atomic_fetch_add(&g_stat_sets, 1);
	return g;
}

static int is_reg_mode(int m) { return m == M_REG_CANCEL || m == M_REG_MERGE || m == M_REG_MERGE_CANCEL; }
static int is_datakind(int k) { return k == K_DATA_ADD || k == K_DATA_OR; }

static void reg_handler(void *ctx)
{
	exec_t *x = ctx;
	int on = on_target(x);
	int n = atomic_fetch_add(&x->regstarts, 1) + 1;
	atomic_store(&x->regrunning, 1);
	vrt_api("RStart", x->obj, x->id, on, n);
	if (atomic_load(&x->closed)) oracle_fail(x, "registration handler invoked after the execution was finished", n, 0);
	if (n != 1) oracle_fail(x, "registration handler invoked more than once", n, 0);
	if (!on) oracle_fail(x, "registration handler not on the target queue", 0, 0);
	if (atomic_load(&x->hstarts)) oracle_fail(x, "registration handler invoked after an event handler invocation", atomic_load(&x->hstarts), 0);
	if (atomic_load(&x->chstarts)) oracle_fail(x, "registration handler invoked after the cancel handler", 0, 0);
	if (dispatch_source_testcancel(x->ds)) oracle_fail(x, "registration handler invoked on a cancelled source", 0, 0);
	/* make sure an event is pending: merge it ourselves (data), or let the manager deliver the one that is already
	 * due (descriptor readable / writable, signal raised) - bounded, and fine if it does not arrive (timers) */
	if (is_datakind(x->kind) && x->mode != M_REG_CANCEL) {
		dispatch_source_merge_data(x->ds, 1);
		if (vrt_rand() & 1) dispatch_source_merge_data(x->ds, 2);
	}
	for (int i = 0; i < 200 && !x->dr->ds_pending_data; i++) usleep(50);
	if (x->dr->ds_pending_data) atomic_store(&x->pending_at_reg, 1);
	if (x->mode == M_REG_CANCEL || x->mode == M_REG_MERGE_CANCEL) {
		do_cancel(x, CTX_REGH);
		if (vrt_rand() % 3 == 0) do_cancel(x, CTX_REGH);
	}
	if (vrt_rand() & 1) { volatile int z = 0; int k = (int)(vrt_rand() % 2000); for (int i = 0; i < k; i++) z++; }
	atomic_store(&x->regrunning, 0);
	vrt_api("REnd", x->obj, x->id, on, n);
}

static void finalizer_fn(void *ctx) { exec_t *x = ctx; dispatch_semaphore_signal(x->fin_sem); }
static void citem_fn(void *ctx) { exec_t *x = ctx; do_cancel(x, CTX_TQITEM); }
static void sitem_fn(void *ctx)
{
	exec_t *x = ctx;
	if (x->variant & 1) { do_cancel(x, CTX_TQITEM); do_set_ch(x, CTX_TQITEM, 0); }
	else { do_set_ch(x, CTX_TQITEM, 0); do_cancel(x, CTX_TQITEM); }
	atomic_store(&x->script_done, 1);
}
static void nop_fn(void *ctx) { (void)ctx; }

/* ---------------- helper threads ---------------- */
static void *producer(void *arg)
{
	(void)arg; (void)vrt_tid();
	sigset_t m; sigemptyset(&m); sigaddset(&m, SIGUSR1); pthread_sigmask(SIG_BLOCK, &m, NULL);
	for (;;) {
		while (!atomic_load(&g_prod_go) && !atomic_load(&g_threads_exit)) usleep(50);
		if (atomic_load(&g_threads_exit)) return NULL;
		exec_t *x = g_cur;
		int hup_after = -1;
		if (x->mode == M_HANGUP_RACE || x->mode == M_CAW_HANGUP) hup_after = 1 + (int)(vrt_rand() % 6);
		int k = 0;
		while (!atomic_load(&x->stop_producer)) {
			switch (x->kind) {
			case K_DATA_ADD: dispatch_source_merge_data(x->ds, 1); break;
			case K_DATA_OR: dispatch_source_merge_data(x->ds, 1u << (k % 8)); break;
			case K_READ_PIPE: case K_READ_SOCK:
				if (!atomic_load(&x->peer_closed)) {
					(void)!write(x->peerfd, "x", 1);
					if (hup_after >= 0 && k >= hup_after) { vrt_api("PeerClose", x->obj, x->id, 0, 0); close(x->peerfd); atomic_store(&x->peer_closed, 1); }
				}
				break;
			case K_WRITE_PIPE: case K_WRITE_SOCK:
				if (!atomic_load(&x->peer_closed)) {
					char b[64]; (void)!read(x->peerfd, b, sizeof(b));
					if (hup_after >= 0 && k >= hup_after) { vrt_api("PeerClose", x->obj, x->id, 0, 0); close(x->peerfd); atomic_store(&x->peer_closed, 1); }
				}
				break;
			case K_SIGNAL: kill(getpid(), SIGUSR1); break;
			default: break;
			}
			k++;
			usleep(30 + (unsigned)(vrt_rand() % 300));
		}
		atomic_store(&g_prod_go, 0);
	}
}

static void wait_handler_runs(exec_t *x, int want, int max_us)
{
	int waited = 0;
	while (atomic_load(&x->hstarts) < want && waited < max_us) { usleep(50); waited += 50; }
}

static void do_caw(exec_t *x)
{
	vrt_api("CawCall", x->obj, x->id, 0, 0);
	dispatch_source_cancel_and_wait(x->ds);
	int running = atomic_load(&x->hrunning);
	uint64_t r = vrt_api("CawRet", x->obj, x->id, running, 0);
	atomic_store(&x->caw_ret, r);
	if (running) atomic_store(&x->running_at_caw_ret, 1);
	if (!dispatch_source_testcancel(x->ds)) oracle_fail(x, "dispatch_source_testcancel == 0 after cancel_and_wait returned", 0, 0);
	check_final_state(x, "when dispatch_source_cancel_and_wait returned");
	/* "it is safe to reclaim any system resource": recycle the descriptor right away */
	if (is_fdkind(x->kind) && x->keepfd >= 0 && x->mode != M_CAW_HANGUP) recycle_descriptor(x);
}

static void *canceller(void *arg)
{
	(void)arg; (void)vrt_tid();
	sigset_t m; sigemptyset(&m); sigaddset(&m, SIGUSR1); pthread_sigmask(SIG_BLOCK, &m, NULL);
	for (;;) {
		while (!atomic_load(&g_canc_go) && !atomic_load(&g_threads_exit)) usleep(50);
		if (atomic_load(&g_threads_exit)) return NULL;
		exec_t *x = g_cur;
		switch (x->mode) {
		case M_FOREIGN: case M_FOREIGN_TWICE: case M_HANDLER_AND_FOREIGN: case M_HANGUP_RACE: case M_REG_MERGE:
			wait_handler_runs(x, (int)(vrt_rand() % 4), 3000);
			usleep((unsigned)(vrt_rand() % 400));
			do_cancel(x, CTX_FOREIGN);
			if (x->mode == M_FOREIGN_TWICE) { if (vrt_rand() & 1) usleep((unsigned)(vrt_rand() % 200)); do_cancel(x, CTX_FOREIGN); }
			break;
		case M_CAW: case M_CAW_HANGUP:
			wait_handler_runs(x, (int)(vrt_rand() % 4), 3000);
			usleep((unsigned)(vrt_rand() % 400));
			do_caw(x);
			break;
		case M_SCH_FOREIGN: case M_SCH_TWICE:
			/* cancel; then install: at once (racing the unregistration / the first callout), a little later, or after
			 * the source has long reached its final state (the late handler still gets its callout) */
			wait_handler_runs(x, (int)(vrt_rand() % 4), 3000);
			usleep((unsigned)(vrt_rand() % 400));
			do_cancel(x, CTX_FOREIGN);
			for (int k = 0; k < (x->mode == M_SCH_TWICE ? 2 : 1); k++) {
				int v = (x->variant >> (2 * k)) % 3;
				if (v == 1) usleep((unsigned)(vrt_rand() % 300));
				if (v == 2) { for (int i = 0; i < 4000 && !source_at_rest(x); i++) usleep(50); usleep(200); }
				do_set_ch(x, CTX_FOREIGN, 0);
			}
			atomic_store(&x->script_done, 1);
			break;
		case M_SCH_REPLACE:
			/* replace the handler set before activation, THEN cancel (here, or from the event handler) */
			wait_handler_runs(x, (int)(vrt_rand() % 3), 3000);
			usleep((unsigned)(vrt_rand() % 300));
			do_set_ch(x, CTX_FOREIGN, 0);
			if (x->variant & 1) { do_cancel(x, CTX_FOREIGN); atomic_store(&x->script_done, 1); }
			else { atomic_store(&x->handler_cancel_at, atomic_load(&x->hstarts) + 1); atomic_store(&x->handler_cancel_armed, 1); }
			break;
		case M_SCH_CLEAR:
			/* clear with NULL, then cancel; sometimes install a handler again afterwards */
			wait_handler_runs(x, (int)(vrt_rand() % 3), 3000);
			usleep((unsigned)(vrt_rand() % 300));
			do_set_ch(x, CTX_FOREIGN, 1);
			if (x->variant & 2) usleep((unsigned)(vrt_rand() % 200));
			do_cancel(x, CTX_FOREIGN);
			if (x->variant & 1) {
				if (x->variant & 4) { for (int i = 0; i < 4000 && !source_at_rest(x); i++) usleep(50); }
				do_set_ch(x, CTX_FOREIGN, 0);
			}
			atomic_store(&x->script_done, 1);
			break;
		default: break;
		}
		atomic_store(&g_canc_go, 0);
	}
}

/* ------------------------------- projection ------------------------------- */
static void pflags(FILE *f, const char *k, uint64_t v)
{
	fprintf(f, "\"%s\":[", k);
	const char *sep = "";
	if (v & DSF_CANCELED) { fprintf(f, "%s\"CANCELED\"", sep); sep = ","; }
	if (v & DSF_NEEDS_EVENT) { fprintf(f, "%s\"NEEDS_EVENT\"", sep); sep = ","; }
	if (v & DSF_DELETED) { fprintf(f, "%s\"DELETED\"", sep); sep = ","; }
	if (v & DSF_CANCEL_WAITER) { fprintf(f, "%s\"CANCEL_WAITER\"", sep); sep = ","; }
	fprintf(f, "]");
}
#define DSF_MODEL_MASK (DSF_CANCELED | DSF_NEEDS_EVENT | DSF_DELETED | DSF_CANCEL_WAITER)
static void pdu(FILE *f, const char *k, uint64_t v)
{
	fprintf(f, "\"%s\":{\"reg\":%s,\"armed\":%s,\"ndel\":%s}", k, v != 0 ? "true" : "false",
			(v & DU_STATE_ARMED) ? "true" : "false", (v & DU_STATE_NEEDS_DELETE) ? "true" : "false");
}
static void pst(FILE *f, const char *k, uint64_t s)
{
	uint64_t ow = s & DISPATCH_QUEUE_DRAIN_OWNER_MASK;
	int owner = -1;
	if (ow) {
		int n = vrt_nthreads();
		for (int i = 0; i < n; i++) if (((uint64_t)_dispatch_lock_value_from_tid((dispatch_tid)vrt_ktid(i)) & DISPATCH_QUEUE_DRAIN_OWNER_MASK) == ow) { owner = i; break; }
		if (owner < 0) owner = 9999;
	}
	fprintf(f, "\"%s\":{\"owner\":%d,\"dirty\":%s,\"enq\":\"%s\",\"susp\":%s}", k, owner, _dq_state_is_dirty(s) ? "true" : "false",
			(s & DISPATCH_QUEUE_ENQUEUED_ON_MGR) ? "mgr" : _dq_state_is_enqueued_on_target(s) ? "tq" : "none",
			_dq_state_is_suspended(s) ? "true" : "false");
}

static int p_obj = -1, p_robj = -1;
/* continuation addresses seen in the cancel-handler slot of the current execution -> small ids (0 = NULL) */
static uint64_t p_ptr[64]; static int p_nptr;
static int pid_of(uint64_t v)
{
	if (!v) return 0;
	for (int i = 0; i < p_nptr; i++) if (p_ptr[i] == v) return i + 1;
	if (p_nptr < 64) p_ptr[p_nptr++] = v;
	return p_nptr;
}
#define CANCEL_SLOT_OFF ((long)(offsetof(struct dispatch_source_refs_s, ds_handler) + DS_CANCEL_HANDLER * sizeof(void *)))
static void proj(FILE *f, const vrt_rec_t *r)
{
	switch (r->kind) {
	case VRT_MARK:
		if (!strcmp(r->name, "Reset")) { p_obj = (int)(r->a >> 16); p_robj = (int)(r->b >> 8); p_nptr = 0; }
		if (!strcmp(r->name, "Reset"))
			fprintf(f, "{\"e\":\"Reset\",\"kind\":\"%s\",\"kl\":\"%s\",\"mode\":\"%s\",\"serial\":%s,\"ch\":%s,\"x\":%ld}\n", KNAME[r->a & 15], KLONG[r->a & 15],
					MNAME[(r->a >> 4) & 63], (r->b & 1) ? "true" : "false", (r->b & 2) ? "true" : "false", r->c);
		else fprintf(f, "{\"e\":\"%s\"}\n", r->name);
		break;
	case VRT_API:
		if (!strcmp(r->name, "CancelCall") || !strcmp(r->name, "CancelRet"))
			fprintf(f, "{\"e\":\"%s\",\"t\":%d,\"ctx\":\"%s\",\"own\":%s,\"n\":%llu}\n", r->name, r->tid, CTXNAME[r->b], r->c ? "true" : "false", (unsigned long long)r->seq);
		else if (!strcmp(r->name, "ChStart") || !strcmp(r->name, "ChEnd"))
			fprintf(f, "{\"e\":\"%s\",\"t\":%d,\"g\":%ld,\"on\":%s,\"k\":%ld,\"n\":%llu}\n", r->name, r->tid, r->a, r->b ? "true" : "false", r->c, (unsigned long long)r->seq);
		else if (!strcmp(r->name, "SchCall") || !strcmp(r->name, "SchRet"))
			fprintf(f, "{\"e\":\"%s\",\"t\":%d,\"g\":%ld,\"nul\":%s,\"ctx\":\"%s\",\"n\":%llu}\n", r->name, r->tid, r->b & 255, (r->b >> 8) ? "true" : "false",
					CTXNAME[r->c], (unsigned long long)r->seq);
		else if (!strcmp(r->name, "HStart") || !strcmp(r->name, "HEnd") || !strcmp(r->name, "RStart") || !strcmp(r->name, "REnd"))
			fprintf(f, "{\"e\":\"%s\",\"t\":%d,\"on\":%s,\"k\":%ld,\"n\":%llu}\n", r->name, r->tid, r->b ? "true" : "false", r->c, (unsigned long long)r->seq);
		else
			fprintf(f, "{\"e\":\"%s\",\"t\":%d,\"a\":%ld,\"b\":%ld,\"n\":%llu}\n", r->name, r->tid, r->b, r->c, (unsigned long long)r->seq);
		break;
	case VRT_ATOMIC: {
		const char *op = r->site->dvs_op;
		if (r->obj != p_obj && r->obj != p_robj) break;     /* not one of this execution's two objects */
		if (r->cls == 1) {
			if ((r->oldv & DSF_MODEL_MASK) == (r->newv & DSF_MODEL_MASK) && strcmp(op, "load") && strcmp(op, "giveup") &&
					!(r->oldv == r->newv)) break;   /* a change of other flag bits only (DQF_MUTABLE, DQF_BARRIER_BIT...) */
			fprintf(f, "{\"e\":\"F\",\"t\":%d,\"f\":\"%s\",\"op\":\"%s\",\"ok\":%d,", r->tid, r->site->dvs_func, op, r->ok);
			pflags(f, "old", r->oldv); fputc(',', f); pflags(f, "new", r->newv);
			fprintf(f, ",\"line\":%d}\n", r->site->dvs_line);
		} else if (r->cls == 2) {
			if (r->size != 8) break;
			fprintf(f, "{\"e\":\"ST\",\"t\":%d,\"f\":\"%s\",\"op\":\"%s\",\"ok\":%d,", r->tid, r->site->dvs_func, op, r->ok);
			pst(f, "old", r->oldv); fputc(',', f); pst(f, "new", r->newv);
			fprintf(f, ",\"line\":%d}\n", r->site->dvs_line);
		} else if (r->cls == 3) {
			fprintf(f, "{\"e\":\"DU\",\"t\":%d,\"f\":\"%s\",\"op\":\"%s\",", r->tid, r->site->dvs_func, op);
			pdu(f, "old", r->oldv); fputc(',', f); pdu(f, "new", r->newv);
			fprintf(f, ",\"line\":%d}\n", r->site->dvs_line);
		} else if (r->cls == 5) {
			/* the cancel-handler slot ds_handler[DS_CANCEL_HANDLER] (loads, the exchanges of _dispatch_source_handler_take /
			 * _dispatch_source_handler_replace) */
			if (r->obj != p_robj || r->off != CANCEL_SLOT_OFF) break;
			fprintf(f, "{\"e\":\"HN\",\"t\":%d,\"f\":\"%s\",\"op\":\"%s\",\"old\":%d,\"new\":%d,\"line\":%d}\n", r->tid, r->site->dvs_func, op,
					pid_of(r->oldv), pid_of(r->newv), r->site->dvs_line);
		} else if (r->cls == 4) {
			fprintf(f, "{\"e\":\"PD\",\"t\":%d,\"f\":\"%s\",\"op\":\"%s\",\"oldnz\":%s,\"newnz\":%s,\"line\":%d}\n", r->tid, r->site->dvs_func, op,
					r->oldv ? "true" : "false", r->newv ? "true" : "false", r->site->dvs_line);
		}
		break;
	}
	case VRT_PROBE:
		/* optional H5 probes (patches/C16-hook-epoll-probes.diff): kernel registration life cycle */
		if (!strncmp(r->name, "c16_", 4) && r->obj >= 0 && r->obj == p_robj)
			fprintf(f, "{\"e\":\"P\",\"t\":%d,\"p\":\"%s\",\"a\":%ld,\"b\":%ld}\n", r->tid, r->name + 4, r->a, r->b);
		break;
	}
}

/* ------------------------------- one execution ------------------------------- */
static int pick(int mask, int n)
{
	int c = 0, idx[32];
	for (int i = 0; i < n; i++) if (mask & (1 << i)) idx[c++] = i;
	if (!c) return 0;
	return idx[vrt_rand() % (unsigned)c];
}
static int mode_ok(int kind, int mode)
{
	if ((mode == M_HANGUP_RACE || mode == M_CAW_HANGUP) && !is_fdkind(kind)) return 0;
	return 1;
}

static void run_one(int id)
{
	exec_t *x = calloc(1, sizeof(*x));
	vrt_pause(1);
	x->id = id;
	for (int tries = 0; tries < 50; tries++) {
		x->kind = pick(g_kindmask, K_N); x->mode = pick(g_modemask, M_N);
		if (mode_ok(x->kind, x->mode)) break;
	}
	if (!mode_ok(x->kind, x->mode)) x->mode = M_FOREIGN;
	x->serial = (vrt_rand() % 3) != 0;
	x->has_ch = !(x->mode == M_CAW || x->mode == M_CAW_PRE || x->mode == M_CAW_HANGUP);
	x->variant = (int)(vrt_rand() & 0xffff);
	/* late installs: with or without a handler set before activation (the replace / clear scenarios need one) */
	if (is_set_mode(x->mode) && x->mode != M_SCH_REPLACE && x->mode != M_SCH_CLEAR && (vrt_rand() & 1)) x->has_ch = 0;
	atomic_store(&x->ngen, 1);
	atomic_store(&x->final_gen, x->has_ch ? 1 : 0);
	x->fd = x->keepfd = x->peerfd = x->rd2 = x->wr2 = -1;
	x->ch_sem = dispatch_semaphore_create(0); x->h_sem = dispatch_semaphore_create(0); x->new_sem = dispatch_semaphore_create(0);
	x->fin_sem = dispatch_semaphore_create(0);
	if (x->serial) {
		x->tq = dispatch_queue_create("verif.cancel.target", DISPATCH_QUEUE_SERIAL);
		dispatch_queue_set_specific(x->tq, &g_key, x->tq, NULL);
	} else {
		x->tq = dispatch_get_global_queue(DISPATCH_QUEUE_PRIORITY_DEFAULT, 0);
	}
	int sv[2] = { -1, -1 };
	switch (x->kind) {
	case K_DATA_ADD: x->ds = dispatch_source_create(DISPATCH_SOURCE_TYPE_DATA_ADD, 0, 0, x->tq); break;
	case K_DATA_OR: x->ds = dispatch_source_create(DISPATCH_SOURCE_TYPE_DATA_OR, 0, 0, x->tq); break;
	case K_TIMER: x->ds = dispatch_source_create(DISPATCH_SOURCE_TYPE_TIMER, 0, 0, x->tq); break;
	case K_READ_PIPE: if (pipe2(sv, O_NONBLOCK | O_CLOEXEC)) abort(); x->fd = sv[0]; x->peerfd = sv[1]; break;
	case K_WRITE_PIPE: if (pipe2(sv, O_NONBLOCK | O_CLOEXEC)) abort(); x->fd = sv[1]; x->peerfd = sv[0]; break;
	case K_READ_SOCK: case K_WRITE_SOCK:
		if (socketpair(AF_UNIX, SOCK_STREAM | SOCK_NONBLOCK | SOCK_CLOEXEC, 0, sv)) abort(); x->fd = sv[0]; x->peerfd = sv[1]; break;
	case K_SIGNAL: x->ds = dispatch_source_create(DISPATCH_SOURCE_TYPE_SIGNAL, SIGUSR1, 0, x->tq); break;
	}
	if (is_fdkind(x->kind)) {
		x->keepfd = dup(x->fd);
		x->ds = dispatch_source_create(is_writekind(x->kind) ? DISPATCH_SOURCE_TYPE_WRITE : DISPATCH_SOURCE_TYPE_READ, (uintptr_t)x->fd, 0, x->tq);
	}
	if (!x->ds) { fprintf(stderr, "cannot create source kind %d\n", x->kind); exit(3); }
	x->dr = x->ds->ds_refs;
	dispatch_set_context(x->ds, x);
	/* both forms of every handler setter (function + context, block) reach the same source machine */
	int blockform = (int)(vrt_rand() & 1);
	if (blockform) dispatch_source_set_event_handler(x->ds, ^{ ev_handler(x); });
	else dispatch_source_set_event_handler_f(x->ds, ev_handler);
	dispatch_set_finalizer_f(x->ds, finalizer_fn);
	if (x->has_ch) {
		if (blockform) dispatch_source_set_cancel_handler(x->ds, ^{ cancel_handler(x); });
		else dispatch_source_set_cancel_handler_f(x->ds, cancel_handler);
	}
	if (is_reg_mode(x->mode)) {
		if (blockform) dispatch_source_set_registration_handler(x->ds, ^{ reg_handler(x); });
		else dispatch_source_set_registration_handler_f(x->ds, reg_handler);
		/* an event is already due when the source gets registered */
		if (x->kind == K_READ_PIPE || x->kind == K_READ_SOCK) (void)!write(x->peerfd, "p", 1);
		if (x->kind == K_SIGNAL) kill(getpid(), SIGUSR1);
	}
	if (x->kind == K_TIMER) {
		uint64_t iv = 100000ull + vrt_rand() % 1500000ull;   /* 0.1 .. 1.6 ms */
		dispatch_source_set_timer(x->ds, dispatch_time(DISPATCH_TIME_NOW, (int64_t)(vrt_rand() % 500000)), iv, 0);
	}
	if (x->mode == M_HANDLER || x->mode == M_HANDLER_AND_FOREIGN || x->mode == M_SCH_HANDLER ||
			(x->mode == M_SCH_TWICE && (x->variant & 64))) x->handler_cancel_at = 1 + (int)(vrt_rand() % 3);
	/* registrations are never dropped: object ids are unique per execution, the projector keeps only the
	 * records of the current execution's two objects (a library thread may still be finishing with the
	 * previous source, or another object may be allocated where an old one was) */
	x->obj = vrt_register(x->ds, malloc_usable_size(x->ds), 1);
	x->robj = vrt_register(x->dr, dux_type(x->dr)->dst_size, 2);
	g_cur = x;
	vrt_pause(0);
	vrt_mark("Reset", x->kind | (x->mode << 4) | ((long)x->obj << 16), (x->serial ? 1 : 0) | (x->has_ch ? 2 : 0) | ((long)x->robj << 8), id);

	if (is_reg_mode(x->mode) && is_datakind(x->kind) && x->mode == M_REG_CANCEL)
		dispatch_source_merge_data(x->ds, 1);          /* the event is pending before the source is even activated */
	/* ---- before activation ---- */
	if (x->mode == M_PRE || x->mode == M_PRE_TWICE) {
		do_cancel(x, CTX_MAIN_PRE);
		if (x->mode == M_PRE_TWICE) do_cancel(x, CTX_MAIN_PRE);
	}
	if (x->mode == M_CAW_PRE) {
		do_caw(x);    /* activates the source as a side effect */
	} else {
		vrt_api("ActCall", x->obj, x->id, 0, 0);
		if (vrt_rand() & 1) dispatch_activate(x->ds); else dispatch_resume(x->ds);
		vrt_api("ActRet", x->obj, x->id, 0, 0);
	}
	atomic_store(&x->activated, 1);
	atomic_store(&g_prod_go, 1);

	/* ---- after activation ---- */
	switch (x->mode) {
	case M_TQITEM:
		wait_handler_runs(x, (int)(vrt_rand() % 4), 3000);
		usleep((unsigned)(vrt_rand() % 300));
		dispatch_async_f(x->tq, x, citem_fn);
		break;
	case M_FOREIGN: case M_FOREIGN_TWICE: case M_HANDLER_AND_FOREIGN: case M_CAW: case M_HANGUP_RACE: case M_CAW_HANGUP:
	case M_REG_MERGE: case M_SCH_FOREIGN: case M_SCH_REPLACE: case M_SCH_CLEAR:
		atomic_store(&g_canc_go, 1);
		break;
	case M_SCH_TWICE:
		if (!(x->variant & 64)) atomic_store(&g_canc_go, 1);
		break;
	case M_SCH_TQITEM:
		wait_handler_runs(x, (int)(vrt_rand() % 4), 3000);
		usleep((unsigned)(vrt_rand() % 300));
		dispatch_async_f(x->tq, x, sitem_fn);
		break;
	case M_SUSPENDED:
		wait_handler_runs(x, (int)(vrt_rand() % 3), 3000);
		vrt_api("SuspCall", x->obj, x->id, 0, 0);
		dispatch_suspend(x->ds);
		vrt_api("SuspRet", x->obj, x->id, 0, 0);
		usleep((unsigned)(vrt_rand() % 300));
		do_cancel(x, CTX_MAIN);
		usleep((unsigned)(vrt_rand() % 500));
		vrt_api("ResCall", x->obj, x->id, 0, 0);
		dispatch_resume(x->ds);
		vrt_api("ResRet", x->obj, x->id, 0, 0);
		break;
	default: break;
	}
	/* ---- wait for the end of the life cycle: a hang here is a violation (watchdog, exit 71) ---- */
	if (is_set_mode(x->mode)) {
		/* every client call has returned; then: the handler of the last call has run, or nothing of the source is in
		 * flight any more (at rest for 5 ms: it never will) */
		while (!atomic_load(&x->script_done)) usleep(50);
		while (atomic_load(&g_canc_go)) usleep(50);
		int rest = 0, spins = 0;
		for (;;) {
			int fg = atomic_load(&x->final_gen);
			int ran = !fg || atomic_load(&x->gends[fg]) > 0;
			if (source_at_rest(x)) rest++; else rest = 0;
			if (rest >= 20) break;
			if (ran && ++spins > 8000) { atomic_fetch_add(&g_stat_idle_timeout, 1); break; }    /* 2 s: go on, the trace decides */
			usleep(250);
		}
	} else if (x->has_ch) {
		dispatch_semaphore_wait(x->ch_sem, DISPATCH_TIME_FOREVER);
	} else {
		while (atomic_load(&g_canc_go)) usleep(50);    /* cancel_and_wait returns by itself */
	}
	while (atomic_load(&g_canc_go)) usleep(50);
	atomic_store(&x->stop_producer, 1);
	while (atomic_load(&g_prod_go)) usleep(50);
	/* the recycled descriptor: the NEW source must see its event, the OLD one nothing any more */
	if (x->recycled) {
		dispatch_semaphore_wait(x->new_sem, DISPATCH_TIME_FOREVER);
		usleep(300);
		dispatch_source_cancel(x->ds2);
		dispatch_semaphore_wait(x->new_sem, DISPATCH_TIME_FOREVER);
		dispatch_release(x->ds2);
	}
	/* The one invocation that was already committed when a foreign cancel (or cancel_and_wait on a source whose
	 * registration was already deleted by a hang-up) returned may still start: it runs under the source's drain lock,
	 * taken before the cancel.  Wait until the source is at rest (nobody holds or is about to take that lock) before
	 * calling the execution finished; anything starting after that is illegal.  (False alarm xvi: on a global target
	 * without a cancel handler the fixed 0.5 ms below was shorter than a perturbed worker's way to the callout.) */
	for (int rest = 0, spins = 0; rest < 4 && spins < 20000; spins++) {
		if (source_at_rest(x)) rest++; else rest = 0;
		usleep(250);
	}
	/* let a late (illegal) invocation show itself */
	usleep(200 + (unsigned)(vrt_rand() % 300));
	if (x->serial) { dispatch_sync_f(x->tq, NULL, nop_fn); dispatch_sync_f(x->tq, NULL, nop_fn); }
	else usleep(300);
	vrt_api("Quiesce", x->obj, x->id, 0, 0);

	/* ---- verdicts on the recorded order ---- */
	int hs = atomic_load(&x->hstarts), cs = atomic_load(&x->chstarts);
	if (x->has_ch && cs != 1 && !is_set_mode(x->mode)) oracle_fail(x, "cancel handler count != 1", cs, 0);
	if (is_set_mode(x->mode)) {
		int fg = atomic_load(&x->final_gen);
		if (fg && atomic_load(&x->gstarts[fg]) != 1)
			oracle_fail(x, "the cancel handler installed by the last dispatch_source_set_cancel_handler call (or never replaced) was not "
					"invoked exactly once on the cancelled source", atomic_load(&x->gstarts[fg]), fg);
		for (int g = 1; g <= MAXG; g++) {
			int k = atomic_load(&x->gstarts[g]);
			if (k > 1) oracle_fail(x, "a cancel handler generation was invoked more than once", k, g);
			if (k && g > atomic_load(&x->ngen)) oracle_fail(x, "a cancel handler that was never installed was invoked", k, g);
			if (k != atomic_load(&x->gends[g])) oracle_fail(x, "a cancel handler is still running at quiescence", k, g);
			if (k && g != fg) atomic_fetch_add(&g_stat_old_gen_ran, 1);
		}
	}
	if (atomic_load(&x->hrunning)) oracle_fail(x, "event handler still running at quiescence", 0, 0);
	uint64_t chs = atomic_load(&x->chstart_seq);
	for (int i = 0; i < hs && i < MAXH; i++) {
		uint64_t s = atomic_load(&x->hstart_seq[i]);
		if (chs && s > chs) oracle_fail(x, "event handler started after the cancel handler started", i, 0);
	}
	check_final_state(x, "at quiescence");
	if (atomic_load(&x->late_after_foreign) == 1) atomic_fetch_add(&g_stat_late1, 1);
	if (atomic_load(&x->late_after_caw) >= 1) atomic_fetch_add(&g_stat_late_caw, 1);
	if (atomic_load(&x->running_at_caw_ret)) atomic_fetch_add(&g_stat_running_at_caw, 1);
	if (is_reg_mode(x->mode)) {
		if (x->mode != M_REG_MERGE && atomic_load(&x->regstarts) != 1)     /* (a foreign cancel may legitimately pre-empt the callout) */
			oracle_fail(x, "registration handler count != 1 on a source activated uncancelled", atomic_load(&x->regstarts), 0);
		if (atomic_load(&x->pending_at_reg) && x->mode != M_REG_MERGE) atomic_fetch_add(&g_stat_reg_cancel_pending, 1);
	}

	vrt_pause(1);
	atomic_store(&x->closed, 1);
	dispatch_release(x->ds);
	/* the finalizer runs when the last internal reference is gone: nobody touches the object after that */
	(void)dispatch_semaphore_wait(x->fin_sem, dispatch_time(DISPATCH_TIME_NOW, 5 * (int64_t)NSEC_PER_SEC));   /* (a leaked reference is C17's business) */
	if (x->serial) dispatch_release(x->tq);
	if (x->fd >= 0) close(x->fd);
	if (x->keepfd >= 0) close(x->keepfd);
	if (x->peerfd >= 0 && !atomic_load(&x->peer_closed)) close(x->peerfd);
	if (x->wr2 >= 0) close(x->wr2);
	usleep(100);
	vrt_pause(0);
	vrt_progress();
}

int main(int argc, char **argv)
{
	const char *out = argc > 1 ? argv[1] : "/dev/null";
	g_seed = argc > 2 ? strtoull(argv[2], NULL, 0) : 1;
	int perturb = argc > 3 ? atoi(argv[3]) : 2;
	if (argc > 4) g_nexec = atoi(argv[4]);
	if (argc > 5) g_kindmask = (int)strtol(argv[5], NULL, 0);
	if (argc > 6) g_modemask = (int)strtol(argv[6], NULL, 0);
	if (argc > 7) g_steer = atoi(argv[7]);
	sigset_t m; sigemptyset(&m); sigaddset(&m, SIGUSR1); pthread_sigmask(SIG_BLOCK, &m, NULL);
	signal(SIGPIPE, SIG_IGN);
	vrt_init(out, g_seed, perturb);
	vrt_set_projector(proj);
	vrt_set_probe_filter(1);
	vrt_add_class("dq_atomic_flags", 1);
	vrt_add_class("dq_state", 2);
	vrt_add_class("du_state", 3);
	vrt_add_class("ds_pending_data", 4);
	vrt_add_class("ds_handler", 5);
	vrt_set_hang_seconds(45);   /* progress-based: no record / handler / execution for 45 s */
	if (g_steer) vrt_set_steer(steer);
	(void)vrt_tid();
	pthread_create(&g_prod_th, NULL, producer, NULL);
	pthread_create(&g_canc_th, NULL, canceller, NULL);
	for (int e = 0; e < g_nexec; e++) run_one(e);
	atomic_store(&g_threads_exit, 1);
	pthread_join(g_prod_th, NULL); pthread_join(g_canc_th, NULL);
	vrt_dump();
	fprintf(stderr, "records=%zu overflow=%d threads=%d late_after_foreign_cancel=%ld late_after_caw=%ld handler_running_at_caw_ret=%ld "
			"steered_hangup=%ld steered_late=%ld reg_cancel_with_event_pending=%ld set_ch_calls=%ld replaced_handler_ran_before_replacement=%ld "
			"set_ch_after_final_state=%ld rest_wait_timeouts=%ld\n",
			vrt_count(), vrt_overflowed(), vrt_nthreads(), atomic_load(&g_stat_late1), atomic_load(&g_stat_late_caw),
			atomic_load(&g_stat_running_at_caw), atomic_load(&g_stat_steer_hup), atomic_load(&g_stat_steer_late),
			atomic_load(&g_stat_reg_cancel_pending), atomic_load(&g_stat_sets), atomic_load(&g_stat_old_gen_ran),
			atomic_load(&g_stat_set_after_final), atomic_load(&g_stat_idle_timeout));
	return atomic_load(&g_fail) ? 2 : 0;
}
