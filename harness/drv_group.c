/* Driver for C07: seeded random multi-threaded histories of enter / leave / group_async[_f] /
 * notify[_f] / wait (NOW, short timed, FOREVER) over repeated generations of SEVERAL dispatch_groups
 * alive at once (2 or 3 per execution), under schedule perturbation, plus a STEERED scenario
 * reproducing finding F2 (DESIGN.md section 9, Appendix C).
 * The blocks of dispatch_group_async items do work themselves (decided by the seed): dispatch_group_async[_f]
 * to ANOTHER group and to their own group (nesting depth <= 2), dispatch_group_notify[_f] on either group,
 * plain dispatch_async[_f], dispatch_group_enter/leave pairs on either group -- the library must leave
 * the group the item ENTERED when the block returns, whatever the block did in between.
 * Emits an ndjson trace for GroupTrace.tla (every os_atomic access to dg_state / dg_bits / dg_gen /
 * dg_notify_head / dg_notify_tail of every group, tagged with the group; the do_next links of the
 * notify continuations, the futex calls on dg_gen, and the API events -- among them ItemStart / ItemEnd
 * around the client callout of every item -- in the same total order) and evaluates the API-level
 * oracles of the property itself, all sound for every schedule:
 *  - per group: wait()==0 only if the count was zero at some moment of the call (explicit enters: shadow
 *    count; items and enters: a token entered before the call whose leave cannot have started yet when the
 *    call returned); untimed wait never returns non-zero; timed wait not before its timeout;
 *  - a notification block that runs while work entered before its notify call has not started to leave is
 *    reported (early_blocks) -- classified by the trace validation (known finding F2 or a violation);
 *  - at quiescence every group is back to count zero / no flags, every item, plain block and notification
 *    block ran exactly once; no crash, no hang.
 *
 * usage: drv_group OUT SEED PERTURB EXECS OPS STEERED
 * exit: 0 ok, 2 API oracle failed, 70 crash, 71 hang (waiter / notification left behind) */
#define _GNU_SOURCE
#include "internal.h"
#include <pthread.h>
#include <stdatomic.h>
#include <stdlib.h>
#include <string.h>
#include <unistd.h>
#include <malloc.h>
#include <time.h>
#include "verif_rt.h"

#define NT 3
#define NG 3             /* groups alive in every execution (an execution works on the first 2 or on all 3) */
#define MAXH 12          /* notifications per execution */
#define MAXTOK 60        /* enter tokens per execution (bit mask) */
#define MAXPLAIN 64      /* plain dispatch_async items per execution */
#define MAXTID 512

static int g_execs = 20, g_ops = 12, g_steered = 1;
static uint64_t g_seed;
static dispatch_group_t g_grp[NG];
static int g_objs[NG];                /* == 0..NG-1: the groups are registered first in every execution */
static int g_ng = 2;                  /* groups the current execution works on */
static dispatch_queue_t g_nq, g_wq[2];
static pthread_barrier_t g_bar;
static _Atomic int g_fail;
static _Atomic int g_exec_kind;       /* 0 random, 1 steered F2 scenario */

/* ---- harness-side shadows (conservative: can only under-approximate the count), per group ---- */
static _Atomic uint64_t g_shadow[NG];   /* high 32: number of times `sure` hit zero; low 32: sure (explicit enters) */
/* tokens (explicit enters AND dispatch_group_async items, top-level and nested):
 * entered: the enter has surely happened (set after the entering call returned)
 * done:    the leave may have started (set before dispatch_group_leave is called / at the end of the item's block,
 *          i.e. before the library's leave for that item) */
static _Atomic uint64_t g_entered[NG], g_done[NG];
static _Atomic int g_next_tok, g_next_h, g_next_plain;
static _Atomic int g_pending;          /* blocks submitted (group items and plain ones) that have not finished */
static _Atomic uint64_t g_snap[MAXH];
static _Atomic int g_hgrp[MAXH];
static _Atomic int g_ran[MAXH], g_registered[MAXH], g_early[MAXH];
static _Atomic int g_early_total, g_f2_steer_hits, g_nested_cross, g_nested_total;

struct item_s { int tok, g, depth, used; unsigned delay; uint64_t rnd; _Atomic int ran; };
static struct item_s g_items[MAXTOK + 1];
struct plain_s { int id, used; _Atomic int ran; };
static struct plain_s g_plain[MAXPLAIN];
static int g_hidx[MAXH];

/* ---- steering of the F2 schedule ---- */
static __thread int t_in_notify;
static __thread int t_role;           /* 3 = the thread that is stalled before the list snapshot */
static __thread int t_stage;
static _Atomic int g_t3_stalled, g_release_t3;

static uint64_t now_ns(void)
{
	struct timespec ts; clock_gettime(CLOCK_MONOTONIC, &ts);
	return (uint64_t)ts.tv_sec * 1000000000ull + (uint64_t)ts.tv_nsec;
}

static uint64_t mix(uint64_t x)
{
	x += 0x9e3779b97f4a7c15ull; x = (x ^ (x >> 30)) * 0xbf58476d1ce4e5b9ull;
	x = (x ^ (x >> 27)) * 0x94d049bb133111ebull; return x ^ (x >> 31);
}

static void oracle_fail(const char *what, long a, long b)
{
	fprintf(stderr, "ORACLE-FAIL C07 %s a=%ld b=%ld\n", what, a, b);
	atomic_store(&g_fail, 1);
}

static void shadow_inc(int g) { atomic_fetch_add(&g_shadow[g], 1); }
static void shadow_dec(int g)
{
	uint64_t o = atomic_load(&g_shadow[g]), n;
	do {
		n = o - 1;
		if ((uint32_t)n == 0) n += 1ull << 32;
	} while (!atomic_compare_exchange_weak(&g_shadow[g], &o, n));
}

static int new_tok(void)
{
	int o = atomic_load(&g_next_tok);
	do { if (o >= MAXTOK) return 0; } while (!atomic_compare_exchange_weak(&g_next_tok, &o, o + 1));
	return o + 1;
}

/* ------------------------------- API wrappers ------------------------------- */
/* API events: a = token / handle / kind, c = group */
static int do_enter(int g)
{
	int tok = new_tok();
	if (!tok) return 0;
	vrt_api("CallEnter", g_objs[g], tok, 0, g);
	dispatch_group_enter(g_grp[g]);
	vrt_api("RetEnter", g_objs[g], tok, 0, g);
	atomic_fetch_or(&g_entered[g], 1ull << tok);
	shadow_inc(g);
	return tok;
}

static void do_leave(int g, int tok)
{
	shadow_dec(g);
	atomic_fetch_or(&g_done[g], 1ull << tok);
	vrt_api("CallLeave", g_objs[g], tok, 0, g);
	dispatch_group_leave(g_grp[g]);
	vrt_api("RetLeave", g_objs[g], tok, 0, g);
}

static void nested_ops(struct item_s *it);

/* the block of a dispatch_group_async item.  ItemStart / ItemEnd bracket the client callout: the library
 * calls dispatch_group_leave (on the group the item entered) right after this function returns */
static void item_body(struct item_s *it)
{
	vrt_api("ItemStart", g_objs[it->g], it->tok, 0, it->g);
	if (atomic_fetch_add(&it->ran, 1) != 0) oracle_fail("dispatch_group_async block ran twice", it->tok, it->g);
	if (it->depth < 2) nested_ops(it);
	if (it->delay) usleep(it->delay);
	atomic_fetch_or(&g_done[it->g], 1ull << it->tok);
	atomic_fetch_sub(&g_pending, 1);
	vrt_api("ItemEnd", g_objs[it->g], it->tok, 0, it->g);
}
static void item_func(void *ctxt) { item_body((struct item_s *)ctxt); }

/* dispatch_group_async[_f](g, q, ...) of an item at nesting depth `depth` (0 = submitted by a client thread) */
static int do_async(int g, int depth, uint64_t rnd)
{
	int tok = new_tok();
	if (!tok) return 0;
	struct item_s *it = &g_items[tok];
	it->tok = tok; it->g = g; it->depth = depth; it->rnd = rnd; it->used = 1;
	it->delay = (unsigned)((rnd >> 20) % 3 == 0 ? 0 : (rnd >> 24) % 400);
	dispatch_queue_t q = g_wq[(rnd >> 3) & 1];
	atomic_fetch_add(&g_pending, 1);
	vrt_api("CallAsync", g_objs[g], tok, depth, g);
	if (rnd & 1) dispatch_group_async_f(g_grp[g], q, it, item_func);
	else if (((rnd >> 5) & 3) == 0) dispatch_group_async(g_grp[g], q, ^{ item_body(it); });
	else {
		/* block objects with private data, every flavour of their creation (the continuation set-up of these is a path of
		 * its own: _dispatch_continuation_init_slow; seed C07-5) */
		static const dispatch_block_flags_t fl[] = { 0, DISPATCH_BLOCK_BARRIER, DISPATCH_BLOCK_DETACHED, DISPATCH_BLOCK_ASSIGN_CURRENT,
				DISPATCH_BLOCK_NO_QOS_CLASS, DISPATCH_BLOCK_INHERIT_QOS_CLASS, DISPATCH_BLOCK_ENFORCE_QOS_CLASS };
		unsigned k = (unsigned)((rnd >> 7) % 9);
		dispatch_block_t b = k < 7 ? dispatch_block_create(fl[k], ^{ item_body(it); }) :
				dispatch_block_create_with_qos_class(k == 7 ? 0 : DISPATCH_BLOCK_ENFORCE_QOS_CLASS, k == 7 ? QOS_CLASS_UTILITY : QOS_CLASS_USER_INITIATED, 0, ^{ item_body(it); });
		dispatch_group_async(g_grp[g], q, b);
		_Block_release(b);
	}
	vrt_api("RetAsync", g_objs[g], tok, depth, g);
	atomic_fetch_or(&g_entered[g], 1ull << tok);
	return tok;
}

static void plain_body(struct plain_s *p)
{
	if (atomic_fetch_add(&p->ran, 1) != 0) oracle_fail("dispatch_async block ran twice", p->id, 0);
	atomic_fetch_sub(&g_pending, 1);
}
static void plain_func(void *ctxt) { plain_body((struct plain_s *)ctxt); }

static void do_plain(uint64_t rnd)
{
	int id = atomic_fetch_add(&g_next_plain, 1);
	if (id >= MAXPLAIN) return;
	struct plain_s *p = &g_plain[id];
	p->id = id; p->used = 1;
	atomic_fetch_add(&g_pending, 1);
	if (rnd & 1) dispatch_async_f(g_wq[(rnd >> 3) & 1], p, plain_func);
	else dispatch_async(g_wq[(rnd >> 3) & 1], ^{ plain_body(p); });
}

static void notify_body(int h)
{
	int g = atomic_load(&g_hgrp[h]);
	uint64_t still = atomic_load(&g_snap[h]) & ~atomic_load(&g_done[g]);
	int early = still != 0;
	/* C07 "not before all work entered before the notify call has left".  Not judged here:
	 * the trace validation classifies it (known finding F2 vs. anything else). */
	if (early) { atomic_store(&g_early[h], 1); atomic_fetch_add(&g_early_total, 1); }
	vrt_api("NotifyRan", g_objs[g], h, early, g);
	if (atomic_fetch_add(&g_ran[h], 1) != 0) oracle_fail("notification block ran twice", h, g);
}
static void notify_func(void *ctxt) { notify_body(*(int *)ctxt); }

static int do_notify(int g, int form_f)
{
	int h = atomic_fetch_add(&g_next_h, 1);
	if (h >= MAXH) return -1;
	/* snapshot of the work surely entered (and surely not yet being left) before the notify call,
	 * taken BEFORE the call */
	uint64_t e = atomic_load(&g_entered[g]);
	atomic_store(&g_snap[h], e & ~atomic_load(&g_done[g]));
	atomic_store(&g_hgrp[h], g);
	atomic_store(&g_registered[h], 1);
	vrt_api("CallNotify", g_objs[g], h, 0, g);
	t_in_notify = 1;
	if (form_f) dispatch_group_notify_f(g_grp[g], g_nq, &g_hidx[h], notify_func);
	else dispatch_group_notify(g_grp[g], g_nq, ^{ notify_body(h); });
	t_in_notify = 0;
	vrt_api("RetNotify", g_objs[g], h, 0, g);
	return h;
}

static const char *KN[] = { "forever", "now", "timed" };

static long do_wait(int g, int kind, uint64_t tmo_ns)
{
	dispatch_time_t t = kind == 0 ? DISPATCH_TIME_FOREVER : kind == 1 ? DISPATCH_TIME_NOW : 0;
	uint64_t t0 = now_ns();
	if (kind == 2) t = dispatch_time(DISPATCH_TIME_NOW, (int64_t)tmo_ns);
	uint64_t s0 = atomic_load(&g_shadow[g]);
	uint64_t e0 = atomic_load(&g_entered[g]);
	vrt_api("CallWait", g_objs[g], kind, 0, g);
	long r = dispatch_group_wait(g_grp[g], t);
	vrt_api("RetWait", g_objs[g], r != 0, 0, g);
	uint64_t d1 = atomic_load(&g_done[g]);
	uint64_t s1 = atomic_load(&g_shadow[g]);
	uint64_t t1 = now_ns();
	if (r == 0) {
		/* some own token was entered-and-not-being-left at every moment of the call */
		if ((uint32_t)s0 > 0 && (s0 >> 32) == (s1 >> 32))
			oracle_fail("wait returned 0 although the count was non-zero during the whole call",
					(long)(uint32_t)s0, (long)(uint32_t)s1);
		/* an item / enter that had entered this group before the call has not even started to leave now */
		if (e0 & ~d1)
			oracle_fail("wait returned 0 although work entered before the call has not left (group, token mask)",
					g, (long)(e0 & ~d1));
	} else {
		if (kind == 0) oracle_fail("untimed wait returned non-zero", r, g);
		if (kind == 2 && t1 - t0 < tmo_ns)
			oracle_fail("timed wait returned non-zero before the full timeout", (long)(t1 - t0), (long)tmo_ns);
	}
	return r;
}

/* what the block of a dispatch_group_async item does itself (decided by the item's random word, i.e. by the
 * seed): submit work to ANOTHER group / the same group, register notifications, plain asyncs, enter+leave */
static void nested_ops(struct item_s *it)
{
	uint64_t r = it->rnd;
	int n = (int)((r >> 12) % 10);
	n = n < 3 ? 0 : n < 8 ? 1 : 2;
	for (int i = 0; i < n; i++) {
		r = mix(r + (uint64_t)i);
		unsigned k = (unsigned)(r % 100), x = (unsigned)(r >> 8);
		int other = (it->g + 1 + (int)(x % (unsigned)(g_ng - 1))) % g_ng;
		int any = (x >> 4) & 1 ? it->g : other;
		atomic_fetch_add(&g_nested_total, 1);
		if (k < 36) {
			if (do_async(other, it->depth + 1, mix(r))) atomic_fetch_add(&g_nested_cross, 1);
		} else if (k < 48) {
			do_async(it->g, it->depth + 1, mix(r));
		} else if (k < 64) {
			do_notify(any, (x >> 5) & 1);
		} else if (k < 76) {
			do_plain(r >> 9);
		} else {
			int tok = do_enter(any);
			if (tok) {
				if ((x >> 6) & 1) usleep(x % 200);
				do_leave(any, tok);
			}
		}
	}
}

/* ------------------------------- workloads ------------------------------- */
static void random_ops(void)
{
	int own[8], owng[8], nown = 0;
	for (int i = 0; i < g_ops; i++) {
		uint64_t r = vrt_rand();
		unsigned k = (unsigned)(r % 100);
		unsigned x = (unsigned)(r >> 8);
		int g = (int)((r >> 40) % (unsigned)g_ng);
		int room = atomic_load(&g_next_tok) < MAXTOK - 10;
		if (k < 20) {
			if (nown < 2 && room) { int t = do_enter(g); if (t) { own[nown] = t; owng[nown++] = g; } }
			else if (nown) { nown--; do_leave(owng[nown], own[nown]); }
		} else if (k < 38) {
			if (nown) { /* leave the oldest own work */
				int tok = own[0], tg = owng[0];
				nown--;
				memmove(own, own + 1, sizeof(int) * (size_t)nown); memmove(owng, owng + 1, sizeof(int) * (size_t)nown);
				do_leave(tg, tok);
			} else if (room) { int t = do_enter(g); if (t) { own[nown] = t; owng[nown++] = g; } }
		} else if (k < 54) {
			if (room) do_async(g, 0, mix(r));
		} else if (k < 66) {
			do_notify(g, (x >> 3) & 1);
		} else if (k < 74) {
			do_wait(g, 1, 0);
		} else if (k < 90 || nown) {
			do_wait(g, 2, 20000 + x % 1500000);
		} else {
			/* untimed: only while this thread holds no work (in any group), so every other thread's work is
			 * eventually left (threads holding work never block forever; items never wait) */
			do_wait(g, 0, 0);
		}
		vrt_progress();
	}
	while (nown) { nown--; do_leave(owng[nown], own[nown]); }
}

/* the schedule of Appendix C (on group 0): thread A (role 3) notifies on the empty group and is stalled
 * between its zero decision and the list snapshot; thread B enters, notifies, releases A */
static void steered_ops(long me)
{
	if (me == 0) {
		t_role = 3; t_stage = 0;
		do_notify(0, 0);
		t_role = 0;
	} else if (me == 1) {
		uint64_t dl = now_ns() + 5000000000ull;
		while (!atomic_load(&g_t3_stalled) && now_ns() < dl) usleep(100);
		int tok = do_enter(0);
		int h = do_notify(0, 0);
		atomic_store(&g_release_t3, 1);
		/* B's work is still in progress: it lasts until B's notification block has run (F2) or,
		 * when the library does not exhibit F2, for half a second */
		dl = now_ns() + 500000000ull;
		while (h >= 0 && !atomic_load(&g_ran[h]) && now_ns() < dl) usleep(200);
		do_leave(0, tok);
	}
	vrt_progress();
}

static void *worker(void *arg)
{
	long me = (long)arg;
	(void)vrt_tid();
	for (int e = 0; e < g_execs + g_steered; e++) {
		pthread_barrier_wait(&g_bar);   /* execution set up */
		if (atomic_load(&g_exec_kind) == 1) steered_ops(me); else random_ops();
		pthread_barrier_wait(&g_bar);   /* every call of this thread has returned */
	}
	return NULL;
}

/* called in `pre` of every traced-class site, before the access (no lock held) */
static void steer(struct dispatch_verif_site_s *s, const volatile void *addr, int obj)
{
	/* the continuation of a dispatch_group_notify in progress on this thread: its address is
	 * only known now (its first access is `dsn->do_next = NULL` in os_mpsc_push_update_tail) */
	if (t_in_notify && obj < 0 && s->dvs_op[0] == 's' && strstr(s->dvs_expr, "do_next")) {
		uintptr_t base = (uintptr_t)addr - offsetof(struct dispatch_continuation_s, do_next);
		vrt_register((void *)base, sizeof(struct dispatch_continuation_s), 2);
	}
	if (t_role == 3) {
		int on_state = strstr(s->dvs_expr, "dg_state") != NULL;
		if (t_stage == 0 && on_state) t_stage = 1;           /* the rmw loop of the first pusher */
		else if (t_stage == 1 && !on_state) {                /* first access of the list snapshot */
			t_stage = 2;
			atomic_store(&g_t3_stalled, 1);
			uint64_t dl = now_ns() + 6000000000ull;
			while (!atomic_load(&g_release_t3) && now_ns() < dl) usleep(100);
		}
	}
}

/* ------------------------------- projection ------------------------------- */
static struct { uintptr_t p; int id; int st; int g; } p_map[4096];   /* st: 1 listed, 2 snapped, 3 done */
static int p_nmap, p_nid;
static int p_tok[MAXTID], p_async[MAXTID], p_h[MAXTID], p_h2id[MAXH];
static int p_inrmw[MAXTID];   /* the last record of the thread was a load / failed CAS of dg_state */

static int p_grp(int obj) { return (obj >= 0 && obj < NG) ? obj : -1; }
static int p_find(uintptr_t p)
{
	for (int i = p_nmap - 1; i >= 0; i--) if (p_map[i].p == p) return i;
	return -1;
}
static int p_id(uintptr_t p)
{
	if (!p) return 0;
	int i = p_find(p);
	return i < 0 ? -1 : p_map[i].id;
}
static void p_reset(void)
{
	p_nmap = 0; p_nid = 0;
	for (int i = 0; i < MAXTID; i++) { p_tok[i] = -1; p_async[i] = 0; p_h[i] = -1; p_inrmw[i] = 0; }
	for (int i = 0; i < MAXH; i++) p_h2id[i] = 0;
}
static void p_word(FILE *f, const char *pfx, uint64_t v, int has_gen)
{
	fprintf(f, ",\"%sg\":%ld,\"%sv\":%lu,\"%sn\":%d,\"%sw\":%d", pfx, has_gen ? (long)(v >> 32) : -1L,
			pfx, (unsigned long)((v & DISPATCH_GROUP_VALUE_MASK) >> 2),
			pfx, (int)!!(v & DISPATCH_GROUP_HAS_NOTIFS), pfx, (int)!!(v & DISPATCH_GROUP_HAS_WAITERS));
}

static void proj(FILE *f, const vrt_rec_t *r)
{
	int tid = r->tid < MAXTID ? r->tid : MAXTID - 1;
	int inrmw = p_inrmw[tid];
	p_inrmw[tid] = 0;
	switch (r->kind) {
	case VRT_MARK:
		if (!strcmp(r->name, "Reset")) p_reset();
		fprintf(f, "{\"e\":\"%s\",\"kind\":%ld,\"ng\":%ld}\n", r->name, r->a, r->b);
		break;
	case VRT_API:
		if (!strcmp(r->name, "CallEnter")) { p_tok[tid] = (int)r->a; p_async[tid] = 0; }
		else if (!strcmp(r->name, "CallAsync")) { p_tok[tid] = (int)r->a; p_async[tid] = 1; }
		else if (!strcmp(r->name, "CallLeave")) { p_tok[tid] = (int)r->a; }
		else if (!strcmp(r->name, "ItemStart"))
			fprintf(f, "{\"e\":\"ItemStart\",\"t\":%d,\"tok\":%ld,\"grp\":%ld}\n", r->tid, r->a, r->c);
		else if (!strcmp(r->name, "ItemEnd")) {
			/* the library's leave for this item is the next thing this thread does */
			p_tok[tid] = (int)r->a;
			fprintf(f, "{\"e\":\"ItemEnd\",\"t\":%d,\"tok\":%ld,\"grp\":%ld}\n", r->tid, r->a, r->c);
		} else if (!strcmp(r->name, "CallNotify")) {
			p_h[tid] = (int)r->a;
			fprintf(f, "{\"e\":\"CallNotify\",\"t\":%d,\"h\":%ld,\"grp\":%ld}\n", r->tid, r->a, r->c);
		} else if (!strcmp(r->name, "CallWait"))
			fprintf(f, "{\"e\":\"CallWait\",\"t\":%d,\"kind\":\"%s\",\"grp\":%ld}\n", r->tid, KN[r->a], r->c);
		else if (!strcmp(r->name, "RetWait"))
			fprintf(f, "{\"e\":\"RetWait\",\"t\":%d,\"r\":%ld,\"grp\":%ld}\n", r->tid, r->a, r->c);
		else if (!strcmp(r->name, "NotifyRan"))
			fprintf(f, "{\"e\":\"NotifyRan\",\"t\":%d,\"n\":%d,\"h\":%ld,\"cearly\":%ld,\"grp\":%ld}\n", r->tid,
					(r->a >= 0 && r->a < MAXH) ? p_h2id[r->a] : 0, r->a, r->b, r->c);
		else /* RetEnter RetLeave RetAsync RetNotify: the call has returned */
			fprintf(f, "{\"e\":\"Ret\",\"t\":%d,\"op\":\"%s\",\"grp\":%ld}\n", r->tid, r->name + 3, r->c);
		break;
	case VRT_PROBE: {
		int g = p_grp(r->obj);
		if (!strcmp(r->name, "dispose")) { /* end of the object's life (_dispatch_dispose probe): C17's business */ }
		else if (g < 0) { /* a futex of something else that happens to be registered (never a group's) */ }
		else if (!strcmp(r->name, "futex_wait"))
			fprintf(f, "{\"e\":\"FutexWait\",\"t\":%d,\"grp\":%d,\"val\":%ld,\"timed\":%ld}\n", r->tid, g, r->a, r->b);
		else if (!strcmp(r->name, "futex_wait_ret"))
			fprintf(f, "{\"e\":\"FutexRet\",\"t\":%d,\"grp\":%d,\"rc\":%ld}\n", r->tid, g, r->a);
		else if (!strcmp(r->name, "futex_wake"))
			fprintf(f, "{\"e\":\"FutexWake\",\"t\":%d,\"grp\":%d}\n", r->tid, g);
		else fprintf(f, "{\"e\":\"Unknown\",\"t\":%d,\"what\":\"probe %s\"}\n", r->tid, r->name);
		break;
	}
	case VRT_ATOMIC: {
		const char *op = r->site->dvs_op, *mo = r->site->dvs_mo;
		int g = p_grp(r->obj);
		if (g < 0) {
			/* do_next of a continuation: only while it is a notifier on (or snapshotted from)
			 * a group's list; afterwards the continuation belongs to the target queue */
			uintptr_t base = (uintptr_t)r->addr - (uintptr_t)r->off;
			int i = p_find(base);
			if (r->off != (long)offsetof(struct dispatch_continuation_s, do_next)) break;
			if (i < 0 || p_map[i].st > 2) break;
			if (!strcmp(op, "store")) {
				fprintf(f, "{\"e\":\"StoreN\",\"t\":%d,\"c\":%d,\"v\":%d,\"mo\":\"%s\"}\n", r->tid, p_map[i].id,
						p_id((uintptr_t)r->newv), mo);
				if (r->newv == 0) p_map[i].st = 3;        /* pushed onto its target queue */
			} else if (!strcmp(op, "load"))
				fprintf(f, "{\"e\":\"LoadN\",\"t\":%d,\"c\":%d,\"v\":%d,\"mo\":\"%s\"}\n", r->tid, p_map[i].id,
						p_id((uintptr_t)r->oldv), mo);
			else fprintf(f, "{\"e\":\"Unknown\",\"t\":%d,\"what\":\"%s on do_next\"}\n", r->tid, op);
			break;
		}
		long off = r->off;
		if (!strcmp(op, "giveup")) {
			/* the runtime attributes a give-up to the last traced word this thread loaded; only
			 * a give-up that directly follows a load / failed CAS of dg_state is the group's */
			if (inrmw) fprintf(f, "{\"e\":\"GiveUp\",\"t\":%d,\"grp\":%d}\n", r->tid, g);
			break;
		}
		if (off == (long)offsetof(struct dispatch_group_s, dg_state) && r->size == 8) {
			if (!strcmp(op, "add")) {
				fprintf(f, "{\"e\":\"Add\",\"t\":%d,\"grp\":%d,\"tok\":%d", r->tid, g, p_tok[tid]);
				p_word(f, "o", r->oldv, 1); p_word(f, "n", r->newv, 1);
				fprintf(f, ",\"mo\":\"%s\"}\n", mo);
				p_tok[tid] = -1;
			} else if (!strcmp(op, "load")) {
				p_inrmw[tid] = 1;
				fprintf(f, "{\"e\":\"LoadS\",\"t\":%d,\"grp\":%d", r->tid, g); p_word(f, "o", r->oldv, 1);
				fprintf(f, ",\"mo\":\"%s\"}\n", mo);
			} else if (!strcmp(op, "cmpxchg")) {
				p_inrmw[tid] = !r->ok;
				fprintf(f, "{\"e\":\"Cas\",\"t\":%d,\"grp\":%d,\"ok\":%d", r->tid, g, r->ok);
				p_word(f, "o", r->oldv, 1); p_word(f, "n", r->newv, 1);
				fprintf(f, ",\"mo\":\"%s\"}\n", mo);
			} else fprintf(f, "{\"e\":\"Unknown\",\"t\":%d,\"what\":\"%s on dg_state\"}\n", r->tid, op);
		} else if (off == (long)offsetof(struct dispatch_group_s, dg_bits) && r->size == 4) {
			if (!strcmp(op, "sub")) {
				fprintf(f, "{\"e\":\"Sub\",\"t\":%d,\"grp\":%d,\"tok\":%d,\"async\":%d", r->tid, g, p_tok[tid], p_async[tid]);
				p_word(f, "o", r->oldv, 0); p_word(f, "n", r->newv, 0);
				fprintf(f, ",\"mo\":\"%s\"}\n", mo);
				p_tok[tid] = -1;
			} else fprintf(f, "{\"e\":\"Unknown\",\"t\":%d,\"what\":\"%s on dg_bits\"}\n", r->tid, op);
		} else if (off == (long)offsetof(struct dispatch_group_s, dg_gen) && r->size == 4) {
			if (!strcmp(op, "load"))
				fprintf(f, "{\"e\":\"LoadG\",\"t\":%d,\"grp\":%d,\"g\":%lu,\"mo\":\"%s\"}\n", r->tid, g, (unsigned long)r->oldv, mo);
			else fprintf(f, "{\"e\":\"Unknown\",\"t\":%d,\"what\":\"%s on dg_gen\"}\n", r->tid, op);
		} else if (off == (long)offsetof(struct dispatch_group_s, dg_notify_tail)) {
			if (!strcmp(op, "xchg")) {
				int oldid = p_id((uintptr_t)r->oldv), newid = 0;
				if (r->newv) {
					if (p_nmap < 4096) {
						p_map[p_nmap].p = (uintptr_t)r->newv; p_map[p_nmap].id = newid = ++p_nid;
						p_map[p_nmap].st = 1; p_map[p_nmap].g = g; p_nmap++;
					}
					if (p_h[tid] >= 0 && p_h[tid] < MAXH) p_h2id[p_h[tid]] = newid;
				} else {
					for (int i = 0; i < p_nmap; i++) if (p_map[i].st == 1 && p_map[i].g == g) p_map[i].st = 2;
				}
				fprintf(f, "{\"e\":\"XchgT\",\"t\":%d,\"grp\":%d,\"old\":%d,\"new\":%d,\"mo\":\"%s\"}\n", r->tid, g, oldid, newid, mo);
			} else fprintf(f, "{\"e\":\"Unknown\",\"t\":%d,\"what\":\"%s on dg_notify_tail\"}\n", r->tid, op);
		} else if (off == (long)offsetof(struct dispatch_group_s, dg_notify_head)) {
			if (!strcmp(op, "store"))
				fprintf(f, "{\"e\":\"StoreH\",\"t\":%d,\"grp\":%d,\"v\":%d,\"mo\":\"%s\"}\n", r->tid, g, p_id((uintptr_t)r->newv), mo);
			else if (!strcmp(op, "load"))
				fprintf(f, "{\"e\":\"LoadH\",\"t\":%d,\"grp\":%d,\"v\":%d,\"mo\":\"%s\"}\n", r->tid, g, p_id((uintptr_t)r->oldv), mo);
			else fprintf(f, "{\"e\":\"Unknown\",\"t\":%d,\"what\":\"%s on dg_notify_head\"}\n", r->tid, op);
		} else {
			fprintf(f, "{\"e\":\"Unknown\",\"t\":%d,\"what\":\"%s at offset %ld\"}\n", r->tid, op, off);
		}
		break;
	}
	}
}

static void hang(const char *what, long n)
{
	fprintf(stderr, "ORACLE-FAIL C07 %s (%ld)\n", what, n);
	vrt_fatal("Hang", n, 71);
}

/* the leaver that brought the count to zero, between that atomic step and its clean-up of the flag bits / its wake-up:
 * re-entries, new waiters and new notifiers of the next generation land here (seed C07-1).  Hold it there now and then. */
static void group_post_steer(struct dispatch_verif_site_s *s, const volatile void *a, int obj)
{
	(void)a; (void)obj;
	if (strcmp(s->dvs_func, "dispatch_group_leave") || s->dvs_op[0] == 'l' || s->dvs_op[0] == 'c') return;
	if ((vrt_rand() % 4) == 0) usleep(100 + (unsigned)(vrt_rand() % 900));
}

int main(int argc, char **argv)
{
	const char *out = argc > 1 ? argv[1] : "/dev/null";
	g_seed = argc > 2 ? strtoull(argv[2], NULL, 0) : 1;
	int perturb = argc > 3 ? atoi(argv[3]) : 2;
	if (argc > 4) g_execs = atoi(argv[4]);
	if (argc > 5) g_ops = atoi(argv[5]);
	if (argc > 6) g_steered = atoi(argv[6]);
	vrt_init(out, g_seed, perturb);
	if (perturb > 0) vrt_set_post_steer(group_post_steer);
	vrt_set_projector(proj);
	vrt_set_steer(steer);
	vrt_add_class("dg_state", 1);
	vrt_add_class("dg_bits", 1);
	vrt_add_class("dg_gen", 1);
	vrt_add_class("dg_notify", 2);   /* "_os_mpsc_tail (dg, dg_notify, )" / "_os_mpsc_head (dg, dg_notify, )" */
	vrt_add_class("do_next", 3);     /* links of the continuations (only registered ones are recorded) */
	vrt_add_class("__n", 2);         /* os_mpsc_get_head / os_mpsc_get_next loads */
	/* only API events and vrt_progress() feed the watchdog: a waiter left behind that keeps being interrupted
	 * (EINTR -> reload of dg_gen -> futex again) produces records for ever but is a hang all the same */
	vrt_set_record_progress(0);
	vrt_set_hang_seconds(25);
	(void)vrt_tid(); /* main = thread 0 */
	g_nq = dispatch_queue_create("c07.notify", DISPATCH_QUEUE_SERIAL);
	g_wq[0] = dispatch_queue_create("c07.work", DISPATCH_QUEUE_CONCURRENT);
	g_wq[1] = dispatch_queue_create("c07.work2", DISPATCH_QUEUE_SERIAL);
	for (int h = 0; h < MAXH; h++) g_hidx[h] = h;
	pthread_barrier_init(&g_bar, NULL, NT + 1);
	pthread_t th[NT];
	for (long i = 0; i < NT; i++) pthread_create(&th[i], NULL, worker, (void *)i);
	int total = g_execs + g_steered;
	for (int e = 0; e < total; e++) {
		/* steered executions are spread over the run */
		int kind = (g_steered && (e % (total / g_steered)) == 0 && e / (total / g_steered) < g_steered) ? 1 : 0;
		vrt_pause(1);
		for (int g = 0; g < NG; g++) g_grp[g] = dispatch_group_create();
		vrt_unregister_all();
		for (int g = 0; g < NG; g++) {
			g_objs[g] = vrt_register(g_grp[g], malloc_usable_size(g_grp[g]), 1);
			if (g_objs[g] != g) { fprintf(stderr, "registration order\n"); return 3; }
		}
		vrt_pause(0);
		g_ng = 2 + (e % 3 == 2);
		for (int g = 0; g < NG; g++) {
			atomic_store(&g_shadow[g], 0); atomic_store(&g_entered[g], 0); atomic_store(&g_done[g], 0);
		}
		atomic_store(&g_next_tok, 0); atomic_store(&g_next_h, 0); atomic_store(&g_next_plain, 0);
		atomic_store(&g_pending, 0);
		memset(g_items, 0, sizeof(g_items)); memset(g_plain, 0, sizeof(g_plain));
		for (int h = 0; h < MAXH; h++) {
			atomic_store(&g_snap[h], 0); atomic_store(&g_ran[h], 0); atomic_store(&g_hgrp[h], 0);
			atomic_store(&g_registered[h], 0); atomic_store(&g_early[h], 0);
		}
		atomic_store(&g_t3_stalled, 0); atomic_store(&g_release_t3, 0);
		atomic_store(&g_exec_kind, kind);
		if (kind == 1) vrt_set_perturb(0);
		vrt_mark("Reset", kind, g_ng, 0);
		pthread_barrier_wait(&g_bar);
		pthread_barrier_wait(&g_bar);
		vrt_set_perturb(perturb);
		/* every block (items at every nesting depth, plain asyncs) has been run: nothing submits any more */
		uint64_t dl = now_ns() + 15000000000ull;
		while (atomic_load(&g_pending) != 0) {
			if (now_ns() > dl) hang("submitted blocks never ran", atomic_load(&g_pending));
			usleep(200);
			vrt_progress();
		}
		/* all explicit enters have been left, every item's block has returned and the library leaves right
		 * after: an untimed wait on EVERY group must return 0 (a hang here is a waiter left behind, or a group
		 * whose count does not return to zero) */
		for (int g = 0; g < NG; g++)
			if (do_wait(g, 0, 0) != 0) oracle_fail("final untimed wait returned non-zero", g, 0);
		/* the leaves of the asynchronous work have returned once a barrier has run */
		dispatch_barrier_sync(g_wq[0], ^{});
		dispatch_barrier_sync(g_wq[1], ^{});
		/* the counts are zero and stay zero: every notification must have been submitted, so it
		 * runs; one that does not is left behind */
		dl = now_ns() + 15000000000ull;
		for (;;) {
			int missing = 0;
			for (int h = 0; h < MAXH; h++)
				if (atomic_load(&g_registered[h]) && atomic_load(&g_ran[h]) == 0) missing++;
			if (!missing) break;
			if (now_ns() > dl) hang("notification(s) never ran although the count is zero", missing);
			usleep(200);
			vrt_progress();
		}
		dispatch_sync(g_nq, ^{});   /* a duplicate submission would have run by now */
		for (int h = 0; h < MAXH; h++)
			if (atomic_load(&g_registered[h]) && atomic_load(&g_ran[h]) != 1)
				oracle_fail("notification block did not run exactly once", h, atomic_load(&g_ran[h]));
		for (int t = 1; t <= MAXTOK; t++)
			if (g_items[t].used && atomic_load(&g_items[t].ran) != 1)
				oracle_fail("dispatch_group_async block did not run exactly once", t, atomic_load(&g_items[t].ran));
		for (int i = 0; i < MAXPLAIN; i++)
			if (g_plain[i].used && atomic_load(&g_plain[i].ran) != 1)
				oracle_fail("dispatch_async block did not run exactly once", i, atomic_load(&g_plain[i].ran));
		/* every group is back to "count zero, no flags" (plain read: quiescent) */
		for (int g = 0; g < NG; g++) {
			uint32_t bits = (uint32_t)*(volatile uint64_t *)&g_grp[g]->dg_state;
			if (bits != 0) oracle_fail("group not back to count zero / no flags at quiescence (group, low word)", g, (long)bits);
		}
		if (kind == 1 && atomic_load(&g_early[1])) atomic_fetch_add(&g_f2_steer_hits, 1);
		vrt_mark("End", kind, 0, 0);
		vrt_pause(1);
		for (int g = 0; g < NG; g++) dispatch_release(g_grp[g]);
		vrt_pause(0);
		vrt_progress();
	}
	for (int i = 0; i < NT; i++) pthread_join(th[i], NULL);
	vrt_dump();
	fprintf(stderr, "records=%zu overflow=%d nested=%d cross_group_async=%d early_blocks=%d steered_f2_hits=%d\n", vrt_count(),
			vrt_overflowed(), atomic_load(&g_nested_total), atomic_load(&g_nested_cross),
			atomic_load(&g_early_total), atomic_load(&g_f2_steer_hits));
	return atomic_load(&g_fail) ? 2 : 0;
}
