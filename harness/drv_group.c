/* Driver for C07: seeded random multi-threaded histories of enter / leave / group_async /
 * notify / wait (NOW, short timed, FOREVER) over repeated generations of one dispatch_group,
 * under schedule perturbation, plus a STEERED scenario reproducing finding F2 (DESIGN.md
 * section 9, Appendix C).  Emits an ndjson trace for GroupTrace.tla (every os_atomic access to
 * dg_state / dg_bits / dg_gen / dg_notify_head / dg_notify_tail, the do_next links of the
 * notify continuations, the futex calls on dg_gen, and the API events in the same total
 * order) and evaluates the API-level oracles of the property itself.
 *
 * usage: drv_group OUT SEED PERTURB EXECS OPS STEERED
 * exit: 0 ok, 2 API oracle failed, 70 crash, 71 hang (waiter / notification left behind) */
#define _GNU_SOURCE
#include "internal.h"
#include <pthread.h>
#include <stdatomic.h>
#include <stdlib.h>
#include <string.h>
#include <unistd.h>
#include <malloc.h>
#include <time.h>
#include "verif_rt.h"

#define NT 3
#define MAXH 8           /* notifications per execution */
#define MAXTOK 60        /* enter tokens per execution (bit mask) */
#define MAXTID 512

static int g_execs = 20, g_ops = 12, g_steered = 1;
static uint64_t g_seed;
static dispatch_group_t g_grp;
static dispatch_queue_t g_nq, g_wq;
static int g_obj;
static pthread_barrier_t g_bar;
static _Atomic int g_fail;
static _Atomic int g_exec_kind;       /* 0 random, 1 steered F2 scenario */

/* ---- harness-side shadows (conservative: can only under-approximate the count) ---- */
static _Atomic uint64_t g_shadow;     /* high 32: number of times `sure` hit zero; low 32: sure */
static _Atomic uint64_t g_sure_mask;  /* tokens surely entered and surely not yet left (own tokens) */
static _Atomic int g_next_tok, g_next_h;
static _Atomic uint64_t g_snap[MAXH];
static _Atomic int g_ran[MAXH], g_registered[MAXH], g_early[MAXH];
static _Atomic int g_early_total, g_f2_steer_hits;

/* ---- steering of the F2 schedule ---- */
static __thread int t_in_notify;
static __thread int t_role;           /* 3 = the thread that is stalled before the list snapshot */
static __thread int t_stage;
static _Atomic int g_t3_stalled, g_release_t3;

static uint64_t now_ns(void)
{
	struct timespec ts; clock_gettime(CLOCK_MONOTONIC, &ts);
	return (uint64_t)ts.tv_sec * 1000000000ull + (uint64_t)ts.tv_nsec;
}

static void oracle_fail(const char *what, long a, long b)
{
	fprintf(stderr, "ORACLE-FAIL C07 %s a=%ld b=%ld\n", what, a, b);
	atomic_store(&g_fail, 1);
}

static void shadow_inc(void) { atomic_fetch_add(&g_shadow, 1); }
static void shadow_dec(void)
{
	uint64_t o = atomic_load(&g_shadow), n;
	do {
		n = o - 1;
		if ((uint32_t)n == 0) n += 1ull << 32;
	} while (!atomic_compare_exchange_weak(&g_shadow, &o, n));
}

/* ------------------------------- API wrappers ------------------------------- */
static int do_enter(void)
{
	int tok = atomic_fetch_add(&g_next_tok, 1) + 1;
	vrt_api("CallEnter", g_obj, tok, 0, 0);
	dispatch_group_enter(g_grp);
	vrt_api("RetEnter", g_obj, tok, 0, 0);
	if (tok <= MAXTOK) atomic_fetch_or(&g_sure_mask, 1ull << tok);
	shadow_inc();
	return tok;
}

static void do_leave(int tok)
{
	shadow_dec();
	if (tok <= MAXTOK) atomic_fetch_and(&g_sure_mask, ~(1ull << tok));
	vrt_api("CallLeave", g_obj, tok, 0, 0);
	dispatch_group_leave(g_grp);
	vrt_api("RetLeave", g_obj, tok, 0, 0);
}

static void do_async(unsigned delay_us)
{
	int tok = atomic_fetch_add(&g_next_tok, 1) + 1;
	vrt_api("CallAsync", g_obj, tok, 0, 0);
	dispatch_group_async(g_grp, g_wq, ^{
		if (delay_us) usleep(delay_us);
		/* the library calls dispatch_group_leave right after this block returns */
		vrt_api("AsyncEnd", g_obj, tok, 0, 0);
	});
	vrt_api("RetAsync", g_obj, tok, 0, 0);
}

static int do_notify(void)
{
	int h = atomic_fetch_add(&g_next_h, 1);
	if (h >= MAXH) return -1;
	/* snapshot of the work surely entered before the notify call, taken BEFORE the call */
	atomic_store(&g_snap[h], atomic_load(&g_sure_mask));
	atomic_store(&g_registered[h], 1);
	vrt_api("CallNotify", g_obj, h, 0, 0);
	t_in_notify = 1;
	dispatch_group_notify(g_grp, g_nq, ^{
		uint64_t still = atomic_load(&g_snap[h]) & atomic_load(&g_sure_mask);
		int early = still != 0;
		/* C07 "not before all work entered before the notify call has left".  Not judged here:
		 * the trace validation classifies it (known finding F2 vs. anything else). */
		if (early) { atomic_store(&g_early[h], 1); atomic_fetch_add(&g_early_total, 1); }
		vrt_api("NotifyRan", g_obj, h, early, 0);
		if (atomic_fetch_add(&g_ran[h], 1) != 0) oracle_fail("notification block ran twice", h, 0);
	});
	t_in_notify = 0;
	vrt_api("RetNotify", g_obj, h, 0, 0);
	return h;
}

static const char *KN[] = { "forever", "now", "timed" };

static long do_wait(int kind, uint64_t tmo_ns)
{
	dispatch_time_t t = kind == 0 ? DISPATCH_TIME_FOREVER : kind == 1 ? DISPATCH_TIME_NOW : 0;
	uint64_t t0 = now_ns();
	if (kind == 2) t = dispatch_time(DISPATCH_TIME_NOW, (int64_t)tmo_ns);
	uint64_t s0 = atomic_load(&g_shadow);
	vrt_api("CallWait", g_obj, kind, 0, 0);
	long r = dispatch_group_wait(g_grp, t);
	vrt_api("RetWait", g_obj, r != 0, 0, 0);
	uint64_t s1 = atomic_load(&g_shadow);
	uint64_t t1 = now_ns();
	if (r == 0) {
		/* some own token was entered-and-not-being-left at every moment of the call */
		if ((uint32_t)s0 > 0 && (s0 >> 32) == (s1 >> 32))
			oracle_fail("wait returned 0 although the count was non-zero during the whole call",
					(long)(uint32_t)s0, (long)(uint32_t)s1);
	} else {
		if (kind == 0) oracle_fail("untimed wait returned non-zero", r, 0);
		if (kind == 2 && t1 - t0 < tmo_ns)
			oracle_fail("timed wait returned non-zero before the full timeout", (long)(t1 - t0), (long)tmo_ns);
	}
	return r;
}

/* ------------------------------- workloads ------------------------------- */
static void random_ops(void)
{
	int own[8], nown = 0;
	for (int i = 0; i < g_ops; i++) {
		uint64_t r = vrt_rand();
		unsigned k = (unsigned)(r % 100);
		unsigned x = (unsigned)(r >> 8);
		if (k < 24) {
			if (nown < 2 && atomic_load(&g_next_tok) < MAXTOK - 4) own[nown++] = do_enter();
			else if (nown) do_leave(own[--nown]);
		} else if (k < 46) {
			if (nown) { /* leave the oldest own work */
				int tok = own[0]; memmove(own, own + 1, sizeof(int) * (size_t)(--nown)); do_leave(tok);
			} else if (atomic_load(&g_next_tok) < MAXTOK - 4) own[nown++] = do_enter();
		} else if (k < 54) {
			if (atomic_load(&g_next_tok) < MAXTOK - 4) do_async(x % 3 == 0 ? 0 : x % 400);
		} else if (k < 66) {
			do_notify();
		} else if (k < 74) {
			do_wait(1, 0);
		} else if (k < 90 || nown) {
			do_wait(2, 20000 + x % 1500000);
		} else {
			/* untimed: only while this thread holds no work, so every other thread's work is
			 * eventually left (threads holding work never block forever) */
			do_wait(0, 0);
		}
		vrt_progress();
	}
	while (nown) do_leave(own[--nown]);
}

/* the schedule of Appendix C: thread A (role 3) notifies on the empty group and is stalled
 * between its zero decision and the list snapshot; thread B enters, notifies, releases A */
static void steered_ops(long me)
{
	if (me == 0) {
		t_role = 3; t_stage = 0;
		do_notify();
		t_role = 0;
	} else if (me == 1) {
		uint64_t dl = now_ns() + 5000000000ull;
		while (!atomic_load(&g_t3_stalled) && now_ns() < dl) usleep(100);
		int tok = do_enter();
		int h = do_notify();
		atomic_store(&g_release_t3, 1);
		/* B's work is still in progress: it lasts until B's notification block has run (F2) or,
		 * when the library does not exhibit F2, for half a second */
		dl = now_ns() + 500000000ull;
		while (h >= 0 && !atomic_load(&g_ran[h]) && now_ns() < dl) usleep(200);
		do_leave(tok);
	}
	vrt_progress();
}

static void *worker(void *arg)
{
	long me = (long)arg;
	(void)vrt_tid();
	for (int e = 0; e < g_execs + g_steered; e++) {
		pthread_barrier_wait(&g_bar);   /* execution set up */
		if (atomic_load(&g_exec_kind) == 1) steered_ops(me); else random_ops();
		pthread_barrier_wait(&g_bar);   /* every call of this thread has returned */
	}
	return NULL;
}

/* called in `pre` of every traced-class site, before the access (no lock held) */
static void steer(struct dispatch_verif_site_s *s, const volatile void *addr, int obj)
{
	/* the continuation of a dispatch_group_notify in progress on this thread: its address is
	 * only known now (its first access is `dsn->do_next = NULL` in os_mpsc_push_update_tail) */
	if (t_in_notify && obj < 0 && s->dvs_op[0] == 's' && strstr(s->dvs_expr, "do_next")) {
		uintptr_t base = (uintptr_t)addr - offsetof(struct dispatch_continuation_s, do_next);
		vrt_register((void *)base, sizeof(struct dispatch_continuation_s), 2);
	}
	if (t_role == 3) {
		int on_state = strstr(s->dvs_expr, "dg_state") != NULL;
		if (t_stage == 0 && on_state) t_stage = 1;           /* the rmw loop of the first pusher */
		else if (t_stage == 1 && !on_state) {                /* first access of the list snapshot */
			t_stage = 2;
			atomic_store(&g_t3_stalled, 1);
			uint64_t dl = now_ns() + 6000000000ull;
			while (!atomic_load(&g_release_t3) && now_ns() < dl) usleep(100);
		}
	}
}

/* ------------------------------- projection ------------------------------- */
static struct { uintptr_t p; int id; int st; } p_map[4096];   /* st: 1 listed, 2 snapped, 3 done */
static int p_nmap, p_nid;
static int p_tok[MAXTID], p_async[MAXTID], p_h[MAXTID], p_h2id[MAXH];
static int p_inrmw[MAXTID];   /* the last record of the thread was a load / failed CAS of dg_state */

static int p_find(uintptr_t p)
{
	for (int i = p_nmap - 1; i >= 0; i--) if (p_map[i].p == p) return i;
	return -1;
}
static int p_id(uintptr_t p)
{
	if (!p) return 0;
	int i = p_find(p);
	return i < 0 ? -1 : p_map[i].id;
}
static void p_reset(void)
{
	p_nmap = 0; p_nid = 0;
	for (int i = 0; i < MAXTID; i++) { p_tok[i] = -1; p_async[i] = 0; p_h[i] = -1; p_inrmw[i] = 0; }
	for (int i = 0; i < MAXH; i++) p_h2id[i] = 0;
}
static void p_word(FILE *f, const char *pfx, uint64_t v, int has_gen)
{
	fprintf(f, ",\"%sg\":%ld,\"%sv\":%lu,\"%sn\":%d,\"%sw\":%d", pfx, has_gen ? (long)(v >> 32) : -1L,
			pfx, (unsigned long)((v & DISPATCH_GROUP_VALUE_MASK) >> 2),
			pfx, (int)!!(v & DISPATCH_GROUP_HAS_NOTIFS), pfx, (int)!!(v & DISPATCH_GROUP_HAS_WAITERS));
}

static void proj(FILE *f, const vrt_rec_t *r)
{
	int tid = r->tid < MAXTID ? r->tid : MAXTID - 1;
	int inrmw = p_inrmw[tid];
	p_inrmw[tid] = 0;
	switch (r->kind) {
	case VRT_MARK:
		if (!strcmp(r->name, "Reset")) p_reset();
		fprintf(f, "{\"e\":\"%s\",\"kind\":%ld}\n", r->name, r->a);
		break;
	case VRT_API:
		if (!strcmp(r->name, "CallEnter")) { p_tok[tid] = (int)r->a; p_async[tid] = 0; }
		else if (!strcmp(r->name, "CallAsync")) { p_tok[tid] = (int)r->a; p_async[tid] = 1; }
		else if (!strcmp(r->name, "CallLeave") || !strcmp(r->name, "AsyncEnd")) { p_tok[tid] = (int)r->a; }
		else if (!strcmp(r->name, "CallNotify")) {
			p_h[tid] = (int)r->a;
			fprintf(f, "{\"e\":\"CallNotify\",\"t\":%d,\"h\":%ld}\n", r->tid, r->a);
		} else if (!strcmp(r->name, "CallWait"))
			fprintf(f, "{\"e\":\"CallWait\",\"t\":%d,\"kind\":\"%s\"}\n", r->tid, KN[r->a]);
		else if (!strcmp(r->name, "RetWait"))
			fprintf(f, "{\"e\":\"RetWait\",\"t\":%d,\"r\":%ld}\n", r->tid, r->a);
		else if (!strcmp(r->name, "NotifyRan"))
			fprintf(f, "{\"e\":\"NotifyRan\",\"t\":%d,\"n\":%d,\"h\":%ld,\"cearly\":%ld}\n", r->tid,
					(r->a >= 0 && r->a < MAXH) ? p_h2id[r->a] : 0, r->a, r->b);
		else /* RetEnter RetLeave RetAsync RetNotify: the call has returned */
			fprintf(f, "{\"e\":\"Ret\",\"t\":%d,\"op\":\"%s\"}\n", r->tid, r->name + 3);
		break;
	case VRT_PROBE:
		if (!strcmp(r->name, "futex_wait"))
			fprintf(f, "{\"e\":\"FutexWait\",\"t\":%d,\"val\":%ld,\"timed\":%ld}\n", r->tid, r->a, r->b);
		else if (!strcmp(r->name, "futex_wait_ret"))
			fprintf(f, "{\"e\":\"FutexRet\",\"t\":%d,\"rc\":%ld}\n", r->tid, r->a);
		else if (!strcmp(r->name, "futex_wake"))
			fprintf(f, "{\"e\":\"FutexWake\",\"t\":%d}\n", r->tid);
		else if (!strcmp(r->name, "dispose")) { /* end of the object's life (_dispatch_dispose probe): C17's business */ }
		else fprintf(f, "{\"e\":\"Unknown\",\"t\":%d,\"what\":\"probe %s\"}\n", r->tid, r->name);
		break;
	case VRT_ATOMIC: {
		const char *op = r->site->dvs_op, *mo = r->site->dvs_mo;
		if (r->obj != g_obj) {
			/* do_next of a continuation: only while it is a notifier on (or snapshotted from)
			 * the group's list; afterwards the continuation belongs to the target queue */
			uintptr_t base = (uintptr_t)r->addr - (uintptr_t)r->off;
			int i = p_find(base);
			if (r->off != (long)offsetof(struct dispatch_continuation_s, do_next)) break;
			if (i < 0 || p_map[i].st > 2) break;
			if (!strcmp(op, "store")) {
				fprintf(f, "{\"e\":\"StoreN\",\"t\":%d,\"c\":%d,\"v\":%d,\"mo\":\"%s\"}\n", r->tid, p_map[i].id,
						p_id((uintptr_t)r->newv), mo);
				if (r->newv == 0) p_map[i].st = 3;        /* pushed onto its target queue */
			} else if (!strcmp(op, "load"))
				fprintf(f, "{\"e\":\"LoadN\",\"t\":%d,\"c\":%d,\"v\":%d,\"mo\":\"%s\"}\n", r->tid, p_map[i].id,
						p_id((uintptr_t)r->oldv), mo);
			else fprintf(f, "{\"e\":\"Unknown\",\"t\":%d,\"what\":\"%s on do_next\"}\n", r->tid, op);
			break;
		}
		long off = r->off;
		if (!strcmp(op, "giveup")) {
			/* the runtime attributes a give-up to the last traced word this thread loaded; only
			 * a give-up that directly follows a load / failed CAS of dg_state is the group's */
			if (inrmw) fprintf(f, "{\"e\":\"GiveUp\",\"t\":%d}\n", r->tid);
			break;
		}
		if (off == (long)offsetof(struct dispatch_group_s, dg_state) && r->size == 8) {
			if (!strcmp(op, "add")) {
				fprintf(f, "{\"e\":\"Add\",\"t\":%d,\"tok\":%d", r->tid, p_tok[tid]);
				p_word(f, "o", r->oldv, 1); p_word(f, "n", r->newv, 1);
				fprintf(f, ",\"mo\":\"%s\"}\n", mo);
				p_tok[tid] = -1;
			} else if (!strcmp(op, "load")) {
				p_inrmw[tid] = 1;
				fprintf(f, "{\"e\":\"LoadS\",\"t\":%d", r->tid); p_word(f, "o", r->oldv, 1);
				fprintf(f, ",\"mo\":\"%s\"}\n", mo);
			} else if (!strcmp(op, "cmpxchg")) {
				p_inrmw[tid] = !r->ok;
				fprintf(f, "{\"e\":\"Cas\",\"t\":%d,\"ok\":%d", r->tid, r->ok);
				p_word(f, "o", r->oldv, 1); p_word(f, "n", r->newv, 1);
				fprintf(f, ",\"mo\":\"%s\"}\n", mo);
			} else fprintf(f, "{\"e\":\"Unknown\",\"t\":%d,\"what\":\"%s on dg_state\"}\n", r->tid, op);
		} else if (off == (long)offsetof(struct dispatch_group_s, dg_bits) && r->size == 4) {
			if (!strcmp(op, "sub")) {
				fprintf(f, "{\"e\":\"Sub\",\"t\":%d,\"tok\":%d,\"async\":%d", r->tid, p_tok[tid], p_async[tid]);
				p_word(f, "o", r->oldv, 0); p_word(f, "n", r->newv, 0);
				fprintf(f, ",\"mo\":\"%s\"}\n", mo);
				p_tok[tid] = -1;
			} else fprintf(f, "{\"e\":\"Unknown\",\"t\":%d,\"what\":\"%s on dg_bits\"}\n", r->tid, op);
		} else if (off == (long)offsetof(struct dispatch_group_s, dg_gen) && r->size == 4) {
			if (!strcmp(op, "load"))
				fprintf(f, "{\"e\":\"LoadG\",\"t\":%d,\"g\":%lu,\"mo\":\"%s\"}\n", r->tid, (unsigned long)r->oldv, mo);
			else fprintf(f, "{\"e\":\"Unknown\",\"t\":%d,\"what\":\"%s on dg_gen\"}\n", r->tid, op);
		} else if (off == (long)offsetof(struct dispatch_group_s, dg_notify_tail)) {
			if (!strcmp(op, "xchg")) {
				int oldid = p_id((uintptr_t)r->oldv), newid = 0;
				if (r->newv) {
					if (p_nmap < 4096) {
						p_map[p_nmap].p = (uintptr_t)r->newv; p_map[p_nmap].id = newid = ++p_nid;
						p_map[p_nmap].st = 1; p_nmap++;
					}
					if (p_h[tid] >= 0 && p_h[tid] < MAXH) p_h2id[p_h[tid]] = newid;
				} else {
					for (int i = 0; i < p_nmap; i++) if (p_map[i].st == 1) p_map[i].st = 2;
				}
				fprintf(f, "{\"e\":\"XchgT\",\"t\":%d,\"old\":%d,\"new\":%d,\"mo\":\"%s\"}\n", r->tid, oldid, newid, mo);
			} else fprintf(f, "{\"e\":\"Unknown\",\"t\":%d,\"what\":\"%s on dg_notify_tail\"}\n", r->tid, op);
		} else if (off == (long)offsetof(struct dispatch_group_s, dg_notify_head)) {
			if (!strcmp(op, "store"))
				fprintf(f, "{\"e\":\"StoreH\",\"t\":%d,\"v\":%d,\"mo\":\"%s\"}\n", r->tid, p_id((uintptr_t)r->newv), mo);
			else if (!strcmp(op, "load"))
				fprintf(f, "{\"e\":\"LoadH\",\"t\":%d,\"v\":%d,\"mo\":\"%s\"}\n", r->tid, p_id((uintptr_t)r->oldv), mo);
			else fprintf(f, "{\"e\":\"Unknown\",\"t\":%d,\"what\":\"%s on dg_notify_head\"}\n", r->tid, op);
		} else {
			fprintf(f, "{\"e\":\"Unknown\",\"t\":%d,\"what\":\"%s at offset %ld\"}\n", r->tid, op, off);
		}
		break;
	}
	}
}

int main(int argc, char **argv)
{
	const char *out = argc > 1 ? argv[1] : "/dev/null";
	g_seed = argc > 2 ? strtoull(argv[2], NULL, 0) : 1;
	int perturb = argc > 3 ? atoi(argv[3]) : 2;
	if (argc > 4) g_execs = atoi(argv[4]);
	if (argc > 5) g_ops = atoi(argv[5]);
	if (argc > 6) g_steered = atoi(argv[6]);
	vrt_init(out, g_seed, perturb);
	vrt_set_projector(proj);
	vrt_set_steer(steer);
	vrt_add_class("dg_state", 1);
	vrt_add_class("dg_bits", 1);
	vrt_add_class("dg_gen", 1);
	vrt_add_class("dg_notify", 2);   /* "_os_mpsc_tail (dg, dg_notify, )" / "_os_mpsc_head (dg, dg_notify, )" */
	vrt_add_class("do_next", 3);     /* links of the continuations (only registered ones are recorded) */
	vrt_add_class("__n", 2);         /* os_mpsc_get_head / os_mpsc_get_next loads */
	vrt_set_hang_seconds(25);
	(void)vrt_tid(); /* main = thread 0 */
	g_nq = dispatch_queue_create("c07.notify", DISPATCH_QUEUE_SERIAL);
	g_wq = dispatch_queue_create("c07.work", DISPATCH_QUEUE_CONCURRENT);
	pthread_barrier_init(&g_bar, NULL, NT + 1);
	pthread_t th[NT];
	for (long i = 0; i < NT; i++) pthread_create(&th[i], NULL, worker, (void *)i);
	int total = g_execs + g_steered;
	for (int e = 0; e < total; e++) {
		/* steered executions are spread over the run */
		int kind = (g_steered && (e % (total / g_steered)) == 0 && e / (total / g_steered) < g_steered) ? 1 : 0;
		vrt_pause(1);
		g_grp = dispatch_group_create();
		vrt_unregister_all();
		g_obj = vrt_register(g_grp, malloc_usable_size(g_grp), 1);
		vrt_pause(0);
		atomic_store(&g_shadow, 0); atomic_store(&g_sure_mask, 0);
		atomic_store(&g_next_tok, 0); atomic_store(&g_next_h, 0);
		for (int h = 0; h < MAXH; h++) {
			atomic_store(&g_snap[h], 0); atomic_store(&g_ran[h], 0);
			atomic_store(&g_registered[h], 0); atomic_store(&g_early[h], 0);
		}
		atomic_store(&g_t3_stalled, 0); atomic_store(&g_release_t3, 0);
		atomic_store(&g_exec_kind, kind);
		if (kind == 1) vrt_set_perturb(0);
		vrt_mark("Reset", kind, 0, 0);
		pthread_barrier_wait(&g_bar);
		pthread_barrier_wait(&g_bar);
		vrt_set_perturb(perturb);
		/* all explicit enters have been left; asynchronous work finishes by itself:
		 * an untimed wait must return 0 (a hang here is a waiter left behind) */
		if (do_wait(0, 0) != 0) oracle_fail("final untimed wait returned non-zero", 0, 0);
		/* the leaves of the asynchronous work have returned once a barrier has run */
		dispatch_barrier_sync(g_wq, ^{});
		/* the count is zero and stays zero: every notification must have been submitted, so it
		 * runs; one that does not is left behind */
		uint64_t dl = now_ns() + 15000000000ull;
		for (;;) {
			int missing = 0;
			for (int h = 0; h < MAXH; h++)
				if (atomic_load(&g_registered[h]) && atomic_load(&g_ran[h]) == 0) missing++;
			if (!missing) break;
			if (now_ns() > dl) {
				fprintf(stderr, "ORACLE-FAIL C07 %d notification(s) never ran although the count is zero\n", missing);
				vrt_fatal("Hang", missing, 71);
			}
			usleep(200);
		}
		dispatch_sync(g_nq, ^{});   /* a duplicate submission would have run by now */
		for (int h = 0; h < MAXH; h++)
			if (atomic_load(&g_registered[h]) && atomic_load(&g_ran[h]) != 1)
				oracle_fail("notification block did not run exactly once", h, atomic_load(&g_ran[h]));
		if (kind == 1 && atomic_load(&g_early[1])) atomic_fetch_add(&g_f2_steer_hits, 1);
		vrt_mark("End", kind, 0, 0);
		vrt_pause(1);
		dispatch_release(g_grp);
		vrt_pause(0);
		vrt_progress();
	}
	for (int i = 0; i < NT; i++) pthread_join(th[i], NULL);
	vrt_dump();
	fprintf(stderr, "records=%zu overflow=%d early_blocks=%d steered_f2_hits=%d\n", vrt_count(), vrt_overflowed(),
			atomic_load(&g_early_total), atomic_load(&g_f2_steer_hits));
	return atomic_load(&g_fail) ? 2 : 0;
}
