/* Steered schedule of finding F1 (see DESIGN.md section 9 and Lane.tla config Q1pF1) on the
 * REAL library: a drainer is stalled right before its final unlock, a third thread is stalled
 * as first enqueuer between its tail exchange and its head store / wakeup, then one thread
 * does dispatch_async(q, A); dispatch_sync(q, B).  On a tree where the barrier-sync fast path
 * does not look at dq_items_tail, B runs before A (exit 2).  The stalls only delay threads at
 * points where the kernel may preempt them.  exit 0: order respected; 4: steering did not take. */
#define _GNU_SOURCE
#include <dispatch/dispatch.h>
#include <stdio.h>
#include <string.h>
#include <stdatomic.h>
#include <pthread.h>
#include <unistd.h>
#include <time.h>
#include "verif_rt.h"

extern void (*_dispatch_verif_pre)(struct dispatch_verif_site_s *, const volatile void *);
static _Atomic int phase, w_stalled, t3_stalled, release_w, release_t3;
static __thread int role; /* 1 = T3 (first pusher), 2 = T1, 0 = workers */
static _Atomic int order;
static int ordA, ordB, ordX, ordI0;

static uint64_t now_ms(void) { struct timespec ts; clock_gettime(CLOCK_MONOTONIC, &ts); return (uint64_t)ts.tv_sec * 1000 + (uint64_t)ts.tv_nsec / 1000000; }

static void pre(struct dispatch_verif_site_s *s, const volatile void *addr)
{
	(void)addr;
	if (role == 0 && atomic_load(&phase) == 1 && !strcmp(s->dvs_func, "_dispatch_queue_drain_try_unlock")) {
		if (!atomic_exchange(&w_stalled, 1)) { uint64_t t0 = now_ms(); while (!atomic_load(&release_w) && now_ms() - t0 < 5000) usleep(100); }
	}
	if (role == 1 && atomic_load(&phase) == 2 && !strcmp(s->dvs_func, "_dispatch_lane_push") && !strcmp(s->dvs_op, "store")
			&& strstr(s->dvs_expr, "head")) {
		/* tail already exchanged, head not yet published, wakeup not yet issued.  Released by B starting
		 * (violation) or after 400 ms (the repaired fast path sends T1 to the slow path, which must wait for us) */
		if (!atomic_exchange(&t3_stalled, 1)) { uint64_t t0 = now_ms(); while (!atomic_load(&release_t3) && now_ms() - t0 < 400) usleep(100); }
	}
}

static dispatch_queue_t q;
static int concurrent, aaw;   /* aaw: the synchronous submission is dispatch_(barrier_)async_and_wait_f, whose fast path
                               * (_dispatch_async_and_wait_recurse_one) is a third caller of the same acquire function */
extern void dispatch_async_and_wait_f(dispatch_queue_t, void *, dispatch_function_t);
extern void dispatch_barrier_async_and_wait_f(dispatch_queue_t, void *, dispatch_function_t);
static void fX(void *c) { (void)c; ordX = ++order; }
static void fI0(void *c) { (void)c; ordI0 = ++order; }
static void fA(void *c) { (void)c; ordA = ++order; }
static void fB(void *c) { (void)c; ordB = ++order; atomic_store(&release_t3, 1); }
static void nop(void *c) { (void)c; }
static void *t3_main(void *a)
{
	(void)a; role = 1;
	if (concurrent) dispatch_barrier_async_f(q, NULL, fX); else dispatch_async_f(q, NULL, fX);
	return NULL;
}

int main(int argc, char **argv)
{
	concurrent = argc > 1 && !strcmp(argv[1], "concurrent");
	aaw = argc > 2 && !strcmp(argv[2], "aaw");
	_dispatch_verif_pre = pre;
	q = dispatch_queue_create("verif.f1", concurrent ? DISPATCH_QUEUE_CONCURRENT : DISPATCH_QUEUE_SERIAL);
	atomic_store(&phase, 1);
	if (concurrent) dispatch_barrier_async_f(q, NULL, fI0); else dispatch_async_f(q, NULL, fI0);
	uint64_t t0 = now_ms();
	while (!atomic_load(&w_stalled) && now_ms() - t0 < 3000) usleep(100);
	if (!atomic_load(&w_stalled)) { printf("steering failed: drainer did not reach its unlock\n"); return 4; }
	atomic_store(&phase, 2);
	pthread_t t3; pthread_create(&t3, NULL, t3_main, NULL);
	t0 = now_ms();
	while (!atomic_load(&t3_stalled) && now_ms() - t0 < 3000) usleep(100);
	if (!atomic_load(&t3_stalled)) { atomic_store(&release_w, 1); printf("steering failed: first enqueuer did not reach its head store\n"); return 4; }
	role = 2;
	if (concurrent) dispatch_barrier_async_f(q, NULL, fA); else dispatch_async_f(q, NULL, fA);
	atomic_store(&release_w, 1);
	usleep(50000);
	if (aaw) { if (concurrent) dispatch_barrier_async_and_wait_f(q, NULL, fB); else dispatch_async_and_wait_f(q, NULL, fB); }
	else if (concurrent) dispatch_barrier_sync_f(q, NULL, fB); else dispatch_sync_f(q, NULL, fB);
	atomic_store(&release_t3, 1);
	pthread_join(t3, NULL);
	dispatch_barrier_sync_f(q, NULL, nop);
	printf("order: I0=%d X=%d A=%d B=%d\n", ordI0, ordX, ordA, ordB);
	if (!ordA || !ordB || !ordX) { printf("an item did not run\n"); return 2; }
	if (ordB < ordA) { printf("FIFO VIOLATED: dispatch_async(A) returned before dispatch_sync(B) was called by the same thread, yet B ran first\n"); return 2; }
	printf("fifo ok\n");
	return 0;
}
