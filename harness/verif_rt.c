#define _GNU_SOURCE
#include "verif_rt.h"
#include <pthread.h>
#include <sched.h>
#include <signal.h>
#include <execinfo.h>
#include <stdlib.h>
#include <string.h>
#include <unistd.h>
#include <stdatomic.h>
#include <time.h>
#include <errno.h>

typedef void (*pre_t)(struct dispatch_verif_site_s *, const volatile void *);
typedef void (*post_t)(struct dispatch_verif_site_s *, const volatile void *,
		unsigned long long, unsigned long long, int, unsigned);
typedef void (*probe_t)(const char *, const volatile void *, long, long);
extern pre_t _dispatch_verif_pre;
extern post_t _dispatch_verif_post;
extern probe_t _dispatch_verif_probe;

#define MAXCLS 64
#define MAXOBJ 4096
static struct { const char *sub; int cls; } g_cls[MAXCLS];
static int g_ncls;
static struct { uintptr_t base; size_t len; int kind; } g_obj[MAXOBJ];
static _Atomic int g_nobj;
static pthread_mutex_t g_lock = PTHREAD_MUTEX_INITIALIZER;
static pthread_mutex_t g_reglock = PTHREAD_MUTEX_INITIALIZER;
static vrt_rec_t *g_rec;
static size_t g_cap = 1u << 20, g_n;
static int g_overflow;
static uint64_t g_seq;
static const char *g_out;
static uint64_t g_seed;
static _Atomic int g_perturb;
static _Atomic int g_paused;
static vrt_projector_t g_proj;
static _Atomic int g_ntid;
static _Atomic uint64_t g_progress;
static int g_hang_s = 60;
static int g_max_s = 0;   /* optional cap on the total run time (0 = none) */
static int g_probe_filter = 1;
static vrt_steer_t g_steer;
static _Atomic int g_dumped;

static __thread int t_tid = -1;
static __thread int t_held;
static __thread int t_hobj, t_hcls;
static __thread long t_hoff;
static __thread uint64_t t_rng;
static __thread int t_rmw_obj = -1, t_rmw_cls; static __thread long t_rmw_off;
static __thread const volatile void *t_rmw_addr; static __thread uint64_t t_rmw_val; static __thread unsigned t_rmw_size;
static __thread const volatile void *t_last_load_addr; static __thread uint64_t t_last_load_val;
static __thread int t_in_rt;

#include <sys/syscall.h>
#define MAXT 1024
static long g_ktid[MAXT];
long vrt_ktid(int vtid) { return vtid >= 0 && vtid < MAXT ? g_ktid[vtid] : -1; }
int vrt_tid_of_ktid(long k)
{
	int n = atomic_load(&g_ntid);
	for (int i = 0; i < n && i < MAXT; i++) if (g_ktid[i] == k) return i;
	return -1;
}
int vrt_nthreads(void) { return atomic_load(&g_ntid); }
int vrt_tid(void)
{
	if (t_tid < 0) {
		t_tid = atomic_fetch_add(&g_ntid, 1);
		if (t_tid < MAXT) g_ktid[t_tid] = (long)syscall(SYS_gettid);
		t_rng = (g_seed + 1) * 0x9E3779B97F4A7C15ull + (uint64_t)(t_tid + 1) * 0xBF58476D1CE4E5B9ull;
	}
	return t_tid;
}
uint64_t vrt_rand(void)
{
	(void)vrt_tid();
	uint64_t x = t_rng;
	x ^= x << 13; x ^= x >> 7; x ^= x << 17;
	t_rng = x;
	return x * 0x2545F4914F6CDD1Dull;
}
uint64_t vrt_seq(void) { return g_seq; }
void vrt_progress(void) { atomic_fetch_add(&g_progress, 1); }
void vrt_set_hang_seconds(int s) { g_hang_s = s; }
void vrt_set_max_seconds(int s) { g_max_s = s; }
void vrt_pause(int on) { atomic_store(&g_paused, on); }
void vrt_set_perturb(int level) { atomic_store(&g_perturb, level); }
void vrt_set_projector(vrt_projector_t fn) { g_proj = fn; }
void vrt_set_probe_filter(int on) { g_probe_filter = on; }
void vrt_set_steer(vrt_steer_t fn) { g_steer = fn; }
static vrt_steer_t g_post_steer;
/* 0: recorded atomics / probes are not progress for the watchdog (drivers that register objects the library touches
 * periodically on its own - a root queue's pool monitor - or that generate background traffic); API events and
 * vrt_progress() always are */
static int g_record_progress = 1;
void vrt_set_record_progress(int on) { g_record_progress = on; }
void vrt_set_post_steer(vrt_steer_t fn) { g_post_steer = fn; }
size_t vrt_count(void) { return g_n; }
const vrt_rec_t *vrt_get(size_t i) { return &g_rec[i]; }
int vrt_overflowed(void) { return g_overflow; }

void vrt_add_class(const char *sub, int cls)
{
	if (g_ncls < MAXCLS) { g_cls[g_ncls].sub = sub; g_cls[g_ncls].cls = cls; g_ncls++; }
}

int vrt_register(const void *base, size_t len, int kind)
{
	pthread_mutex_lock(&g_lock);
	pthread_mutex_lock(&g_reglock);
	int n = atomic_load(&g_nobj);
	if (n >= MAXOBJ) { pthread_mutex_unlock(&g_reglock); pthread_mutex_unlock(&g_lock); return -1; }
	g_obj[n].base = (uintptr_t)base; g_obj[n].len = len; g_obj[n].kind = kind;
	atomic_store(&g_nobj, n + 1);
	pthread_mutex_unlock(&g_reglock);
	pthread_mutex_unlock(&g_lock);
	return n;
}
void vrt_unregister_all(void) { pthread_mutex_lock(&g_lock); atomic_store(&g_nobj, 0); pthread_mutex_unlock(&g_lock); }

static int find_obj(const volatile void *addr, long *off)
{
	uintptr_t a = (uintptr_t)addr;
	int n = atomic_load(&g_nobj);
	for (int i = n - 1; i >= 0; i--) {
		if (a >= g_obj[i].base && a < g_obj[i].base + g_obj[i].len) {
			*off = (long)(a - g_obj[i].base);
			return i;
		}
	}
	return -1;
}

static int classify(struct dispatch_verif_site_s *s)
{
	int c = s->dvs_class;
	if (c) return c;
	c = -1;
	for (int i = 0; i < g_ncls; i++) {
		if (strstr(s->dvs_expr, g_cls[i].sub)) { c = g_cls[i].cls; break; }
	}
	s->dvs_class = c;
	return c;
}

static void perturb(void)
{
	int lvl = atomic_load(&g_perturb);
	if (!lvl) return;
	uint64_t r = vrt_rand();
	unsigned k = (unsigned)(r & 1023);
	if (lvl == 1) {
		if (k < 60) sched_yield();
	} else if (lvl == 2) {
		if (k < 80) sched_yield();
		else if (k < 100) usleep(20 + (unsigned)((r >> 10) & 255));
	} else {
		if (k < 100) sched_yield();
		else if (k < 130) usleep(20 + (unsigned)((r >> 10) & 511));
		else if (k < 134) usleep(2000 + (unsigned)((r >> 10) & 4095));
	}
}

static vrt_rec_t *newrec_p(int progress)
{
	if (g_n >= g_cap) { g_overflow = 1; return NULL; }
	vrt_rec_t *r = &g_rec[g_n++];
	memset(r, 0, sizeof(*r));
	r->seq = ++g_seq;
	r->tid = vrt_tid();
	r->obj = -1;
	if (progress && g_record_progress) atomic_fetch_add(&g_progress, 1);
	return r;
}
static vrt_rec_t *newrec(void) { return newrec_p(1); }

static void rt_pre_impl(struct dispatch_verif_site_s *s, const volatile void *addr)
{
	if (t_in_rt) return;
	int c = classify(s);
	if (!addr) return; /* fence / giveup: handled in post */
	if (c <= 0) return;
	long off = 0;
	int o = find_obj(addr, &off);      /* only a hint for the steering callback */
	t_in_rt = 1;
	perturb();
	if (g_steer) g_steer(s, addr, o);
	t_in_rt = 0;
	if (atomic_load(&g_paused)) return;
	/* The registry lookup that decides whether (and as what) this access is recorded is made UNDER the
	 * lock, after any perturbation sleep: registrations change under the same lock, so an access can
	 * never be attributed to an object registered later at the same index. */
	pthread_mutex_lock(&g_lock);
	o = find_obj(addr, &off);
	if ((o < 0 && c < VRT_CLASS_ANY) || atomic_load(&g_paused)) {
		pthread_mutex_unlock(&g_lock);
		return;
	}
	t_held = 1; t_hobj = o; t_hoff = off; t_hcls = c;
}

static void rt_post_impl(struct dispatch_verif_site_s *s, const volatile void *addr,
		unsigned long long ov, unsigned long long nv, int ok, unsigned size)
{
	if (t_in_rt) return;
	if (!addr) {
		/* giveup inside an rmw loop on a traced word */
		if (s->dvs_op[0] == 'g' && t_rmw_obj >= 0 && !atomic_load(&g_paused)) {
			pthread_mutex_lock(&g_lock);
			vrt_rec_t *r = newrec();
			if (r) {
				r->kind = VRT_ATOMIC; r->site = s; r->addr = t_rmw_addr;
				r->obj = t_rmw_obj; r->off = t_rmw_off; r->cls = t_rmw_cls; r->ok = 1;
				r->oldv = r->newv = t_rmw_val; r->size = t_rmw_size;   /* the value the loop decided on */
			}
			pthread_mutex_unlock(&g_lock);
			t_rmw_obj = -1;
		}
		return;
	}
	if (!t_held) return;
	int isload = s->dvs_op[0] == 'l';
	if (size < 8) { unsigned long long m = (1ull << (8 * size)) - 1; ov &= m; nv &= m; }
	/* collapse spin loops: identical consecutive loads by one thread */
	if (isload && t_last_load_addr == addr && t_last_load_val == ov && t_rmw_obj < 0) {
		goto out;
	}
	{
		vrt_rec_t *r = newrec();
		if (r) {
			r->kind = VRT_ATOMIC; r->site = s; r->addr = addr; r->oldv = ov; r->newv = nv;
			r->ok = ok; r->size = size; r->obj = t_hobj; r->off = t_hoff; r->cls = t_hcls;
		}
	}
	if (isload) { t_last_load_addr = addr; t_last_load_val = ov; }
	else t_last_load_addr = NULL;
	if (isload || (s->dvs_op[0] == 'c' && !ok)) {
		t_rmw_obj = t_hobj; t_rmw_off = t_hoff; t_rmw_cls = t_hcls; t_rmw_addr = addr; t_rmw_val = ov; t_rmw_size = size;
	} else {
		t_rmw_obj = -1;
	}
out:
	t_held = 0;
	int hobj = t_hobj;
	pthread_mutex_unlock(&g_lock);
	/* steering after the access became visible (e.g. hold a thread right after its unlock) */
	if (g_post_steer) { t_in_rt = 1; g_post_steer(s, addr, hobj); t_in_rt = 0; }
}

static void rt_probe_impl(const char *kind, const volatile void *obj, long a, long b)
{
	if (t_in_rt) return;
	long off = 0;
	int o = obj ? find_obj(obj, &off) : -1;
	if (g_probe_filter && o < 0) return;
	if (atomic_load(&g_paused)) return;
	t_in_rt = 1;
	perturb();
	t_in_rt = 0;
	pthread_mutex_lock(&g_lock);
	o = obj ? find_obj(obj, &off) : -1;      /* decided under the lock, see rt_pre */
	if ((g_probe_filter && o < 0) || atomic_load(&g_paused)) { pthread_mutex_unlock(&g_lock); return; }
	/* a probe on an object nobody registered (the manager's 1 Hz pool-monitor timer) is not progress of the test */
	vrt_rec_t *r = newrec_p(o >= 0);
	if (r) { r->kind = VRT_PROBE; r->name = kind; r->addr = obj; r->obj = o; r->off = off; r->a = a; r->b = b; }
	t_last_load_addr = NULL;
	pthread_mutex_unlock(&g_lock);
}

/* The callbacks run in the middle of library code that may look at errno afterwards (e.g. the sem_timedwait probe sits
 * between the call and its errno test): whatever the runtime does (locks, perturbation sleeps interrupted by a signal)
 * must not be visible there. */
static void rt_pre(struct dispatch_verif_site_s *s, const volatile void *addr) { int e = errno; rt_pre_impl(s, addr); errno = e; }
static void rt_post(struct dispatch_verif_site_s *s, const volatile void *addr, unsigned long long ov, unsigned long long nv, int ok, unsigned size)
{ int e = errno; rt_post_impl(s, addr, ov, nv, ok, size); errno = e; }
static void rt_probe(const char *kind, const volatile void *obj, long a, long b) { int e = errno; rt_probe_impl(kind, obj, a, b); errno = e; }

uint64_t vrt_api(const char *name, int obj, long a, long b, long c)
{
	uint64_t seq = 0;
	if (atomic_load(&g_paused)) return 0;
	pthread_mutex_lock(&g_lock);
	vrt_rec_t *r = newrec();
	if (!g_record_progress) atomic_fetch_add(&g_progress, 1);
	if (r) { r->kind = VRT_API; r->name = name; r->obj = obj; r->a = a; r->b = b; r->c = c; seq = r->seq; }
	else seq = ++g_seq;
	t_last_load_addr = NULL;
	pthread_mutex_unlock(&g_lock);
	return seq;
}

void vrt_mark(const char *name, long a, long b, long c)
{
	pthread_mutex_lock(&g_lock);
	vrt_rec_t *r = newrec();
	if (r) { r->kind = VRT_MARK; r->name = name; r->a = a; r->b = b; r->c = c; }
	pthread_mutex_unlock(&g_lock);
}

static void default_proj(FILE *f, const vrt_rec_t *r)
{
	switch (r->kind) {
	case VRT_ATOMIC:
		fprintf(f, "{\"n\":%llu,\"t\":%d,\"k\":\"atomic\",\"f\":\"%s\",\"x\":\"%s\",\"op\":\"%s\",\"mo\":\"%s\","
				"\"obj\":%d,\"off\":%ld,\"sz\":%u,\"old\":\"%llx\",\"new\":\"%llx\",\"ok\":%d}\n",
				(unsigned long long)r->seq, r->tid, r->site->dvs_func, r->site->dvs_expr, r->site->dvs_op,
				r->site->dvs_mo, r->obj, r->off, r->size, (unsigned long long)r->oldv,
				(unsigned long long)r->newv, r->ok);
		break;
	case VRT_PROBE:
		fprintf(f, "{\"n\":%llu,\"t\":%d,\"k\":\"probe\",\"e\":\"%s\",\"obj\":%d,\"off\":%ld,\"a\":%ld,\"b\":%ld}\n",
				(unsigned long long)r->seq, r->tid, r->name, r->obj, r->off, r->a, r->b);
		break;
	default:
		fprintf(f, "{\"n\":%llu,\"t\":%d,\"k\":\"%s\",\"e\":\"%s\",\"obj\":%d,\"a\":%ld,\"b\":%ld,\"c\":%ld}\n",
				(unsigned long long)r->seq, r->tid, r->kind == VRT_API ? "api" : "mark", r->name, r->obj,
				r->a, r->b, r->c);
	}
}

static void dump_with(const char *tail_event, long a)
{
	if (atomic_exchange(&g_dumped, 1)) return;
	if (!g_out) return;
	FILE *f = fopen(g_out, "w");
	if (!f) return;
	vrt_projector_t p = g_proj ? g_proj : default_proj;
	for (size_t i = 0; i < g_n; i++) p(f, &g_rec[i]);
	if (tail_event) fprintf(f, "{\"e\":\"%s\",\"a\":%ld}\n", tail_event, a);
	if (g_overflow) fprintf(f, "{\"e\":\"Overflow\"}\n");
	fclose(f);
}
void vrt_dump(void) { dump_with(NULL, 0); }
void vrt_fatal(const char *event, long a, int code)
{
	_dispatch_verif_pre = NULL; _dispatch_verif_post = NULL; _dispatch_verif_probe = NULL;
	dump_with(event, a);
	fprintf(stderr, "VRT: fatal %s (%ld)\n", event, a);
	_exit(code);
}

static void on_signal(int sig)
{
	/* an internal DISPATCH_*_CRASH (ud2 => SIGILL) or a memory error: keep the evidence */
	_dispatch_verif_pre = NULL; _dispatch_verif_post = NULL; _dispatch_verif_probe = NULL;
	/* where: the crashing thread's stack (addresses; `addr2line -f -e <driver>` names them) */
	{
		void *bt[32];
		int n = backtrace(bt, 32);
		fprintf(stderr, "VRT: backtrace of the crashing thread (tid %d):\n", vrt_tid());
		backtrace_symbols_fd(bt, n, 2);
	}
	dump_with("Crash", sig);
	fprintf(stderr, "VRT: fatal signal %d\n", sig);
	_exit(70);
}

static void on_term(int sig)
{
	(void)sig;
	_dispatch_verif_pre = NULL; _dispatch_verif_post = NULL; _dispatch_verif_probe = NULL;
	dump_with("Hang", -1);
	fprintf(stderr, "VRT: terminated by an outer timeout (livelock or extreme slowness)\n");
	_exit(71);
}

static void *watchdog(void *arg)
{
	(void)arg;
	uint64_t last = atomic_load(&g_progress);
	int idle = 0, total = 0;
	for (;;) {
		sleep(1);
		if (g_max_s > 0 && ++total >= g_max_s) {
			_dispatch_verif_pre = NULL; _dispatch_verif_post = NULL; _dispatch_verif_probe = NULL;
			dump_with("Hang", -2);
			fprintf(stderr, "VRT: still running after %d s (livelock)\n", total);
			_exit(71);
		}
		uint64_t cur = atomic_load(&g_progress);
		if (cur != last) { last = cur; idle = 0; continue; }
		if (++idle >= g_hang_s) {
			_dispatch_verif_pre = NULL; _dispatch_verif_post = NULL; _dispatch_verif_probe = NULL;
			dump_with("Hang", idle);
			fprintf(stderr, "VRT: no progress for %d s (hang)\n", idle);
			_exit(71);
		}
	}
	return NULL;
}

/* Signal storm (environment perturbation): VRT_SIGNAL_STORM_US=<period> makes a helper thread deliver SIGUSR2 (no-op
 * handler installed WITHOUT SA_RESTART) to a random known thread every period: blocking system calls of the library
 * (futex wait, sem_wait, epoll_wait) return EINTR at arbitrary moments, as they may in any process with signal
 * handlers.  The library has to treat that as "nothing happened". */
static void storm_handler(int sig) { (void)sig; }
static void *storm_thread(void *arg)
{
	unsigned period = (unsigned)(uintptr_t)arg;
	uint64_t x = g_seed * 0x9e3779b97f4a7c15ull + 12345;
	for (;;) {
		usleep(period);
		int n = atomic_load(&g_ntid);
		if (n <= 0) continue;
		x ^= x << 13; x ^= x >> 7; x ^= x << 17;
		long k = g_ktid[(int)(x % (uint64_t)(n < MAXT ? n : MAXT))];
		if (k > 0) syscall(SYS_tgkill, (long)getpid(), k, SIGUSR2);
	}
	return NULL;
}

void vrt_init(const char *outpath, uint64_t seed, int perturb_level)
{
	g_out = outpath;
	g_seed = seed;
	const char *cap = getenv("VRT_CAP");
	if (cap) g_cap = strtoul(cap, NULL, 0);
	g_rec = (vrt_rec_t *)calloc(g_cap, sizeof(vrt_rec_t));
	atomic_store(&g_perturb, perturb_level);
	(void)vrt_tid();
	struct sigaction sa;
	memset(&sa, 0, sizeof(sa));
	sa.sa_handler = on_signal;
	sigaction(SIGSEGV, &sa, NULL); sigaction(SIGILL, &sa, NULL); sigaction(SIGABRT, &sa, NULL);
	sigaction(SIGBUS, &sa, NULL); sigaction(SIGTRAP, &sa, NULL); sigaction(SIGFPE, &sa, NULL);
	struct sigaction st;
	memset(&st, 0, sizeof(st));
	st.sa_handler = on_term;       /* killed by an outer timeout: keep the evidence */
	sigaction(SIGTERM, &st, NULL);
	const char *storm = getenv("VRT_SIGNAL_STORM_US");
	if (storm && atoi(storm) > 0) {
		struct sigaction ss;
		memset(&ss, 0, sizeof(ss));
		ss.sa_handler = storm_handler;      /* no SA_RESTART */
		sigaction(SIGUSR2, &ss, NULL);
		pthread_t st;
		pthread_create(&st, NULL, storm_thread, (void *)(uintptr_t)atoi(storm));
		pthread_detach(st);
	}
	pthread_t wd;
	pthread_create(&wd, NULL, watchdog, NULL);
	pthread_detach(wd);
	_dispatch_verif_post = rt_post;
	_dispatch_verif_probe = rt_probe;
	_dispatch_verif_pre = rt_pre;
}
