/* Driver for C11, layer 3: the invariants of spec/Timer.tla evaluated as oracles on REAL timers.
 *
 * One process = one seeded random population of N concurrently pending timers:
 *   - timer sources (DISPATCH_SOURCE_TYPE_TIMER, optionally DISPATCH_TIMER_STRICT), one-shot or repeating,
 *     on the three clocks (dispatch_time(DISPATCH_TIME_NOW..) = uptime, dispatch_time(DISPATCH_MONOTONICTIME_NOW..),
 *     dispatch_walltime / DISPATCH_WALLTIME_NOW), starts in the past / now / 1..300 ms ahead / FOREVER,
 *     each with a history of set_timer (from its own target queue, from inside its handler, or from a foreign
 *     thread), suspend/resume and cancel, so that the three heaps pass through many shapes;
 *   - dispatch_after / dispatch_after_f blocks on the three clocks.
 * Oracles (names = invariants of Timer.tla), evaluated inside every handler with the clock the start was
 * expressed in, read through the library's own _dispatch_uptime/_dispatch_monotonic_time/_dispatch_get_nanoseconds:
 *   NeverEarly       now >= start of the configuration being followed (start computed BEFORE arming)
 *   CountBound       cumulative dispatch_source_get_data for a configuration <= floor((now-start)/interval)+1
 *   OnlyNewConfig    after a set_timer only the new start/interval are followed: own-queue controlled timers (set_timer on
 *                    the timer's serial target queue or inside the handler) are judged against the generation in force on
 *                    that queue; foreign-thread controlled timers against the generation G derived below (the only "old"
 *                    invocation that is legitimate is one whose invoke looked for a configuration before the publication)
 *   AfterAtMostOnce / exactly once for dispatch_after
 *   Fires            every armed, unsuspended, uncancelled timer is invoked (waits generously; a miss is a
 *                    violation only when the process is quiescent with the timer overdue by 10 s, or after 45 s)
 * WHICH configuration an invocation has to follow (Timer.tla: TInvoke sees pend.gen = 0, TLatch evaluates the laws on
 * the configuration applied then; a SetTimer between the two is the only way an "old" invocation is legitimate):
 * _dispatch_source_invoke2 delivers (latch_and_call) only after its load of dt_pending_config returned NULL, i.e. every
 * configuration whose publication (the xchg in dispatch_source_set_timer) precedes that load has been applied by
 * _dispatch_timer_unote_configure, which also cleared the pending data.  Both words are hooked atomics: the driver
 * serialises the accesses to dt_pending_config of its timers (pre/post callbacks of shims/atomic.h) and counts the
 * publications, so inside the handler (same thread, same invoke2) it knows EXACTLY the generation G the invocation has
 * to follow: the number of publications that preceded the needs-configuration load of this very invoke.  Scheduling
 * delay cannot make this wrong in either direction (no wall-clock reasoning at all).
 * Reconfiguration scenarios (about a third of the sources), each followed by the oracles above:
 *   A fire while the source is suspended (the timer leaves the heap with count<<1|DISARMED_MARKER), set_timer, resume
 *   B fire twice while the serial target queue is busy (second fire disarms), set_timer (foreign thread during the
 *     busy period / own queue right behind the busy block), queue drains
 *   C slow handler (timer is disarmed behind its back) that calls set_timer itself
 *   D one-shot that already fired, set_timer
 * and the statistics `configure_on_disarmed_pending` = configures that found count<<1|MARKER in ds_pending_data.
 * Directed population (environment C11_STEER_CFG_WINDOW=<us>, used by tools/props/C11.py): see gen_scenario / hook_pre; a
 * failing invocation whose latch fell between "configuration taken" and "pending data cleared" of a configure running on
 * another thread is reported with signature=configure-window (known finding configure-window-latch-race).
 * C11_TRACE_ONLY=1 (demonstrations): record the trace without judging in the driver.
 * Trace mode (5th argument): every start/interval is a whole microsecond and the guarded H5 probes of
 * event.c / event_epoll.c (manager-side decisions: arm, disarm, run, fire, program, timerfd event, blocking
 * epoll_wait) are recorded and written as ndjson for spec/TimerTrace.tla, times in microseconds since a base.
 * usage: drv_timer <seed> <ntimers> <span_ms> [<failure-out> [<trace-out>]]
 * exit 0 ok, 2 oracle failed, 70 crash inside the library, 71 a timer never fired. */
#define _GNU_SOURCE
#include "internal.h"
#ifndef __DISPATCH_INDIRECT__
#define __DISPATCH_INDIRECT__ 1
#define C11_UNDEF_INDIRECT 1
#endif
#include "time_private.h"      /* DISPATCH_MONOTONICTIME_NOW (private/time_private.h of this tree) */
#ifdef C11_UNDEF_INDIRECT
#undef __DISPATCH_INDIRECT__
#endif
#include <dirent.h>
#include <pthread.h>
#include <signal.h>
#include <stdatomic.h>
#include <stdio.h>
#include <stdlib.h>
#include <string.h>
#include <unistd.h>

#define MAXG 12
#define MAXOPS 8
#define HSLOTS 4096
#define NLOG 24
#define FAR_NS (5ull * NSEC_PER_SEC)
enum { K_SOURCE = 0, K_AFTER = 1, K_AFTER_F = 2 };
enum { OP_SET_OWN = 1, OP_SET_FOREIGN, OP_SUSPEND, OP_RESUME, OP_CANCEL, OP_BUSY };
enum { SC_RANDOM = 0, SC_SUSP_FIRE, SC_BUSY_QUEUE, SC_SLOW_HANDLER, SC_ONESHOT_FIRED, SC_CFG_WINDOW, SC_RESET_ARMED, SC_N };

typedef struct {
	int clock;            /* DISPATCH_CLOCK_UPTIME / MONOTONIC / WALL */
	int forever;          /* start == DISPATCH_TIME_FOREVER */
	int exact;            /* start is the exact target (else a lower bound: DISPATCH_TIME_NOW forms) */
	uint64_t start;       /* on `clock` */
	uint64_t interval;    /* 0 = one-shot */
	uint64_t wall0, up0;  /* readings at publication (detect a stepped wall clock) */
} cfg_t;

typedef struct { int kind; int64_t delta_ns; int how; uint64_t interval_ns, leeway_ns; int clock; } cfgspec_t;
typedef struct { int op; uint64_t at_ms; cfgspec_t spec; uint64_t dur_us; } op_t;
typedef struct { char what; int gen; uint64_t now, data, aux; } logrec_t;

typedef struct tmr {
	int id, kind, own, strict;
	dispatch_source_t ds;
	dispatch_queue_t q;
	cfg_t cfgs[MAXG];
	_Atomic int gen_pub, gen_done;
	int cur;                       /* own-queue controlled: generation in force (touched on q only) */
	uint64_t cum[MAXG];            /* cumulative get_data attributed to generation g */
	int last_done_prev;            /* foreign controlled: gen_done at the entry of the previous invocation */
	_Atomic int ninv, ninv_settled, suspended, cancelled;
	_Atomic uint64_t settle_up;    /* uptime after which an invocation counts for the final "fires" obligation */
	int inh_at; cfgspec_t inh_spec; /* set_timer from inside the handler at invocation number inh_at */
	int scen; int slow_at; uint64_t slow_us;   /* scenario; handler sleeps slow_us at invocation slow_at */
	/* binding to the hooked words (guarded by hl) */
	_Atomic int hl, cfg_window; int gen_x;     /* publications so far: xchg(dt_pending_config, new) in dispatch_source_set_timer */
	int take_th[MAXG], latch_th;               /* thread that took configuration g / that latched last (guarded by hl) */
	/* directed re-set population (see directed_reset) */
	_Atomic uint64_t inv_up[2], set_up, hret_up; _Atomic int cancelled_done; uint64_t slow_after_us; int chain, dir_how;
	const void *dt;
	op_t ops[MAXOPS]; int nops;
	cfgspec_t first;
	/* dispatch_after */
	cfg_t acfg; _Atomic int aruns;
	logrec_t log[NLOG]; _Atomic int nlog;
} tmr_t;

static tmr_t *T; static int N;
static uint64_t g_seed; static const char *g_failout;
static _Atomic int g_fail;
static _Atomic long g_invocations, g_checks_exact, g_checks_weak, g_zero_data, g_inconclusive, g_after_runs, g_sets;
static _Atomic long g_checks_bound, g_bind_mismatch, g_cfg_disarmed_pending, g_cfg_armed_pending, g_cfgs, g_cfg_unclosed;
static long g_scen[SC_N], g_trace_cfgs, g_trace_offmgr_heap, g_trace_offmgr_takes;
static int g_directed;     /* C11_DIRECTED_RESET=1: the directed re-set population (directed_reset) */
static _Atomic long g_dir_rounds, g_dir_detectable, g_dir_ontime, g_dir_late_unproven, g_dir_inconclusive, g_dir_reset_while_armed, g_dir_applied_by_mgr, g_dir_max_late_us;
static uint64_t g_t0_up;
static uint64_t g_span_ms;
static int g_trace_only;   /* C11_TRACE_ONLY=1 (demonstrations only): record the trace, do not judge in the driver */

/* ---- trace mode ---- */
static const char *g_traceout;
typedef struct { const char *kind; const void *obj; long a, b; int th; } prec_t;
/* ownership (Timer.tla: the heaps and the timerfds belong to the manager): every record carries the thread that made it;
 * the manager is the thread that enters epoll_wait / merges timerfd events (probes tm_wait, tm_kevent) */
static _Atomic int g_nth, g_mgr_th, g_mgr_threads; static __thread int tl_th;
static int my_th(void) { if (!tl_th) tl_th = atomic_fetch_add(&g_nth, 1) + 1; return tl_th; }
static void note_manager(void)
{
	int me = my_th(), cur = atomic_load(&g_mgr_th);
	if (cur == me) return;
	if (cur == 0 && atomic_compare_exchange_strong(&g_mgr_th, &cur, me)) { atomic_fetch_add(&g_mgr_threads, 1); return; }
	if (cur != me) atomic_fetch_add(&g_mgr_threads, 1);      /* a second thread in the manager's loop: reported as drift */
}
#define PCAP (1u << 21)
static prec_t *g_prec; static _Atomic unsigned g_nprec; static _Atomic int g_plock;
static uint64_t g_base[3];
extern void (*_dispatch_verif_probe)(const char *, const volatile void *, long, long);
static void probe_cb(const char *kind, const volatile void *obj, long a, long b)
{
	if (kind[0] != 't' || kind[1] != 'm' || kind[2] != '_') return;
	if (kind[3] == 'w' || (kind[3] == 'k' && kind[4] == 'e')) note_manager();      /* tm_wait, tm_kevent */
	if (!g_prec) return;
	while (atomic_exchange_explicit(&g_plock, 1, memory_order_acquire)) { }
	unsigned i = atomic_load(&g_nprec);
	if (i < PCAP) { g_prec[i] = (prec_t){ kind, (const void *)obj, a, b, my_th() }; atomic_store(&g_nprec, i + 1); }
	atomic_store_explicit(&g_plock, 0, memory_order_release);
}

/* ---- the two words of a timer the property speaks about, observed through the hooked atomics ----
 * dt_pending_config: accesses of registered timers are serialised (pre locks, post unlocks) so that "publication
 *                    precedes the needs-configuration load" is decided exactly;
 * ds_pending_data:   the first access of a thread after its xchg in _dispatch_timer_unote_configure is reported
 *                    (trace mode: record "configure" for TimerTrace.tla, law ConfigureClearsPending). */
static struct { const void *_Atomic dt; struct tmr *t; } g_map[HSLOTS];
static unsigned hslot(const void *p) { return (unsigned)((((uintptr_t)p) >> 4) * 2654435761u) % HSLOTS; }
static void map_timer(const void *dt, struct tmr *t)
{
	unsigned i = hslot(dt);
	/* (the directed population releases its sources: an address may come back; the newest timer owns it) */
	while (atomic_load(&g_map[i].dt) && atomic_load(&g_map[i].dt) != dt) i = (i + 1) % HSLOTS;
	g_map[i].t = t; atomic_store(&g_map[i].dt, dt);
}
static struct tmr *timer_of(const void *dt)
{
	for (unsigned i = hslot(dt);; i = (i + 1) % HSLOTS) {
		const void *d = atomic_load(&g_map[i].dt);
		if (!d) return NULL;
		if (d == dt) return g_map[i].t;
	}
}
static __thread struct { struct tmr *t; int gen; int isnull; int done; } tl_chk;   /* this thread's last look at a dt_pending_config */
static __thread struct tmr *tl_locked;
static __thread struct { struct tmr *t; const void *dt; uint64_t pend; } tl_cfg;   /* configure in progress on this thread */
static __thread struct { struct tmr *t; uint64_t val; } tl_preclear;                /* configure cleared before taking (value it overwrote) */
static __thread struct { struct tmr *t; int in_window; } tl_latch;                 /* this thread's last latch (xchg ds_pending_data) */
static __thread struct { struct tmr *t; int marker; } tl_lastlatch;                 /* the same, kept: did the latched value carry the DISARMED marker */
static _Atomic long g_take_tq_marker, g_take_tq_nomarker, g_take_nolatch, g_take_armed;
/* C11_STEER_CFG_WINDOW=<us> (directed population): when _dispatch_timers_run calls _dispatch_timer_unote_configure, stall the
 * manager between the two accesses "take the configuration" (xchg dt_pending_config -> NULL) and "clear ds_pending_data",
 * in whichever order the library performs them, i.e. a preemption of the manager thread at that instruction */
static unsigned g_steer_us; static __thread int tl_from_run, tl_cfg_phase;
static _Atomic long g_steer_stalls, g_window_latches;
static void tlog(struct tmr *t, char what, int gen, uint64_t now, uint64_t data, uint64_t aux);

static void prec_add(const char *kind, const void *obj, long a, long b)
{
	while (atomic_exchange_explicit(&g_plock, 1, memory_order_acquire)) { }
	unsigned i = atomic_load(&g_nprec);
	if (i < PCAP) { g_prec[i] = (prec_t){ kind, obj, a, b, my_th() }; atomic_store(&g_nprec, i + 1); }
	atomic_store_explicit(&g_plock, 0, memory_order_release);
}
/* site classes: 1 dt_pending_config; ds_pending_data: 3 the latch (xchg in _dispatch_source_latch_and_call), 4 the clearing
 * store of _dispatch_timer_unote_configure, 2 any other access; -1 other words.  Classes 1, 3, 4 are serialised per timer. */
static int site_class(struct dispatch_verif_site_s *site)
{
	int c = site->dvs_class;
	if (c == 0) {      /* classified once per site (idempotent) */
		if (strstr(site->dvs_expr, "dt_pending_config")) c = 1;
		else if (!strstr(site->dvs_expr, "ds_pending_data")) c = -1;
		else if (!strcmp(site->dvs_op, "xchg") && strstr(site->dvs_func, "_dispatch_source_latch_and_call")) c = 3;
		else if (!strcmp(site->dvs_op, "store") && strstr(site->dvs_func, "_dispatch_timer_unote_configure")) c = 4;
		else c = 2;
		site->dvs_class = c;
	}
	return c;
}
static const void *dt_of(int c, const volatile void *addr)
{
	return (const char *)addr - (c == 1 ? offsetof(struct dispatch_timer_source_refs_s, dt_pending_config)
			: offsetof(struct dispatch_timer_source_refs_s, ds_pending_data));
}
static void hook_pre(struct dispatch_verif_site_s *site, const volatile void *addr)
{
	int c = site_class(site);
	if (c < 0 || c == 2) return;
	struct tmr *t = timer_of(dt_of(c, addr));
	if (!t) return;
	if (g_steer_us && tl_from_run && (c == 4 || (c == 1 && site->dvs_op[0] == 'x' && strstr(site->dvs_func, "_dispatch_timer_unote_configure")))) {
		if (!tl_cfg_phase) tl_cfg_phase = 1;
		else { tl_cfg_phase = 0; if (t->scen == SC_CFG_WINDOW) { atomic_fetch_add(&g_steer_stalls, 1); tlog(t, 'Z', 0, _dispatch_uptime(), 0, 0); usleep(g_steer_us); } }
	}
	for (unsigned spins = 0; atomic_exchange_explicit(&t->hl, 1, memory_order_acquire); spins++) if (spins > 200) sched_yield();
	tl_locked = t;
	if (c == 4 && tl_cfg.t != t) { tl_preclear.t = t; tl_preclear.val = *(volatile uint64_t *)addr; }
}
static void hook_post(struct dispatch_verif_site_s *site, const volatile void *addr, unsigned long long ov,
		unsigned long long nv, int ok, unsigned size)
{
	int c = site_class(site);
	(void)ok; (void)size;
	if (c < 0) return;
	struct tmr *t = c == 2 ? NULL : tl_locked;
	if (t) {
		tl_locked = NULL;
		if (c == 1 && site->dvs_op[0] == 'x' && nv != 0) {       /* dispatch_source_set_timer publishes a configuration */
			t->gen_x++;
		} else if (c == 1 && site->dvs_op[0] == 'x') {           /* _dispatch_timer_unote_configure takes it */
			/* pending data of the replaced configuration that this configure finds: in the word now, or already
			 * overwritten by this thread if the library clears before it takes */
			uint64_t at_take = *(volatile uint64_t *)&((dispatch_timer_source_refs_t)t->dt)->ds_pending_data;
			uint64_t pend = at_take ? at_take : tl_preclear.t == t ? tl_preclear.val : 0;
			tl_preclear.t = NULL;
			tl_chk.t = t; tl_chk.gen = t->gen_x; tl_chk.isnull = 1; tl_chk.done = atomic_load(&t->gen_done);
			if (tl_cfg.t) atomic_fetch_add(&g_cfg_unclosed, 1);
			tl_cfg.t = t; tl_cfg.dt = t->dt; tl_cfg.pend = pend;
			atomic_fetch_add(&g_cfgs, 1);
			if (pend & DISPATCH_TIMER_DISARMED_MARKER) atomic_fetch_add(&g_cfg_disarmed_pending, 1);
			else if (pend) atomic_fetch_add(&g_cfg_armed_pending, 1);
			if (at_take) atomic_store(&t->cfg_window, 1);       /* taken, pending data of the old configuration not cleared yet */
			/* who takes it (Timer.tla OffManagerMayConfigure): lm = 1 / 0 this thread is delivering this timer and the data it
			 * latched had / had not the DISARMED marker, -1 it never latched this timer (the manager, or activation) */
			{
				int lm = tl_lastlatch.t == t ? tl_lastlatch.marker : -1;
				int armed = _dispatch_unote_armed((dispatch_timer_source_refs_t)t->dt) ? 1 : 0;
				atomic_fetch_add(lm == 1 ? &g_take_tq_marker : lm == 0 ? &g_take_tq_nomarker : &g_take_nolatch, 1);
				if (armed) atomic_fetch_add(&g_take_armed, 1);
				t->take_th[t->gen_x < MAXG ? t->gen_x : MAXG - 1] = my_th();
				if (g_traceout && g_prec) prec_add("tm_cfgtake", t->dt, lm, armed);
			}
		} else if (c == 1 && site->dvs_op[0] == 'l') {           /* needs_configuration / needs_rearm / timers_run */
			tl_chk.t = t; tl_chk.gen = t->gen_x; tl_chk.isnull = (ov == 0); tl_chk.done = atomic_load(&t->gen_done);
			tl_from_run = ov != 0 && strstr(site->dvs_func, "_dispatch_timers_run") != NULL; tl_cfg_phase = 0;
		} else if (c == 3) {                                     /* the latch of the invoke that is about to call the handler */
			tl_latch.t = t; tl_latch.in_window = ov != 0 && atomic_load(&t->cfg_window);
			tl_lastlatch.t = t; tl_lastlatch.marker = (ov & DISPATCH_TIMER_DISARMED_MARKER) ? 1 : 0; t->latch_th = my_th();
			if (tl_latch.in_window) atomic_fetch_add(&g_window_latches, 1);
		} else if (c == 4) {
			atomic_store(&t->cfg_window, 0);
		}
		atomic_store_explicit(&t->hl, 0, memory_order_release);
	}
	if (c >= 2 && tl_cfg.t) {
		/* first access of this thread to the ds_pending_data of the timer it has just configured */
		if (dt_of(c, addr) != tl_cfg.dt) return;
		const char *op = site->dvs_op;
		long opc = !strcmp(op, "store") ? 1 : !strcmp(op, "xchg") ? 2 : !strcmp(op, "load") ? 3 : 4;
		/* a load inside configure itself decides nothing (a benign "if (pending) clear" stays quiet) */
		if (opc == 3 && strstr(site->dvs_func, "_dispatch_timer_unote_configure")) return;
		if (g_traceout && g_prec)
			prec_add("tm_configure", tl_cfg.dt, (long)(tl_cfg.pend > 3 ? 2 | (tl_cfg.pend & 1) : tl_cfg.pend),
					(opc << 16) | ((ov > 255 ? 255 : (long)ov) << 8) | (nv > 255 ? 255 : (long)nv));
		atomic_store(&tl_cfg.t->cfg_window, 0);
		tl_cfg.t = NULL;
	}
}

static uint64_t rng_state;
static uint64_t rnd(void) { uint64_t z = (rng_state += 0x9e3779b97f4a7c15ull); z = (z ^ (z >> 30)) * 0xbf58476d1ce4e5b9ull; z = (z ^ (z >> 27)) * 0x94d049bb133111ebull; return z ^ (z >> 31); }
static uint64_t rndin(uint64_t lo, uint64_t hi) { return lo + rnd() % (hi - lo + 1); }

static uint64_t clock_now(int clock)
{
	switch (clock) {
	case DISPATCH_CLOCK_UPTIME: return _dispatch_uptime();
	case DISPATCH_CLOCK_MONOTONIC: return _dispatch_monotonic_time();
	default: return _dispatch_get_nanoseconds();
	}
}
static const char *CLK[] = { "uptime", "monotonic", "wall" };

static void tlog(tmr_t *t, char what, int gen, uint64_t now, uint64_t data, uint64_t aux)
{
	int i = atomic_fetch_add(&t->nlog, 1) % NLOG;
	t->log[i] = (logrec_t){ what, gen, now, data, aux };
}

static void dump_timer(FILE *f, tmr_t *t)
{
	static const char *SCN[] = { "random", "fire-while-suspended,set_timer,resume", "fire-while-target-queue-busy,set_timer", "slow-handler-sets-timer", "one-shot-fired,set_timer",
			"one fire pending behind a busy queue,set_timer,second fire configures in _dispatch_timers_run (manager stalled),queue drains",
			"armed repeating timer on a private serial queue re-sets itself from its own handler, process otherwise idle" };
	fprintf(f, "{\"timer\":%d,\"kind\":%d,\"scenario\":\"%s\",\"own_queue_controlled\":%d,\"gen_pub\":%d,\"gen_done\":%d,\"cur\":%d,\"publications_seen\":%d,\"configs\":[",
			t->id, t->kind, SCN[t->scen], t->own, atomic_load(&t->gen_pub), atomic_load(&t->gen_done), t->cur, t->gen_x);
	for (int g = 1; g <= atomic_load(&t->gen_pub) && g < MAXG; g++)
		fprintf(f, "%s{\"gen\":%d,\"clock\":\"%s\",\"forever\":%d,\"exact\":%d,\"start\":%llu,\"interval\":%llu,\"reported\":%llu}", g > 1 ? "," : "", g,
				CLK[t->cfgs[g].clock], t->cfgs[g].forever, t->cfgs[g].exact, (unsigned long long)t->cfgs[g].start,
				(unsigned long long)t->cfgs[g].interval, (unsigned long long)t->cum[g]);
	fprintf(f, "],\"last_events(what,gen,now,data,aux)\":[");
	int n = atomic_load(&t->nlog), from = n > NLOG ? n - NLOG : 0;
	for (int i = from; i < n; i++) { logrec_t *r = &t->log[i % NLOG];
		fprintf(f, "%s[\"%c\",%d,%llu,%llu,%llu]", i > from ? "," : "", r->what, r->gen, (unsigned long long)r->now, (unsigned long long)r->data, (unsigned long long)r->aux); }
	fprintf(f, "]}");
}

/* signature of the failing invocation, for the check's known-findings matching: "configure-window" = the data it delivered was
 * latched while _dispatch_timer_unote_configure (on the manager) had taken the new configuration but not yet cleared
 * ds_pending_data */
static __thread const char *tl_sig = "";
static void oracle_fail(tmr_t *t, const char *law, const char *detail, uint64_t a, uint64_t b)
{
	if (g_trace_only) return;
	if (atomic_exchange(&g_fail, 1)) return;
	fprintf(stderr, "ORACLE-FAIL C11 %s: %s (timer %d, a=%llu b=%llu, seed=%llu)%s%s\n", law, detail, t->id,
			(unsigned long long)a, (unsigned long long)b, (unsigned long long)g_seed, *tl_sig ? " signature=" : "", tl_sig);
	dump_timer(stderr, t); fprintf(stderr, "\n");
	if (g_failout) { FILE *f = fopen(g_failout, "w"); if (f) {
		fprintf(f, "{\"law\":\"%s\",\"signature\":\"%s\",\"detail\":\"%s\",\"a\":%llu,\"b\":%llu,\"seed\":%llu,\"ntimers\":%d,\"span_ms\":%llu,\"steer_us\":%u,\"timer\":", law, tl_sig, detail,
				(unsigned long long)a, (unsigned long long)b, (unsigned long long)g_seed, N, (unsigned long long)g_span_ms, g_steer_us);
		dump_timer(f, t); fprintf(f, "}\n"); fclose(f); } }
}

/* a wall clock that was stepped between publication and now makes wall comparisons meaningless */
static int wall_stepped(const cfg_t *c)
{
	if (c->clock != DISPATCH_CLOCK_WALL) return 0;
	int64_t dw = (int64_t)(_dispatch_get_nanoseconds() - c->wall0), du = (int64_t)(_dispatch_uptime() - c->up0);
	int64_t d = dw - du; if (d < 0) d = -d;
	return d > 20 * (int64_t)NSEC_PER_MSEC;
}

/* build the dispatch_time_t for a spec and the configuration record the oracle will use */
static dispatch_time_t make_when(const cfgspec_t *s, cfg_t *c)
{
	dispatch_time_t when;
	memset(c, 0, sizeof(*c));
	c->wall0 = _dispatch_get_nanoseconds(); c->up0 = _dispatch_uptime();
	c->interval = s->interval_ns;
	if (s->how == 3) { c->forever = 1; c->clock = -1; return DISPATCH_TIME_FOREVER; }
	if (g_traceout) {   /* a start that is a whole microsecond on its clock, built with dispatch_time() only */
		dispatch_time_t t0 = dispatch_time(s->clock == DISPATCH_CLOCK_UPTIME ? DISPATCH_TIME_NOW :
				s->clock == DISPATCH_CLOCK_MONOTONIC ? DISPATCH_MONOTONICTIME_NOW : DISPATCH_WALLTIME_NOW, 0);
		dispatch_clock_t clk0; uint64_t v0;
		_dispatch_time_to_clock_and_value(t0, &clk0, &v0);
		int64_t dl = s->how == 2 ? 0 : s->delta_ns;
		if (dl > 1500 * (int64_t)NSEC_PER_SEC) dl = 1500 * (int64_t)NSEC_PER_SEC;   /* microseconds since the base must fit 31 bits */
		int64_t desired = (int64_t)v0 + dl;
		desired -= desired % 1000;
		when = dispatch_time(t0, desired - (int64_t)v0);
		dispatch_clock_t clk; uint64_t value;
		_dispatch_time_to_clock_and_value(when, &clk, &value);
		c->clock = (int)clk; c->start = value; c->exact = 1;
		if (when == DISPATCH_TIME_FOREVER || value == DISPATCH_TIME_FOREVER) c->forever = 1;
		return when;
	}
	if (s->how == 2) { /* the literal "now" constants: the library reads the clock itself: lower bound */
		c->clock = s->clock; c->exact = 0; c->start = clock_now(s->clock);
		return s->clock == DISPATCH_CLOCK_UPTIME ? DISPATCH_TIME_NOW : s->clock == DISPATCH_CLOCK_MONOTONIC ? DISPATCH_MONOTONICTIME_NOW : DISPATCH_WALLTIME_NOW;
	}
	switch (s->clock) {
	case DISPATCH_CLOCK_UPTIME: when = dispatch_time(DISPATCH_TIME_NOW, s->delta_ns); break;
	case DISPATCH_CLOCK_MONOTONIC: when = dispatch_time(DISPATCH_MONOTONICTIME_NOW, s->delta_ns); break;
	default: when = s->how == 1 ? dispatch_time(DISPATCH_WALLTIME_NOW, s->delta_ns) : dispatch_walltime(NULL, s->delta_ns); break;
	}
	dispatch_clock_t clk; uint64_t value;
	_dispatch_time_to_clock_and_value(when, &clk, &value);   /* the library's own decoding */
	c->clock = (int)clk; c->start = value; c->exact = 1;
	if (value == DISPATCH_TIME_FOREVER || when == DISPATCH_TIME_FOREVER) { c->forever = 1; }
	return when;
}

static void do_set(tmr_t *t, const cfgspec_t *s, int from_own_queue)
{
	int g = atomic_load(&t->gen_pub) + 1;
	if (g >= MAXG) return;
	dispatch_time_t when = make_when(s, &t->cfgs[g]);
	if (t->cfgs[g].clock < 0) t->cfgs[g].clock = 0;   /* FOREVER keeps the clock; never compared */
	t->cum[g] = 0;
	atomic_store(&t->gen_pub, g);
	tlog(t, from_own_queue ? 's' : 'S', g, t->cfgs[g].start, t->cfgs[g].interval, (uint64_t)t->cfgs[g].clock);
	dispatch_source_set_timer(t->ds, when, s->interval_ns ? s->interval_ns : DISPATCH_TIME_FOREVER, s->leeway_ns);
	atomic_store(&t->set_up, _dispatch_uptime());
	atomic_store(&t->gen_done, g);
	if (from_own_queue) t->cur = g;
	atomic_fetch_add(&g_sets, 1);
}

static uint64_t boundaries(const cfg_t *c, uint64_t now)
{
	if (now < c->start) return 0;
	return c->interval ? (now - c->start) / c->interval + 1 : 1;
}

/* exact check of an invocation against configuration g; returns 0 ok, else law number */
static int check_gen(tmr_t *t, int g, uint64_t data, int commit, uint64_t *nowp)
{
	cfg_t *c = &t->cfgs[g];
	if (c->forever) return 3;
	uint64_t now = clock_now(c->clock);
	*nowp = now;
	if (now < c->start) return wall_stepped(c) ? -1 : 1;
	if (t->cum[g] + data > boundaries(c, now)) return wall_stepped(c) ? -1 : 2;
	if (commit) t->cum[g] += data;
	return 0;
}

static void source_handler(void *ctx)
{
	tmr_t *t = ctx;
	uint64_t up_entry = _dispatch_uptime();
	/* the needs-configuration load of the invoke2 that is delivering this invocation (same thread): it returned NULL
	 * after exactly G publications */
	int bound = tl_chk.t == t && tl_chk.isnull, G = tl_chk.gen;
	/* (an invoke that delivers although it SAW an unapplied configuration - the library never does - may still follow a
	 * generation whose set_timer call had not returned when it looked: judged by the weak rule from that generation on) */
	int saw_unapplied_done = (tl_chk.t == t && !tl_chk.isnull) ? tl_chk.done : 0;
	tl_sig = (tl_latch.t == t && tl_latch.in_window) ? "configure-window" : "";
	tl_latch.t = NULL;
	int pub = atomic_load(&t->gen_pub), done = atomic_load(&t->gen_done);
	uint64_t data = dispatch_source_get_data(t->ds), now = 0;
	if (bound && (G < 1 || G > pub || G >= MAXG)) bound = 0;
	int n = atomic_fetch_add(&t->ninv, 1) + 1;
	if (n <= 2) atomic_store(&t->inv_up[n - 1], up_entry);
	atomic_fetch_add(&g_invocations, 1);
	if (data == 0) atomic_fetch_add(&g_zero_data, 1);
	if (t->own) {
		int g = t->cur, r = check_gen(t, g, data, 1, &now);
		tlog(t, 'H', g, now, data, (uint64_t)r);
		atomic_fetch_add(&g_checks_exact, 1);
		if (r == -1) atomic_fetch_add(&g_inconclusive, 1);
		else if (r == 1) oracle_fail(t, "NeverEarly", "handler invoked before the start time of the configuration in force (now=a < start=b on its own clock)", now, t->cfgs[g].start);
		else if (r == 2) oracle_fail(t, "CountBound", "cumulative dispatch_source_get_data (a, including this invocation) exceeds the interval boundaries passed (b)", t->cum[g] + data, boundaries(&t->cfgs[g], now));
		else if (r == 3) oracle_fail(t, "OnlyNewConfig", "handler invoked although the configuration in force has start DISPATCH_TIME_FOREVER (a replaced configuration was honoured)", (uint64_t)g, data);
		if (bound) { atomic_fetch_add(&g_checks_bound, 1); if (G != g) atomic_fetch_add(&g_bind_mismatch, 1); }
	} else if (bound) {
		/* foreign-thread set_timer, exact: the invoke that delivers this invocation saw dt_pending_config == NULL after
		 * G publications, so configurations 1..G have been applied (pending data cleared) and G is the one in force */
		int r = check_gen(t, G, data, 1, &now);
		tlog(t, 'b', G, now, data, (uint64_t)r);
		atomic_fetch_add(&g_checks_exact, 1); atomic_fetch_add(&g_checks_bound, 1);
		if (r == -1) atomic_fetch_add(&g_inconclusive, 1);
		else if (r == 1) oracle_fail(t, "NeverEarly", "handler invoked before the start time of the configuration in force: the invoke found no unapplied configuration after b publications (now=a < start of generation b)", now, (uint64_t)G);
		else if (r == 2) oracle_fail(t, "CountBound", "cumulative dispatch_source_get_data (a, including this invocation) exceeds the interval boundaries passed (b) of the configuration in force", t->cum[G] + data, boundaries(&t->cfgs[G], now));
		else if (r == 3) oracle_fail(t, "OnlyNewConfig", "handler invoked although the configuration in force has start DISPATCH_TIME_FOREVER (a replaced configuration was honoured)", (uint64_t)G, data);
		t->last_done_prev = done;
	} else {
		/* foreign-thread set_timer: generations that may legitimately be followed by this invocation:
		 * from the newest whose call had returned when the PREVIOUS invocation was entered, to the newest started */
		int lo = t->last_done_prev > saw_unapplied_done ? t->last_done_prev : saw_unapplied_done, ok = 0, incon = 0, gg = lo;
		for (int g = lo; g <= pub && !ok; g++) {
			int r = check_gen(t, g, data, 0, &now);
			if (r == 0) { ok = 1; gg = g; t->cum[g] += data; }
			if (r == -1) incon = 1;
		}
		tlog(t, 'h', gg, now, data, ((uint64_t)lo << 8) | (uint64_t)pub);
		atomic_fetch_add(&g_checks_weak, 1);
		if (!ok && incon) atomic_fetch_add(&g_inconclusive, 1);
		else if (!ok) oracle_fail(t, "OnlyNewConfig/NeverEarly", "invocation is consistent with no configuration it may follow: each candidate generation a..b is early, over its boundary count, or FOREVER", (uint64_t)lo, (uint64_t)pub);
		t->last_done_prev = done;
	}
	if (_dispatch_uptime() >= atomic_load(&t->settle_up) && pub == done) atomic_fetch_add(&t->ninv_settled, 1);
	tl_sig = "";
	if (t->slow_at == n) usleep((useconds_t)t->slow_us);       /* the timer is disarmed behind the handler's back */
	if (t->own && t->inh_at == n) {
		do_set(t, &t->inh_spec, 1);
		if (t->scen == SC_RESET_ARMED && _dispatch_unote_armed((dispatch_timer_source_refs_t)t->dt)) atomic_fetch_add(&g_dir_reset_while_armed, 1);
		if (t->slow_after_us) usleep((useconds_t)t->slow_after_us);
	}
	if (n == 1) atomic_store(&t->hret_up, _dispatch_uptime());
}

static void after_body(void *ctx)
{
	tmr_t *t = ctx;
	cfg_t *c = &t->acfg;
	uint64_t now = clock_now(c->clock);
	int runs = atomic_fetch_add(&t->aruns, 1) + 1;
	atomic_fetch_add(&g_after_runs, 1);
	tlog(t, 'A', runs, now, 0, c->start);
	if (runs > 1) oracle_fail(t, "AfterAtMostOnce", "dispatch_after block ran more than once (a runs)", (uint64_t)runs, 0);
	if (now < c->start) {
		if (wall_stepped(c)) atomic_fetch_add(&g_inconclusive, 1);
		else oracle_fail(t, "NeverEarly", "dispatch_after block ran before its deadline (now=a < when=b on its own clock)", now, c->start);
	}
}

/* ------------------------------------------------------------------ scenario generation */
static void gen_spec(cfgspec_t *s, int allow_forever)
{
	memset(s, 0, sizeof(*s));
	s->clock = (int)rndin(0, 2);
	unsigned k = (unsigned)rndin(0, 99);
	if (k < 6) { s->how = 0; s->delta_ns = -(int64_t)rndin(1, 5) * (int64_t)NSEC_PER_MSEC; }          /* past */
	else if (k < 14) { s->how = 2; }                                                                    /* literal NOW */
	else if (k < 18 && allow_forever) { s->how = 3; }                                                   /* FOREVER */
	else if (k < 23) { s->how = (int)rndin(0, 1); s->delta_ns = (int64_t)rndin(600, 7200) * (int64_t)NSEC_PER_SEC; } /* far: sits in the heap */
	else { s->how = (int)rndin(0, 1); s->delta_ns = (int64_t)rndin(1, 300) * (int64_t)NSEC_PER_MSEC + (int64_t)rndin(0, 999999); }
	unsigned i = (unsigned)rndin(0, 99);
	if (i < 40) s->interval_ns = 0;                                                    /* one-shot */
	else if (i < 50) s->interval_ns = rndin(500, 2000) * NSEC_PER_USEC;                /* fast */
	else s->interval_ns = rndin(2, 70) * NSEC_PER_MSEC + rndin(0, 999999);
	unsigned l = (unsigned)rndin(0, 3);
	s->leeway_ns = l == 0 ? 0 : l == 1 ? NSEC_PER_MSEC : l == 2 ? rndin(0, 40) * NSEC_PER_MSEC : DISPATCH_TIME_FOREVER;
}

/* the configuration a scenario switches TO: mostly well ahead (a stale invocation is then early), sometimes now / past /
 * far (then the count bound is what a stale invocation breaks) */
static void gen_reconf_spec(cfgspec_t *s)
{
	gen_spec(s, 0);
	unsigned k = (unsigned)rndin(0, 99);
	if (k < 70) { s->how = (int)rndin(0, 1); s->delta_ns = (int64_t)rndin(80, 300) * (int64_t)NSEC_PER_MSEC + (int64_t)rndin(0, 999999); }
	else if (k < 85) { s->how = 2; s->delta_ns = 0; }
	if (s->interval_ns && s->interval_ns < 3 * NSEC_PER_MSEC) s->interval_ns += 3 * NSEC_PER_MSEC;
}

/* reconfiguration of a timer that has an undelivered fire (see the header) */
static void gen_scenario(tmr_t *t)
{
	unsigned k = (unsigned)rndin(0, 99);
	t->scen = k < 40 ? SC_SUSP_FIRE : k < 70 ? SC_BUSY_QUEUE : k < 88 ? SC_SLOW_HANDLER : SC_ONESHOT_FIRED;
	if (t->scen == SC_SLOW_HANDLER && !t->own) t->scen = SC_SUSP_FIRE;
	cfgspec_t *f = &t->first;
	memset(f, 0, sizeof(*f));
	f->clock = (int)rndin(0, 2); f->how = (int)rndin(0, 1);
	uint64_t d_ms = rndin(3, 25), iv_ms = rndin(4, 25);
	f->delta_ns = (int64_t)(d_ms * NSEC_PER_MSEC + rndin(0, 999999));
	f->interval_ns = (t->scen == SC_ONESHOT_FIRED || rndin(0, 99) < 25) ? 0 : iv_ms * NSEC_PER_MSEC + rndin(0, 999999);
	f->leeway_ns = rndin(0, 1) ? 0 : NSEC_PER_MSEC;
	t->nops = 0; t->inh_at = 0;
	op_t *o;
	uint64_t a1 = rndin(0, 60);
	if (g_steer_us) {
		/* directed: F1 at +10 ms is left pending behind a busy queue (timer stays armed), set_timer at +30 ms (foreign thread,
		 * returns at once), F2 at +50 ms: _dispatch_timers_run finds the configuration and configures (stalled in the window),
		 * the queue drains at +52..75 ms */
		t->scen = SC_CFG_WINDOW; t->own = 0; t->strict = 0;
		f->clock = 0; f->how = 0; f->delta_ns = 10 * (int64_t)NSEC_PER_MSEC; f->interval_ns = 40 * NSEC_PER_MSEC; f->leeway_ns = 0;
		o = &t->ops[t->nops++]; o->op = OP_BUSY; o->at_ms = 0; o->dur_us = (10 + 40 + rndin(2, 25)) * 1000;
		o = &t->ops[t->nops++]; o->op = OP_SET_FOREIGN; o->at_ms = 30; gen_reconf_spec(&o->spec);
		o->spec.how = 0; o->spec.clock = 0; o->spec.delta_ns = 250 * (int64_t)NSEC_PER_MSEC;
		return;
	}
	switch (t->scen) {
	case SC_SUSP_FIRE: {
		int racy = rndin(0, 99) < 15;       /* resume first, set_timer right behind it */
		o = &t->ops[t->nops++]; o->op = OP_SUSPEND; o->at_ms = a1;
		uint64_t a2 = a1 + d_ms + iv_ms * rndin(1, 3) + rndin(3, 10);
		if (racy) { o = &t->ops[t->nops++]; o->op = OP_RESUME; o->at_ms = a2; }
		o = &t->ops[t->nops++]; o->op = t->own ? OP_SET_OWN : OP_SET_FOREIGN; o->at_ms = a2; gen_reconf_spec(&o->spec);
		if (!racy) { o = &t->ops[t->nops++]; o->op = OP_RESUME; o->at_ms = a2 + (rndin(0, 2) ? rndin(0, 15) : 0); }
		break; }
	case SC_BUSY_QUEUE: {
		uint64_t dur_ms = (f->interval_ns ? iv_ms * rndin(25, 45) / 10 : 0) + d_ms + rndin(5, 15);
		int behind = t->own && rndin(0, 1);  /* own queue: the set_timer block sits right behind the busy block, ahead of the source */
		o = &t->ops[t->nops++]; o->op = OP_BUSY; o->at_ms = a1; o->dur_us = dur_ms * 1000;
		o = &t->ops[t->nops++]; o->op = t->own ? OP_SET_OWN : OP_SET_FOREIGN; gen_reconf_spec(&o->spec);
		o->at_ms = behind ? a1 : a1 + dur_ms * rndin(70, 95) / 100;
		break; }
	case SC_SLOW_HANDLER:
		if (!f->interval_ns) f->interval_ns = iv_ms * NSEC_PER_MSEC;
		t->slow_at = (int)rndin(1, 3); t->slow_us = iv_ms * rndin(25, 45) * 100;
		t->inh_at = t->slow_at; gen_reconf_spec(&t->inh_spec);
		break;
	default:
		o = &t->ops[t->nops++]; o->op = t->own ? OP_SET_OWN : OP_SET_FOREIGN; o->at_ms = d_ms + rndin(10, 60); gen_reconf_spec(&o->spec);
		break;
	}
	if (rndin(0, 99) < 20 && t->nops && t->nops < MAXOPS - 1) {     /* and once more, some time later (or cancel) */
		o = &t->ops[t->nops]; o->at_ms = t->ops[t->nops - 1].at_ms + rndin(20, 200); t->nops++;
		if (rndin(0, 3)) { o->op = t->own ? OP_SET_OWN : OP_SET_FOREIGN; gen_spec(&o->spec, 1); } else o->op = OP_CANCEL;
	}
}

static void gen_population(uint64_t span_ms)
{
	/* (trace mode rounds intervals to whole microseconds in main) */
	for (int i = 0; i < N; i++) {
		tmr_t *t = &T[i];
		t->id = i;
		unsigned k = (unsigned)rndin(0, 99);
		t->kind = k < 70 ? K_SOURCE : k < 85 ? K_AFTER : K_AFTER_F;
		gen_spec(&t->first, t->kind == K_SOURCE);
		if (t->kind != K_SOURCE) { t->first.interval_ns = 0; if (t->first.how == 3) t->first.how = 0; t->ops[0].at_ms = rndin(0, span_ms / 2); t->nops = 0; continue; }
		t->own = rndin(0, 99) < 75;
		t->strict = rndin(0, 3) == 0;
		if (rndin(0, 99) < 35) { t->own = rndin(0, 99) < 50; gen_scenario(t); g_scen[t->scen]++; continue; }
		g_scen[SC_RANDOM]++;
		int nops = (int)rndin(0, 4);
		uint64_t at = 0; int susp = 0, canc = 0;
		for (int j = 0; j < nops && !canc && t->nops < MAXOPS - 1; j++) {
			at += rndin(5, span_ms / 3);
			if (at > span_ms) break;
			op_t *o = &t->ops[t->nops++]; o->at_ms = at;
			unsigned w = (unsigned)rndin(0, 99);
			if (susp) { o->op = OP_RESUME; susp = 0; }
			else if (w < 60) { o->op = t->own ? OP_SET_OWN : OP_SET_FOREIGN; gen_spec(&o->spec, 1); }
			else if (w < 85) { o->op = OP_SUSPEND; susp = 1; }
			else { o->op = OP_CANCEL; canc = 1; }
		}
		if (susp) { op_t *o = &t->ops[t->nops++]; o->op = OP_RESUME; o->at_ms = at + rndin(1, 60); }
		if (t->own && rndin(0, 99) < 35) { t->inh_at = (int)rndin(1, 3); gen_spec(&t->inh_spec, 0); }
	}
}

/* ------------------------------------------------------------------ quiescence (all other threads asleep) */
static int quiescent_once(void)
{
	DIR *d = opendir("/proc/self/task"); if (!d) return 0;
	struct dirent *e; int busy = 0; pid_t me = (pid_t)syscall(SYS_gettid);
	while ((e = readdir(d))) {
		if (e->d_name[0] == '.') continue;
		if (atoi(e->d_name) == me) continue;
		char p[128], buf[512]; snprintf(p, sizeof(p), "/proc/self/task/%s/stat", e->d_name);
		FILE *f = fopen(p, "r"); if (!f) continue;
		if (fgets(buf, sizeof(buf), f)) { char *r = strrchr(buf, ')'); if (r && r[1] == ' ' && r[2] != 'S' && r[2] != 'I') busy++; }
		fclose(f);
	}
	closedir(d);
	return busy == 0;
}
static int quiescent(void) { for (int i = 0; i < 6; i++) { if (!quiescent_once()) return 0; usleep(50000); } return 1; }

/* ------------------------------------------------------------------ trace output (TimerTrace.tla) */
static long us_of(int clock, long v, int *exact)
{
	if ((uint64_t)v >= (uint64_t)INT64_MAX) return -1;              /* INT64_MAX / UINT64_MAX: never */
	uint64_t d = (uint64_t)v - g_base[clock];
	if (d % 1000) *exact = 0;      /* floor: monotone, so minima and "due" are preserved; see TimerTrace.tla */
	return (long)(d / 1000);
}
static long us_floor(int clock, long v) { return (long)(((uint64_t)v - g_base[clock]) / 1000); }

static void write_trace(long *nrec, int *exact, int *nslots)
{
	FILE *f = fopen(g_traceout, "w"); if (!f) return;
	enum { MAXSLOT = 4096 };
	static const void *slot_ptr[MAXSLOT]; static int slot_clk[MAXSLOT]; int hi = 0;
	unsigned n = atomic_load(&g_nprec);
	long inexact_arms = 0; int dummy = 1;
	long lines = 0, prog_tidx = -1, prog_delay = 0;
	/* tm_arm / tm_arm_iv pairs are matched per thread (another thread's records may fall between the two) */
	enum { PTH = 512 }; static struct { int th; const void *dt; long tidx, target; } pend[PTH];
	/* the manager: the thread(s) that entered epoll_wait or merged a timerfd event */
	int mgr = 0, nw = 0;
	for (unsigned i = 0; i < n; i++) {
		const char *k = g_prec[i].kind + 3;
		if (strcmp(k, "wait") && strcmp(k, "kevent")) continue;
		if (nw == 0) { mgr = g_prec[i].th; nw = 1; } else if (g_prec[i].th != mgr && nw < 2) nw = 2;
	}
	fprintf(f, "{\"e\":\"threads\",\"mgr\":%d,\"nw\":%d}\n", mgr, nw); lines++;
	for (unsigned i = 0; i < n; i++) {
		prec_t *r = &g_prec[i]; const char *k = r->kind + 3; int sl = -1, th = r->th;
		if (r->obj) for (int j = 0; j < hi; j++) if (slot_ptr[j] == r->obj) { sl = j; break; }
		const void *pend_dt = pend[th % PTH].th == th ? pend[th % PTH].dt : NULL; long pend_tidx = pend[th % PTH].tidx, pend_target = pend[th % PTH].target;
		if (!strcmp(k, "arm")) { pend[th % PTH].th = th; pend[th % PTH].dt = r->obj; pend[th % PTH].tidx = r->a; pend[th % PTH].target = r->b; }
		else if (!strcmp(k, "arm_iv") && pend_dt == r->obj) {
			if (sl < 0) { for (int j = 0; j < hi && sl < 0; j++) if (!slot_ptr[j]) sl = j; if (sl < 0 && hi < MAXSLOT) sl = hi++; if (sl < 0) { *exact = 0; continue; } slot_ptr[sl] = r->obj; }
			slot_clk[sl] = (int)DISPATCH_TIMER_CLOCK(pend_tidx);
			int ex = 1;
			long iv = (uint64_t)r->a >= (uint64_t)INT64_MAX ? -1 : r->a / 1000; if (iv >= 0 && r->a % 1000) ex = 0;
			long tg = us_of(slot_clk[sl], pend_target, &ex);
			/* x = 1: a timer whose target or interval is not a whole microsecond (e.g. the library's own
			 * workqueue monitor timer): quotients by its interval are not reproducible in microseconds */
			fprintf(f, "{\"e\":\"arm\",\"t\":%d,\"c\":%d,\"tgt\":%ld,\"iv\":%ld,\"x\":%d,\"th\":%d}\n", sl + 1, slot_clk[sl] + 1, tg, iv, !ex, th); lines++;
			if (!ex) inexact_arms++;
			if (th != mgr) g_trace_offmgr_heap++;
			pend[th % PTH].dt = NULL;
		} else if (!strcmp(k, "disarm")) {
			if (sl < 0) { *exact = 0; continue; }
			fprintf(f, "{\"e\":\"disarm\",\"t\":%d,\"c\":%d,\"th\":%d}\n", sl + 1, (int)DISPATCH_TIMER_CLOCK(r->a) + 1, th); lines++;
			if (th != mgr) g_trace_offmgr_heap++;
			slot_ptr[sl] = NULL;
		} else if (!strcmp(k, "run")) {
			if (sl < 0) { *exact = 0; continue; }
			fprintf(f, "{\"e\":\"run\",\"t\":%d,\"c\":%d,\"tgt\":%ld,\"now\":%ld,\"th\":%d}\n", sl + 1, slot_clk[sl] + 1, us_of(slot_clk[sl], r->a, &dummy), us_floor(slot_clk[sl], r->b), th); lines++;
		} else if (!strcmp(k, "fire") || !strcmp(k, "fire_after")) {
			if (sl < 0) { *exact = 0; continue; }
			int aft = k[4] == '_';
			fprintf(f, "{\"e\":\"fire\",\"t\":%d,\"kind\":\"%s\",\"cnt\":%ld,\"ntgt\":%ld,\"th\":%d}\n", sl + 1, aft ? "after" : "source", r->a >> 1, aft ? -1 : us_of(slot_clk[sl], r->b, &dummy), th); lines++;
		} else if (!strcmp(k, "prog")) { prog_tidx = r->a; prog_delay = r->b; }
		else if (!strcmp(k, "prog_now") && prog_tidx == r->a) {
			int c = (int)DISPATCH_TIMER_CLOCK(prog_tidx);
			int cls = prog_delay == 0 ? 0 : (uint64_t)prog_delay >= (uint64_t)INT64_MAX ? 2 : 1;
			fprintf(f, "{\"e\":\"prog\",\"c\":%d,\"cls\":%d,\"now\":%ld,\"th\":%d}\n", c + 1, cls, cls == 2 ? 0 : us_floor(c, r->b), th); lines++;
			prog_tidx = -1;
		} else if (!strcmp(k, "kprog")) {
			int c = (int)DISPATCH_TIMER_CLOCK(r->a);
			fprintf(f, "{\"e\":\"kprog\",\"c\":%d,\"tgt\":%ld,\"th\":%d}\n", c + 1, us_of(c, r->b, &dummy), th); lines++;
		} else if (!strcmp(k, "kevent")) { fprintf(f, "{\"e\":\"kevent\",\"c\":%d,\"th\":%d}\n", (int)r->a + 1, th); lines++; }
		else if (!strcmp(k, "wait")) { if (r->a != 0) { fprintf(f, "{\"e\":\"wait\",\"th\":%d}\n", th); lines++; } }
		else if (!strcmp(k, "cfgtake")) {
			/* t: the armed slot of that timer at this point (0: it is in no heap); lm / arm: see hook_post */
			fprintf(f, "{\"e\":\"cfgtake\",\"t\":%d,\"th\":%d,\"lm\":%ld,\"arm\":%ld}\n", sl + 1, th, r->a, r->b); lines++;
			if (th != mgr) g_trace_offmgr_takes++;
		}
		else if (!strcmp(k, "configure")) {
			/* pd: ds_pending_data when the configuration was taken (0 none, 1 marker only, 2 count, 3 count|marker);
			 * op/ov/nv: the configuring thread's next access to that word (1 store, 2 xchg, 3 load, 4 other rmw) */
			fprintf(f, "{\"e\":\"configure\",\"pd\":%ld,\"op\":%ld,\"ov\":%ld,\"nv\":%ld}\n", r->a, r->b >> 16, (r->b >> 8) & 255, r->b & 255); lines++; g_trace_cfgs++;
		}
	}
	if (n >= PCAP) *exact = 0;
	fclose(f);
	*nrec = lines; *nslots = hi > 0 ? hi : 1;
}

static void finish(uint64_t waited_ms)
{
	if (atomic_load(&g_fail)) { printf("{\"seed\":%llu,\"failed\":1}\n", (unsigned long long)g_seed); fflush(stdout); _exit(2); }
	/* late duplicates of dispatch_after blocks */
	usleep(60000);
	for (int i = 0; i < N; i++) if (T[i].kind != K_SOURCE && !atomic_load(&g_fail) &&
			atomic_load(&T[i].aruns) != (T[i].acfg.start > clock_now(T[i].acfg.clock) ? 0 : 1))
		oracle_fail(&T[i], "AfterExactlyOnce", "dispatch_after block did not run exactly once (a runs)", (uint64_t)atomic_load(&T[i].aruns), 0);
	for (int i = 0; i < N; i++) if (T[i].kind == K_SOURCE && T[i].ds && !atomic_load(&T[i].cancelled)) {
		if (atomic_load(&T[i].suspended)) dispatch_resume(T[i].ds);
		dispatch_source_cancel(T[i].ds);
	}
	usleep(20000);
	long trace_records = 0; int trace_exact = 1, trace_slots = 0;
	if (g_traceout) { _dispatch_verif_probe = NULL; usleep(20000); write_trace(&trace_records, &trace_exact, &trace_slots); }
	int nsrc = 0, naft = 0, own = 0; for (int i = 0; i < N; i++) { if (T[i].kind == K_SOURCE) { nsrc++; own += T[i].own; } else naft++; }
	printf("{\"seed\":%llu,\"timers\":%d,\"sources\":%d,\"own_queue_controlled\":%d,\"after_blocks\":%d,\"set_timer_calls\":%ld,\"handler_invocations\":%ld,"
			"\"exact_checks\":%ld,\"weak_checks\":%ld,\"after_runs\":%ld,\"zero_data_invocations\":%ld,\"inconclusive_wall_step\":%ld,\"final_wait_ms\":%llu,\"trace_records\":%ld,\"trace_exact\":%d,\"trace_slots\":%d,"
			"\"bound_checks\":%ld,\"bind_mismatch\":%ld,\"configures\":%ld,\"configure_on_disarmed_pending\":%ld,\"configure_on_armed_pending\":%ld,\"configure_unclosed\":%ld,"
			"\"scen_susp_fire\":%ld,\"scen_busy_queue\":%ld,\"scen_slow_handler\":%ld,\"scen_oneshot_fired\":%ld,\"trace_configures\":%ld,\"steer_stalls\":%ld,\"window_latches\":%ld,"
			"\"directed\":%d,\"dir_rounds\":%ld,\"dir_timing_detectable\":%ld,\"dir_on_time\":%ld,\"dir_late_unproven\":%ld,\"dir_inconclusive\":%ld,\"dir_reset_while_armed\":%ld,"
			"\"dir_applied_by_manager\":%ld,\"dir_max_late_us\":%ld,\"manager_known\":%d,\"manager_threads\":%d,\"takes_tq_marker\":%ld,\"takes_tq_nomarker\":%ld,\"takes_nolatch\":%ld,"
			"\"takes_armed\":%ld,\"trace_offmgr_heap_records\":%ld,\"trace_offmgr_takes\":%ld,\"failed\":%d}\n",
			(unsigned long long)g_seed, N, nsrc, own, naft, atomic_load(&g_sets), atomic_load(&g_invocations), atomic_load(&g_checks_exact),
			atomic_load(&g_checks_weak), atomic_load(&g_after_runs), atomic_load(&g_zero_data), atomic_load(&g_inconclusive),
			(unsigned long long)waited_ms, trace_records, trace_exact, trace_slots,
			atomic_load(&g_checks_bound), atomic_load(&g_bind_mismatch), atomic_load(&g_cfgs), atomic_load(&g_cfg_disarmed_pending), atomic_load(&g_cfg_armed_pending), atomic_load(&g_cfg_unclosed),
			g_scen[SC_SUSP_FIRE], g_scen[SC_BUSY_QUEUE], g_scen[SC_SLOW_HANDLER], g_scen[SC_ONESHOT_FIRED], g_trace_cfgs, atomic_load(&g_steer_stalls), atomic_load(&g_window_latches),
			g_directed, atomic_load(&g_dir_rounds), atomic_load(&g_dir_detectable), atomic_load(&g_dir_ontime), atomic_load(&g_dir_late_unproven), atomic_load(&g_dir_inconclusive),
			atomic_load(&g_dir_reset_while_armed), atomic_load(&g_dir_applied_by_mgr), atomic_load(&g_dir_max_late_us), atomic_load(&g_mgr_th) != 0, atomic_load(&g_mgr_threads),
			atomic_load(&g_take_tq_marker), atomic_load(&g_take_tq_nomarker), atomic_load(&g_take_nolatch), atomic_load(&g_take_armed), g_trace_offmgr_heap, g_trace_offmgr_takes,
			atomic_load(&g_fail));
	fflush(stdout);
	_exit(atomic_load(&g_fail) ? 2 : 0);
}

/* ------------------------------------------------------------------ directed population: an ARMED timer re-sets itself
 * Timer.tla: SetTimer while tpc = "post" on an armed timer; TPost must leave the configuration pending (OffManagerMayConfigure is
 * false without the DISARMED marker), Wants = "mgr", MInvoke configures and re-sifts, MProg reprograms, and the liveness
 * properties ConfigApplied / Fires promise the invocation at the new settings.  With the configuration applied off the manager
 * (mutant worker_configures_armed) the behaviour ends in: heap minimum = new start, kt = old expiry, manager in epoll_wait.
 * Here that end state is observable because NOTHING else can wake the manager: rounds run one after the other, every timer sits
 * on a private serial queue (overcommit root queue: the library's 1 Hz workqueue-monitor timer is never started), no global
 * queue, no dispatch_after, no other timer.  Round: timer T (start +15..40 ms, interval OLD) fires once; its handler, after
 * 0..25 ms of work, calls dispatch_source_set_timer(T, +X, Y) (clock kept or changed) and maybe works on; then
 *   due  = max(uptime when set_timer returned + X, uptime when the handler returned)       (>= the new start)
 *   FollowsNewSettings: the 2nd invocation happens; it is a VIOLATION when at some instant > due + DIR_SLACK_MS there still
 *     is none AND every other thread of the process has been asleep for 300 ms (quiescent()): the only thing that could wake
 *     the process is the timerfd, and it is not set for this timer.  Lateness alone (threads runnable but not scheduled on a
 *     loaded machine) is never a violation: it is counted (dir_late_unproven);
 *   NeverEarly / CountBound / OnlyNewConfig: the ordinary exact oracles of source_handler (generation 2 is in force).
 * Variants (i mod 7): OLD 3 s..1 h with X = 40..150 ms (0: fast handler, 1: work before the re-set, 2: work after it, 3: X = now
 * or past; 5 / 6: the re-set is made after the handler returned, by a block on the timer's queue / by the main thread), and
 * 4: X longer than a short OLD interval (there the old expiry wakes the manager and repairs the schedule: only the
 * ownership laws of TimerTrace.tla can see a deviation; the timing oracle stays valid).  A third of the rounds target a chain
 * of two serial queues. */
#define DIR_SLACK_MS 400
static void gen_directed(void)
{
	for (int i = 0; i < N; i++) {
		tmr_t *t = &T[i]; cfgspec_t *f = &t->first, *r = &t->inh_spec;
		t->id = i; t->kind = K_SOURCE; t->own = 1; t->strict = rndin(0, 3) == 0; t->scen = SC_RESET_ARMED; g_scen[SC_RESET_ARMED]++;
		memset(f, 0, sizeof(*f)); memset(r, 0, sizeof(*r));
		f->clock = (int)rndin(0, 2); f->how = (int)rndin(0, 1);
		f->delta_ns = (int64_t)(rndin(15, 40) * NSEC_PER_MSEC + rndin(0, 999999));
		f->leeway_ns = rndin(0, 1) ? 0 : NSEC_PER_MSEC;
		r->clock = rndin(0, 99) < 65 ? f->clock : (int)rndin(0, 2); r->how = (int)rndin(0, 1);
		r->leeway_ns = rndin(0, 1) ? 0 : NSEC_PER_MSEC;
		r->interval_ns = rndin(0, 99) < 20 ? 0 : rndin(30, 90) * NSEC_PER_MSEC + rndin(0, 999999);
		t->inh_at = 1; t->slow_at = 0; t->nops = 0;
		int v = i % 7;
		/* 5, 6: the handler only fires; afterwards the re-set comes from a block on the timer's own queue / from the main thread
		 * (timer armed, nobody delivering it): the same obligation, the configuration has to travel to the manager */
		if (v >= 5) { t->dir_how = v - 4; t->inh_at = 0; if (v == 6) t->own = 0; v = 0; }
		/* (trace mode: microseconds since the base must fit 31 bits, also after target += interval) */
		if (v <= 3) f->interval_ns = (rndin(0, 2) == 0 && !g_traceout ? 3600ull : rndin(3, 20)) * NSEC_PER_SEC + rndin(0, 999) * 1000;
		if (v <= 2) r->delta_ns = (int64_t)(rndin(40, 150) * NSEC_PER_MSEC + rndin(0, 999999));
		if (v == 1) { t->slow_at = 1; t->slow_us = rndin(5, 25) * 1000; }
		if (v == 2) t->slow_after_us = rndin(5, 25) * 1000;
		if (v == 3) {
			if (rndin(0, 1)) r->how = 2; else r->delta_ns = -(int64_t)(rndin(0, 3) * NSEC_PER_MSEC);
			t->slow_at = 1; t->slow_us = rndin(2, 20) * 1000;
		}
		if (v == 4) {
			f->interval_ns = rndin(40, 80) * NSEC_PER_MSEC + rndin(0, 999) * 1000;
			r->delta_ns = (int64_t)(f->interval_ns + rndin(40, 120) * NSEC_PER_MSEC);
			if (rndin(0, 1)) { t->slow_at = 1; t->slow_us = rndin(2, 10) * 1000; }
		}
		t->chain = rndin(0, 2) == 0;
	}
}
static void dir_cancelled(void *ctx) { tmr_t *t = ctx; atomic_store(&t->cancelled_done, 1); }

static void directed_reset(void)
{
	for (int i = 0; i < N && !atomic_load(&g_fail); i++) {
		tmr_t *t = &T[i];
		char lbl[40]; snprintf(lbl, sizeof(lbl), "c11.d%d", i);
		dispatch_queue_t base = NULL;
		t->q = dispatch_queue_create(lbl, DISPATCH_QUEUE_SERIAL);
		if (t->chain) { snprintf(lbl, sizeof(lbl), "c11.d%d.base", i); base = dispatch_queue_create(lbl, DISPATCH_QUEUE_SERIAL); dispatch_set_target_queue(t->q, base); }
		t->ds = dispatch_source_create(DISPATCH_SOURCE_TYPE_TIMER, 0, t->strict ? DISPATCH_TIMER_STRICT : 0, t->q);
		dispatch_set_context(t->ds, t);
		t->dt = t->ds->ds_timer_refs; map_timer(t->dt, t);
		dispatch_source_set_event_handler_f(t->ds, source_handler);
		dispatch_source_set_cancel_handler_f(t->ds, dir_cancelled);
		t->last_done_prev = 1;
		do_set(t, &t->first, 0); t->cur = 1;
		uint64_t t0 = _dispatch_uptime();
		dispatch_activate(t->ds);
		atomic_fetch_add(&g_dir_rounds, 1);
		int detectable = (i % 7) != 4, dead = 0;
		if (detectable) atomic_fetch_add(&g_dir_detectable, 1);
		/* the first fire (old settings) and the re-set inside its handler */
		while (!atomic_load(&t->hret_up) && !atomic_load(&g_fail)) {
			uint64_t w = (_dispatch_uptime() - t0) / NSEC_PER_MSEC;
			if (w > 10000 && (w > 45000 || quiescent()) && !atomic_load(&t->hret_up)) {
				oracle_fail(t, "Fires", "armed, unsuspended, uncancelled timer (directed re-set population, first fire) not invoked although it is overdue (a = ms since activation) "
						"and every thread of the process sleeps", w, 0);
				dead = 1; break;
			}
			usleep(w > 10000 ? 5000 : 300);
		}
		if (!dead && !atomic_load(&g_fail) && t->dir_how) {
			cfgspec_t *sp = &t->inh_spec;
			usleep((useconds_t)rndin(0, 3000));
			if (t->dir_how == 1) dispatch_async(t->q, ^{ do_set(t, sp, 1); }); else do_set(t, sp, 0);
			for (int k = 0; k < 20000 && atomic_load(&t->gen_done) < 2; k++) usleep(200);
			if (_dispatch_unote_armed((dispatch_timer_source_refs_t)t->dt) || atomic_load(&t->inv_up[1])) atomic_fetch_add(&g_dir_reset_while_armed, 1);
			atomic_store(&t->hret_up, 1);
		}
		if (!dead && !atomic_load(&g_fail)) {
			cfgspec_t *r = &t->inh_spec;
			int64_t x = r->how == 2 || r->delta_ns < 0 ? 0 : r->delta_ns;
			uint64_t due = atomic_load(&t->set_up) + (uint64_t)x, hret = atomic_load(&t->hret_up);
			if (hret > due) due = hret;
			for (;;) {
				if (atomic_load(&t->inv_up[1]) || atomic_load(&g_fail)) break;
				uint64_t nowu = _dispatch_uptime();
				if (nowu > due + DIR_SLACK_MS * NSEC_PER_MSEC) {
					if (quiescent() && !atomic_load(&t->inv_up[1])) {
						if (wall_stepped(&t->cfgs[2])) { atomic_fetch_add(&g_dir_inconclusive, 1); dead = 1; break; }
						static const char *const who[] = { "re-set itself from its own event handler", "was re-set by a block on its own target queue", "was re-set by another thread" };
						static char msg[600];
						snprintf(msg, sizeof(msg), "a repeating timer that was still armed %s (dispatch_source_set_timer, new start = b us after the call) and has not been "
								"invoked a = ms after the new start although every other thread of the process sleeps and nothing else is pending: the timerfd is "
								"not programmed for the new settings (the old schedule is still being followed)", who[t->dir_how]);
						oracle_fail(t, "FollowsNewSettings", msg,
								(_dispatch_uptime() - due) / NSEC_PER_MSEC, (uint64_t)x / 1000);
						dead = 1; break;
					}
					if (nowu > due + 120ull * NSEC_PER_SEC) {
						oracle_fail(t, "Fires", "re-set timer not invoked 120 s after its new start (a = ms overdue)", (nowu - due) / NSEC_PER_MSEC, 0);
						dead = 1; break;
					}
					usleep(5000);
				} else usleep(300);
			}
			uint64_t inv2 = atomic_load(&t->inv_up[1]);
			if (inv2) {
				uint64_t late_us = inv2 > due ? (inv2 - due) / 1000 : 0;
				if ((long)late_us > atomic_load(&g_dir_max_late_us)) atomic_store(&g_dir_max_late_us, (long)late_us);
				atomic_fetch_add(late_us > DIR_SLACK_MS * 1000ull ? &g_dir_late_unproven : &g_dir_ontime, 1);
				tlog(t, 'D', 2, inv2, late_us, due);
			}
			/* who applied generation 2 */
			while (atomic_exchange_explicit(&t->hl, 1, memory_order_acquire)) sched_yield();
			int tk = t->take_th[2];
			atomic_store_explicit(&t->hl, 0, memory_order_release);
			if (tk && tk == atomic_load(&g_mgr_th)) atomic_fetch_add(&g_dir_applied_by_mgr, 1);
		}
		atomic_store(&t->cancelled, 1);
		dispatch_source_cancel(t->ds);
		for (int k = 0; k < 4000 && !atomic_load(&t->cancelled_done); k++) usleep(500);
		dispatch_release(t->ds); dispatch_release(t->q); if (base) dispatch_release(base);
		usleep(2000);
	}
}

static void on_crash(int sig) { fprintf(stderr, "CRASH signal %d inside libdispatch (seed %llu)\n", sig, (unsigned long long)g_seed); _exit(70); }

static int cmp_op(const void *a, const void *b) { const uint64_t *x = a, *y = b; return x[0] < y[0] ? -1 : x[0] > y[0]; }

int main(int argc, char **argv)
{
	g_seed = argc > 1 ? strtoull(argv[1], NULL, 0) : 1;
	N = argc > 2 ? atoi(argv[2]) : 60;
	uint64_t span_ms = argc > 3 ? strtoull(argv[3], NULL, 0) : 600;
	g_failout = argc > 4 ? argv[4] : NULL; g_span_ms = span_ms;
	rng_state = g_seed * 0x2545F4914F6CDD1Dull + 12345;
	signal(SIGSEGV, on_crash); signal(SIGBUS, on_crash); signal(SIGABRT, on_crash); signal(SIGILL, on_crash); signal(SIGTRAP, on_crash);
	T = calloc((size_t)N, sizeof(tmr_t));
	g_traceout = argc > 5 ? argv[5] : NULL;
	g_trace_only = g_traceout && getenv("C11_TRACE_ONLY") != NULL;
	if (getenv("C11_STEER_CFG_WINDOW")) g_steer_us = (unsigned)atoi(getenv("C11_STEER_CFG_WINDOW"));
	g_directed = getenv("C11_DIRECTED_RESET") != NULL;
	if (g_directed) gen_directed(); else gen_population(span_ms);
	if (g_traceout) {
		for (int i = 0; i < N; i++) {
			T[i].first.interval_ns -= T[i].first.interval_ns % 1000; T[i].inh_spec.interval_ns -= T[i].inh_spec.interval_ns % 1000;
			for (int j = 0; j < T[i].nops; j++) T[i].ops[j].spec.interval_ns -= T[i].ops[j].spec.interval_ns % 1000;
		}
		for (int c = 0; c < 3; c++) { uint64_t n = clock_now(c); g_base[c] = n - n % 1000 - 10ull * NSEC_PER_SEC; }
		g_prec = calloc(PCAP, sizeof(prec_t));
	}
	_dispatch_verif_probe = probe_cb;      /* without a trace: only to learn which thread is the manager (statistics) */
	_dispatch_verif_pre = hook_pre; _dispatch_verif_post = hook_post;
	g_t0_up = _dispatch_uptime();
	if (g_directed) { directed_reset(); finish(0); }
	dispatch_queue_t gq = dispatch_get_global_queue(DISPATCH_QUEUE_PRIORITY_DEFAULT, 0);

	/* global, time-sorted control script: (at_ms, timer, op index; op index -1 = create/arm) */
	uint64_t (*script)[3] = calloc((size_t)N * (MAXOPS + 1), sizeof(*script)); size_t ns = 0;
	for (int i = 0; i < N; i++) {
		tmr_t *t = &T[i];
		uint64_t born = t->kind == K_SOURCE ? rndin(0, span_ms / 4) : t->ops[0].at_ms;
		script[ns][0] = born; script[ns][1] = (uint64_t)i; script[ns][2] = (uint64_t)-1; ns++;
		for (int j = 0; j < t->nops; j++) { script[ns][0] = born + t->ops[j].at_ms; script[ns][1] = (uint64_t)i; script[ns][2] = (uint64_t)j; ns++; }
	}
	qsort(script, ns, sizeof(*script), cmp_op);

	for (size_t k = 0; k < ns && !atomic_load(&g_fail); k++) {
		uint64_t due = g_t0_up + script[k][0] * NSEC_PER_MSEC, nowu = _dispatch_uptime();
		if (due > nowu) usleep((useconds_t)((due - nowu) / 1000));
		tmr_t *t = &T[script[k][1]]; int j = (int)script[k][2];
		if (j < 0) {
			if (t->kind == K_SOURCE) {
				char lbl[32]; snprintf(lbl, sizeof(lbl), "c11.t%d", t->id);
				t->q = dispatch_queue_create(lbl, DISPATCH_QUEUE_SERIAL);
				t->ds = dispatch_source_create(DISPATCH_SOURCE_TYPE_TIMER, 0, t->strict ? DISPATCH_TIMER_STRICT : 0, t->q);
				dispatch_set_context(t->ds, t);
				t->dt = t->ds->ds_timer_refs; map_timer(t->dt, t);
				dispatch_source_set_event_handler_f(t->ds, source_handler);
				t->last_done_prev = 1;
				do_set(t, &t->first, 0); t->cur = 1;      /* before activation: ordered before everything */
				dispatch_activate(t->ds);
			} else {
				dispatch_time_t when = make_when(&t->first, &t->acfg);
				tlog(t, 'a', 0, t->acfg.start, 0, (uint64_t)t->acfg.clock);
				if (t->kind == K_AFTER) dispatch_after(when, gq, ^{ after_body(t); });
				else dispatch_after_f(when, gq, t, after_body);
			}
			continue;
		}
		op_t *o = &t->ops[j];
		switch (o->op) {
		case OP_SET_OWN: { cfgspec_t *sp = &o->spec; dispatch_async(t->q, ^{ do_set(t, sp, 1); }); break; }
		case OP_SET_FOREIGN: do_set(t, &o->spec, 0); break;
		case OP_SUSPEND: tlog(t, 'P', 0, _dispatch_uptime(), 0, 0); atomic_store(&t->suspended, 1); dispatch_suspend(t->ds); break;
		case OP_RESUME: tlog(t, 'R', 0, _dispatch_uptime(), 0, 0); dispatch_resume(t->ds); atomic_store(&t->suspended, 0); break;
		case OP_BUSY: { useconds_t us = (useconds_t)o->dur_us; tlog(t, 'B', 0, _dispatch_uptime(), us, 0); dispatch_async(t->q, ^{ usleep(us); }); break; }
		case OP_CANCEL: tlog(t, 'C', 0, _dispatch_uptime(), 0, 0); atomic_store(&t->cancelled, 1); dispatch_source_cancel(t->ds); break;
		}
	}

	/* ---- "always fires": after the churn every armed, unsuspended, uncancelled timer must still fire */
	if (atomic_load(&g_fail)) { printf("{\"seed\":%llu,\"failed\":1}\n", (unsigned long long)g_seed); fflush(stdout); _exit(2); }
	for (int i = 0; i < N; i++) if (T[i].kind == K_SOURCE && T[i].own && T[i].q) dispatch_sync(T[i].q, ^{ }); /* own-queue set_timers have run */
	uint64_t settle = _dispatch_uptime();
	for (int i = 0; i < N; i++) atomic_store(&T[i].settle_up, settle);
	int missed = -1; uint64_t waited_ms = 0, overdue_ms = 0;
	for (;;) {
		if (atomic_load(&g_fail)) break;
		missed = -1; overdue_ms = 0;
		for (int i = 0; i < N; i++) {
			tmr_t *t = &T[i];
			uint64_t od = 0;
			if (t->kind != K_SOURCE) {
				if (atomic_load(&t->aruns) >= 1) continue;
				uint64_t now = clock_now(t->acfg.clock);
				if (t->acfg.start > now + FAR_NS) continue;                 /* far deadline: no obligation in this run */
				if (now <= t->acfg.start) { if (missed < 0) missed = i; continue; }
				od = (now - t->acfg.start) / NSEC_PER_MSEC;
			} else {
				if (atomic_load(&t->cancelled) || atomic_load(&t->suspended)) continue;
				int g = atomic_load(&t->gen_done); cfg_t *c = &t->cfgs[g];
				if (g != atomic_load(&t->gen_pub) || (t->own && t->cur != g)) { if (missed < 0) missed = i; continue; } /* a set_timer in flight */
				if (c->forever) continue;
				uint64_t now = clock_now(c->clock);
				if (c->start > now + FAR_NS) continue;                      /* far start: no obligation in this run */
				if (c->interval == 0) {      /* one-shot: invoked under its final configuration */
					if (t->cum[g] >= 1 || (!t->own && atomic_load(&t->ninv_settled) >= 1)) continue;
					if (now <= c->start) { if (missed < 0) missed = i; continue; }
					od = (now - c->start) / NSEC_PER_MSEC;
				} else {                     /* repeating: invoked again after the churn ended */
					if (atomic_load(&t->ninv_settled) >= 1) continue;
					if (now <= c->start) { if (missed < 0) missed = i; continue; }
					uint64_t a = (now - c->start) / NSEC_PER_MSEC, b2 = (_dispatch_uptime() - settle) / NSEC_PER_MSEC, iv = c->interval / NSEC_PER_MSEC + 1;
					od = a < b2 ? a : b2; od = od > iv ? od - iv : 0;
				}
			}
			if (missed < 0 || od > overdue_ms) { missed = i; overdue_ms = od; }
		}
		if (missed < 0) break;
		if (overdue_ms > 10000 && (quiescent() || overdue_ms > 45000)) {
			oracle_fail(&T[missed], "Fires", overdue_ms > 45000 ? "armed, unsuspended, uncancelled timer not invoked 45 s after it was due (a = ms overdue)"
					: "armed, unsuspended, uncancelled timer not invoked although it is overdue (a = ms) and every thread of the process sleeps", overdue_ms, waited_ms);
			fprintf(stdout, "{\"seed\":%llu,\"result\":\"never-fired\"}\n", (unsigned long long)g_seed);
			_exit(71);
		}
		usleep(5000); waited_ms += 5;
	}
	finish(waited_ms);
}

