/* Driver for the main-queue clause of C02 (and C01/C05 on it): the main queue is first
 * thread-bound (drained by the main thread through its runloop handle, as CF would do:
 * _dispatch_get_main_queue_handle_4CF + _dispatch_main_queue_callback_4CF), then converted
 * into an ordinary serial queue by dispatch_main().  Client threads submit async / sync /
 * barrier / async_and_wait items in both phases under perturbation; the property is evaluated
 * on the recorded total order: exactly once, never overlapping, submission order respected,
 * synchronous calls return after completion, thread-bound items run on the main thread. */
#include "internal.h"
#include <pthread.h>
#include <poll.h>
#include "verif_rt.h"

#define MAXI 8192
typedef struct { int id, kind, phase, qi; uint64_t call_seq, ret_seq, start_seq, end_seq; _Atomic int runs; int on_main; int result; int payload; } item_t;
/* qi: 0 the main queue itself, 1 a serial lane targeting it, 2 a concurrent lane targeting it (C03 with a thread-bound bottom) */
static dispatch_queue_t g_lane[3];
static dispatch_queue_t g_subq, g_otherq;   /* kind 5: a synchronous submission made FROM an item of g_subq (its frames stay accepted by dispatch_assert_queue, C18) */
static char g_key_main, g_key_lane;     /* queue-specific keys: one set on the main queue, one on each lane (C18) */
static item_t g_items[MAXI];
static _Atomic int g_nitems, g_fail, g_phase, g_clients_done;
static int NT = 3, g_ops = 60;
static pthread_t g_main;
static long g_chain;

static void oracle_fail(const char *p, const char *what, long a, long b) { fprintf(stderr, "ORACLE-FAIL %s %s a=%ld b=%ld\n", p, what, a, b); atomic_store(&g_fail, 1); }
static void item_fn(void *c)
{
	item_t *it = c;
	it->start_seq = vrt_api("Start", 0, it->id, it->kind, 0);
	atomic_fetch_add(&it->runs, 1);
	it->on_main = pthread_equal(pthread_self(), g_main);
	/* C18: dispatch_get_specific walks from the queue the item was submitted to down its targets: the main queue is the
	 * bottom of all three, so its key is always found; the lane key is found on the lane it was set on only */
	if (dispatch_get_specific(&g_key_main) != (void *)0x1001) oracle_fail("C18", "dispatch_get_specific: key set on the main queue not found from an item of its hierarchy", it->id, it->qi);
	if (dispatch_get_specific(&g_key_lane) != (it->qi ? (void *)(uintptr_t)(0x2000 + it->qi) : NULL)) oracle_fail("C18", "dispatch_get_specific: wrong value for the key set on the lanes", it->id, it->qi);
	if (it->kind == 5) {
		/* C18: "dispatch_assert_queue accepts exactly the queues of that chain (and those of the submitting context for
		 * synchronous submissions)": also when the call was redirected to the thread-bound main thread because the lane was
		 * busy.  A wrong verdict is the library's client crash -> the runtime's crash exit (70) -> violation. */
		dispatch_assert_queue(g_subq);
		dispatch_assert_queue(g_lane[it->qi]);
		dispatch_assert_queue(dispatch_get_main_queue());
		dispatch_assert_queue_not(g_otherq);
	}
	if (it->payload != it->id * 3 + 1) oracle_fail("C05", "submitter's writes not visible in main-queue item", it->id, it->payload);
	g_chain++;
	if (vrt_rand() % 5 == 0) { volatile int x = 0; for (int i = 0; i < 500; i++) x++; }
	it->result = it->id ^ 0x1234;
	it->end_seq = vrt_api("End", 0, it->id, it->kind, 0);
}
static void outer_fn(void *c)
{
	item_t *it = c;
	dispatch_assert_queue(g_subq);
	if (it->id & 1) dispatch_sync_f(g_lane[it->qi], it, item_fn); else dispatch_barrier_sync_f(g_lane[it->qi], it, item_fn);
	dispatch_assert_queue(g_subq);
	dispatch_assert_queue_not(g_lane[it->qi]);
}
static void submit(int kind)
{
	int id = atomic_fetch_add(&g_nitems, 1);
	if (id >= MAXI) return;
	item_t *it = &g_items[id];
	it->id = id; it->kind = kind; it->phase = atomic_load(&g_phase); it->payload = id * 3 + 1;
	it->qi = (int)(vrt_rand() % 10 < 6 ? 0 : 1 + vrt_rand() % 2);
	dispatch_queue_t q = g_lane[it->qi];
	it->call_seq = vrt_api("Call", 0, id, kind, 0);
	switch (kind) {
	case 0: dispatch_async_f(q, it, item_fn); break;
	case 1: dispatch_barrier_async_f(q, it, item_fn); break;
	case 2: dispatch_sync_f(q, it, item_fn); break;
	case 3: dispatch_barrier_sync_f(q, it, item_fn); break;
	case 4: dispatch_async_and_wait_f(q, it, item_fn); break;
	case 5: dispatch_sync_f(g_subq, it, outer_fn); break;
	}
	it->ret_seq = vrt_api("Ret", 0, id, kind, 0);
	if (kind >= 2) {
		if (atomic_load(&it->runs) != 1 || !it->end_seq) oracle_fail("C05", "sync on the main queue returned before its item finished", id, kind);
		if (it->result != (id ^ 0x1234)) oracle_fail("C05", "item's writes not visible after sync return", id, 0);
	}
	vrt_progress();
}
static void *client(void *a)
{
	(void)a; (void)vrt_tid();
	for (int ph = 1; ph <= 2; ph++) {
		while (atomic_load(&g_phase) < ph) usleep(100);
		for (int i = 0; i < g_ops; i++) {
			unsigned k = (unsigned)(vrt_rand() % 100);
			submit(k < 40 ? 0 : k < 50 ? 1 : k < 68 ? 2 : k < 78 ? 3 : k < 88 ? 4 : 5);
		}
		atomic_fetch_add(&g_clients_done, 1);
	}
	return NULL;
}
static void check(int from, int to, int phase)
{
	long n = 0;
	for (int i = from; i < to; i++) {
		item_t *a = &g_items[i];
		int r = atomic_load(&a->runs);
		if (r != 1) { oracle_fail("C01", r ? "main-queue item ran more than once" : "main-queue item never ran", i, r); continue; }
		n++;
		if (phase == 1 && !a->on_main) oracle_fail("C02", "item of the thread-bound main queue did not run on the main thread", i, 0);
		for (int j = from; j < to; j++) {
			item_t *b = &g_items[j];
			if (i == j || atomic_load(&b->runs) != 1) continue;
			/* everything in the hierarchy is serialised by the main queue at its bottom */
			if (i < j && a->start_seq < b->end_seq && b->start_seq < a->end_seq) oracle_fail(a->qi == b->qi && a->qi == 0 ? "C02" : "C03", "items of the main-queue hierarchy overlapped", i, j);
			/* submission order: within the main queue and within the serial lane; a barrier-less concurrent lane keeps no order */
			if (a->qi == b->qi && a->qi != 2 && a->ret_seq < b->call_seq && !(a->end_seq < b->start_seq)) oracle_fail(a->qi == 0 ? "C02" : "C03", "main-queue hierarchy: submission order not respected", i, j);
		}
	}
	(void)n;
}
static void *finisher(void *a)
{
	(void)a; (void)vrt_tid();
	/* phase 2 runs after dispatch_main(): the main queue is now an ordinary serial queue */
	while (atomic_load(&g_clients_done) < 2 * NT) usleep(200);
	int n2 = atomic_load(&g_nitems);
	/* flush: every client call has returned; what is still queued sits in the two lanes or in the main queue */
	for (int k = 0; k < 2; k++) {
		dispatch_barrier_sync_f(g_lane[1], NULL, (dispatch_function_t)vrt_progress);
		dispatch_barrier_sync_f(g_lane[2], NULL, (dispatch_function_t)vrt_progress);
		dispatch_sync_f(dispatch_get_main_queue(), NULL, (dispatch_function_t)vrt_progress);
	}
	n2 = atomic_load(&g_nitems);
	check(0, n2, 0);
	if (g_chain != n2) oracle_fail("C02", "main-queue items raced on a plain counter", g_chain, n2);
	vrt_dump();
	fprintf(stderr, "records=%zu items=%d\n", vrt_count(), n2);
	_exit(atomic_load(&g_fail) ? 2 : 0);
}

int main(int argc, char **argv)
{
	const char *out = argc > 1 ? argv[1] : "/dev/null";
	uint64_t seed = argc > 2 ? strtoull(argv[2], NULL, 0) : 1;
	int perturb = argc > 3 ? atoi(argv[3]) : 2;
	if (argc > 4) g_ops = atoi(argv[4]);
	g_main = pthread_self();
	vrt_init(out, seed, perturb);
	vrt_add_class("dq_state", 1);
	vrt_add_class("_os_mpsc_tail", 1);
	vrt_set_hang_seconds(30);
	(void)vrt_tid();
	vrt_register(&_dispatch_main_q, sizeof(_dispatch_main_q), 1);   /* perturbation points on the main queue's words */
	g_lane[0] = dispatch_get_main_queue();
	g_lane[1] = dispatch_queue_create_with_target("verif.main.serial", DISPATCH_QUEUE_SERIAL, dispatch_get_main_queue());
	g_lane[2] = dispatch_queue_create_with_target("verif.main.conc", DISPATCH_QUEUE_CONCURRENT, dispatch_get_main_queue());
	g_subq = dispatch_queue_create("verif.main.submitter", DISPATCH_QUEUE_SERIAL);
	g_otherq = dispatch_queue_create("verif.main.other", DISPATCH_QUEUE_SERIAL);
	dispatch_queue_set_specific(g_lane[0], &g_key_main, (void *)0x1001, NULL);
	dispatch_queue_set_specific(g_lane[1], &g_key_lane, (void *)0x2001, NULL);
	dispatch_queue_set_specific(g_lane[2], &g_key_lane, (void *)0x2002, NULL);
	vrt_register(g_lane[1], sizeof(struct dispatch_lane_s), 1);
	vrt_register(g_lane[2], sizeof(struct dispatch_lane_s), 1);
	pthread_t th[8], fin;
	for (long i = 0; i < NT; i++) pthread_create(&th[i], NULL, client, NULL);
	atomic_store(&g_phase, 1);
	/* phase 1: act as the main thread's runloop */
	int fd = (int)_dispatch_get_main_queue_handle_4CF();
	while (atomic_load(&g_clients_done) < NT) {
		struct pollfd p = { .fd = fd, .events = POLLIN };
		if (poll(&p, 1, 5) > 0) { uint64_t v; (void)!read(fd, &v, sizeof(v)); _dispatch_main_queue_callback_4CF(NULL); }   /* the runloop consumes the handle, as CF does */
	}
	/* every client call has returned, so every wakeup has been posted: drain until the handle stays quiet */
	for (int quiet = 0; quiet < 3; ) { struct pollfd p = { .fd = fd, .events = POLLIN }; if (poll(&p, 1, 20) > 0) { uint64_t v; (void)!read(fd, &v, sizeof(v)); _dispatch_main_queue_callback_4CF(NULL); quiet = 0; } else quiet++; }
	int n1 = atomic_load(&g_nitems);
	check(0, n1, 1);
	pthread_create(&fin, NULL, finisher, NULL);
	atomic_store(&g_phase, 2);
	dispatch_main();
	return 0;
}
