/* Driver for C11, layer 1: replay of TLC-generated behaviours of spec/TimerHeap.tla on the
 * REAL timer heap of src/event/event.c (static functions reached through the guarded
 * _dispatch_verif_timer_heap_* shim), comparing the complete observable structure
 * (dth_count, dth_segments, dth_needs_program, every slot, every back-pointer, every key)
 * with the spec's image after every step.
 *
 * Verdict: the PROPERTY-level invariants of the spec (MinimaAreReferenceMinima, CountIsPopulation,
 * HeapOrder, BackPointers, NeedsProgramOnMinChange for the target heap) are evaluated on the real
 * structure after every step against the sorted-set reference (the set of timers inserted and not
 * removed, with their keys): a failure is a violation (exit 2).  A real structure that satisfies them
 * but is not cell-for-cell the one the transcription predicts (e.g. another tie-break) is only
 * counted as drift ("the code no longer is the transcription") and reported, exit 0.
 *
 * usage: drv_timerheap <vectors> [<failure-out>]
 * vector file (whitespace separated integers, produced by tools/props/C11.py from TLC output):
 *   NT <n>
 *   S <nstates>  then per state:  id parent op t k1 k2 len v1..vlen     (root has parent -1)
 *   E <nedges>   then per edge:   from op t k1 k2 to
 *   Q <nseq>     then per sequence: nsteps { op t k1 k2 cnt segs np min1 min2 sum }* len v1..vlen
 * exit 0 ok, 2 mismatch (details on stderr + failure file), 70 crash in the library. */
#define _GNU_SOURCE
#include "internal.h"
#include <signal.h>
#include <stdio.h>
#include <stdlib.h>
#include <string.h>

extern void _dispatch_verif_timer_heap_insert(dispatch_timer_heap_t dth, dispatch_timer_source_refs_t dt);
extern void _dispatch_verif_timer_heap_remove(dispatch_timer_heap_t dth, dispatch_timer_source_refs_t dt);
extern void _dispatch_verif_timer_heap_update(dispatch_timer_heap_t dth, dispatch_timer_source_refs_t dt);
extern dispatch_timer_source_refs_t _dispatch_verif_timer_heap_slot(dispatch_timer_heap_t dth, uint32_t idx);
extern uint32_t _dispatch_verif_timer_heap_capacity(uint32_t segments);

#define MAXNT 64
#define MAXIMG 1024
static int NT;
static struct dispatch_timer_heap_s *g_dth;
static dispatch_timer_source_refs_t g_dt[MAXNT + 1];
static const char *g_failout;
static long g_ops, g_cmp;

typedef struct { int op, t, k1, k2; } op_t;
typedef struct { int parent; op_t op; int len; int *img; } state_t;

/* the sorted-set reference (spec variables ref, key), driven by the same operations */
static int r_armed[MAXNT + 1]; static long r_k[MAXNT + 1][2];
static long g_drift; static char g_first_drift[2048];

/* current sequence, for failure reports */
static op_t g_seq[4096]; static int g_seqlen;

static void on_crash(int sig)
{
	fprintf(stderr, "CRASH signal %d inside the timer heap after %d operations of the current sequence\n", sig, g_seqlen);
	if (g_failout) {
		FILE *f = fopen(g_failout, "w");
		if (f) {
			fprintf(f, "{\"what\":\"crash\",\"signal\":%d,\"ops\":[", sig);
			for (int i = 0; i < g_seqlen; i++) fprintf(f, "%s[%d,%d,%d,%d]", i ? "," : "", g_seq[i].op, g_seq[i].t, g_seq[i].k1, g_seq[i].k2);
			fprintf(f, "]}\n"); fclose(f);
		}
	}
	_exit(70);
}

static int id_of(dispatch_timer_source_refs_t p)
{
	if (!p) return 0;
	for (int t = 1; t <= NT; t++) if (g_dt[t] == p) return t;
	return -1; /* a pointer that is not a timer (segment table entry) */
}

static void fresh(void)
{
	memset(g_dth, 0, sizeof(*g_dth));
	for (int t = 1; t <= NT; t++) {
		memset(g_dt[t], 0, sizeof(struct dispatch_timer_source_refs_s));
		g_dt[t]->dt_heap_entry[DTH_TARGET_ID] = DTH_INVALID_ID;
		g_dt[t]->dt_heap_entry[DTH_DEADLINE_ID] = DTH_INVALID_ID;
	}
	g_seqlen = 0;
	memset(r_armed, 0, sizeof(r_armed)); memset(r_k, 0, sizeof(r_k));
}

static void check_invariants(int step, int had_min, int old_min_t, long old_min_key);

static void apply(op_t o)
{
	dispatch_timer_source_refs_t dt = g_dt[o.t];
	if (g_seqlen < 4096) g_seq[g_seqlen++] = o;
	g_dth->dth_needs_program = false;
	dispatch_timer_source_refs_t m0 = g_dth->dth_min[DTH_TARGET_ID];
	int had_min = m0 != NULL, old_min_t = 0; long old_min_key = 0;
	if (m0) { for (int t = 1; t <= NT; t++) if (g_dt[t] == m0) old_min_t = t; old_min_key = (long)m0->dt_timer.target; }
	if (o.op == 2) { r_armed[o.t] = 0; r_k[o.t][0] = r_k[o.t][1] = 0; }
	else { r_armed[o.t] = 1; r_k[o.t][0] = o.k1; r_k[o.t][1] = o.k2; }
	switch (o.op) {
	case 1:
		dt->dt_timer.target = (uint64_t)o.k1; dt->dt_timer.deadline = (uint64_t)o.k2;
		_dispatch_verif_timer_heap_insert(g_dth, dt);
		break;
	case 2:
		_dispatch_verif_timer_heap_remove(g_dth, dt);
		dt->dt_timer.target = 0; dt->dt_timer.deadline = 0;
		break;
	case 3:
		dt->dt_timer.target = (uint64_t)o.k1; dt->dt_timer.deadline = (uint64_t)o.k2;
		_dispatch_verif_timer_heap_update(g_dth, dt);
		break;
	}
	g_ops++;
	check_invariants(g_seqlen, had_min, old_min_t, old_min_key);
}

/* the image of the real structure, same layout as Image(h, key) of the spec */
static int real_image(int *img)
{
	int n = 0;
	uint32_t cap = _dispatch_verif_timer_heap_capacity(g_dth->dth_segments);
	img[n++] = (int)g_dth->dth_count;
	img[n++] = (int)g_dth->dth_segments;
	img[n++] = g_dth->dth_needs_program ? 1 : 0;
	if (cap > 600) cap = 600;
	for (uint32_t i = 0; i < cap; i++) img[n++] = id_of(_dispatch_verif_timer_heap_slot(g_dth, i));
	for (int t = 1; t <= NT; t++) for (int h = 0; h < 2; h++)
		img[n++] = g_dt[t]->dt_heap_entry[h] == DTH_INVALID_ID ? -1 : (int)g_dt[t]->dt_heap_entry[h];
	for (int t = 1; t <= NT; t++) { img[n++] = (int)g_dt[t]->dt_timer.target; img[n++] = (int)g_dt[t]->dt_timer.deadline; }
	return n;
}

static long digest_sum(const int *img, int n)
{
	long s = 0;
	for (int i = 1; i <= n; i++) s = (s + (long)(i * 31 + 7) * (img[i - 1] + 2)) % 1000003;
	return s;
}

static void report(const char *what, int step, const int *exp, int explen, const int *got, int gotlen)
{
	fprintf(stderr, "MISMATCH C11-heap %s at step %d of sequence:", what, step);
	for (int i = 0; i < g_seqlen; i++)
		fprintf(stderr, " %s(t%d,%d,%d)", g_seq[i].op == 1 ? "insert" : g_seq[i].op == 2 ? "remove" : "update", g_seq[i].t, g_seq[i].k1, g_seq[i].k2);
	fprintf(stderr, "\n  expected(spec):"); for (int i = 0; i < explen; i++) fprintf(stderr, " %d", exp[i]);
	fprintf(stderr, "\n  real heap     :"); for (int i = 0; i < gotlen; i++) fprintf(stderr, " %d", got[i]);
	fprintf(stderr, "\n  layout: count segments needs_program | slots[0..capacity) | dt_heap_entry[2] per timer | target,deadline per timer\n");
	if (g_failout) {
		FILE *f = fopen(g_failout, "w");
		if (f) {
			fprintf(f, "{\"what\":\"%s\",\"step\":%d,\"nt\":%d,\"ops\":[", what, step, NT);
			for (int i = 0; i < g_seqlen; i++) fprintf(f, "%s[%d,%d,%d,%d]", i ? "," : "", g_seq[i].op, g_seq[i].t, g_seq[i].k1, g_seq[i].k2);
			fprintf(f, "],\"expected\":["); for (int i = 0; i < explen; i++) fprintf(f, "%s%d", i ? "," : "", exp[i]);
			fprintf(f, "],\"real\":["); for (int i = 0; i < gotlen; i++) fprintf(f, "%s%d", i ? "," : "", got[i]);
			fprintf(f, "]}\n"); fclose(f);
		}
	}
	exit(2);
}

static void inv_fail(const char *what, int step)
{
	int got[MAXIMG]; int n = real_image(got);
	report(what, step, got, 0, got, n);
}

static uint32_t parent_of(uint32_t idx) { return ((((idx - 2) / 2)) & ~1u) | (idx & 1u); }

/* the spec's invariants, evaluated on the real structure against the sorted-set reference */
static void check_invariants(int step, int had_min, int old_min_t, long old_min_key)
{
	int n = 0; long mn[2] = { 0, 0 };
	for (int t = 1; t <= NT; t++) if (r_armed[t]) {
		for (int h = 0; h < 2; h++) if (!n || r_k[t][h] < mn[h]) mn[h] = r_k[t][h];
		n++;
	}
	uint32_t cnt = g_dth->dth_count;
	if (cnt != 2u * (uint32_t)n) inv_fail("CountIsPopulation: dth_count is not twice the number of timers in the heap", step);
	if (n == 0) {
		if (g_dth->dth_min[0] || g_dth->dth_min[1]) inv_fail("MinimaAreReferenceMinima: empty heap with a non-NULL dth_min", step);
	} else {
		for (int h = 0; h < 2; h++) {
			int m = id_of(g_dth->dth_min[h]);
			if (m <= 0 || !r_armed[m]) inv_fail("MinimaAreReferenceMinima: dth_min is not a timer of the heap", step);
			if ((long)g_dt[m]->dt_timer.heap_key[h] != mn[h])
				inv_fail(h == 0 ? "MinimaAreReferenceMinima: dth_min[TARGET] is not the timer with the smallest target"
						: "MinimaAreReferenceMinima: dth_min[DEADLINE] is not the timer with the smallest deadline", step);
		}
	}
	if (cnt > _dispatch_verif_timer_heap_capacity(g_dth->dth_segments)) inv_fail("SegmentsOK: dth_count exceeds the capacity of the allocated segments", step);
	for (uint32_t idx = 0; idx < cnt; idx++) {
		int c = id_of(_dispatch_verif_timer_heap_slot(g_dth, idx));
		if (c <= 0 || !r_armed[c]) inv_fail("BackPointers: a live slot does not hold a timer of the heap", step);
		if (g_dt[c]->dt_heap_entry[idx & 1] != idx) inv_fail("BackPointers: dt_heap_entry does not point back to the slot holding the timer", step);
		if (idx >= 2) {
			int p = id_of(_dispatch_verif_timer_heap_slot(g_dth, parent_of(idx)));
			if (p <= 0) inv_fail("HeapOrder: parent slot holds no timer", step);
			if (g_dt[p]->dt_timer.heap_key[idx & 1] > g_dt[c]->dt_timer.heap_key[idx & 1])
				inv_fail((idx & 1) ? "HeapOrder: deadline heap: parent key > child key" : "HeapOrder: target heap: parent key > child key", step);
		}
	}
	for (int t = 1; t <= NT; t++) for (int h = 0; h < 2; h++) {
		uint32_t e = g_dt[t]->dt_heap_entry[h];
		if (!r_armed[t]) { if (e != DTH_INVALID_ID) inv_fail("BackPointers: a timer outside the heap has a heap entry", step); }
		else if (e >= cnt || (e & 1) != (uint32_t)h || _dispatch_verif_timer_heap_slot(g_dth, e) != g_dt[t])
			inv_fail("BackPointers: dt_heap_entry of a timer in the heap is wrong", step);
	}
	/* NeedsProgramOnMinChange (target heap: what _dispatch_timers_program arms the kernel timer with) */
	dispatch_timer_source_refs_t m0 = g_dth->dth_min[DTH_TARGET_ID];
	int changed = (had_min != (m0 != NULL)) || (m0 && (id_of(m0) != old_min_t || (long)m0->dt_timer.target != old_min_key));
	if (changed && !g_dth->dth_needs_program)
		inv_fail("NeedsProgramOnMinChange: the minimum target changed but dth_needs_program was not set (kernel timer would not be reprogrammed)", step);
}

static void note_drift(const char *what, int step, const int *exp, int explen, const int *got, int gotlen)
{
	if (!g_drift++) {
		int o = snprintf(g_first_drift, sizeof(g_first_drift), "%s at step %d after", what, step);
		for (int i = 0; i < g_seqlen && o < 900; i++) o += snprintf(g_first_drift + o, sizeof(g_first_drift) - (size_t)o, " %c(t%d,%d,%d)", "?iru"[g_seq[i].op], g_seq[i].t, g_seq[i].k1, g_seq[i].k2);
		o += snprintf(g_first_drift + o, sizeof(g_first_drift) - (size_t)o, "; spec:");
		for (int i = 0; i < explen && o < 1400; i++) o += snprintf(g_first_drift + o, sizeof(g_first_drift) - (size_t)o, " %d", exp[i]);
		o += snprintf(g_first_drift + o, sizeof(g_first_drift) - (size_t)o, "; real:");
		for (int i = 0; i < gotlen && o < 1900; i++) o += snprintf(g_first_drift + o, sizeof(g_first_drift) - (size_t)o, " %d", got[i]);
	}
}

static void compare_image(const int *exp, int explen, int step)
{
	int got[MAXIMG]; int n = real_image(got);
	g_cmp++;
	if (n != explen || memcmp(got, exp, sizeof(int) * (size_t)n)) note_drift("structure differs from the transcription", step, exp, explen, got, n);
}

static void cleanup_and_check_empty(int step)
{
	/* remove whatever is left with the real remove: the structure must return to empty */
	for (int t = 1; t <= NT; t++) if (g_dt[t]->dt_heap_entry[0] != DTH_INVALID_ID) {
		op_t o = { 2, t, 0, 0 }; apply(o);
	}
	if (g_dth->dth_segments || g_dth->dth_heap) {
		int got[MAXIMG]; int n = real_image(got);
		note_drift("segments kept after removing every timer", step, got, 0, got, n);
		/* start the next sequence from a clean structure */
	}
}

static int rd(FILE *f) { int v; if (fscanf(f, "%d", &v) != 1) { fprintf(stderr, "bad vector file\n"); exit(3); } return v; }

int main(int argc, char **argv)
{
	if (argc < 2) { fprintf(stderr, "usage\n"); return 3; }
	g_failout = argc > 2 ? argv[2] : NULL;
	FILE *f = fopen(argv[1], "r");
	if (!f) { perror(argv[1]); return 3; }
	signal(SIGSEGV, on_crash); signal(SIGBUS, on_crash); signal(SIGABRT, on_crash); signal(SIGILL, on_crash); signal(SIGTRAP, on_crash);
	char tag[8];
	long nedges = 0, nseq = 0, nstates = 0;
	state_t *st = NULL;
	g_dth = calloc(1, sizeof(*g_dth));
	while (fscanf(f, "%7s", tag) == 1) {
		if (!strcmp(tag, "NT")) {
			NT = rd(f);
			if (NT > MAXNT) return 3;
			for (int t = 1; t <= NT; t++) g_dt[t] = calloc(1, sizeof(struct dispatch_timer_source_refs_s));
		} else if (!strcmp(tag, "S")) {
			nstates = rd(f);
			st = calloc((size_t)nstates, sizeof(state_t));
			for (long i = 0; i < nstates; i++) {
				int id = rd(f); state_t *s = &st[id];
				s->parent = rd(f); s->op.op = rd(f); s->op.t = rd(f); s->op.k1 = rd(f); s->op.k2 = rd(f);
				s->len = rd(f); s->img = malloc(sizeof(int) * (size_t)s->len);
				for (int k = 0; k < s->len; k++) s->img[k] = rd(f);
			}
		} else if (!strcmp(tag, "E")) {
			long n = rd(f);
			for (long e = 0; e < n; e++) {
				int from = rd(f); op_t o; o.op = rd(f); o.t = rd(f); o.k1 = rd(f); o.k2 = rd(f); int to = rd(f);
				/* path root -> from */
				int path[256], pl = 0;
				for (int s = from; st[s].parent >= 0; s = st[s].parent) path[pl++] = s;
				fresh();
				compare_image(st[0].img, st[0].len, 0); /* the empty heap (state 0 is the root) */
				for (int k = pl - 1; k >= 0; k--) { apply(st[path[k]].op); compare_image(st[path[k]].img, st[path[k]].len, pl - k); }
				apply(o);
				compare_image(st[to].img, st[to].len, pl + 1);
				cleanup_and_check_empty(pl + 2);
				nedges++;
			}
		} else if (!strcmp(tag, "Q")) {
			long n = rd(f);
			for (long q = 0; q < n; q++) {
				int steps = rd(f);
				fresh();
				for (int k = 0; k < steps; k++) {
					op_t o; o.op = rd(f); o.t = rd(f); o.k1 = rd(f); o.k2 = rd(f);
					int exp[6]; for (int j = 0; j < 6; j++) exp[j] = rd(f);
					apply(o);
					int img[MAXIMG]; int m = real_image(img);
					int got[6] = { img[0], img[1], img[2], id_of(g_dth->dth_min[0]), id_of(g_dth->dth_min[1]), (int)digest_sum(img, m) };
					g_cmp++;
					if (memcmp(got, exp, sizeof(got))) note_drift("digest (count,segments,needs_program,min_target,min_deadline,checksum) differs from the transcription", k + 1, exp, 6, got, 6);
				}
				int len = rd(f); int exp[MAXIMG];
				for (int k = 0; k < len; k++) exp[k] = rd(f);
				compare_image(exp, len, steps);
				cleanup_and_check_empty(steps + 1);
				nseq++;
			}
		} else { fprintf(stderr, "bad tag %s\n", tag); return 3; }
	}
	for (char *c = g_first_drift; *c; c++) if (*c == '"' || *c == '\\') *c = ' ';
	printf("{\"states\":%ld,\"edges_replayed\":%ld,\"sequences_replayed\":%ld,\"heap_ops\":%ld,\"comparisons\":%ld,\"invariant_evaluations\":%ld,\"drift\":%ld,\"first_drift\":\"%s\"}\n",
			nstates, nedges, nseq, g_ops, g_cmp, g_ops, g_drift, g_first_drift);
	return 0;
}
