#!/bin/bash
# usage: sweep.sh <seed> <tier>
cd /verif
for p in C01 C02 C03 C04 C05 C06 C07 C08 C09 C10 C11 C12 C13 C14 C15 C16 C17 C18 C19 C20; do
  t0=$(date +%s)
  VERIF_SEED=$1 tools/check $p --tier $2 > build/sweep_$1_$p.log 2>&1; rc=$?
  echo "$p rc=$rc $(( $(date +%s)-t0 ))s $(grep -cE '^VIOLATION' build/sweep_$1_$p.log) viol $(grep -cE '^DRIFT' build/sweep_$1_$p.log) drift $(grep -E '^(BROKEN|KNOWN)' build/sweep_$1_$p.log | cut -c1-160 | head -2 | tr '\n' ' ')"
done
