#!/bin/bash
# Build /repo with the guard OFF in a scratch dir (outside /repo and /verif) and run the pinned ctest suite.
set -e
S=$(mktemp -d /tmp/verif-baseline.XXXXXX)
trap 'rm -rf "$S"' EXIT
cmake -G Ninja -S /repo -B "$S/b" -DCMAKE_C_COMPILER=clang-16 -DCMAKE_CXX_COMPILER=clang++-16 \
  -DCMAKE_BUILD_TYPE=RelWithDebInfo -DCMAKE_C_FLAGS=-Wno-error -DCMAKE_CXX_FLAGS=-Wno-error -DENABLE_TESTING=ON >"$S/cmake.log" 2>&1 || { tail -30 "$S/cmake.log"; exit 3; }
cmake --build "$S/b" >"$S/build.log" 2>&1 || { tail -30 "$S/build.log"; exit 3; }
ctest --test-dir "$S/b" -j8 --timeout 900 --output-junit "$S/junit.xml" | tail -40
