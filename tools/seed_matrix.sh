#!/bin/bash
# Runs every seeded change against the check(s) of its property (scratch worktrees, /repo untouched) and prints a
# matrix: a seed whose check exits 0 is a regression of the machinery.  usage: seed_matrix.sh [tier] [name...]
ROOT=$(cd "$(dirname "$0")/.." && pwd); TIER=${1:-quick}; shift
NAMES=${*:-$(ls "$ROOT/seeded")}
for n in $NAMES; do
  p=$(python3 -c "import json;m=json.load(open('$ROOT/seeded/$n/meta.json'));print(m.get('checked_by',m['property']))")
  t0=$(date +%s)
  res=$("$ROOT/tools/run_seed.sh" "$n" "$p" "$TIER" 2>&1 | tail -1)
  echo "$n $p $res $(( $(date +%s) - t0 ))s"
done
