#!/bin/bash
# usage: build_harness.sh <driver-name> [plain|asan]  -> prints path of the binary
# Compiles harness/<driver>.c (+ verif_rt.c) against /repo's headers and links the
# hooked static library built from /repo's current working tree.
set -e
DRV=$1; FLAV=${2:-plain}
REPO=${VERIF_REPO:-/repo}
ROOT=$(cd "$(dirname "$0")/.." && pwd)
BD=$("$ROOT/tools/build_repo.sh" "$FLAV")
OUT=$(dirname "$BD")/bin-$FLAV; mkdir -p "$OUT"
SAN=""; CCV=16; if [ "$FLAV" = asan ]; then SAN="-fsanitize=address,undefined -fno-omit-frame-pointer -fno-sanitize=alignment,function"; CCV=15; fi
INC="-I$REPO -I$REPO/src -I$REPO/private -I$REPO/os -I$BD -I$BD/src -I$REPO/src/BlocksRuntime -I$ROOT/harness"
DEFS="-DDISPATCH_VERIF=1 -DHAVE_CONFIG_H=1"
SRC=$ROOT/harness/$DRV.c; CC=clang-$CCV; STD="-std=gnu11"
if [ -f "$ROOT/harness/$DRV.cpp" ]; then SRC=$ROOT/harness/$DRV.cpp; CC=clang++-$CCV; STD="-std=gnu++17"; fi
# concurrent checks share drivers: build under private names, publish with an atomic rename
T=$OUT/.tmp.$$; trap 'rm -f "$T.o" "$T.bin"' EXIT
clang-$CCV -O1 -g $SAN -c "$ROOT/harness/verif_rt.c" -o "$T.o"
$CC -O1 -g $SAN $STD -fblocks -Wno-everything $DEFS $INC ${EXTRA_CFLAGS} "$SRC" "$T.o" \
  "$BD/src/libdispatch.a" "$BD/src/BlocksRuntime/libBlocksRuntime.a" -rdynamic -lpthread -lrt -lstdc++ -lm ${EXTRA_LIBS} -o "$T.bin"
mv -f "$T.bin" "$OUT/$DRV"
echo "$OUT/$DRV"
