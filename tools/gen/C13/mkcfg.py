#!/usr/bin/env python3
"""Regenerates spec/cfg/Data_*.cfg (the constant definitions Lens_*/Kinds_*/AllOps live in spec/DataGen.tla)."""
import os
D = os.path.join(os.path.dirname(os.path.abspath(__file__)), "..", "..", "..", "spec", "cfg")
INV = "TypeOK NoErr RecordsInRange DepthOne SizeIsLength OpLaw Tiling Ledger Destructors NoUseAfterDestructor AllGone ReleaseTail"

def cfg(name, lens, kinds, ops, depth, opset="AllOps", life=False, retains=0, connected=True, emptyop=False,
        alphabet="{}", hist="codes", emit=True, sample=False, relafter=0, huge=False, comment=""):
    s = "\\* %s\nSPECIFICATION Spec\nCONSTANTS\n" % comment
    s += "  LeafLens <- %s\n  LeafKinds <- %s\n  Alphabet = %s\n  MaxOps = %d\n  MaxDepth = %d\n  OpSet <- %s\n" % (
        lens, kinds, alphabet, ops, depth, opset)
    s += "  Lifetimes = %s\n  ReleaseAfter = %d\n  MaxRetains = %d\n  Connected = %s\n  EmptyOperand = %s\n  KeepHist = \"%s\"\n  Huge = %s\n  Sample = %s\n  Mut = \"none\"\n" % (
        str(life).upper(), relafter, retains, str(connected).upper(), str(emptyop).upper(), hist, "{99999}" if huge else "{}", str(sample).upper())
    s += "INVARIANTS %s%s\nCHECK_DEADLOCK FALSE\n" % (INV, " EmitTerminal" if emit else "")
    open(os.path.join(D, "Data_%s.cfg" % name), "w").write(s)

# quick
cfg("gen_q", "Lens_f22", "Kinds_c2", 3, 3, comment="quick: every operation tree of <=3 operations (depth <=3) over 2 leaves of length 2, all offsets/lengths 0..size+1, release tail; emitted for replay")
cfg("life_q", "Lens_f21", "Kinds_c2", 2, 2, life=True, retains=0, connected=False, comment="quick: all interleavings of release with <=2 operations over 2 leaves of length 2 (all release orders); emitted")
cfg("lifer_q", "Lens_f22", "Kinds_c2", 1, 1, life=True, retains=1, connected=False, comment="quick: all interleavings of retain/release with <=1 operation over 2 leaves of length 2; emitted")
cfg("ab_q", "Lens_f21", "Kinds_c2", 2, 2, alphabet="{0, 1}", huge=True, connected=True, emptyop=False, comment="quick: 2-symbol alphabet, every leaf content, <=2 operations; emitted")
cfg("kinds_q", "Lens_k", "Kinds_all2", 1, 1, huge=True, life=True, retains=0, connected=False, emptyop=True, comment="quick: every destructor kind (DEFAULT copy / custom block on a serial queue / FREE / custom block on the default queue), empty leaves and the empty operand included; emitted")
cfg("mut_q", "Lens_f22", "Kinds_c2", 3, 3, emit=False, hist="none", comment="quick: base of the spec-mutant runs (Mut is substituted)")
cfg("mutlife_q", "Lens_f22", "Kinds_c2", 1, 1, life=True, connected=False, emit=False, hist="none", comment="quick: base of the lifetime spec-mutant runs")
cfg("sim", "Lens_sim", "Kinds_sim", 8, 8, opset="FlatOps", life=True, retains=3, connected=False, emptyop=True, hist="ops", sample=True, relafter=3, huge=True, comment="-simulate: deep trees (<=8 operations over <=4 leaves of length <=5, every kind, flatten SPI), retain/release interleaved; emitted")
# thorough
cfg("gen_t23", "Lens_t23", "Kinds_c2", 3, 3, comment="thorough: every operation tree of <=3 operations over a leaf of length 3 and a leaf of length 0..3; emitted")
cfg("gen_t3", "Lens_f212", "Kinds_cdf3", 3, 3, huge=True, comment="thorough: <=3 operations over 3 leaves (lengths 2,1,2; custom/DEFAULT/FREE); emitted")
cfg("gen_t4", "Lens_f2", "Kinds_c1", 4, 4, comment="thorough: every operation tree of <=4 operations (depth <=4; 4- and 8-record composites) over one leaf of length 2; emitted")
cfg("life_t", "Lens_f212", "Kinds_cdf3", 2, 2, life=True, retains=0, connected=True, comment="thorough: all interleavings of release (all release orders) with <=2 connected operations over 3 leaves (custom/DEFAULT/FREE); emitted")
cfg("lifer_t", "Lens_f2", "Kinds_c1", 2, 2, life=True, retains=1, connected=False, comment="thorough: all interleavings of retain/release with <=2 operations over one leaf; emitted")
cfg("flat_t", "Lens_f21", "Kinds_c2", 3, 3, opset="FlatOps", connected=False, comment="thorough: dispatch_data_get_flattened_bytes_4libxpc interleaved with <=3 operations; emitted")
cfg("alg_t", "Lens_f321", "Kinds_c3", 3, 3, hist="none", emit=False, connected=False, huge=False, comment="thorough: model checking only (no history: op sequences reaching the same heap are merged), any <=3 operations, connected or not, depth <=3, over <=3 leaves of lengths 3,2,1")
