#!/bin/bash
# usage: run_seed.sh <seed-name> <property> [tier]
# Runs a check against a seeded change without touching /repo: fresh scratch worktree of /repo HEAD + the
# patch, VERIF_REPO pointing at it (own build dir), evidence diverted.  Prints the check's verdict lines.
NAME=$1; PROP=$2; TIER=${3:-quick}
ROOT=$(cd "$(dirname "$0")/.." && pwd)
WT=$(mktemp -d /tmp/runseed-$NAME.XXXX); rmdir "$WT"
git -C /repo worktree add -q "$WT" HEAD || exit 3
ALT=$ROOT/build/alt-$(echo "$WT" | md5sum | cut -c1-8)
trap 'git -C /repo worktree remove --force "$WT" 2>/dev/null; rm -rf "$ALT" "$ROOT/build/seed-evidence"' EXIT
git -C "$WT" apply "$ROOT/seeded/$NAME/patch.diff" || exit 3
mkdir -p "$ROOT/build/seed-evidence"
VERIF_REPO=$WT VERIF_EVIDENCE_DIR=$ROOT/build/seed-evidence "$ROOT/tools/check" "$PROP" --tier "$TIER" > "$ROOT/build/seedrun_${NAME}_$PROP.log" 2>&1
rc=$?
grep -E "^(VIOLATION|OK|BROKEN|KNOWN|DRIFT)|detail" "$ROOT/build/seedrun_${NAME}_$PROP.log" | cut -c1-400 | head -12
echo "exit=$rc"
