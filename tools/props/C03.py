"""C03 - a serial target queue (or workloop) serialises every queue targeting it.

Explore: spec/Chain.tla (Lane.tla generalised to a target-queue hierarchy: per-queue dq_state word
through the SAME DQState operators, per-queue MPSC list holding items, child queues, re-pushed sync
waiters and redirect wrappers, per-thread frame stack for nested invocations) model-checked by TLC
on the shapes of spec/MCChain.tla; invariants HierarchyExclusion, per-serial-queue Order, AtMostOnce,
NoStrand, SyncAfterEnd, WidthOK, reference ledger; liveness.  Spec mutants must be refuted.
Bind: (1) dqstate_conformance: the real inline dq_state functions vs the DQState operators Chain uses;
(2) harness/drv_chain.c: the same shapes (and larger ones, workloop bottom included) on the real
library under perturbation, the property's statement evaluated on the recorded total order;
(3) the recorded dq_state accesses of EVERY queue of the hierarchy, split per queue, validated
against spec/ChainWordTrace.tla (each access must be a transition its DQState operator allows).
Workloop bottom: spec/Workloop.tla (Chain.tla with the bottom lane replaced by the workloop of src/queue.c: per-bucket
MPSC lists, _dispatch_workloop_push / _push_waiter / _wakeup / _invoke2 / _try_lower_max_qos / _barrier_complete /
_drain_barrier_waiter / _activate, dispatch_async and dispatch_async_and_wait directly on the workloop) model-checked on the
shapes of spec/MCWorkloop.tla with its own spec mutants; on the real library the workloop object itself is recorded
(dq_state with numeric max_qos, every exchange of dwl_tails[] / dwl_heads[]) and validated against
spec/WorkloopWordTrace.tla (operators of spec/WorkloopState.tla, first-pusher obligation, pops under the lock, no work left
behind an unlock); spec/ChainLockTrace.tla treats the workloop as a serial level."""
import os, re, json
from vlib import *
from props.lane_common import dqstate_conformance, FUNC_PROPS
PROP = "C03"

INVS = "HierarchyExclusion Order BarrierExcl AtMostOnce NoStrand SyncAfterEnd WidthOK NoEarlyStart NoCrash RefOK LockChain DrainFromTarget"
# mutants are judged by the property's own invariants only (not by the accounting ones that notice a corrupt word first)
INVS_PROP = "HierarchyExclusion Order AtMostOnce NoStrand SyncAfterEnd"

# name -> (shape suffixes (Queues, Target, Width), program suffix, extra)
MODELS = {
    "C1q": dict(shape=("C1", "C1", "C1"), prog="C1q"),     # serial L -> serial B: async + sync on L
    "C1":  dict(shape=("C1", "C1", "C1"), prog="C1"),      # + async on B
    "C1b": dict(shape=("C1", "C1", "C1"), prog="C1b"),     # sync directly on the bottom racing an async on the leaf
    "C2q": dict(shape=("C2", "C2", "C2"), prog="C2q"),     # fan-in, asyncs on both leaves
    "C2s": dict(shape=("C2", "C2", "C2"), prog="C2s"),     # fan-in, async on one leaf, sync through the other
    "C2":  dict(shape=("C2", "C2", "C2"), prog="C2"),
    "C3q": dict(shape=("C3", "C3", "C3"), prog="C3q"),     # concurrent inner (width 2) over serial bottom
    "C3":  dict(shape=("C3", "C3", "C3"), prog="C3"),
    "C3b": dict(shape=("C3", "C3", "C3"), prog="C3b"),
    "C4q": dict(shape=("C1", "C1", "C1"), prog="C4q"),     # sync through both levels racing a drainer
    "C4":  dict(shape=("C1", "C1", "C1"), prog="C4"),
    "C5":  dict(shape=("C1", "C1", "C1"), prog="C5", inactive='{"L"}', t0="Target0C5"),   # retarget-then-activate
    "C5s": dict(shape=("C1", "C1", "C1"), prog="C5s", inactive='{"L"}', t0="Target0C5"),
    "C6":  dict(shape=("C6", "C6", "C6"), prog="C6"),      # three serial levels
    "C6x": dict(shape=("C6", "C6", "C6"), prog="C6x"),
    "C7q": dict(shape=("C6", "C6", "C7"), prog="C7q"),     # serial over concurrent over serial
    "C7":  dict(shape=("C6", "C6", "C7"), prog="C7"),
    "C7r": dict(shape=("C6", "C6", "C7"), prog="C6"),     # waiter of the serial leaf re-pushed on / reserved from the concurrent middle
}


def chain_cfg(name, mut="none", live=True, workers=2, invs=None):
    m = MODELS[name]
    sq, st, sw = m["shape"]
    p = m["prog"]
    txt = """SPECIFICATION FairSpec
CONSTANTS
  Queues <- Queues%s
  Target <- Target%s
  Target0 <- %s
  Width <- Width%s
  Inactive = %s
  Clients = {"c1", "c2"}
  Workers = {%s}
  Items <- Items%s
  Kind <- Kind%s
  On <- On%s
  Prog <- Prog%s
  SCMAX = 3
  SCHALF = 2
  Mut = "%s"
INVARIANTS %s
%s
CHECK_DEADLOCK FALSE
""" % (sq, st, m.get("t0") or ("Target" + st), sw, m.get("inactive", "{}"),
       ", ".join('"w%d"' % (i + 1) for i in range(workers)), p, p, p, p, mut, invs or INVS, "PROPERTY Live" if live else "")
    path = os.path.join(rundir(PROP), "Chain_%s_%s.cfg" % (name, mut))
    open(path, "w").write(txt)
    return path


# ---- Workloop.tla (spec/MCWorkloop.tla): name -> shape suffixes (Queues/Target, Width, Qos), program suffixes, buckets ----
WL_MODELS = {
    "W1":  dict(q="W1", w="W1", qos="W1", items="W1", on="W1", prog="W1", buckets="{4}"),          # serial leaf: async + sync
    "W1x": dict(q="W1", w="W1", qos="W1", items="W1x", on="W1x", prog="W1x", buckets="{4}"),       # + async directly on the workloop
    "W1i": dict(q="W1", w="W1", qos="W1", items="W1", on="W1", prog="W1i", buckets="{4}", inactive=True),   # created inactive, two activates
    "W2":  dict(q="W2", w="W2", qos="W2", items="W2", on="W2", prog="W2", buckets="{3, 4}"),       # fan-in over two buckets, asyncs
    "W2s": dict(q="W2", w="W2", qos="W2", items="W2s", on="W2s", prog="W2s", buckets="{3, 4}"),    # async (utility leaf) vs sync (default leaf)
    "W2t": dict(q="W2", w="W2", qos="W2", items="W2s", on="W2t", prog="W2s", buckets="{3, 4}"),    # sync through the utility leaf
    "W2x": dict(q="W2", w="W2", qos="W2", items="W2x", on="W2x", prog="W2x", buckets="{3, 4}"),
    "W3":  dict(q="W1", w="W3", qos="W1", items="W3", on="W3", prog="W3", buckets="{4}"),          # concurrent leaf
    "W3b": dict(q="W1", w="W3", qos="W1", items="W3b", on="W3b", prog="W3b", buckets="{4}"),
    "W4":  dict(q="W1", w="W1", qos="W1", items="W4", on="W4", prog="W4", buckets="{4}"),          # async + async_and_wait on the workloop
    "W4s": dict(q="W1", w="W1", qos="W1", items="W4s", on="W4s", prog="W4s", buckets="{4}"),       # sync through the leaf vs async_and_wait
    "W4x": dict(q="W1", w="W1", qos="W1", items="W4x", on="W4x", prog="W4x", buckets="{4}"),
    "W5y": dict(q="W5", w="W5", qos="W5", items="W5y", on="W5y", prog="W5y", buckets="{4, 5}"),    # higher bucket fills while the default one is drained
    "W5x": dict(q="W5", w="W5", qos="W5", items="W5x", on="W5x", prog="W5x", buckets="{4, 5}"),    # waiter in the lower bucket
    "W6":  dict(q="W6", w="W6", qos="W6", items="W1", on="W1", prog="W1", buckets="{4}"),          # leaf -> serial -> workloop
    "W7":  dict(q="W6", w="W7", qos="W6", items="W3", on="W3", prog="W3", buckets="{4}"),          # concurrent leaf -> serial -> workloop
    "W8":  dict(q="W6", w="W8", qos="W6", items="W1", on="W1", prog="W1", buckets="{4}"),          # serial leaf -> concurrent -> workloop
}
WL_INVS = ("HierarchyExclusion WorkloopExclusion Order BarrierExcl AtMostOnce NoStrand SyncAfterEnd WidthOK NoEarlyStart NoCrash RefOK "
           "LockChain DrainFromTarget PopUnderLock")
WL_INVS_PROP = "HierarchyExclusion WorkloopExclusion Order AtMostOnce NoStrand SyncAfterEnd"


def wl_cfg(name, mut="none", live=True, workers=2, invs=None, tag=""):
    m = WL_MODELS[name]
    txt = """SPECIFICATION FairSpec
CONSTANTS
  Queues <- Queues%s
  WL = "WL"
  Target <- Target%s
  Width <- Width%s
  QosOf <- Qos%s
  Buckets = %s
  DEFQ = 4
  WlInactive = %s
  Clients = {"c1", "c2"}
  Workers = {%s}
  Items <- Items%s
  Kind <- Kind%s
  On <- On%s
  Prog <- Prog%s
  SCMAX = 3
  SCHALF = 2
  Mut = "%s"
INVARIANTS %s
%s
CHECK_DEADLOCK FALSE
""" % (m["q"], m["q"], m["w"], m["qos"], m["buckets"], "TRUE" if m.get("inactive") else "FALSE",
       ", ".join('"w%d"' % (i + 1) for i in range(workers)), m["items"], m["items"], m["on"], m["prog"], mut, invs or WL_INVS,
       "PROPERTY Live" if live else "")
    path = os.path.join(rundir(PROP), "Workloop_%s_%s%s.cfg" % (name, mut, tag))
    open(path, "w").write(txt)
    return path


def par(jobs, n):
    """Run thunks concurrently (TLC / driver subprocesses), results in order; the first exception is re-raised."""
    from concurrent.futures import ThreadPoolExecutor
    with ThreadPoolExecutor(max_workers=n) as ex:
        futs = [ex.submit(j) for j in jobs]
        return [f.result() for f in futs]


def tlc_retry(name, *a, **kw):
    """tlc_must_pass; a JVM killed from outside (OOM killer on a loaded machine: rc -9 / 137) is retried once, alone."""
    try:
        return tlc_must_pass(name, *a, **kw)
    except Broken as ex:
        if "rc=-9" not in str(ex) and "rc=137" not in str(ex):
            raise
    import time
    time.sleep(10)
    return tlc_must_pass(name, *a, **kw)


# the largest configurations are checked for the invariants only (liveness is checked on all the others)
NO_LIVENESS = {"C3", "C7", "W3b", "W2x"}


def is_wl(name):
    return name in WL_MODELS


def model_job(n, mut, live, invs, timeout, w, heap):
    if is_wl(n):
        return lambda: tlc_retry("%s %s" % (n, mut), "MCWorkloop.tla", wl_cfg(n, mut=mut, live=live, invs=invs), timeout=timeout, workers=w,
                                 heap=heap, metaname="C03_wl_%s_%s" % (n, mut))
    return lambda: tlc_retry("%s %s" % (n, mut), "MCChain.tla", chain_cfg(n, mut=mut, live=live, invs=invs), timeout=timeout, workers=w,
                             heap=heap, metaname="C03_chain_%s_%s" % (n, mut))


def run_models_and_mutants(v, names, muts, timeout=1500, pool=4):
    """names: configurations of MCChain.tla and of MCWorkloop.tla (the latter are the keys of WL_MODELS).
    muts: (config, mutant, must_be_refuted).  A control mutant (must_be_refuted=False) has to PASS:
    it shows that the neighbouring mutant is refuted because of the mutated step and nothing else."""
    w = max(2, NCPU // pool)
    jobs = [model_job(n, "none", n not in NO_LIVENESS, None, timeout, w, "3g") for n in names]
    jobs += [model_job(c, m, False, WL_INVS_PROP if is_wl(c) else INVS_PROP, 900, w, "2g") for c, m, _ in muts]
    res = par(jobs, pool)
    for n, r in zip(names, res):
        fam = "Workloop" if is_wl(n) else "Chain"
        v.add_model(fam + "/" + n, r)
        if r.violated:
            p = save_replay(PROP, "%s_%s.tlc.out" % (fam, n), r.out)
            v.violation("%s.tla config %s violates %s" % (fam, n, r.violated), p)
    for (cfgname, mut, refute), r in zip(muts, res[len(names):]):
        if refute and not r.violated:
            raise Broken("spec mutant %s on %s is not refuted: bounds are vacuous" % (mut, cfgname))
        if not refute and r.violated:
            raise Broken("control mutant %s on %s violates %s" % (mut, cfgname, r.violated))
        v.notes.setdefault("spec_mutants_refuted" if refute else "spec_control_mutants_passing", []).append(
            {"mutant": mut, "config": cfgname, "by": r.violated, "states": r.distinct})


# ----------------------------------------------------------------------------------------------
# real library: driver runs, oracles, per-queue word-level validation
WL_SIG = "WLH-ANON-DEREF"
WL_SHAPES = (6, 8, 9, 10, 11, 12)     # driver shapes whose bottom is a workloop
WL_KEY = "workloop-bottom: lane drained under a workloop dereferences DISPATCH_WLH_ANON (_dispatch_lane_drain, DISPATCH_INVOKE_WORKLOOP_DRAIN)"


API_EVENTS = ("Call", "Ret", "Start", "End", "SetTargetCall", "SetTargetRet", "ActCall", "ActRet")


def split_trace(tr, d, tag):
    """One ndjson per queue of the hierarchy: that queue's St / Tail / Reset / Quiesce records in order, plus the
    API-level events of every queue (they are events of THREADS: they end obligation windows of ChainWordTrace)."""
    per, order = {}, []
    for line in open(tr):
        if not line.strip():
            continue
        try:
            j = json.loads(line)
        except Exception:
            continue
        e = j.get("e")
        if e in ("St", "Tail", "Bk", "Reset", "Quiesce") and "q" in j:
            per.setdefault(j["q"], [])
            order.append((j["q"], line))
        elif e in API_EVENTS:
            order.append((None, line))
    for q, line in order:
        if q is None:
            for k in per:
                per[k].append(line)
        else:
            per[q].append(line)
    out = {}
    for q, lines in per.items():
        p = os.path.join(d, "%s_q%d.ndjson" % (tag, q))
        open(p, "w").write("".join(lines))
        out[q] = p
    return out


def trace_widths(tr):
    """queue index -> dq_width, from the Reset markers."""
    w = {}
    for line in open(tr):
        if '"Reset"' in line:
            j = json.loads(line)
            w[j["q"]] = j["w"]
    return w


def trace_lanes(tr):
    """queue index -> True for a lane, False for a workloop, from the Reset markers."""
    w = {}
    for line in open(tr):
        if '"Reset"' in line:
            j = json.loads(line)
            w[j["q"]] = j.get("lane", True)
    return w


def validate_workloop_run(tr, nt, meta):
    """WorkloopWordTrace on the accesses of the workloop (word + bucket lists); a rejection is re-checked once."""
    res = validate_trace("WorkloopWordTrace.tla", "WorkloopWordTrace.cfg", tr, nthreads=nt, metaname=meta)
    if not res.accepted:
        res = validate_trace("WorkloopWordTrace.tla", "WorkloopWordTrace.cfg", tr, nthreads=nt, metaname=meta + "b")
    return res


def word_level_hint(tr, d, tag):
    """For an execution that hung or crashed: where does the recorded word-level behaviour leave the spec first?
    (informational: the verdict is already decided by the hang / crash)"""
    try:
        if not os.path.exists(tr):
            return ""
        widths = trace_widths(tr)
        lanes = trace_lanes(tr)
        nt = count_threads(tr) + 1
        best = None
        for q, p in sorted(split_trace(tr, d, tag).items()):
            if q not in widths:
                continue
            lines = open(p).read().splitlines()
            if not lanes.get(q, True):
                res = validate_trace("WorkloopWordTrace.tla", "WorkloopWordTrace.cfg", p, nthreads=nt, metaname="C03_hint_%s_%d" % (tag, q))
                if not res.accepted and res.maxl:
                    k = res.maxl - 2
                    if 0 <= k < len(lines):
                        try:
                            rec = json.loads(lines[k])
                        except Exception:
                            rec = {}
                        best = best or ("workloop #%d: record %s %s (%s) by thread %s is not a step spec/WorkloopWordTrace.tla allows "
                                        "(operator of its C function, first-pusher wakeup, pop under the lock, no work behind an unlock)"
                                        % (q, rec.get("e"), rec.get("f"), rec.get("op"), rec.get("t")))
                continue
            res = validate_trace("ChainWordTrace.tla", wordtrace_cfg(widths[q]), p, nthreads=nt, metaname="C03_hint_%s_%d" % (tag, q))
            if not res.accepted and res.maxl:
                # maxl = index (file with header) of the first record not consumed; an invariant is violated by the last consumed one
                k = res.maxl - (3 if res.violated else 2)
                if 0 <= k < len(lines):
                    rec = json.loads(lines[k])
                    if rec.get("e") == "St":
                        cand = ("queue #%d: after %s (%s) by thread %s the word violates %s (width accounting)" % (
                                    q, rec.get("f"), rec.get("op"), rec.get("t"), res.violated)) if res.violated else \
                               ("queue #%d: %s (%s) by thread %s is not a transition its DQState operator allows from the word the queue was in" % (
                                    q, rec.get("f"), rec.get("op"), rec.get("t")))
                        best = best or cand
        lk = validate_trace("ChainLockTrace.tla", "ChainLockTrace.cfg", tr, nthreads=nt, metaname="C03_hint_%s_lock" % tag)
        if not lk.accepted and lk.maxl:
            lines = open(lk.trace_with_header).read().splitlines()
            if lk.maxl - 1 < len(lines):
                rec = json.loads(lines[lk.maxl - 1])
                if rec.get("e") in ("Start", "End"):
                    best = ("item %s (%s) of queue #%s %sed on thread %s, which did not own the drain lock of every serial level below "
                            "that queue (ChainLockTrace L1)" % (rec.get("i"), rec.get("k"), rec.get("q"), rec["e"].lower(), rec.get("t"))) + \
                           ("; " + best if best else "")
                elif rec.get("e") == "St":
                    best = ("queue #%s was drained by thread %s, which did not own the drain lock of its serial target (ChainLockTrace L2)"
                            % (rec.get("q"), rec.get("t"))) + ("; " + best if best else "")
        return ("; word-level: " + best) if best else ""
    except Exception as ex:      # never let the hint decide anything
        return ""


def wordtrace_cfg(W):
    cfg = os.path.join(rundir(PROP), "ChainWordTrace_W%d.cfg" % W)
    txt = open(os.path.join(SPEC, "cfg", "ChainWordTrace.cfg")).read().replace("W = 1", "W = %d" % W)
    if not os.path.exists(cfg) or open(cfg).read() != txt:      # validations run concurrently: never rewrite a cfg in use
        tmp = "%s.%d.tmp" % (cfg, os.getpid())
        open(tmp, "w").write(txt)
        os.replace(tmp, cfg)
    return cfg


def validate_queue_run(tr, W, nt, meta):
    """LaneWordTrace on the accesses of one queue (W = its width); a rejection is re-checked once."""
    cfg = wordtrace_cfg(W)
    res = validate_trace("ChainWordTrace.tla", cfg, tr, nthreads=nt, metaname=meta)
    if not res.accepted:
        res = validate_trace("ChainWordTrace.tla", cfg, tr, nthreads=nt, metaname=meta + "b")
    return res


def validate_queue(v, tr, q, W, nt, desc, meta, lanes=None, res=None, workloop=False):
    res = res or (validate_workloop_run(tr, nt, meta) if workloop else validate_queue_run(tr, W, nt, meta))
    if not res.accepted and workloop:
        lines = open(res.trace_with_header).read().splitlines()
        k = res.maxl or 1
        rec = lines[k - 1] if k - 1 < len(lines) else "{}"
        p = save_replay(PROP, "rejected_%s" % os.path.basename(tr), src=res.trace_with_header)
        why = ("invariant %s (accounting of the workloop's word) violated" % res.violated) if res.violated else \
            ("record %d of the workloop #%d is not a step spec/WorkloopWordTrace.tla allows (the operator of its C function on the "
             "recorded old word; first pusher of a bucket owes a MAKE_DIRTY wakeup; buckets are popped under the drain lock; "
             "no unlock leaves a non-empty bucket without a pending wakeup)" % (k, q))
        v.violation("word-level trace of the workloop rejected (%s): %s: %s" % (desc, why, rec[:500]), p)
        return False
    if not res.accepted:
        lines = open(res.trace_with_header).read().splitlines()
        k = res.maxl or 1
        rec = lines[k - 1] if k - 1 < len(lines) else "{}"
        try:
            f = json.loads(rec).get("f", json.loads(rec).get("e", "?"))
        except Exception:
            f = "?"
        p = save_replay(PROP, "rejected_%s" % os.path.basename(tr), src=res.trace_with_header)
        why = ("invariant %s (width accounting of the word) violated" % res.violated) if res.violated else \
            "record %d (%s) of queue #%d is not a transition its DQState operator allows" % (k, f, q)
        if res.violated and not res.maxl:
            rec = ""
        # every dq_state function guards the hierarchy: each level's lock is one of its locks
        v.violation("word-level trace of queue #%d rejected (%s): %s: %s" % (q, desc, why, rec[:500]), p)
        return False
    v.traces += 1
    v.states += res.distinct
    v.transitions += res.generated
    m = re.search(r'<<"DRIFT", (\d+)>>', res.out)
    if m and int(m.group(1)) > 0:
        v.drift.append("%s accesses of %s #%d from functions unknown to the spec were explained by other operators (%s)"
                       % (m.group(1), "workloop" if workloop else "queue", q, desc))
    return True


def drive(v, seed, runs):
    """runs: dicts(shape, cw, execs, ops, perturb, nt, pp)."""
    drv = build_driver("drv_chain")
    d = rundir(PROP)
    known = {k.get("key") for k in known_findings(PROP)["findings"]}
    wl_defect = None
    todo, whole = [], []
    for W in (1, 2, 3):
        wordtrace_cfg(W)
    def one(i, r):
        tr = os.path.join(d, "chain_%d.ndjson" % i)
        if os.path.exists(tr):
            os.unlink(tr)
        cmd = [drv, tr, str(seed * 1000 + i), str(r.get("perturb", 2)), str(r.get("execs", 6)), str(r.get("ops", 30)), str(r["shape"]),
               str(r.get("cw", 2)), str(r.get("pp", 1)), str(r.get("nt", 3))]
        return sh(cmd, timeout=400)
    # the executions run three at a time (more interference between them is welcome); judged in order afterwards
    outs = par([(lambda i=i, r=r: one(i, r)) for i, r in enumerate(runs)], 3)
    for i, r in enumerate(runs):
        s = seed * 1000 + i
        tr = os.path.join(d, "chain_%d.ndjson" % i)
        shape = r["shape"]
        desc = "shape=%d cw=%d nt=%d seed=%d" % (shape, r.get("cw", 2), r.get("nt", 3), s)
        rc, out, err = outs[i]
        if rc == 124:
            raise Broken("chain driver timed out (%s)" % desc)
        if rc == 70 and shape in WL_SHAPES and WL_SIG in err:
            if wl_defect:
                continue      # every workloop-bottom run crashes the same way: reported once
            wl_defect = desc
            if WL_KEY in known:
                v.known.append("%s: SIGSEGV in _dispatch_lane_drain (%s)" % (WL_KEY, desc))
            else:
                p = save_replay(PROP, "wl_crash_%d.ndjson" % s, src=tr) if os.path.exists(tr) else tr
                v.violation("hierarchy with a workloop at the bottom crashes: a lane drained under the workloop "
                            "dereferences DISPATCH_WLH_ANON as a workloop (%s)" % desc, p)
            continue
        if rc in (70, 71):
            what = "crash inside libdispatch" if rc == 70 else "hang: work stranded in the hierarchy / a synchronous call never returned"
            p = save_replay(PROP, "fail_%d.ndjson" % s, src=tr) if os.path.exists(tr) else tr
            online = re.findall(r"ORACLE-FAIL C03 (.*)", err)
            v.violation("%s (%s): %s%s%s" % (what, desc, err.strip()[-200:], ("; before that: " + online[0]) if online else "",
                                          word_level_hint(tr, d, "fail_%d" % i)), p)
            continue
        if rc not in (0, 2):
            raise Broken("chain driver failed rc=%d (%s): %s" % (rc, desc, err[-800:]))
        fails = re.findall(r"ORACLE-FAIL (C\d+) (.*)", err)
        if fails:
            p = save_replay(PROP, "oracle_%d.ndjson" % s, src=tr)
            v.violation("API oracle (%s): %s" % (desc, "; ".join(x[1] for x in fails[:3])), p)
        nt = count_threads(tr) + 1
        parts = split_trace(tr, d, "chain_%d" % i)
        widths = trace_widths(tr)
        lanes = trace_lanes(tr)
        if not parts or any(q not in widths for q in parts):
            raise Broken("chain driver trace has no hierarchy description (%s): %s" % (desc, err[-300:]))
        for q in sorted(parts):
            # the workloop's own word and bucket lists: spec/WorkloopWordTrace.tla; lanes: spec/ChainWordTrace.tla
            todo.append((parts[q], q, widths[q], nt, desc, "C03_lw%d_%d" % (i, q), not lanes.get(q, True)))
            if not lanes.get(q, True):
                v.notes["workloop_word_traces"] = v.notes.get("workloop_word_traces", 0) + 1
        whole.append((tr, nt, desc, i, s))
        if len(v.samples) < 3:
            body = [l for l in open(tr).read().splitlines() if '"St"' in l][:3] + \
                   [l for l in open(tr).read().splitlines() if '"St"' not in l][:6]
            v.samples.append({"trace": os.path.basename(tr), "mode": desc, "queues": len(parts), "excerpt": body})
    def twice(spec, cfg, tr, nt, meta):
        r = validate_trace(spec, cfg, tr, nthreads=nt, metaname=meta)
        return r if r.accepted else validate_trace(spec, cfg, tr, nthreads=nt, metaname=meta + "b")
    jobs = [(lambda t=t: validate_workloop_run(t[0], t[3], t[5]) if t[6] else validate_queue_run(t[0], t[2], t[3], t[5])) for t in todo]
    # the whole recorded order: cross-level lock discipline (ChainLockTrace) and the thread-event protocol of the waiters
    jobs += [(lambda w=w: twice("ChainLockTrace.tla", "ChainLockTrace.cfg", w[0], w[1], "C03_lock%d" % w[3])) for w in whole]
    jobs += [(lambda w=w: twice("ThreadEventTrace.tla", "ThreadEventTrace.cfg", w[0], w[1], "C03_te%d" % w[3])) for w in whole]
    results = par(jobs, 6)
    for t, res in zip(todo, results):
        validate_queue(v, t[0], t[1], t[2], t[3], t[4], t[5], res=res, workloop=t[6])
    n = len(todo)
    for k, (tr, nt, desc, i, s) in enumerate(whole):
        for res, what, name in ((results[n + k], "cross-level lock discipline (ChainLockTrace: an item ran, or an inner queue was drained, "
                                 "on a thread that does not own the drain lock of a serial level below it)", "lock"),
                                (results[n + len(whole) + k], "thread-event protocol of a blocked synchronous caller (ThreadEventTrace)", "thread_event")):
            if res.accepted:
                v.traces += 1
                v.states += res.distinct
                v.transitions += res.generated
                continue
            lines = open(res.trace_with_header).read().splitlines()
            kk = res.maxl or 1
            p = save_replay(PROP, "%s_rejected_%d.ndjson" % (name, s), src=res.trace_with_header)
            v.violation("%s (%s): record %d is not a step the trace spec allows: %s" %
                        (what, desc, kk, lines[kk - 1][:400] if kk - 1 < len(lines) else ""), p)
    if wl_defect:
        v.notes["workloop_bottom"] = "crashes on this tree (%s); shapes with a workloop bottom not explored further" % wl_defect
    else:
        v.notes["workloop_bottom"] = ("explored on the real library (oracles; word-level validation of the lanes above the workloop AND of the "
                                      "workloop's own dq_state + bucket lists against WorkloopWordTrace; lock discipline incl. the workloop level)")


def retarget_live(v, seed, quick):
    """dispatch_set_target_queue on an active busy lane (spec/RetargetLive.tla + harness/drv_relive.c)."""
    r = tlc_must_pass("RetargetLive", "RetargetLive.tla", "RetargetLive.cfg", workers=2, timeout=300)
    v.add_model("RetargetLive", r)
    if r.violated:
        v.violation("RetargetLive.tla: %s violated (the specification itself)" % r.violated,
                    save_replay(PROP, "RetargetLive.out", r.out[-20000:]))
        return
    src = open(os.path.join(SPEC, "cfg", "RetargetLive.cfg")).read()
    mc = os.path.join(rundir(PROP), "RetargetLive_mut.cfg")
    open(mc, "w").write(src.replace('Mut = "none"', 'Mut = "check_only_when_empty"'))
    r = tlc_must_pass("RetargetLive mutant", "RetargetLive.tla", mc, workers=2, timeout=300, metaname="RetargetLive_mut")
    if not r.violated:
        raise Broken("spec mutant check_only_when_empty of RetargetLive.tla is not refuted")
    drv = build_driver("drv_relive")
    n = 0
    for k in range(3 if quick else 12):
        rc, out, err = sh([drv, "150" if quick else "600", str(seed * 10 + k)], timeout=600)
        if rc in (2, 71):
            v.violation("live retarget of an active queue onto a busy serial target: %s" % err.strip()[-400:],
                        save_replay(PROP, "relive_%d.txt" % k, "drv_relive %s %d\n%s" % ("150" if quick else "600", seed * 10 + k, err)))
            return
        if rc != 0:
            raise Broken("drv_relive rc=%s: %s" % (rc, err[-500:]))
        n += 150 if quick else 600
    v.traces += n
    v.notes["live_retarget_rounds"] = n


def run(tier, seed):
    v = Verdict(PROP, tier, seed)
    v.assumptions = [
        "TLC bounds: 2 clients x 2 workers, 2-3 items, hierarchies of 2-3 queues (depth <= 3, fan-in 2, concurrent inner width 2); workloop: 1-2 reachable buckets",
        "Chain.tla / Workloop.tla do not model dispatch_async_and_wait on lanes (only on the workloop itself), suspension of hierarchy members, legacy retargeting of active queues, QoS classes on queues that do not directly target the workloop: these are exercised on the real library only (API oracles + word-level validation per queue)",
        "workloops are the non-kevent kind of this build (ROLE_BASE_ANON, drained as an item of a root queue)",
        "real executions sample schedules (seeded perturbation inside the library's atomicity windows)",
    ]
    quick = tier == "quick"
    os.environ.setdefault("VERIF_TLC_HEAP", "3g")     # many JVMs run side by side (here and in other checks)
    import time
    t0 = time.time()
    names = ["C1q", "C2q", "C3q", "C4q", "C5", "C7r"] if quick else \
            ["C7", "C3", "C3b", "C5s", "C1", "C2", "C6x", "C1q", "C1b", "C2q", "C2s", "C3q", "C4q", "C4", "C5", "C6", "C7q", "C7r"]
    # Workloop.tla: serial / concurrent leaf, fan-in over two buckets (asyncs; sync through either leaf), async and
    # async_and_wait directly on the workloop, inactive workloop + two racing dispatch_activate, three levels
    names += ["W5x", "W4x", "W8", "W6", "W2", "W3", "W1", "W1i", "W2s", "W2t"] if quick else \
             ["W3b", "W2x", "W5x", "W5y", "W1x", "W7", "W4x", "W8", "W6", "W2", "W3", "W1", "W1i", "W2s", "W2t", "W4", "W4s"]
    # sync_recurse stops before the bottom level -> a sync caller overlaps an item of the bottom queue;
    # complete_recurse forgets the bottom level -> the bottom stays locked, work is stranded;
    # the waiter popped from an inner queue is woken instead of being re-pushed on the target -> overlap;
    # _dispatch_lane_invoke2 without the `cq != otq` test is only observable when a queue is enqueued on a queue
    # that is not its target: control mutant stale_enqueue (wakeup pushes the retargeted queue on its OLD target)
    # is absorbed by the test (re-enqueue on the target), the pair without the test breaks the exclusion.
    run_models_and_mutants(v, names, [("C4q", "recurse_skips_bottom", True), ("C1q", "complete_forgets_level", True),
                                      ("C4", "inner_waiter_woken", True),
                                      ("C5", "stale_enqueue", False), ("C5", "stale_enqueue_nocheck", True),
                                      # _dispatch_workloop_invoke2 unlocks after the bucket it drained became empty without
                                      # scanning the lower buckets again -> an item of the other bucket is stranded;
                                      # _dispatch_workloop_barrier_complete only looks at the highest bucket -> stranded;
                                      # the first pusher of a bucket wakes the workloop without MAKE_DIRTY -> a drainer that
                                      # already scanned unlocks over the new item; _dispatch_workloop_push_waiter takes the
                                      # lock although a drainer holds it -> the waiter runs while an item is mid-run
                                      ("W2", "invoke_one_bucket", True), ("W2s", "bc_one_bucket", True),
                                      ("W1", "wakeup_no_dirty", True), ("W4s", "waiter_ignores_lock", True)],
                           pool=4, timeout=900 if quick else 3000)
    if not quick:
        # reachability witnesses of MCWorkloop.tla: each names a branch of the workloop code (DIRTY met by try_lower_max_qos,
        # max_qos lowered, the drain loop yielding to a higher bucket, the lock handed to a waiter of a lower bucket, the
        # barrier_complete rmw retried on DIRTY, a worker failing to lock an owned workloop) and must be VIOLATED = explored
        reach = [("W2", "ReachLowerDirty"), ("W2", "ReachLowerSet"), ("W5x", "ReachYield"), ("W5x", "ReachLowWaiter"),
                 ("W2s", "ReachBcDirty"), ("W2s", "ReachLockFail")]
        rr = par([(lambda c=c, i=i: tlc_retry("reach " + i, "MCWorkloop.tla", wl_cfg(c, mut="none", live=False, invs=i, tag=i), timeout=900,
                                              workers=4, heap="2g", metaname="C03_wl_reach_%s" % i)) for c, i in reach], 3)
        for (c, i), r in zip(reach, rr):
            if not r.violated:
                raise Broken("branch witness %s is not reachable in Workloop config %s: bounds are vacuous" % (i, c))
        v.notes["workloop_branches_reached"] = [i for _, i in reach]
        # observation outside C03 (reported, not judged): a second dispatch_activate(workloop) returns as soon as it sees INACTIVE
        # clear, possibly before the first call cleared NEEDS_ACTIVATION; submitting then crashes in _dispatch_workloop_wakeup
        r = tlc_retry("obs", "MCWorkloop.tla", wl_cfg("W1i", mut="obs_any_activate_returns", live=False, invs="NoCrash"), timeout=600,
                      workers=4, heap="2g", metaname="C03_wl_obs")
        v.notes["observation_not_judged"] = ("two racing dispatch_activate(workloop): the loser returns while NEEDS_ACTIVATION is still set; "
                                             "a submission made after that early return hits DISPATCH_CLIENT_CRASH 'Waking up an inactive "
                                             "workloop' (TLC: NoCrash %s with the guard 'any activate returned')" % ("violated" if r.violated else "holds"))
    v.notes["equivalent_spec_mutant"] = ("repush_without_barrier_flag (waiter re-pushed on a serial target without DC_FLAG_BARRIER) "
                                         "is NOT observable: a serial drain and _dispatch_lane_barrier_complete treat every object of a "
                                         "width-1 queue as a barrier whatever its flags")
    t1 = time.time()
    dqstate_conformance(v, PROP)
    t2 = time.time()
    shapes = [0, 1, 2, 3, 4, 5, 7, 6, 10, 8, 9, 11, 12]
    runs = []
    if quick:
        for k, shp in enumerate(shapes):
            runs.append(dict(shape=shp, cw=2 + k % 2, execs=5, ops=25, perturb=2 + k % 2, nt=3))
        # the workloop shapes with the most paths once more: heavier perturbation, four clients
        runs.append(dict(shape=10, cw=2, execs=5, ops=25, perturb=3, nt=4))
        runs.append(dict(shape=6, cw=2, execs=5, ops=25, perturb=3, nt=4))
    else:
        for rep in range(8):
            for k, shp in enumerate(shapes):
                runs.append(dict(shape=shp, cw=2 + (k + rep) % 2, execs=8, ops=35, perturb=2 + (k + rep) % 2, nt=3 + rep % 2,
                                 pp=0 if rep == 3 else 1))
    drive(v, seed, runs)
    retarget_live(v, seed, quick)
    if tier != "quick":
        asan_workloop(v, seed)
    v.notes["phase_wall_s"] = {"tlc_models_and_mutants": round(t1 - t0, 1), "dqstate_conformance": round(t2 - t1, 1),
                               "real_executions_and_word_level_validation": round(time.time() - t2, 1)}
    return v.finish()


def asan_workloop(v, seed):
    """Thorough only: the workloop shapes on the ASan build with detect_stack_use_after_return.  Synchronous waiters live
    on their thread's stack and are handed from thread to thread (lane drainer -> workloop -> owner -> waiter): an access
    to a waiter after the point where it may already have returned is invisible to the word-level validation (plain
    accesses are not hooked) and only shows as rare memory corruption (finding F6); ASan reports it when it happens, and
    drv_chain holds the pusher after _dispatch_workloop_push_waiter's state change so that it does happen."""
    drv = build_driver("drv_chain", "asan")
    d = rundir(PROP)
    env = {"ASAN_OPTIONS": "detect_leaks=0:exitcode=66:abort_on_error=0:halt_on_error=1:detect_stack_use_after_return=1",
           "UBSAN_OPTIONS": "print_stacktrace=0"}
    for sym in ("/usr/bin/llvm-symbolizer-15", "/usr/bin/llvm-symbolizer", "/usr/bin/llvm-symbolizer-14"):
        if os.path.exists(sym):
            env["ASAN_SYMBOLIZER_PATH"] = sym
            break
    plan = [(shp, k) for k in range(4) for shp in (12, 10, 8, 11)]

    def one(i, shp, k):
        s = seed * 1000 + 800 + i
        tr = os.path.join(d, "asan_%d.ndjson" % i)
        return i, s, shp, sh([drv, tr, str(s), "3", "5", "25", str(shp), str(2 + k % 2), "1", "3"], timeout=1500, env=env)
    res = par([(lambda i=i, shp=shp, k=k: one(i, shp, k)) for i, (shp, k) in enumerate(plan)], 4)
    clean = 0
    for i, s, shp, (rc, out, err) in res:
        if rc == 124:
            raise Broken("ASan run of drv_chain timed out (seed %d shape %d)" % (s, shp))
        m = re.search(r"ERROR: (AddressSanitizer|UndefinedBehaviorSanitizer)[^\n]*", err)
        if m:
            pth = save_replay(PROP, "asan_%d.txt" % s, err[-20000:])
            v.violation("sanitizer report on the ASan build, shape %d seed %d (a synchronous waiter or queue object was accessed after "
                        "it may have gone): %s" % (shp, s, m.group(0)[:300]), pth)
            continue
        if rc in (2, 70, 71):
            pth = save_replay(PROP, "asan_%d.txt" % s, err[-20000:])
            v.violation("ASan build: %s (shape %d seed %d): %s" % ({2: "API oracle failed", 70: "crash", 71: "hang"}[rc], shp, s, err.strip()[-300:]), pth)
            continue
        if rc != 0:
            raise Broken("ASan run of drv_chain failed rc=%d (seed %d): %s" % (rc, s, err[-800:]))
        clean += 1
    v.traces += clean
    v.notes["asan_workloop_runs_clean"] = clean


def judge_recorded_order(lines):
    """The API-level oracles of harness/drv_chain.c re-evaluated on a recorded total order (per execution)."""
    bad = []
    items, widths, lanes = {}, {}, {}
    def judge():
        ids = sorted(items)
        for i in ids:
            a = items[i]
            if a.get("starts", 0) != 1 and "ret" in a:
                bad.append("item %d ran %d times" % (i, a.get("starts", 0)))
        for i in ids:
            a = items[i]
            if "start" not in a or "end" not in a:
                continue
            for j in ids:
                b = items[j]
                if i == j or "start" not in b or "end" not in b:
                    continue
                if i < j and a["start"] < b["end"] and b["start"] < a["end"]:
                    bad.append("items %d and %d of the hierarchy overlapped" % (i, j))
                if a["q"] == b["q"] and lanes.get(a["q"]) and widths.get(a["q"]) == 1 and "ret" in a and "call" in b \
                        and a["ret"] < b["call"] and not a["end"] < b["start"]:
                    bad.append("serial queue #%d ran item %d before item %d submitted earlier" % (a["q"], j, i))
        items.clear()
    for n, l in enumerate(lines):
        try:
            j = json.loads(l)
        except Exception:
            continue
        e = j.get("e")
        if e == "Reset":
            if j.get("q") == 0:
                judge()
            widths[j["q"]] = j.get("w", 1)
            lanes[j["q"]] = j.get("lane", True)
        elif e in ("Call", "Ret", "Start", "End"):
            it = items.setdefault(j["i"], {"q": j.get("q")})
            it[e.lower()] = n
            if e == "Start":
                it["starts"] = it.get("starts", 0) + 1
            if e == "Ret" and j.get("k") in ("rs", "bs", "rw", "bw") and "end" not in it:
                bad.append("synchronous submission of item %d returned before the item finished" % j["i"])
        elif e in ("Hang", "Crash"):
            bad.append("the execution ended in a %s" % e.lower())
    judge()
    return bad


def replay(path, seed):
    """Re-judges a saved artefact: TLC output of a violated model (printed), or a recorded execution (whole, or the
    records of one queue): the recorded order is re-evaluated against the property's oracles and re-validated against
    ChainWordTrace / ChainLockTrace / ThreadEventTrace.  exit 1 iff the violation is still there."""
    txt = open(path).read()
    if not txt.lstrip().startswith("{"):
        print(txt[-3000:])
        return 1
    lines = [l for l in txt.splitlines() if l.strip() and '"Header"' not in l]
    d = rundir(PROP)
    tmp = os.path.join(d, "replay_input.ndjson")
    open(tmp, "w").write("\n".join(lines) + "\n")
    bad = judge_recorded_order(lines)
    for b in bad[:10]:
        print("oracle: " + b)
    nt = count_threads(tmp) + 1
    widths = trace_widths(tmp)
    lanes = {}
    for l in lines:
        if '"Reset"' in l:
            j = json.loads(l)
            lanes[j["q"]] = j.get("lane", True)
    for q, p in sorted(split_trace(tmp, d, "replay").items()):
        if q not in widths:
            continue
        if not lanes.get(q, True):
            r = validate_trace("WorkloopWordTrace.tla", "WorkloopWordTrace.cfg", p, nthreads=nt, metaname="C03_replay_q%d" % q)
            print("WorkloopWordTrace workloop #%d: %s (matched %s of %s records)%s" % (
                q, "accepted" if r.accepted else "REJECTED", r.maxl, r.tracelen, (" invariant " + r.violated) if r.violated else ""))
        else:
            r = validate_trace("ChainWordTrace.tla", wordtrace_cfg(widths[q]), p, nthreads=nt, metaname="C03_replay_q%d" % q)
            print("ChainWordTrace queue #%d (W=%d): %s (matched %s of %s records)%s" % (
                q, widths[q], "accepted" if r.accepted else "REJECTED", r.maxl, r.tracelen, (" invariant " + r.violated) if r.violated else ""))
        if not r.accepted:
            hl = open(r.trace_with_header).read().splitlines()
            k = r.maxl or 1
            print("  first unexplained record: %s" % (hl[k - 1][:400] if k - 1 < len(hl) else "?"))
            bad.append("word-level")
    whole = any('"Start"' in l for l in lines)
    if whole:
        for spec, cfg in (("ChainLockTrace.tla", "ChainLockTrace.cfg"), ("ThreadEventTrace.tla", "ThreadEventTrace.cfg")):
            r = validate_trace(spec, cfg, tmp, nthreads=nt, metaname="C03_replay_w")
            print("%s: %s (matched %s of %s records)" % (spec, "accepted" if r.accepted else "REJECTED", r.maxl, r.tracelen))
            if not r.accepted:
                hl = open(r.trace_with_header).read().splitlines()
                k = r.maxl or 1
                print("  first unexplained record: %s" % (hl[k - 1][:400] if k - 1 < len(hl) else "?"))
                bad.append(spec)
    if bad:
        print("VIOLATION property=%s replay=%s" % (PROP, path))
        return 1
    print("OK property=%s (replayed artefact shows no violation)" % PROP)
    return 0
