"""C10 - dispatch_apply invokes every index exactly once and then returns.
(A) TLC: Apply.tla (one action per shared access of src/apply.c) over all interleavings of caller + <=3
    helpers, n in 0..4, global / AUTO / serial / concurrent width 2 (with a barrier/reader contender) /
    concurrent->serial / concurrent->concurrent chains, nesting depth 2; liveness under fairness; spec mutants.
(B) trace validation: recorded executions of the real dispatch_apply_f (hooked build, harness/drv_apply.c:
    Call/Ret, Start/End of every invocation, every atomic on da_index/da_todo/da_thr_cnt/da_event, every
    dq_state access of the custom queues) vs ApplyTrace.tla (all C10 invariants evaluated in every state).
(V1) API oracles in the driver: each index exactly once and none other, Ret after every End, serial => in order
    without overlap, no overlap with barrier items of the same concurrent queue, width given back, no hang/crash."""
import os, json, re
from concurrent.futures import ThreadPoolExecutor
from vlib import *

PROP = "C10"
APPLY_FUNCS = ("_dispatch_queue_try_reserve_apply_width", "_dispatch_queue_relinquish_width")
# (spec mutant, base config, what must refute it)
MUTANTS = [("nonatomic_claim", "Apply_global.cfg"), ("last_le1", "Apply_global.cfg"), ("no_wait", "Apply_global.cfg"),
           ("free_early", "Apply_global.cfg"), ("idx_le", "Apply_global.cfg"), ("relq_short", "Apply_conc.cfg"),
           ("no_reserve", "Apply_conc.cfg"), ("serial_from1", "Apply_serial.cfg"), ("no_signal", "Apply_live.cfg")]


def _cfg(base, name, subs):
    src = open(os.path.join(SPEC, "cfg", base)).read()
    for a, b in subs:
        if a not in src:
            raise Broken("config %s: cannot substitute %r" % (base, a))
        src = src.replace(a, b)
    p = os.path.join(rundir(PROP), name)
    open(p, "w").write(src)
    return p


def _par(jobs, width):
    with ThreadPoolExecutor(max_workers=width) as ex:
        return list(ex.map(lambda f: f(), jobs))


def model(v, tier):
    cfgs = [("Apply_global.cfg", []), ("Apply_serial.cfg", []), ("Apply_conc.cfg", []), ("Apply_cc.cfg", []),
            ("Apply_nest.cfg", []), ("Apply_live.cfg", [])]
    if tier == "thorough":
        cfgs += [("Apply_nest.cfg", [("N0s = {2}", "N0s = {2, 3}"), ("Q0s = {\"global\", \"conc\"}", "Q0s = {\"global\", \"serial\"}")]),
                 ("Apply_conc.cfg", [("EnvOps = 2", "EnvOps = 3"), ("Q0s = {\"conc\"}", "Q0s = {\"conc\", \"chain\"}")]),
                 ("Apply_live.cfg", [("N0s = {0, 1, 2, 3}", "N0s = {2, 3, 4}"), ("P = 3", "P = 4")]),
                 ("Apply_global.cfg", [("N0s = {0, 1, 2, 3, 4}", "N0s = {5, 6}")]),
                 ("Apply_nest.cfg", [("N0s = {2}", "N0s = {3}"), ("N1s = {1, 2}", "N1s = {2, 3}"),
                                     ("Q0s = {\"global\", \"conc\"}", "Q0s = {\"global\"}")])]
    to = 900 if tier == "quick" else 2400
    wk = max(2, NCPU // 4)

    def job(i, base, subs):
        def f():
            name = base if not subs else "%s#%d" % (base, i)
            path = os.path.join(SPEC, "cfg", base) if not subs else _cfg(base, "t%d_%s" % (i, base), subs)
            return name, tlc_must_pass(name, "Apply.tla", path, timeout=to, workers=wk, metaname="C10_m%d" % i, heap="4g")
        return f
    for name, r in _par([job(i, b, s) for i, (b, s) in enumerate(cfgs)], 4):
        v.add_model(name, r)
        if r.violated:
            p = save_replay(PROP, name.replace("#", "_") + ".tlc.out", r.out)
            v.violation("Apply.tla config %s violates %s" % (name, r.violated), p)

    # non-vacuity: every spec mutant must be refuted inside the quick bounds
    def mjob(mut, base):
        def f():
            subs = [('Mut = "none"', 'Mut = "%s"' % mut)]
            if base == "Apply_global.cfg":
                subs.append(("N0s = {0, 1, 2, 3, 4}", "N0s = {0, 1, 2, 3}"))
            return mut, base, tlc_must_pass("mutant " + mut, "Apply.tla", _cfg(base, "mut_%s.cfg" % mut, subs), timeout=600,
                                            workers=2, metaname="C10_mut_" + mut, heap="2g")
        return f
    muts = MUTANTS if tier == "thorough" else [m for m in MUTANTS if m[0] not in ("no_wait", "no_reserve")]
    for mut, base, r in _par([mjob(m, b) for m, b in muts], 5):
        if not r.violated:
            raise Broken("spec mutant %s not refuted on %s: the properties are vacuous in these bounds" % (mut, base))
        v.notes.setdefault("spec_mutants_refuted", []).append({"mutant": mut, "config": base, "by": r.violated})


def prepare(path, out):
    """Header for ApplyTrace.tla + recycling of apply identities: the driver numbers the calls 1,2,3..; a call that is
    over (returned and its record released) gives its slot back through a `Free` record, which the spec checks."""
    nt = 0; P = 1; widths = {}; queues = {"g": []}
    slot = {}; free = []; nslots = 0
    stack = {}
    a_of = {}; id_of_a = {}; returned = set(); dead = set()
    lines = []

    def maybe_free(i):
        if i in returned and (i not in a_of or i in dead) and i in slot:
            s = slot.pop(i); free.append(s); lines.append(json.dumps({"e": "Free", "d": s}))
    for line in open(path):
        if not line.strip():
            continue
        r = json.loads(line)
        t = r.get("t")
        if isinstance(t, int):
            nt = max(nt, t + 1)
        e = r["e"]
        if e == "Config":
            P = r["a"]
        elif e == "Word":
            widths[r["a"]] = r["b"]
        elif e == "Queue":
            queues["q%d" % r["a"]] = [w for w in (r["b"], r["c"]) if w]
        if e == "Call":
            i = r["d"]
            if free:
                s = free.pop(0)
            else:
                nslots += 1; s = nslots
            slot[i] = s; stack.setdefault(t, []).append([i, 0]); r["d"] = s
        elif e in ("Start", "End", "Ret"):
            i = r["d"]; r["d"] = slot.get(i, 0)
            st = stack.get(t, [])
            if e == "Start" and st and st[-1][0] == i:
                st[-1][1] += 1
            if e == "End" and st and st[-1][0] == i:
                st[-1][1] -= 1
            if e == "Ret":
                if st and st[-1][0] == i:
                    st.pop()
                lines.append(json.dumps(r)); returned.add(i); maybe_free(i)
                continue
        elif e == "Idx":
            a = r["a"]; st = stack.get(t, [])
            if a not in id_of_a and st and st[-1][0] not in a_of and st[-1][1] == 0:
                id_of_a[a] = st[-1][0]; a_of[st[-1][0]] = a
        elif e == "Thr" and r["new"] == 0:
            lines.append(json.dumps(r))
            i = id_of_a.get(r["a"])
            if i is not None:
                dead.add(i); maybe_free(i)
            continue
        lines.append(json.dumps(r))
    with open(out, "w") as f:
        f.write("\n".join(lines) + "\n")
    return {"nt": max(nt, 1), "nd": max(nslots, 1), "P": P, "widths": [widths[i] for i in range(1, len(widths) + 1)],
            "queues": queues}


def _vt(body, h, metaname, timeout=900):
    """vlib.validate_trace with a bounded heap (several validations run in parallel)"""
    path = body + ".hdr.ndjson"
    hdr = dict(h); hdr["e"] = "Header"
    with open(path, "w") as f:
        f.write(json.dumps(hdr) + "\n")
        f.write(open(body).read())
    r = tlc("ApplyTrace.tla", "ApplyTrace.cfg", workers=1, timeout=timeout, env={"TRACE": path}, dfs=True, metaname=metaname, heap="2g")
    if r.timeout:
        raise Broken("trace validation timed out (%s)" % body)
    if r.rc != 0 and r.violated is None and not r.accepted:
        raise Broken("TLC failed during trace validation of %s (rc=%s):\n%s" % (body, r.rc, r.out[-3000:]))
    r.trace_with_header = path
    return r


def _validate(tr, tag, timeout=900, rerun=True):
    body = tr + ".prep"
    h = prepare(tr, body)
    r = _vt(body, h, "C10_tr" + tag, timeout)
    if not r.accepted and rerun:
        r = _vt(body, h, "C10_trb" + tag, timeout)
    return r


def _explain(r):
    lines = open(r.trace_with_header).read().splitlines()
    k = r.maxl or 1
    rec = lines[k - 1] if 0 < k <= len(lines) else "{}"
    try:
        j = json.loads(rec)
    except Exception:
        j = {}
    ctx = [x[:200] for x in lines[max(1, k - 4):k]]
    return k, j, ctx


def traces(v, tier, seed):
    drv = build_driver("drv_apply")
    d = rundir(PROP)
    # (perturbation, executions, largest n)
    if tier == "quick":
        plan = [(2, 14, 1000), (3, 14, 64), (1, 14, 64), (2, 14, 64), (3, 10, 1000), (1, 14, 64)]
    else:
        plan = [([2, 3, 1][i % 3], 30, 1000 if i % 2 == 0 else 64) for i in range(36)]

    def job(i, perturb, execs, maxn):
        def f():
            s = seed * 1000 + i
            tr = os.path.join(d, "apply_%d.ndjson" % i)
            if os.path.exists(tr):
                os.unlink(tr)
            rc, out, err = sh([drv, tr, str(s), str(perturb), str(execs), str(maxn)], timeout=400)
            res = None
            if os.path.exists(tr) and rc == 0:
                res = _validate(tr, str(i))
            elif os.path.exists(tr) and rc in (2, 70, 71):
                try:   # only to say where the execution leaves the spec; the oracle / hang / crash is the verdict
                    res = _validate(tr, str(i), timeout=120, rerun=False) if os.path.getsize(tr) < 30000000 else None
                except Broken:
                    res = None
            return i, s, perturb, tr, rc, err, res
        return f
    results = _par([job(i, *p) for i, p in enumerate(plan)], 6)
    invocations = 0
    for i, s, perturb, tr, rc, err, r in results:
        desc = "driver seed %d perturb %d" % (s, perturb)
        if rc == 124:
            raise Broken("apply driver timed out (%s)" % desc)
        if rc not in (0, 2, 70, 71):
            raise Broken("apply driver failed rc=%d (%s): %s" % (rc, desc, err[-800:]))
        detail = ""
        if r is not None and not r.accepted:
            k, j, ctx = _explain(r)
            detail = ("; trace validation: invariant %s violated in the matched prefix" % r.violated) if r.violated else \
                     "; trace validation: no Apply.tla action explains record %d: %s" % (k, " | ".join(ctx))
        if rc in (2, 70, 71):
            what = {2: "API oracle failed", 70: "crash inside libdispatch",
                    71: "hang: dispatch_apply (or a later barrier on its queue) never returned"}[rc]
            fails = re.findall(r"ORACLE-FAIL C10 (.*)", err)
            p = save_replay(PROP, "fail_seed%d.ndjson" % s, src=tr) if os.path.exists(tr) else tr
            v.violation("%s (%s): %s%s" % (what, desc, "; ".join(fails[:3]) or err.strip()[-300:], detail), p)
            continue
        if not r.accepted:
            k, j, ctx = _explain(r)
            p = save_replay(PROP, "rejected_seed%d.ndjson" % s, src=r.trace_with_header)
            if not r.violated and j.get("e") == "St" and j.get("f") not in APPLY_FUNCS:
                # a dq_state access of another function does not chain: that function is bound by the lane checks
                v.notes.setdefault("deviations_in_other_properties", []).append(j.get("f"))
                v.drift.append("dq_state access of %s not followable (record %d, %s)" % (j.get("f"), k, desc))
                continue
            v.violation("trace rejected (%s)%s" % (desc, detail), p)
            continue
        mo = sorted(set(re.findall(r'<<"MO_DRIFT", "(\w+)", "(\w+)">>', r.out)))
        if mo:
            msg = "memory order differs from the transcription (spec, code): %s - informational on TSO" % (mo,)
            if msg not in v.drift:
                v.drift.append(msg)
        v.traces += 1
        v.states += r.distinct
        v.transitions += r.generated
        body = open(tr).read().splitlines()
        invocations += sum(1 for x in body if x.startswith('{"e":"Start"'))
        if len(v.samples) < 3:
            v.samples.append({"trace": os.path.basename(tr), "mode": desc, "records": r.tracelen,
                              "applies": sum(1 for x in body if x.startswith('{"e":"Call"')),
                              "excerpt": [x[:160] for x in body[2:12]]})
    v.notes["invocations_of_the_work_function_observed"] = invocations


def run(tier, seed):
    v = Verdict(PROP, tier, seed)
    v.assumptions = ["the root queue eventually runs every helper continuation it was given, on some pool thread (C01)",
                     "dispatch_sync_f on a custom queue is abstracted to its width/barrier acquisition and release (C04/C05)",
                     "thread count = _dispatch_qos_max_parallelism(ACTIVE) is a constant P (model: 3..4, traces: the machine's)",
                     "futex wake/wait on the da_event word behave as specified by the kernel",
                     "TLC bounds: see models", "hooked build serialises traced atomics with their log record (global lock)"]
    v.notes["binding"] = ("every atomic on da_index/da_todo/da_thr_cnt/da_event (any dispatch_apply_t, by address + incarnation), "
                          "Call/Ret/Start/End, and dq_state of the custom queues are logged actions of ApplyTrace.tla; silent: "
                          "root-queue push/pop of helper continuations, futex wake, the plain dq_width read of a width-1 level")
    # the model-checking half and the implementation half are independent: run them side by side
    with ThreadPoolExecutor(max_workers=2) as ex:
        fm = ex.submit(model, v, tier)
        ft = ex.submit(traces, v, tier, seed)
        ft.result()
        fm.result()
    return v.finish()


def replay(path, seed):
    """path: a trace saved by this check (with or without the header record)"""
    first = open(path).readline()
    if '"Header"' in first:
        r = tlc("ApplyTrace.tla", "ApplyTrace.cfg", workers=1, env={"TRACE": path}, dfs=True, metaname="C10_replay")
    else:
        r = _validate(path, "replay")
    print(r.out[-3000:])
    return 0 if r.accepted else 1
