"""C19 - dispatch block objects: cancel, wait and notify follow the execution.
(A) TLC: spec/Block.tla (one action per shared-memory access of dispatch_block_create/perform/cancel/
    testcancel/wait/notify and the invoke paths: direct, sync, async consuming (dispatch_async / group_async) and
    async NON-consuming (dispatch_after with a future deadline, block object as a timer source's event handler);
    private group and queues abstract, see the module header for the assume/guarantee split), all interleavings of 3 client threads x bounded calls, in
    scenario families (wait-focused, notify-focused, executed-twice, perform, liveness) + spec mutants.
(B) trace validation: recorded executions of the real code (harness/drv_block.c on the hooked build) vs
    spec/BlockTrace.tla, every atomic on dbpd_atomic_flags / dbpd_performed / dbpd_queue and the private
    group's leave matched word by word, all Block.tla invariants evaluated in every state of the accepted behaviour.
(V1) API oracles in the driver (the property's statements on the recorded total order), crash (70), hang (71)."""
import os, re, json, collections, shutil, time
from concurrent.futures import ThreadPoolExecutor
from vlib import *

PROP = "C19"
SPEC_TLA = "Block.tla"
TSPEC, TCFG = "BlockTrace.tla", "BlockTrace.cfg"

QUICK_CFGS = [("Block_qn.cfg", 900), ("Block_qa.cfg", 900), ("Block_qb.cfg", 900), ("Block_qc.cfg", 600),
              ("Block_qp.cfg", 600), ("Block_ql.cfg", 900)]
# longest first (the liveness run is single-threaded in its temporal part)
THOROUGH_CFGS = [("Block_tl.cfg", 3000), ("Block_tf.cfg", 3000), ("Block_tc.cfg", 3000), ("Block_tb.cfg", 3000),
                 ("Block_ta.cfg", 3000), ("Block_tn.cfg", 3000), ("Block_tg.cfg", 3000)]

# (mutant, base config, invariants that state the broken part of the property, what it models)
MUTANTS = [
    ("leave_before_body", "Block_qb.cfg", "WaitZeroOnlyAfterCompletion NotifyNotEarly",
     "the private group is left before the body runs"),
    ("cancel_after_body", "Block_qa.cfg", "CancelledNeverRuns",
     "DBF_CANCELED is tested after the body"),
    ("leave_every", "Block_qc.cfg", "NoCrash NotifyOnce",
     "the group is left on every completion, not only the first"),
    ("timeout_clobber", "Block_qa.cfg", "TestCancelSticky CancelledNeverRuns",
     "a timed-out wait clears all atomic flags instead of DBF_WAITING only"),
    ("skip_leave_cancelled", "Block_qb.cfg", "CompletesForObservers",
     "a cancelled block object does not complete for waiters and notifiers"),
    ("wait_no_group", "Block_qa.cfg", "WaitZeroOnlyAfterCompletion",
     "dispatch_block_wait returns 0 without consulting the group"),
    ("nonconsuming_invoke_ignores_cancel", "Block_qn.cfg", "CancelledNeverRuns",
     "only the consuming variant of _dispatch_block_async_invoke2 tests DBF_CANCELED: a cancelled block object passed to "
     "dispatch_after / installed as a source's event handler still runs its body"),
    ("nonconsuming_invoke_releases", "Block_qn.cfg", "BlockRefBalanced",
     "the non-consuming invoke gives back the copy of the block object that the source still owns"),
]


def _mut_cfg(mut, base, invs):
    src = open(os.path.join(SPEC, "cfg", base)).read().replace('Mut = "none"', 'Mut = "%s"' % mut)
    out, skip = [], False
    for line in src.splitlines():
        if line.startswith("INVARIANTS"):
            out.append("INVARIANTS " + invs)
            skip = True
            continue
        if skip and line.startswith("  "):
            continue
        skip = False
        if line.startswith("PROPERTIES"):
            continue
        out.append(line)
    p = os.path.join(rundir(PROP), "mut_%s.cfg" % mut)
    open(p, "w").write("\n".join(out) + "\n")
    return p


def _model_jobs(tier):
    cfgs = QUICK_CFGS if tier == "quick" else THOROUGH_CFGS + QUICK_CFGS
    big = {"Block_ta.cfg", "Block_tb.cfg", "Block_tc.cfg", "Block_tf.cfg", "Block_tn.cfg"}
    jobs = []
    for cfg, to in cfgs:
        jobs.append(("model", cfg, lambda cfg=cfg, to=to: tlc_must_pass(
            cfg, SPEC_TLA, cfg, timeout=to, coverage=False, metaname="c19_" + cfg, heap="6g",
            workers=(8 if cfg in big else 4))))
    # non-vacuity: spec mutants must be refuted inside the quick bounds, by the invariant that states
    # the part of the property they break
    for m in MUTANTS:
        mut, base, invs, what = m
        jobs.append(("mutant", m, lambda m=m: tlc_must_pass(
            "mutant " + m[0], SPEC_TLA, _mut_cfg(m[0], m[1], m[2]), timeout=600, workers=2,
            metaname="c19_mut_" + m[0], heap="3g")))
    return jobs


def _model_collect(v, kind, key, r):
    if kind == "model":
        cfg = key
        v.add_model(cfg, r)
        log("  model %s: %d distinct states, %.0fs, %s" % (cfg, r.distinct, r.wall, r.violated or "ok"))
        if r.violated:
            p = save_replay(PROP, cfg + ".tlc.out", r.out)
            v.violation("spec %s violates %s" % (cfg, r.violated), p)
    else:
        mut, base, invs, what = key
        if not r.violated:
            raise Broken("spec mutant %s not refuted: the invariants are vacuous in these bounds" % mut)
        v.notes.setdefault("spec_mutants_refuted", []).append({"mutant": mut, "models": what, "by": r.violated,
                                                              "config": base})


def _stats(path, c):
    ex = []
    for line in open(path):
        try:
            r = json.loads(line)
        except Exception:
            continue
        if r.get("e") == "Reset":
            ex.append([r])
        elif ex:
            ex[-1].append(r)
    for e in ex:
        cfg = e[0]
        c["executions"] += 1
        c["mode_" + cfg["mode"]] += 1
        if cfg["gate"]:
            c["earlier_item_on_queue"] += 1
        if cfg["barrier"]:
            c["flag_BARRIER"] += 1
        canc = bs = be = sub = lv = None
        timer = any(r["e"] == "SubmitCall" and r["api"] in ("after", "handler") for r in e)
        if timer and cfg["mode"] == "obs":
            # position of the cancel relative to the timer (witnessed by the clock: nd = 1 on the CancelRet)
            crs = [r for r in e if r["e"] == "CancelRet"]
            if not crs:
                c["timer_started_never_cancelled"] += 1
            elif any(r.get("nd") == 1 for r in crs):
                c["timer_started_cancelled_before_due"] += 1
            else:
                c["timer_started_cancelled_at_or_after_due"] += 1
            for r in e:
                if r["e"] in ("WaitCall", "NotifyCall"):
                    c["timer_started_" + r["e"][:-4].lower()] += 1
        for i, r in enumerate(e):
            n = r["e"]
            if n == "AF" and r["op"] == "or" and r["site"].startswith("dispatch_block_cancel") and canc is None:
                canc = i
            elif n == "BodyStart" and bs is None:
                bs = i
            elif n == "BodyEnd" and be is None:
                be = i
            elif n == "SubmitCall":
                c["api_" + r["api"]] += 1
                if sub is None:
                    sub = i
            elif n == "G" and r["op"] == "add" and lv is None:
                lv = i
            elif n == "PerformCall":
                c["api_perform"] += 1
        if cfg["mode"] == "obs":
            if canc is None:
                c["never_cancelled"] += 1
            elif bs is None:
                c["cancelled_body_skipped"] += 1
                if sub is not None and canc > sub:
                    c["cancelled_after_submit_before_start"] += 1
            elif canc < bs:
                c["cancel_raced_start_body_ran"] += 1
            elif be is not None and canc < be:
                c["cancelled_while_running"] += 1
            else:
                c["cancelled_after_end"] += 1
        for i, r in enumerate(e):
            if r["e"] == "WaitRet":
                j = max([k for k in range(i) if e[k]["e"] == "WaitCall" and e[k]["t"] == r["t"]] or [0])
                slept = any(e[k]["e"] == "Futex" and e[k]["t"] == r["t"] and e[k]["k"] == "wait" for k in range(j, i))
                c["wait_%s_%s%s" % (e[j].get("kind", "?"), "ok" if r["r"] == 0 else "timeout", "_slept" if slept else "")] += 1
            elif r["e"] == "NotifyCall":
                c["notify_" + ("before_completion" if lv is None or i < lv else "after_completion")] += 1


API_CFG = "BlockTrace_api.cfg"
CALLS = ("CancelCall", "WaitCall", "TestCall", "NotifyCall", "SubmitCall", "PerformCall")


def _classify(path, k):
    """Derive a deviation from the first record no spec action explains (line k of the trace with header):
    a point-wise override of an action's word function on dbpd_atomic_flags, abstracted over the thread,
    or a named deviation.  None = the trace cannot be followed (DRIFT-UNFOLLOWABLE)."""
    lines = [json.loads(x) for x in open(path) if x.strip()]
    if not k or k > len(lines):
        return None
    rec = lines[k - 1]
    t = rec.get("t")
    call, j = None, k - 2
    while j >= 0:
        x = lines[j]
        if x.get("e") == "Reset":
            break
        if x.get("t") == t and x.get("e") in CALLS:
            call = (j, x)
            break
        j -= 1
    if call is None:
        return None
    mine = [x for x in lines[call[0] + 1:k - 1] if x.get("t") == t]
    if rec.get("e") == "AF":
        if call[1]["e"] == "CancelCall":
            act = "c_or"
        elif call[1]["e"] == "WaitCall":
            if not any(x["e"] == "AF" for x in mine):
                act = "w_or"
            else:
                ret = next((x for x in lines[k:] if x.get("t") == t and x.get("e") == "WaitRet"), None)
                act = "w_fin_ok" if ret is not None and ret.get("r") == 0 else "w_fin_to"
        else:
            return None
        return {"kind": "override", "act": act, "old": int(rec["old"]), "new": int(rec["new"]), "site": rec.get("site")}
    if rec.get("e") == "CancelRet" and call[1]["e"] == "CancelCall" and not any(x["e"] == "AF" for x in mine):
        return {"kind": "named", "mut": "cancel_nonatomic", "site": "dispatch_block_cancel"}
    return None


def _dev_files(devs, tag):
    """Generated modules that instantiate Dev / Mut with the observed deviations (in the run directory,
    next to copies of the specs)."""
    d = os.path.join(rundir(PROP), "dev_" + tag)
    os.makedirs(d, exist_ok=True)
    for f in ("Block.tla", "BlockTrace.tla"):
        shutil.copyfile(os.path.join(SPEC, f), os.path.join(d, f))
    ov = [x for x in devs if x["kind"] == "override"]
    named = [x["mut"] for x in devs if x["kind"] == "named"]
    devset = "{" + ", ".join('[act |-> "%s", old |-> %d, new |-> %d]' % (x["act"], x["old"], x["new"]) for x in ov) + "}"
    open(os.path.join(d, "BlockDevMC.tla"), "w").write(
        "---- MODULE BlockDevMC ----\nEXTENDS Block\nDevSet == %s\n====\n" % devset)
    open(os.path.join(d, "BlockTraceDev.tla"), "w").write(
        "---- MODULE BlockTraceDev ----\nEXTENDS BlockTrace\nDevSet == %s\n====\n" % devset)
    mut = named[0] if named else "none"

    def conv(cfgname):
        src = open(os.path.join(SPEC, "cfg", cfgname)).read()
        src = src.replace("Dev = {}", "Dev <- DevSet").replace('Mut = "none"', 'Mut = "%s"' % mut)
        out = [x for x in src.splitlines() if not x.startswith("PROPERTIES")]
        q = os.path.join(d, cfgname)
        open(q, "w").write("\n".join(out) + "\n")
        return q
    return d, conv


_MC_CACHE = {}


def _mc_deviation(devs, tag):
    """Model-check the spec WITH the code's observed behaviour: a counterexample is the violation."""
    key = json.dumps([{k: x[k] for k in x if k != "site"} for x in devs], sort_keys=True)
    if key not in _MC_CACHE:
        _MC_CACHE[key] = _mc_deviation1(devs, tag)
    return _MC_CACHE[key]


def _mc_deviation1(devs, tag):
    d, conv = _dev_files(devs, tag)
    for cfgname in ("Block_qa.cfg", "Block_qb.cfg", "Block_qc.cfg"):
        r = tlc_must_pass("deviated " + cfgname, os.path.join(d, "BlockDevMC.tla"), conv(cfgname), timeout=1200,
                          metaname="c19_dev_%s_%s" % (tag, cfgname), heap="6g")
        if r.violated:
            return r, cfgname
    return None, None


def _validate_with_devs(tr, devs, tag):
    d, conv = _dev_files(devs, tag)
    return validate_trace(os.path.join(d, "BlockTraceDev.tla"), conv(TCFG), tr, nthreads=count_threads(tr),
                          metaname="c19_devtr_" + tag, timeout=900)


def _judge_rejection(v, res):
    """DESIGN 6: a rejected trace is a violation only if the API-visible history itself is not a behaviour
    of the spec (V1), or the spec with the observed deviation admits a violation of the property (V3)."""
    s, tr = res["seed"], res["tr"]
    r = res["val2"] or res["val"]
    k, ctx = _context(r)
    if r.violated:
        p = save_replay(PROP, "rejected_seed%d.ndjson" % s, src=r.trace_with_header)
        v.violation("trace rejected: invariant %s violated in the matched prefix; last records: %s" % (r.violated, ctx), p)
        return
    ra = validate_trace(TSPEC, API_CFG, tr, nthreads=count_threads(tr), metaname="c19api%d" % res["i"], timeout=900)
    if not ra.accepted:
        ka, ctxa = _context(ra)
        p = save_replay(PROP, "rejected_seed%d.ndjson" % s, src=ra.trace_with_header)
        why = ("invariant %s violated" % ra.violated) if ra.violated else "no spec behaviour has this API-visible history"
        v.violation("trace rejected at word level (record %d: %s) and at API level: %s at record %d: %s"
                    % (k, ctx[-300:], why, ka, ctxa), p)
        return
    devs, cur = [], r
    for it in range(3):
        dv = _classify(cur.trace_with_header, cur.maxl)
        if dv is None or dv in devs:
            break
        devs.append(dv)
        tag = "s%d_%d" % (s, it)
        bad, cfgname = _mc_deviation(devs, tag)
        if bad is not None:
            p = save_replay(PROP, "deviation_seed%d.tlc.out" % s,
                            "DEVIATION %s\nobserved in %s at record %d: %s\n\nTLC on the deviated spec (%s): invariant %s violated\n\n%s"
                            % (json.dumps(devs), tr, k, ctx, cfgname, bad.violated, bad.out[-6000:]))
            save_replay(PROP, "deviation_seed%d.ndjson" % s, src=r.trace_with_header)
            v.violation("the code deviates from the spec (%s) and the spec with this deviation violates %s (%s)"
                        % (json.dumps(dv), bad.violated, cfgname), p)
            return
        cur = _validate_with_devs(tr, devs, tag)
        if cur.violated:
            p = save_replay(PROP, "rejected_seed%d.ndjson" % s, src=cur.trace_with_header)
            v.violation("with deviation %s the trace violates invariant %s" % (json.dumps(devs), cur.violated), p)
            return
        if cur.accepted:
            v.drift.append("site=%s deviation=%s harmless: the deviated spec satisfies every invariant in the quick bounds"
                           % (dv.get("site"), json.dumps(devs)))
            v.traces += 1
            return
    kk, cc = _context(cur)
    v.traces += 1       # validated at API level only
    v.notes["traces_validated_at_api_level_only"] = v.notes.get("traces_validated_at_api_level_only", 0) + 1
    v.drift.append("UNFOLLOWABLE at record %d (%s): the API-visible history is a behaviour of the spec and every API "
                   "oracle passed; word-level binding lost for this run (update Block.tla)" % (kk, cc[-400:]))


def _run_one(job):
    drv, tr, s, perturb, execs, i = job
    t0 = time.time()
    rc, out, err = sh([drv, tr, str(s), str(perturb), str(execs)], timeout=600)
    t1 = time.time()
    res = {"rc": rc, "err": err, "tr": tr, "seed": s, "i": i, "val": None, "val2": None}
    if os.path.exists(tr) and rc in (0, 2, 70, 71):
        nt = count_threads(tr)
        res["val"] = validate_trace(TSPEC, TCFG, tr, nthreads=nt, metaname="c19tr%d" % i, timeout=900)
        if rc == 0 and not res["val"].accepted:
            res["val2"] = validate_trace(TSPEC, TCFG, tr, nthreads=nt, metaname="c19tr%db" % i, timeout=900)
    res["t_drv"], res["t_val"] = t1 - t0, time.time() - t1
    return res


def _context(r):
    lines = open(r.trace_with_header).read().splitlines()
    k = r.maxl or 1
    return k, " | ".join(lines[max(0, k - 4):k])


def _trace_jobs(tier, seed):
    drv = build_driver("drv_block")
    runs, execs = (6, 80) if tier == "quick" else (40, 100)
    d = rundir(PROP)
    jobs = []
    for i in range(runs):
        tr = os.path.join(d, "blk_%d.ndjson" % i)
        if os.path.exists(tr):
            os.unlink(tr)
        jobs.append((drv, tr, seed * 1000 + i, [2, 3, 1][i % 3], execs, i))
    return jobs


def _trace_collect(v, results):
    stats = collections.Counter()
    for res in results:
        rc, s, tr = res["rc"], res["seed"], res["tr"]
        if rc in (2, 70, 71):
            what = {2: "API oracle failed", 70: "crash inside libdispatch (legal client program)",
                    71: "hang: a waiter, a notification or a submission was never released"}[rc]
            p = save_replay(PROP, "fail_seed%d.ndjson" % s, src=tr) if os.path.exists(tr) else tr
            detail = ""
            r = res["val"]
            if r is not None and not r.accepted:
                k, ctx = _context(r)
                detail = "; trace validation: %s at record #%d: %s" % (
                    ("invariant %s violated" % r.violated) if r.violated else "no spec action explains the record", k, ctx)
            oracle = [x for x in res["err"].splitlines() if x.startswith("ORACLE-FAIL")][:3]
            v.violation("%s (driver seed %d): %s%s" % (what, s, " / ".join(oracle) or res["err"].strip()[-300:], detail), p)
            continue
        if rc != 0:
            raise Broken("driver failed rc=%d: %s" % (rc, res["err"][-1000:]))
        r = res["val"]
        if not r.accepted and (res["val2"] is None or not res["val2"].accepted):
            _judge_rejection(v, res)
            continue
        v.traces += 1
        v.states += r.distinct
        v.transitions += r.generated
        if "MO_DRIFT" in r.out and not any("memory_order" in d for d in v.drift):
            v.drift.append("memory_order argument differs from the transcription (informational on TSO): "
                           + re.findall(r'<<"MO_DRIFT".*>>', r.out)[0])
        _stats(tr, stats)
        if len(v.samples) < 2:
            v.samples.append({"trace": os.path.basename(tr), "records": r.tracelen,
                              "excerpt": open(tr).read().splitlines()[0:14]})
    v.notes["recorded_executions"] = dict(sorted(stats.items()))
    if stats.get("executions", 0) >= 200 and not (stats.get("api_after") and stats.get("api_handler")
                                                     and stats.get("timer_started_cancelled_before_due")):
        raise Broken("the driver never exercised the non-consuming invoke (dispatch_after / source event handler) "
                     "with a cancel before the timer was due: %s" % dict(stats))
    v.notes["driver_wall_s"] = round(sum(x.get("t_drv", 0) for x in results), 1)
    v.notes["trace_validation_wall_s"] = round(sum(x.get("t_val", 0) for x in results), 1)
    log("  traces: %d validated, %d executions (driver runs %s s, validations %s s)" % (
        v.traces, stats.get("executions", 0), " ".join("%.0f" % x.get("t_drv", 0) for x in results),
        " ".join("%.0f" % x.get("t_val", 0) for x in results)))


def block_queue_ref(v, tier, seed):
    """BlockQueueRef.tla: the +2 a submitted block object keeps on its queue through dbpd_queue must exist before the
    pointer is published (finding F9, fixed by 17b1d41: a dispatch_block_wait between cmpxchg and retain over-released the
    queue).  TLC checks the protocol and refutes the pinned order; harness/drv_blockq.c holds the submitter (async, sync,
    async_and_wait) right after its cmpxchg while another thread waits with a short timeout."""
    base = open(os.path.join(SPEC, "cfg", "BlockQueueRef.cfg")).read()
    for mut in ("none", "publish_before_retain"):
        cfg = os.path.join(rundir(PROP), "BlockQueueRef_%s.cfg" % mut)
        open(cfg, "w").write(base.replace('Mut = "none"', 'Mut = "%s"' % mut))
        r = tlc_must_pass("BlockQueueRef/" + mut, "BlockQueueRef.tla", cfg, timeout=300, workers=2, metaname="C19_bqr_" + mut)
        if mut == "none":
            v.add_model("BlockQueueRef", r)
            if r.violated:
                v.violation("BlockQueueRef.tla violates %s" % r.violated, save_replay(PROP, "BlockQueueRef.tlc.out", r.out))
        elif not r.violated:
            raise Broken("spec mutant publish_before_retain (BlockQueueRef) is not refuted")
        else:
            v.notes.setdefault("spec_mutants_refuted", []).append({"spec": "BlockQueueRef", "mutant": mut, "by": r.violated})
    drv = build_driver("drv_blockq")
    tr = os.path.join(rundir(PROP), "blockq.ndjson")
    rc, out, err = sh([drv, tr, str(seed * 100 + 79), "9" if tier == "quick" else "45"], timeout=600)
    m = re.search(r"rounds=(\d+) windows_hit=(\d+)", err)
    if rc in (2, 70, 71):
        fails = re.findall(r"ORACLE-FAIL C19 (.*)", err)
        what = {2: "API oracle", 70: "crash inside libdispatch (legal client program)", 71: "hang"}[rc]
        v.violation("%s: dispatch_block_wait racing the submission of the block object (queue published in dbpd_queue): %s" %
                    (what, "; ".join(fails[:3]) or err.strip()[-400:]), save_replay(PROP, "blockq_fail.txt", err[-6000:]))
        return
    if rc != 0 or not m:
        raise Broken("drv_blockq failed rc=%d: %s" % (rc, err[-500:]))
    if int(m.group(2)) == 0:
        raise Broken("drv_blockq never held a submitter after its publication (steering ineffective)")
    v.traces += 1
    v.notes["block_queue_ref_windows_hit"] = "%s of %s rounds" % (m.group(2), m.group(1))


def run(tier, seed):
    v = Verdict(PROP, tier, seed)
    v.assumptions = [
        "the private dispatch_group behaves like a group (count, generation, waiters, fire-once notifications): decided by C07, assumed here",
        "queues are abstract executors: serial / barrier items start after everything submitted earlier has finished (C01/C02/C04)",
        "client programs respect dispatch/block.h: a waited-on / observed block object is executed once, one wait at a time, none after a successful wait",
        "real time is not modelled in the spec (a timed wait may time out at any moment); 'non-zero only after the full timeout' is a wall-clock oracle in the driver",
        "TLC bounds: see models; hooked build serialises traced atomics with their log record (global lock)",
    ]
    tjobs = _trace_jobs(tier, seed)          # builds the hooked library + driver first
    mjobs = _model_jobs(tier)
    # everything is independent: model configs, spec mutants and driver runs + validations share one pool
    with ThreadPoolExecutor(max_workers=6 if tier == "quick" else 5) as ex:
        mf = [(kind, key, ex.submit(fn)) for kind, key, fn in mjobs]
        tf = [ex.submit(_run_one, j) for j in tjobs]
        tres = [f.result() for f in tf]
        for kind, key, f in mf:
            _model_collect(v, kind, key, f.result())
    _trace_collect(v, tres)
    block_queue_ref(v, tier, seed)
    return v.finish()


def replay(path, seed):
    path = os.path.abspath(path)
    if path.endswith(".tlc.out"):
        print(open(path).read()[-4000:])
        return 1
    src = path
    body = open(path).read()
    if body.startswith('{"e": "Header"') or body.startswith('{"nt"') or '"Header"' in body.splitlines()[0]:
        src = os.path.join(rundir(PROP), "replay_body.ndjson")
        open(src, "w").write("\n".join(body.splitlines()[1:]) + "\n")
    r = validate_trace(TSPEC, TCFG, src, nthreads=count_threads(src), metaname="c19replay")
    print(r.out[-3000:])
    if not r.accepted:
        k, ctx = _context(r)
        print("rejected at record #%d: %s" % (k, ctx))
    return 0 if r.accepted else 1
