"""Shared machinery of the lane checks (C01 C02 C04 C05 C06): Lane.tla configurations,
function-level conformance of the dq_state operators (DQStateConf), the random-workload
driver with API oracles, and word-level trace validation (LaneWordTrace)."""
import os, re, json
from vlib import *

INVS = "AtMostOnce NoStrand AsyncNeverBlocks BarrierExcl Order SyncAfterEnd WidthOK SuspendedRunsNothing StartWhileSusp NoCrash SuspCount"

# name -> (W, items/kind/prog/body suffix, InitInactive, clients)
CONFIGS = {
    "Q1":  dict(W=1, sfx="Q1"),
    "Q1p": dict(W=1, sfx="Q1p"),
    "Q1w": dict(W=1, sfx="Q1w"),
    "Q2w": dict(W=2, sfx="Q2w"),
    "Q2q": dict(W=2, sfx="Q2q"),
    "Q2b": dict(W=2, sfx="Q2b"),
    "Q2":  dict(W=2, sfx="Q2"),
    "Q2m": dict(W=2, sfx="Q2m"),
    "Q6":  dict(W=1, sfx="Q6"),
    "Q6e": dict(W=2, sfx="Q6e"),
    "Q6b": dict(W=1, sfx="Q6b"),
    "Q6c": dict(W=1, sfx="Q6c"),
    "Q6d": dict(W=1, sfx="Q6d", inactive=True),
}

# which dq_state functions guard which property (used to attribute word-level deviations)
FUNC_PROPS = {
    "_dispatch_queue_drain_try_lock": {"C01", "C02", "C04", "C06"},
    "_dispatch_queue_drain_try_unlock": {"C01", "C06"},
    "_dispatch_queue_try_acquire_barrier_sync_and_suspend": {"C02", "C04", "C05"},
    "_dispatch_queue_try_reserve_sync_width": {"C04", "C05"},
    "_dispatch_queue_reserve_sync_width": {"C04"},
    "_dispatch_queue_try_acquire_async": {"C04", "C01"},
    "_dispatch_queue_try_upgrade_full_width": {"C04"},
    "_dispatch_lane_drain": {"C04", "C02"},
    "_dispatch_queue_invoke_finish": {"C01", "C06"},
    "_dispatch_queue_wakeup": {"C01", "C06"},
    "_dispatch_lane_push_waiter": {"C01", "C02", "C05"},
    "_dispatch_lane_non_barrier_complete": {"C04", "C01"},
    "_dispatch_lane_class_barrier_complete": {"C01", "C02", "C04", "C06"},
    "_dispatch_lane_drain_barrier_waiter": {"C01", "C02", "C05"},
    "_dispatch_lane_drain_non_barriers": {"C04", "C01"},
    "_dispatch_lane_barrier_sync_invoke_and_complete": {"C01", "C02", "C05"},
    "_dispatch_lane_suspend": {"C06"}, "_dispatch_lane_suspend_slow": {"C06"},
    "_dispatch_lane_resume": {"C06", "C01"}, "_dispatch_lane_resume_slow": {"C06"},
    "_dispatch_lane_try_inactive_suspend": {"C06"},
    "try_acquire_barrier_sync": {"C02", "C04", "C05"}, "try_reserve_sync_width": {"C04", "C05"},
    "drain_try_lock": {"C01", "C02", "C04", "C06"}, "drain_try_unlock": {"C01", "C06"},
    "try_acquire_barrier_sync_and_suspend": {"C02", "C04", "C05"}, "reserve_sync_width": {"C04"},
    "try_acquire_async": {"C04", "C01"}, "try_upgrade_full_width": {"C04"}, "try_inactive_suspend": {"C06"},
    "merge_qos": {"C01"}, "pred": {"C01", "C02", "C04", "C05", "C06"}, "adjust_owned": {"C04", "C06", "C01"},
}


def lane_cfg(prop, name, mut="none", tailfix=True, invs=INVS, live=True, clients=2, workers=2):
    c = CONFIGS[name]
    sfx = c["sfx"]
    cl = ", ".join('"c%d"' % (i + 1) for i in range(clients))
    wk = ", ".join('"w%d"' % (i + 1) for i in range(workers))
    txt = """SPECIFICATION FairSpec
CONSTANTS
  Clients = {%s}
  Workers = {%s}
  Items <- Items%s
  Kind <- Kind%s
  Prog <- Prog%s
  Body <- Body%s
  InitInactive = %s
  TailCheckFix = %s
  Mut = "%s"
  W = %d
  QW = 1
  SCMAX = 3
  SCHALF = 2
  BASE = TRUE
INVARIANTS %s
%s
CHECK_DEADLOCK FALSE
""" % (cl, wk, sfx, sfx, sfx, sfx, "TRUE" if c.get("inactive") else "FALSE", "TRUE" if tailfix else "FALSE", mut,
       c["W"], invs, "PROPERTY Live" if live else "")
    p = os.path.join(rundir(prop), "Lane_%s_%s_%s.cfg" % (name, mut, "fix" if tailfix else "nofix"))
    open(p, "w").write(txt)
    return p


def run_models(v, prop, names, timeout=1500, workers=None):
    for n in names:
        cfg = lane_cfg(prop, n)
        r = tlc_must_pass(n, "MCLane.tla", cfg, timeout=timeout, workers=workers, metaname="%s_lane_%s" % (prop, n))
        v.add_model("Lane/" + n, r)
        if r.violated:
            p = save_replay(prop, "Lane_%s.tlc.out" % n, r.out)
            v.violation("Lane.tla config %s violates %s" % (n, r.violated), p)


def run_mutants(v, prop, muts):
    """muts: list of (config, mutant-name or 'F1')"""
    for cfgname, mut in muts:
        if mut == "F1":
            cfg = lane_cfg(prop, cfgname, tailfix=False, live=False)
        else:
            cfg = lane_cfg(prop, cfgname, mut=mut, live=(mut in ("unlock_ignores_dirty",)))
        r = tlc_must_pass("mutant %s" % mut, "MCLane.tla", cfg, timeout=900, metaname="%s_mut_%s" % (prop, mut))
        if not r.violated:
            raise Broken("spec mutant %s on %s is not refuted: bounds are vacuous" % (mut, cfgname))
        v.notes.setdefault("spec_mutants_refuted", []).append({"mutant": mut, "config": cfgname, "by": r.violated,
                                                               "states": r.distinct})


def dqstate_conformance(v, prop):
    """Function-level conformance: real inline dq_state functions vs DQState operators."""
    drv = build_driver("drv_dqstate")
    d = rundir(prop)
    total = 0
    for w in (1, 2, 3):
        rows = os.path.join(d, "dq%d.ndjson" % w)
        rc, out, err = sh([drv, rows, "2", str(w)], timeout=120)
        if rc != 0:
            # a crash inside the real function on a legal input is itself a finding
            p = save_replay(prop, "dqstate_crash_w%d.txt" % w, (out + err)[-4000:])
            v.violation("dq_state function crashed during conformance enumeration (rc=%d)" % rc, p)
            continue
        cfg = os.path.join(d, "DQStateConf_%d.cfg" % w)
        open(cfg, "w").write(open(os.path.join(SPEC, "cfg", "DQStateConf.cfg")).read().replace("W = 1", "W = %d" % w))
        r = tlc("DQStateConf.tla", cfg, workers=1, timeout=600, env={"ROWS": rows}, metaname="%s_dqconf%d" % (prop, w))
        m = re.search(r'<<"CONFROWS", (\d+), (\d+)>>', r.out)
        if r.violated or not m:
            mm = re.search(r'<<\s*"MISMATCH",\s*(\d+),', r.out)   # TLC wraps long tuples over several lines
            if not mm:
                raise Broken("DQStateConf failed (rc=%s): %s" % (r.rc, r.out[-2000:]))
            k = int(mm.group(1))
            line = open(rows).read().splitlines()[k - 1]
            f = json.loads(line).get("f", "?")
            p = save_replay(prop, "dqstate_mismatch_w%d.ndjson" % w, line + "\n")
            if prop in FUNC_PROPS.get(f, {prop}):
                v.violation("real %s disagrees with its DQState operator on row %d: %s" % (f, k, line[:600]), p)
            else:
                v.notes.setdefault("deviations_in_other_properties", []).append(f)
            continue
        total += int(m.group(1))
        v.states += r.distinct
        v.transitions += r.generated
    v.traces += 3
    v.notes["dqstate_conformance_rows"] = total
    return total


def drive(v, prop, seed, runs, tier, relevant=None):
    """runs: list of dicts(W, susp, inact, pp, nt, execs, ops, perturb). Oracle failures for `prop`
    (and hangs/crashes) are violations; word-level traces are validated against LaneWordTrace."""
    drv = build_driver("drv_lane")
    d = rundir(prop)
    for i, r in enumerate(runs):
        s = seed * 1000 + i
        tr = os.path.join(d, "lane_%d.ndjson" % i)
        if os.path.exists(tr):
            os.unlink(tr)
        cmd = [drv, tr, str(s), str(r.get("perturb", 2)), str(r.get("execs", 8)), str(r.get("ops", 30)), str(r["W"]),
               str(r.get("susp", 0)), str(r.get("inact", 0)), str(r.get("pp", 1)), str(r.get("nt", 3))]
        rc, out, err = sh(cmd, timeout=300)
        fails = re.findall(r"ORACLE-FAIL (C\d+) (.*)", err)
        mine = [f for f in fails if f[0] == prop]
        other = [f for f in fails if f[0] != prop]
        desc = "W=%s susp=%s inact=%s seed=%d" % (r["W"], r.get("susp", 0), r.get("inact", 0), s)
        if rc == 124:
            raise Broken("lane driver timed out (%s)" % desc)
        if rc in (70, 71):
            what = "crash inside libdispatch" if rc == 70 else "hang: work stranded / a synchronous call never returned / a queue never resumed"
            p = save_replay(prop, "fail_%d.ndjson" % s, src=tr) if os.path.exists(tr) else tr
            # a hang or crash endangers every lane property that this workload exercises
            v.violation("%s (%s): %s" % (what, desc, err.strip()[-300:]), p)
            continue
        if rc not in (0, 2):
            raise Broken("lane driver failed rc=%d (%s): %s" % (rc, desc, err[-800:]))
        if mine:
            p = save_replay(prop, "oracle_%d.ndjson" % s, src=tr)
            v.violation("API oracle (%s): %s" % (desc, "; ".join(x[1] for x in mine[:3])), p)
        if other:
            v.notes.setdefault("oracle_failures_of_other_properties", []).extend(["%s %s" % x for x in other[:3]])
        # word-level trace validation
        first = open(tr).readline()
        W = json.loads(first).get("w", 1) if first.strip() else 1
        cfg = os.path.join(d, "LaneWordTrace_%d.cfg" % i)
        open(cfg, "w").write(open(os.path.join(SPEC, "cfg", "LaneWordTrace.cfg")).read().replace("W = 1", "W = %d" % W))
        nt = count_threads(tr) + 1
        res = validate_trace("LaneWordTrace.tla", cfg, tr, nthreads=nt, metaname="%s_lw%d" % (prop, i))
        if not res.accepted:
            res = validate_trace("LaneWordTrace.tla", cfg, tr, nthreads=nt, metaname="%s_lw%db" % (prop, i))
        if not res.accepted:
            lines = open(res.trace_with_header).read().splitlines()
            k = res.maxl or 1
            rec = lines[k - 1] if k - 1 < len(lines) else "{}"
            try:
                f = json.loads(rec).get("f", "?")
            except Exception:
                f = "?"
            p = save_replay(prop, "rejected_%d.ndjson" % s, src=res.trace_with_header)
            why = ("invariant %s violated" % res.violated) if res.violated else \
                "record %d (%s) is not a transition its DQState operator allows" % (k, f)
            if res.violated or prop in FUNC_PROPS.get(f, {prop}):
                v.violation("word-level trace rejected (%s): %s: %s" % (desc, why, rec[:500]), p)
            else:
                v.notes.setdefault("deviations_in_other_properties", []).append(f)
            continue
        # the futex-based thread event every blocked synchronous caller sleeps on (ThreadEventTrace.tla)
        te = validate_trace("ThreadEventTrace.tla", "ThreadEventTrace.cfg", tr, nthreads=nt, metaname="%s_te%d" % (prop, i))
        if not te.accepted:
            te = validate_trace("ThreadEventTrace.tla", "ThreadEventTrace.cfg", tr, nthreads=nt, metaname="%s_te%db" % (prop, i))
        if not te.accepted:
            lines = open(te.trace_with_header).read().splitlines()
            k = te.maxl or 1
            p = save_replay(prop, "thread_event_rejected_%d.ndjson" % s, src=te.trace_with_header)
            v.violation("thread-event protocol (%s): record %d is not a step ThreadEventTrace.tla allows (%s): %s" %
                        (desc, k, te.violated or "e.g. a waiter returned without re-loading the value after a futex wake-up",
                         lines[k - 1][:300] if k - 1 < len(lines) else ""), p)
            continue
        v.traces += 1
        v.states += res.distinct + te.distinct
        v.transitions += res.generated + te.generated
        m = re.search(r'<<"DRIFT", (\d+)>>', res.out)
        if m and int(m.group(1)) > 0:
            v.drift.append("%s dq_state accesses from functions unknown to the spec were explained by other operators" % m.group(1))
        if len(v.samples) < 2:
            body = [l for l in open(tr).read().splitlines() if '"St"' in l][:3] + \
                   [l for l in open(tr).read().splitlines() if '"St"' not in l][:5]
            v.samples.append({"trace": os.path.basename(tr), "mode": desc, "records": res.tracelen, "excerpt": body})


def replay_lane(prop, path):
    """Replay of a saved lane artefact: re-validates a recorded trace (word level + thread events) and re-evaluates
    the API-level oracles from the recorded Call/Ret/Start/End order.  exit 1 iff the violation is still there."""
    txt = open(path).read()
    if not txt.lstrip().startswith("{"):
        print(txt[-3000:])
        return 1
    lines = [l for l in txt.splitlines() if l.strip()]
    body = [l for l in lines if '"Header"' not in l]
    tmp = os.path.join(rundir(prop), "replay_input.ndjson")
    open(tmp, "w").write("\n".join(body) + "\n")
    bad = 0
    W = 1
    for l in body[:3]:
        try:
            j = json.loads(l)
            if j.get("e") == "Reset":
                W = j.get("w", 1)
        except Exception:
            pass
    cfg = os.path.join(rundir(prop), "LaneWordTrace_replay.cfg")
    open(cfg, "w").write(open(os.path.join(SPEC, "cfg", "LaneWordTrace.cfg")).read().replace("W = 1", "W = %d" % W))
    nt = count_threads(tmp) + 1
    for spec, c in (("LaneWordTrace.tla", cfg), ("ThreadEventTrace.tla", "ThreadEventTrace.cfg")):
        r = validate_trace(spec, c, tmp, nthreads=nt, metaname="%s_replay" % prop)
        print("%s: %s (matched %s of %s records)" % (spec, "accepted" if r.accepted else "REJECTED", r.maxl, r.tracelen))
        if not r.accepted:
            k = r.maxl or 1
            hl = open(r.trace_with_header).read().splitlines()
            print("  first unexplained record: %s" % (hl[k - 1][:400] if k - 1 < len(hl) else "?"))
            bad = 1
    # API-level oracles per execution (between Reset markers)
    items, serial = {}, True
    def judge():
        nonlocal bad
        its = [x for x in items.values() if "Start" in x and "End" in x]
        for x in items.values():
            if x.get("starts", 0) != 1:
                print("  oracle: item %s ran %d times" % (x["i"], x.get("starts", 0))); bad = 1
        for a in its:
            for b in its:
                if a is b:
                    continue
                eb = serial or a["k"] in ("ba", "bs", "bw") or b["k"] in ("ba", "bs", "bw")
                if not eb:
                    continue
                if a["i"] < b["i"] and a["Start"] < b["End"] and b["Start"] < a["End"]:
                    print("  oracle: items %s and %s overlapped" % (a["i"], b["i"])); bad = 1
                if "Ret" in a and "Call" in b and a["Ret"] < b["Call"] and not a["End"] < b["Start"]:
                    print("  oracle: submission order not respected: %s then %s" % (a["i"], b["i"])); bad = 1
    for l in body:
        try:
            j = json.loads(l)
        except Exception:
            continue
        e = j.get("e")
        if e == "Reset":
            judge(); items = {}; serial = j.get("w", 1) == 1
        elif e in ("Call", "Ret", "Start", "End") and j.get("i", -1) >= 0:
            it = items.setdefault(j["i"], {"i": j["i"], "k": j.get("k")})
            it[e] = j["n"]
            if e == "Start":
                it["starts"] = it.get("starts", 0) + 1
    judge()
    print("replay verdict: %s" % ("violation reproduced" if bad else "no violation in this artefact"))
    return 1 if bad else 0


def asan_lanes(v, prop, seed, n=8):
    """Thorough only: the lane driver on the ASan+UBSan build with detect_stack_use_after_return.  Word-level validation
    sees hooked atomics only; a plain access to a synchronous waiter (stack of the waiting thread) or to a continuation
    after the point where it may have been handed over / freed shows, at best, as rare corruption (finding F6 on
    workloops).  ASan reports it when it happens; the steering holds of drv_lane widen the hand-off windows."""
    drv = build_driver("drv_lane", "asan")
    d = rundir(prop)
    env = {"ASAN_OPTIONS": "detect_leaks=0:exitcode=66:abort_on_error=0:halt_on_error=1:detect_stack_use_after_return=1",
           "UBSAN_OPTIONS": "print_stacktrace=0"}
    for sym in ("/usr/bin/llvm-symbolizer-15", "/usr/bin/llvm-symbolizer", "/usr/bin/llvm-symbolizer-14"):
        if os.path.exists(sym):
            env["ASAN_SYMBOLIZER_PATH"] = sym
            break
    shapes = [("1", "1", "0", "1", "3"), ("2", "1", "0", "1", "3"), ("0", "0", "0", "1", "4"), ("1", "2", "0", "1", "3"),
              ("2", "1", "1", "0", "3"), ("3", "0", "0", "1", "4"), ("1", "1", "1", "1", "3"), ("2", "2", "0", "0", "3")]
    clean = 0
    from concurrent.futures import ThreadPoolExecutor

    def one(i):
        W, susp, inact, pp, nt = shapes[i % len(shapes)]
        s = seed * 1000 + 600 + i
        tr = os.path.join(d, "asan_lane_%d.ndjson" % i)
        return i, s, shapes[i % len(shapes)], sh([drv, tr, str(s), str(2 + i % 2), "6", "30", W, susp, inact, pp, nt], timeout=1500, env=env)
    with ThreadPoolExecutor(max_workers=4) as ex:
        res = list(ex.map(one, range(n)))
    for i, s, shp, (rc, out, err) in res:
        if rc == 124:
            raise Broken("ASan run of drv_lane timed out (seed %d %s)" % (s, shp))
        m = re.search(r"ERROR: (AddressSanitizer|UndefinedBehaviorSanitizer)[^\n]*", err)
        if m:
            v.violation("sanitizer report on the ASan build (W,susp,inact,pp,nt=%s seed %d): an object of a hand-off was accessed after it "
                        "may have gone: %s" % (shp, s, m.group(0)[:300]), save_replay(prop, "asan_lane_%d.txt" % s, err[-20000:]))
            continue
        if rc in (2, 70, 71):
            fails = [f for f in re.findall(r"ORACLE-FAIL (C\d\d) (.*)", err)]
            mine = [t for p_, t in fails if p_ == prop]
            if rc == 2 and not mine:
                continue       # another property's oracle: its own check judges it
            v.violation("ASan build: %s (%s seed %d): %s" % ({2: "API oracle failed", 70: "crash", 71: "hang"}[rc], shp, s,
                                                            "; ".join(mine[:3]) or err.strip()[-300:]), save_replay(prop, "asan_lane_%d.txt" % s, err[-20000:]))
            continue
        if rc != 0:
            raise Broken("ASan run of drv_lane failed rc=%d (seed %d): %s" % (rc, s, err[-800:]))
        clean += 1
    v.traces += clean
    v.notes["asan_lane_runs_clean"] = clean
