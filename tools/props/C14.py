"""C14 - dispatch I/O delivers every byte once, in order; each operation completes once.

(A) TLC: spec/Io.tla = transcription of the stream-channel engine of src/io.c (channel queue,
    barrier queue, stream queues, perform / deliver_data / dispose, close / STOP, barrier,
    cleanup) over an abstract kernel object (short reads/writes, EAGAIN, EOF, hangup); the
    property's clauses are invariants, completion is checked under fairness; spec mutants
    must be refuted inside the quick bounds; Dev = {"imm_noref"} is the pinned code's
    deviation (known finding, see below).
(B) Binding, spec -> code: TLC (-simulate, history variable `sched`) emits FAULT SCHEDULES
    (operation lengths and directions, water marks, fragmentation, peer write sizes and
    their order, EOF / hangup, placement of close / STOP / barrier / release); they are
    replayed, at several byte scales, on pipes, socketpairs and temp files by
    harness/drv_io.c, together with seeded random schedules (few bytes .. 256 KiB, chunk
    size 4 KiB .. 1 MiB).
(C) Binding, code -> spec: every execution's API-level history (handler arguments, peer
    bytes, barrier / cleanup, calls) is (a) judged by oracles that are the property's clauses
    evaluated in C / here, and (b) validated against spec/IoTrace.tla: it must be a behaviour
    of Io.tla with kernel chunking and internal blocks as silent steps.  A strict rejection
    is re-validated with Liberal = TRUE (policy the property does not state - low-water
    delivery points, how promptly STOP interrupts - left open): accepted there = DRIFT
    (exit 0), rejected = VIOLATION.

Why the chunk look-ahead of IoTrace (TraceK) loses no behaviour: a read(2)/write(2) of the
engine that is not followed by a delivery changes only buf_len/total (no handler, no flag);
deliver_data returns early for it (undelivered < low, buffer not full) or moves the buffer
into op->data.  Replacing two such consecutive calls by one of the summed size, placed at the
time of the second, yields the same op state at every later delivery, and the kernel model
allows it (the bytes were all available at the later time).  Hence for every real execution
there is a spec behaviour in which each system call reads/writes exactly up to the next
recorded delivery size (capped by buffer space / availability), which is what TraceK picks;
the placement of the call in time is still searched by TLC."""
import os, json, random, threading
from concurrent.futures import ThreadPoolExecutor
from vlib import *

PROP = "C14"
os.environ.setdefault("VERIF_TLC_HEAP", "3g")     # several TLC instances run side by side
KF_KEY = "cleanup-before-rejected-handler"
KF_ZERO = "zero-length-after-close-no-error"
# deviations of the pinned code that Io.tla models (constant Dev) -> the invariant each one breaks
DEVS = {"imm_noref": "CleanupOnceAfterAll", "zero_noerr": "ClosedEcanceled"}
INV = ("TypeOK ReadConservation HighWater WriteConservation DoneOnceLast CompletionOrder "
       "BarrierBetween ClosedEcanceled CleanupOnceAfterAll StopFlagsFinal")

MODELS_Q = ["Io_r_q", "Io_w_q", "Io_cs_q", "Io_b_q", "Io_conv_q", "Io_iv_q"]          # spec/cfg/<name>.cfg
MODELS_T = ["Io_r_t", "Io_rinf_t", "Io_w_t", "Io_w3_t", "Io_cs_t", "Io_cs3_t", "Io_csw_t", "Io_b_t", "Io_bs_t", "Io_rw_t",
            "Io_f_t", "Io_conv_t", "Io_iv_t", "Io_ivw_t"]
# (mutant, config it must be refuted in)
MUTANTS = [("dup_deliver", "Io_r_q"), ("early_done", "Io_r_q"), ("pick_skip", "Io_r_q"),
           ("high_plus_one", "Io_r_q"), ("close_nocancel", "Io_cs_q")]


def cfg_variant(base, name, subs):
    """A variant of a committed config (mutant / deviation): text substitution, written to the run dir."""
    src = open(os.path.join(SPEC, "cfg", base + ".cfg")).read()
    for a, b in subs:
        if a not in src:
            raise Broken("config %s has no %r" % (base, a))
        src = src.replace(a, b)
    p = os.path.join(rundir(PROP), name + ".cfg")
    with open(p, "w") as f:
        f.write(src)
    return p


def model(v, tier):
    models = MODELS_Q + (MODELS_T if tier == "thorough" else [])
    jobs = []
    for name in models:
        jobs.append(("model", name, name + ".cfg", 2400 if tier == "thorough" else 280))
    for mut, base in MUTANTS:
        jobs.append(("mutant", mut, cfg_variant(base, "mut_" + mut, [('Mut = "none"', 'Mut = "%s"' % mut)]), 280))
    for dev in DEVS:
        jobs.append(("dev", dev, cfg_variant("Io_cs_q", "dev_" + dev, [("Dev = {}", 'Dev = {"%s"}' % dev),
                                                                        ("INVARIANTS " + INV, "INVARIANTS " + DEVS[dev])]), 280))
    for name in ["Io_live", "Io_livec"] + (["Io_live_t"] if tier == "thorough" else []):
        jobs.append(("live", name, name + ".cfg", 1500 if tier == "thorough" else 280))
    w = max(2, NCPU // 4)

    def one(job):
        kind, name, path, to = job
        return job, tlc_must_pass(kind + " " + name, "Io.tla", path, timeout=to, workers=w, heap="3g",
                                  metaname="c14_%s_%s" % (kind, name))
    with ThreadPoolExecutor(max_workers=4 if tier == "quick" else 5) as ex:
        res = list(ex.map(one, jobs))
    for (kind, name, path, to), r in res:
        if kind in ("model", "live"):
            v.add_model(name, r)
            if r.violated:
                p = save_replay(PROP, name + ".tlc.out", r.out)
                v.violation("spec %s violates %s (the transcribed engine does not satisfy the property)" % (name, r.violated), p)
        elif kind == "mutant":
            if not r.violated:
                raise Broken("spec mutant %s not refuted: the invariants are vacuous in these bounds" % name)
            v.notes.setdefault("spec_mutants_refuted", []).append({"mutant": name, "by": r.violated})
        else:
            # the pinned code's deviation must be visible to TLC (and absent in the repaired model above)
            if r.violated != DEVS[name]:
                raise Broken("deviation %s: expected %s to fail, got %s" % (name, DEVS[name], r.violated))
            v.notes["deviation_" + name] = "TLC: %s violated with Dev={%s}, holds with Dev={}" % (DEVS[name], name)


# ------------------------------------------------------------------ schedules
K_PIPE_IN, K_PIPE_OUT, K_SOCK, K_FILE_IN, K_FILE_OUT, K_CONV_IN, K_CONV_OUT, K_CONV_SOCK = range(8)


def tlc_schedules(seed, num, cfg="Io_sim.cfg"):
    r = tlc("Io.tla", cfg, workers=2, timeout=280, simulate=num, depth=150, seed=seed, heap="2g", metaname="c14_" + cfg)
    if r.rc != 0:
        raise Broken("TLC simulation (schedule emission) failed rc=%s:\n%s" % (r.rc, r.out[-2000:]))
    seen, out = set(), []
    for line in r.out.splitlines():
        if line.startswith('"{') and line not in seen:
            seen.add(line)
            j = json.loads(json.loads(line))
            if j["s"]:
                out.append(j)
    # longer schedules first (prefixes of the same walk are printed too)
    out.sort(key=lambda j: -len(j["s"]))
    return out, r


def sched_from_tlc(j, rng, unit):
    """One TLC behaviour -> harness schedule text.  unit = bytes per abstract byte."""
    st = j["s"]
    usesR = any(x["a"] in ("read", "cread") for x in st)
    usesW = any(x["a"] in ("write", "cwrite") for x in st)
    if any(x["a"] in ("cread", "cwrite") for x in st):
        kind = K_CONV_SOCK if usesR and usesW else K_CONV_OUT if usesW else K_CONV_IN
    elif usesR and usesW:
        kind = K_SOCK
    elif usesW:
        kind = rng.choice([K_PIPE_OUT, K_SOCK, K_FILE_OUT, K_PIPE_OUT])
    else:
        kind = rng.choice([K_PIPE_IN, K_SOCK, K_FILE_IN, K_PIPE_IN])
    insize = sum(x["v"] for x in st if x["a"] == "pw") * unit
    hq = 1 if rng.random() < 0.2 else 0
    if kind in (K_FILE_IN, K_FILE_OUT) and rng.random() < 0.3:
        hq |= 4
    elif kind < K_CONV_IN and rng.random() < 0.1:
        hq |= 2
    lines = ["exec %d %%d %d %d" % (kind, hq, insize if kind == K_FILE_IN else 0)]
    nh = 0
    for x in st:
        a, val, w = x["a"], x["v"], x["w"]
        if x["nh"] > nh:
            nh = x["nh"]
            lines.append("waith %d 2000" % nh)
        if a == "high" and val == 0 and unit > 1:
            lines.append("high %d" % max(1, unit // 16))     # keeps the number of invocations bounded
        elif a in ("low", "high"):
            lines.append("%s %d" % (a, val * unit))
        elif a in ("read", "cread"):
            lines.append("%s %d" % (a, val * unit))
        elif a in ("write", "cwrite"):
            lines.append("%s %d %d %d 0" % (a, val * unit, 2 if w else 1, w * unit))
        elif a in ("barrier", "close", "stop", "release", "pc", "ph"):
            lines.append(a)
        elif a in ("pw", "pr"):
            lines.append("%s %d" % (a, val * unit))
    lines.append("end")
    return pipe_hup_guard(kind, lines)


def pipe_hup_guard(kind, lines):
    """Known finding write-parked-pipe-peer-hangup-never-completes: a write parked on a full pipe never
    completes when the reader goes away (EPOLLERR is ignored by the epoll backend).  The general
    schedules keep away from it (hangup on a pipe only if all writes fit its buffer); one directed
    execution demonstrates it."""
    total = sum(int(x.split()[1]) for x in lines if x.startswith("write ") or x.startswith("cwrite "))
    if kind in (K_PIPE_OUT, K_CONV_OUT) and total > 60000:
        lines = [x for x in lines if x != "ph"]
    # the same on a socketpair (write-parked-socket-peer-close-never-completes, race dependent)
    if kind in (K_SOCK, K_CONV_SOCK) and total > 100000:
        lines = [x for x in lines if x != "ph"]
    return "\n".join(lines)


def rand_len(rng):
    c = rng.random()
    if c < 0.3:
        return rng.randint(1, 24)
    if c < 0.6:
        return rng.randint(100, 9000)
    if c < 0.9:
        return rng.randint(9000, 70000)
    return rng.randint(70000, 262144)


def sched_random(rng):
    kind = rng.choice([K_PIPE_IN, K_PIPE_OUT, K_SOCK, K_SOCK, K_FILE_IN, K_FILE_OUT])
    hq = 1 if rng.random() < 0.25 else 0
    dirs = {K_PIPE_IN: "R", K_FILE_IN: "R", K_PIPE_OUT: "W", K_FILE_OUT: "W", K_SOCK: "RW"}[kind]
    client, peer = [], []
    if rng.random() < 0.6:
        hi = rng.choice([1, 2, 7, 100, 4096, 5000, 20000, 100000])
        lo = rng.choice([0, 1, 2, 50, 4096, 30000])
        sets = [("high %d" % hi), ("low %d" % lo)]
        rng.shuffle(sets)
        client += sets[:rng.randint(1, 2)]
    # (interval timers are exercised by directed executions only: a timer that may fire between any
    # two steps makes the silent-step search of IoTrace expensive on long random histories)
    nops = rng.randint(1, 6)
    rtotal = 0
    # bound the number of handler invocations of one operation (len / high water)
    hi_cap = 1 << 30
    for c in client:
        if c.startswith("high "):
            hi_cap = max(1, int(c.split()[1])) * 64
    closed = False
    for i in range(nops):
        d = rng.choice(dirs)
        n = rand_len(rng) if rng.random() > 0.04 else 0
        n = min(n, hi_cap)
        if d == "R":
            if rng.random() < 0.06:
                client.append("read -1")
                rtotal += min(rng.randint(0, 50000), hi_cap)
            else:
                client.append("read %d" % n)
                rtotal += n
        else:
            nf = rng.choice([1, 1, 2, 3]) if n >= 3 else 1
            f1 = rng.randint(1, n - 2) if nf >= 2 else 0
            f2 = rng.randint(1, n - f1 - 1) if nf == 3 else 0
            client.append("write %d %d %d %d" % (n, nf, f1, f2))
        r = rng.random()
        if r < 0.18:
            client.append("barrier")
        elif r < 0.30:
            client.append("waitdone %d %d" % (rng.randint(1, i + 1), rng.choice([500, 3000, 20000])))
        elif r < 0.40:
            client.append("sleep %d" % rng.choice([50, 300, 1500]))
        elif r < 0.48 and not closed:
            client.append(rng.choice(["close", "stop", "stop"]))
            closed = True
        elif r < 0.52:
            client.append("waith %d 3000" % rng.randint(1, 4))
    if not closed and rng.random() < 0.5:
        client.append(rng.choice(["close", "stop", "release", "stop"]))
        if rng.random() < 0.3:
            client.append("read 5" if "R" in dirs else "write 5 1 0 0")
    # the peer
    insize = 0
    if "R" in dirs:
        total = max(0, int(rtotal * rng.choice([0.5, 1, 1, 1.3])) + rng.choice([0, 0, 1, -1]))
        if kind == K_FILE_IN:
            insize = total
        else:
            left = total
            while left > 0:
                k = min(left, rand_len(rng))
                peer.append("pw %d" % k)
                left -= k
                if rng.random() < 0.3:
                    peer.append("sleep %d" % rng.choice([50, 500, 2000]))
            if rng.random() < 0.7:
                peer.append("pc")
    if "W" in dirs and kind != K_FILE_OUT:
        if rng.random() < 0.5:
            peer.insert(rng.randint(0, len(peer)), "pr -1")
        else:
            for _ in range(rng.randint(1, 4)):
                peer.insert(rng.randint(0, len(peer)), "pr %d" % rand_len(rng))
        if rng.random() < 0.25:
            peer.insert(rng.randint(0, len(peer)), "ph")
    # channel made with dispatch_io_create_with_io (bit 1) / dispatch_io_create_with_path (bit 2)
    if kind in (K_FILE_IN, K_FILE_OUT):
        hq |= 4 if rng.random() < 0.4 else 0
    if not (hq & 4) and rng.random() < 0.15:
        hq |= 2
    # random merge, each list keeps its order
    out = ["exec %d %%d %d %d" % (kind, hq, insize)]
    i = j = 0
    while i < len(client) or j < len(peer):
        if j >= len(peer) or (i < len(client) and rng.random() < 0.55):
            out.append(client[i]); i += 1
        else:
            out.append(peer[j]); j += 1
    out.append("end")
    return pipe_hup_guard(kind, out)


# directed, on every run: water marks around the internal chunk size.  With low water above the chunk
# a filled buffer is held back in op->data and the next buffer must be sized high - held-back
# (seeded/C14-1); with a short write followed by STOP / a progress report the unwritten tail must
# start behind the bytes already written (seeded/C14-2).  (pages, schedule)
DIRECTED_MARKS = [
    (1, "exec 3 %d 0 20000\nlow 5000\nhigh 5000\nread 15000\nend"),
    (1, "exec 3 %d 0 30000\nlow 6000\nhigh 7000\nread 20000\nread -1\nend"),
    (1, "exec 3 %d 4 20000\nhigh 5000\nlow 5000\nread 15000\nend"),
    (2, "exec 3 %d 0 60000\nlow 10000\nhigh 10000\nread 40000\nend"),
    (1, "exec 0 %d 0 0\nlow 5000\nhigh 5000\npw 15000\nsleep 3000\nread 15000\nend"),
    (2, "exec 2 %d 0 0\nlow 12000\nhigh 13000\npw 40000\nsleep 3000\nread 40000\nend"),
    (1, "exec 0 %d 2 0\nlow 9000\nhigh 9000\npw 30000\nsleep 3000\nread 30000\npc\nend"),
    (4, "exec 1 %d 0 0\nlow 1\nwrite 300000 1 0 0\npr 1000\nwaith 1 50000\nsleep 5000\nstop\nend"),
    (4, "exec 2 %d 0 0\nhigh 100000\nwrite 90000 2 30000 0\nwrite 300000 1 0 0\npr 20000\nwaith 2 50000\nsleep 5000\nstop\nend"),
    (4, "exec 1 %d 0 0\nlow 1000\nwrite 200000 1 0 0\npr 70000\nsleep 5000\npr -1\nend"),
]


# directed, on every run: a SECOND channel on the same descriptor (dispatch_io_create_with_io = hq bit 8,
# a second dispatch_io_create = hq bit 16), used at the same time.  Stopping / closing one channel
# must leave the other channel's in-flight and queued operations alone (seeded/C14-3): conservation
# at the peer, done once with the right error, the stopped channel's pending operations ECANCELED.
DIRECTED_DUAL = [
    (4, "exec 2 %d 8 0\nwrite 400000 1 0 0\nread2 100\nsleep 20000\nstop2\nsleep 5000\npr -1\nend"),
    (4, "exec 2 %d 16 0\nwrite 400000 2 1000 0\nread2 100\nsleep 20000\nstop2\nsleep 5000\npr -1\nend"),
    (4, "exec 2 %d 8 0\nread 100\nwrite2 400000 1 0 0\nsleep 20000\nstop2\nsleep 5000\npw 100\npr -1\nend"),
    (4, "exec 2 %d 16 0\nread 100\nread 50\nwrite2 400000 1 0 0\nsleep 20000\nstop2\nsleep 5000\npw 150\npr -1\nend"),
    (4, "exec 1 %d 16 0\nwrite 150000 1 0 0\nsleep 10000\nwrite2 5000 1 0 0\nsleep 10000\nstop2\nsleep 3000\npr -1\nend"),
    (4, "exec 1 %d 8 0\nwrite 150000 1 0 0\nwrite 3000 1 0 0\nsleep 10000\nwrite2 5000 1 0 0\nsleep 10000\nstop2\nsleep 3000\npr -1\nend"),
    (4, "exec 0 %d 8 0\nread 100\nsleep 5000\nread2 50\nsleep 10000\nstop2\nsleep 3000\npw 100\nend"),
    (4, "exec 2 %d 8 0\nwrite 300000 1 0 0\nread2 50\nsleep 10000\nclose2\nsleep 3000\npw 50\npr -1\nend"),
]


def sched_random_conv(rng):
    """dispatch_read / dispatch_write on a pipe or a socketpair."""
    kind = rng.choice([K_CONV_IN, K_CONV_OUT, K_CONV_SOCK])
    dirs = {K_CONV_IN: "R", K_CONV_OUT: "W", K_CONV_SOCK: "RW"}[kind]
    client, peer = [], []
    rtotal = 0
    for i in range(rng.randint(1, 4)):
        d = rng.choice(dirs)
        n = rand_len(rng) if rng.random() > 0.06 else 0
        if d == "R":
            client.append("cread %d" % (n if rng.random() > 0.1 else -1))
            rtotal += n
        else:
            nf = rng.choice([1, 1, 2, 3]) if n >= 3 else 1
            f1 = rng.randint(1, n - 2) if nf >= 2 else 0
            f2 = rng.randint(1, n - f1 - 1) if nf == 3 else 0
            client.append("cwrite %d %d %d %d" % (n, nf, f1, f2))
        r = rng.random()
        if r < 0.3:
            client.append("waitdone %d %d" % (rng.randint(1, i + 1), rng.choice([500, 3000, 20000])))
        elif r < 0.45:
            client.append("sleep %d" % rng.choice([50, 300, 1500]))
    if "R" in dirs:
        left = max(0, int(rtotal * rng.choice([0.5, 1, 1, 1.3])) + rng.choice([0, 1, -1]))
        while left > 0:
            k = min(left, rand_len(rng))
            peer.append("pw %d" % k)
            left -= k
            if rng.random() < 0.4:
                peer.append("sleep %d" % rng.choice([50, 500, 2000]))
        if rng.random() < 0.6:
            peer.append("pc")
    if "W" in dirs:
        if rng.random() < 0.5:
            peer.insert(rng.randint(0, len(peer)), "pr -1")
        else:
            for _ in range(rng.randint(1, 4)):
                peer.insert(rng.randint(0, len(peer)), "pr %d" % rand_len(rng))
        if rng.random() < 0.25:
            peer.insert(rng.randint(0, len(peer)), "ph")
    out = ["exec %d %%d %d 0" % (kind, 1 if rng.random() < 0.3 else 0)]
    i = j = 0
    while i < len(client) or j < len(peer):
        if j >= len(peer) or (i < len(client) and rng.random() < 0.55):
            out.append(client[i]); i += 1
        else:
            out.append(peer[j]); j += 1
    out.append("end")
    return pipe_hup_guard(kind, out)


# directed: the handler queue is busy while an operation is rejected (known finding), and the
# control case (an accepted operation: the cleanup handler must wait for its handler)
DIRECTED = [
    "exec 0 %d 0 0\nhqblock\nread 4\nstop\nwaitcleanup 200000\nhqunblock\nend",
    "exec 0 %d 0 0\nhqblock\nread 0\nclose\nwaitcleanup 200000\nhqunblock\nend",
    "exec 0 %d 0 0\nhqblock\nread 4\npw 4\nsleep 20000\nclose\nwaitcleanup 100000\nhqunblock\nend",
    "exec 1 %d 0 0\nhqblock\nwrite 4 1 0 0\npr -1\nsleep 20000\nstop\nwaitcleanup 100000\nhqunblock\nend",
    # a write parked on a full pipe, then the reader goes away: must complete (with an error)
    "exec 1 %d 0 0\nwrite 150000 1 0 0\nwaith 1 50000\nsleep 5000\nph\nstalled 1 4000000\nend",
    # dispatch_io_set_interval, with and without DISPATCH_IO_STRICT_INTERVAL
    "exec 0 %d 0 0\ninterval 300000 1\nlow 50\nread 100\npw 10\nsleep 2000\npw 10\nsleep 2000\npw 80\nend",
    "exec 1 %d 0 0\ninterval 300000 0\nlow 4\nwrite 200000 1 0 0\npr 50000\nsleep 2000\npr 50000\nsleep 3000\npr -1\nend",
    "exec 2 %d 0 0\ninterval 500000 1\nread 20\nwrite 300000 1 0 0\npw 5\nsleep 3000\npr 1000\nstop\nend",
    "exec 0 %d 2 0\ninterval 400000 0\nhigh 8\nlow 8\nread 40\npw 20\nsleep 1500\npw 20\nend",
    # the same on a socketpair whose peer closes with unread data (race dependent: two attempts)
    "exec 2 %d 0 0\nhigh 2062\nread 66000\nwrite 400000 1 0 0\npw 33000\nsleep 3000\nph\nstalled 2 3000000\nend",
    "exec 2 %d 0 0\nhigh 2062\nread 66000\nwrite 400000 1 0 0\npw 33000\nsleep 1000\nph\nstalled 2 3000000\nend",
]


# ------------------------------------------------------------------ traces
def prep_trace(path, out):
    recs = trace_lines(path)
    cur, maxops, maxbars, chunk = None, 1, 0, None
    for r in recs:
        e = r["e"]
        if e == "Reset":
            cur = r
            r["ops"] = []
            r["hasstop"] = 0
            chunk = r["chunk"] if chunk is None else chunk
            if chunk != r["chunk"]:
                raise Broken("one trace file must use one chunk size")
        elif e in ("Read", "Write", "CRead", "CWrite"):
            while len(cur["ops"]) < r["o"]:
                cur["ops"].append([])
            maxops = max(maxops, r["o"])
        elif e == "Barrier":
            maxbars = max(maxbars, r["b"])
        elif e == "StopCall":
            cur["hasstop"] = 1
        elif e == "H":
            cur["ops"][r["o"] - 1].append({"n": r["n"], "done": r["done"], "null": r["null"], "err": r["err"]})
        elif e == "CH":     # the single handler invocation of dispatch_read / dispatch_write
            cur["ops"][r["o"] - 1].append({"n": r["n"], "done": 1, "null": r["null"], "err": r["err"]})
    # per operation: the bytes it moved according to its recorded handler invocations
    lens = {}
    for r in recs:
        if r["e"] == "Reset":
            cur = r
            lens = {}
        elif r["e"] in ("Read", "Write", "CRead", "CWrite"):
            lens[r["o"]] = (r["e"], r["len"])
        elif r["e"] == "ExecEnd" or r is recs[-1]:
            pass
    cur = None
    for r in recs:
        if r["e"] == "Reset":
            cur = r
            cur["tot"] = []
            cur["_lens"] = {}
        elif r["e"] in ("Read", "Write", "CRead", "CWrite"):
            cur["_lens"][r["o"]] = (r["e"], r["len"])
    for r in recs:
        if r["e"] == "Reset":
            tot = []
            for i, hs in enumerate(r["ops"]):
                kind, ln = r["_lens"].get(i + 1, ("Read", 0))
                if kind in ("Read", "CRead"):
                    tot.append(sum(h["n"] for h in hs))
                else:
                    tot.append(ln - (hs[-1]["n"] if hs else 0))
            r["tot"] = tot
            del r["_lens"]
    with open(out, "w") as f:
        for r in recs:
            f.write(json.dumps(r) + "\n")
    return {"maxops": maxops, "maxbars": maxbars, "chunk": chunk or 4096}, recs


def log_oracles(recs):
    """Clauses of the property that need the global order: the cleanup handler runs exactly once
    after every handler of the operations submitted before close (returned, not just started);
    the handler is never re-entered.  Returns (violations, known-finding hits)."""
    bad, known = [], []
    execs, cur = [], None
    for r in recs:
        if r["e"] == "Reset":
            cur = []
            execs.append((r, cur))
        elif cur is not None:
            cur.append(r)
    for rs, ev in execs:
        x = rs["x"]
        closed = False
        ops = {}
        inh = {}
        cleanups = [i for i, r in enumerate(ev) if r["e"] == "Cleanup"]
        if rs["kind"].startswith("conv"):
            # convenience API: no channel, no cleanup handler; exactly one invocation per call
            n = {}
            for r in ev:
                if r["e"] in ("CRead", "CWrite"):
                    n[r["o"]] = 0
                elif r["e"] == "CH":
                    n[r["o"]] = n.get(r["o"], 0) + 1
                    if not r["ok"]:
                        bad.append("exec %d op %d: data content mismatch" % (x, r["o"]))
            if cleanups or any(c != 1 for c in n.values()):
                bad.append("exec %d: convenience handlers did not run exactly once each (%s)" % (x, n))
            continue
        if len(cleanups) != 1:
            bad.append("exec %d: cleanup handler ran %d times" % (x, len(cleanups)))
            continue
        cpos = min([cleanups[0]] + [i for i, r in enumerate(ev) if r["e"] == "Cleanup2"])
        if sum(1 for r in ev if r["e"] == "Cleanup2") > 1:
            bad.append("exec %d: cleanup handler of the first channel ran more than once" % x)
        for i, r in enumerate(ev):
            e = r["e"]
            if e in ("Close", "StopCall"):
                closed = True
            elif e in ("Read", "Write"):
                ops[r["o"]] = {"ac": closed, "len": r["len"], "dir": e, "h": [], "late": False}
            elif e == "H":
                o = ops[r["o"]]
                if inh.get(r["o"]):
                    bad.append("exec %d op %d: handler re-entered" % (x, r["o"]))
                inh[r["o"]] = True
                o["h"].append(r)
                if not r["ok"]:
                    bad.append("exec %d op %d: data content mismatch" % (x, r["o"]))
                if i > cpos:
                    o["late"] = True
            elif e == "HEnd":
                inh[r["o"]] = False
                if i > cpos:
                    ops[r["o"]]["late"] = True
        for oid, o in ops.items():
            if not o["late"] or o["ac"]:
                continue
            h = o["h"]
            rejected = (len(h) == 1 and h[0]["done"] == 1 and
                        ((h[0]["err"] == 2 and (h[0]["n"] == 0 if o["dir"] == "Read" else h[0]["n"] == o["len"])) or
                         (o["len"] == 0 and h[0]["err"] == 0)))
            if rejected:
                known.append("exec %d op %d (%s len %d): the cleanup handler ran before the handler of an operation "
                             "that was rejected without reaching the descriptor" % (x, oid, o["dir"], o["len"]))
            else:
                bad.append("exec %d op %d: the cleanup handler ran before a handler invocation of an operation "
                           "submitted before close had returned" % (x, oid))
    return bad, known


def per_execution(v, name, recs, hdr, sp, lock, tcfg):
    """Validate every execution of a batch separately: strict; a strict rejection is retried with
    the policy left open (DRIFT if accepted) and confirmed by one re-run before it is reported.
    Returns a summed TlcResult-like object, or None if a violation was recorded."""
    d = rundir(PROP)
    execs = []
    for r in recs:
        if r["e"] == "Reset":
            execs.append([])
        if execs:
            execs[-1].append(r)
    tot = TlcResult()
    tot.tracelen = 0
    for i, ev in enumerate(execs):
        p = os.path.join(d, "%s.x%d.ndjson" % (name, i))
        with open(p, "w") as f:
            for r in ev:
                f.write(json.dumps(r) + "\n")
        r1 = validate_trace("IoTrace.tla", tcfg, p, header=hdr, timeout=300, metaname="c14x_%s_%d" % (name, i))
        tot.distinct += r1.distinct
        tot.generated += r1.generated
        tot.wall += r1.wall
        tot.tracelen += r1.tracelen or 0
        if r1.accepted:
            continue
        lines = open(r1.trace_with_header).read().splitlines()
        k = r1.maxl or 1
        ctx = " | ".join(lines[max(1, k - 4):k])
        if ev[0]["kind"] in ("filein", "fileout"):
            # the disk engine picks / performs / disposes in a pipeline of its own: how promptly STOP
            # takes effect there is not transcribed, so it is left open for regular files
            rf = validate_trace("IoTrace.tla", "IoTrace_file.cfg", p, header=hdr, timeout=300, metaname="c14xf_%s_%d" % (name, i))
            if rf.accepted and not rf.violated:
                continue
        r2 = validate_trace("IoTrace.tla", "IoTrace_lib.cfg", p, header=hdr, timeout=300, metaname="c14xl_%s_%d" % (name, i))
        if r2.accepted and not r2.violated:
            with lock:
                v.drift.append("%s execution %d: history follows Io.tla only with the policy left open (low-water delivery "
                               "points / promptness of STOP); first strict mismatch at record %d: %s" % (name, i, k, ctx[-400:]))
            continue
        r3 = validate_trace("IoTrace.tla", "IoTrace_lib.cfg", p, header=hdr, timeout=300, metaname="c14xm_%s_%d" % (name, i))
        if r3.accepted and not r3.violated:
            continue
        k2 = r3.maxl or 1
        ctx = " | ".join(lines[max(1, k2 - 4):k2])
        rp = save_replay(PROP, "%s.x%d.rejected.ndjson" % (name, i), src=r1.trace_with_header)
        save_replay(PROP, name + ".sched", src=sp)
        why = ("invariant %s violated in the matched prefix" % r3.violated) if r3.violated else \
            "no behaviour of Io.tla explains record %d" % k2
        with lock:
            v.violation("trace rejected (%s execution %d): %s; last records: %s" % (name, i, why, ctx[-600:]), rp)
        return None
    tot.accepted = True
    return tot


def run_batch(v, drv, name, sched_text, seed, lock, kf_listed):
    d = rundir(PROP)
    sp = os.path.join(d, name + ".sched")
    with open(sp, "w") as f:
        f.write(sched_text + "\n")
    tr = os.path.join(d, name + ".ndjson")
    if os.path.exists(tr):
        os.unlink(tr)
    rc, out, err = sh([drv, tr, str(seed), sp, d], timeout=900)
    if rc != 0:      # files of create_with_path executions that did not reach their end
        for fn in os.listdir(d):
            if fn.startswith("io_") and fn.endswith(".dat"):
                try:
                    os.unlink(os.path.join(d, fn))
                except OSError:
                    pass
    nexec = sched_text.count("exec ")
    if rc in (2, 70, 71):
        what = {2: "API oracle failed", 70: "crash inside libdispatch", 71: "hang: an operation or the cleanup handler never completed"}[rc]
        p = save_replay(PROP, name + ".sched", src=sp)
        if os.path.exists(tr):
            save_replay(PROP, name + ".ndjson", src=tr)
        fails = [x for x in err.splitlines() if "ORACLE-FAIL" in x][:4]
        first = False
        with lock:
            if not v.notes.get("_detail_done"):
                v.notes["_detail_done"] = first = True
        if rc == 2 and os.path.exists(tr) and first:
            # what does the specification say about this history? (once per run: it costs time)
            try:
                hdr, recs = prep_trace(tr, tr + ".p")
                rv = validate_trace("IoTrace.tla", "IoTrace.cfg", tr + ".p", header=hdr, timeout=90, metaname="c14trf_" + name)
                lines = open(rv.trace_with_header).read().splitlines()
                k = rv.maxl or 1
                fails.append("trace validation: " + ("accepted by Io.tla" if rv.accepted else
                             "%s at record %d: %s" % (("invariant %s violated" % rv.violated) if rv.violated else "no behaviour of Io.tla explains the history",
                                                       k, " | ".join(lines[max(1, k - 3):k])[-400:])))
            except Broken as b:
                fails.append("trace validation: not available (%s)" % str(b)[:80])
        with lock:
            v.violation("%s (driver seed %d, %s): %s" % (what, seed, name, " || ".join(fails) or err.strip()[-300:]), p)
        return
    if rc != 0:
        raise Broken("driver failed rc=%s on %s: %s" % (rc, name, (err or out)[-1000:]))
    prepped = tr + ".p"
    hdr, recs = prep_trace(tr, prepped)
    bad, known = log_oracles(recs)
    for line in err.splitlines():
        if line.startswith("KNOWN-CLASS C14 key="):
            key = line.split("key=")[1].split()[0]
            with lock:
                if key in kf_listed:
                    if not any(key in k for k in v.known):
                        v.known.append("%s: %s" % (key, line.split("key=")[1]))
                    v.notes["known_finding_hits_" + key] = v.notes.get("known_finding_hits_" + key, 0) + 1
                else:
                    bad.append("deviation class %s is not a listed known finding: %s" % (key, line))
    if bad:
        p = save_replay(PROP, name + ".sched", src=sp)
        save_replay(PROP, name + ".ndjson", src=tr)
        with lock:
            v.violation("history oracle failed (%s): %s" % (name, " || ".join(bad[:3])), p)
        return
    if known:
        with lock:
            if KF_KEY in kf_listed:
                if not any(KF_KEY in k for k in v.known):
                    v.known.append("%s: %s" % (KF_KEY, known[0]))
                v.notes["known_finding_hits"] = v.notes.get("known_finding_hits", 0) + len(known)
            else:
                p = save_replay(PROP, name + ".sched", src=sp)
                v.violation("cleanup handler before a handler (%s): %s" % (name, known[0]), p)
                return
    if "d_" in name:
        # executions with two concurrently used channels: judged by the driver's and the log oracles only
        with lock:
            v.traces += nexec
            v.notes["dual_channel_executions_oracles_only"] = v.notes.get("dual_channel_executions_oracles_only", 0) + nexec
        return
    tcfg = "IoTrace.cfg"
    try:
        r = validate_trace("IoTrace.tla", tcfg, prepped, header=hdr, timeout=400, metaname="c14tr_" + name)
    except Broken:
        r = None      # timed out: judge the executions one by one
    if r is None or not r.accepted:
        # A rejected execution makes the depth-first search revisit every alternative of the
        # executions before it, so the batch is re-validated execution by execution.
        st = per_execution(v, name, recs, hdr, sp, lock, tcfg)
        if st is None:
            return
        r = st
    if os.environ.get("C14_VERBOSE"):
        log("batch %s: %d executions, %d records, %d states, %.1fs" % (name, nexec, r.tracelen or 0, r.distinct, r.wall))
    with lock:
        v.traces += nexec
        v.states += r.distinct
        v.transitions += r.generated
        v.notes["trace_records"] = v.notes.get("trace_records", 0) + (r.tracelen or 0)
        if len(v.samples) < 4:
            v.samples.append({"batch": name, "executions": nexec, "records": r.tracelen,
                              "schedule": sched_text.split("end")[0].split("\n")[:14],
                              "history": [json.dumps(x) for x in recs[:1] + [y for y in recs if y["e"] in ("H", "BarStart", "Cleanup")][:8]]})


def traces(v, tier, seed):
    drv = build_driver("drv_io")
    rng = random.Random(seed * 7919 + 13)
    kf_listed = set(f.get("key") for f in known_findings(PROP)["findings"])
    nsim, ntake, nrand = (600, 130, 110) if tier == "quick" else (4000, 900, 1200)
    if os.environ.get("C14_COUNTS"):      # debugging aid
        nsim, ntake, nrand = [int(x) for x in os.environ["C14_COUNTS"].split(",")]
    tl, rsim = tlc_schedules(seed, nsim)
    if len(tl) < 20:
        raise Broken("TLC emitted only %d fault schedules" % len(tl))
    v.notes["tlc_fault_schedules_emitted"] = len(tl)
    rng.shuffle(tl)
    tl = tl[:ntake]
    batches = {}   # chunk pages -> list of schedule texts
    pages_opts = [1, 2, 4, 256]

    def add(text, pages):
        # regular files run through the disk engine, whose pick / perform pipeline relative to STOP
        # is not transcribed: their batches are validated with the promptness of STOP left open
        isfile = text.split()[1] in ("3", "4")
        if int(text.split()[3]) & 24:
            isfile = "dual"     # two channels used at once on one descriptor: oracles only (Io.tla has one channel)
        batches.setdefault((pages, isfile), []).append(text % pages)
    for i, j in enumerate(tl):
        unit = [1, 1, 700, 3000, 33000][i % 5]
        add(sched_from_tlc(j, rng, unit), pages_opts[i % 4])
    tlc_conv, _ = tlc_schedules(seed + 1, max(60, nsim // 4), "Io_simc.cfg")
    rng.shuffle(tlc_conv)
    for i, j in enumerate(tlc_conv[:max(10, ntake // 5)]):
        add(sched_from_tlc(j, rng, [1, 900, 20000][i % 3]), pages_opts[i % 4])
    v.notes["tlc_fault_schedules_emitted"] += len(tlc_conv)
    for i in range(nrand):
        add(sched_random(rng) if i % 5 else sched_random_conv(rng), pages_opts[rng.randrange(4)])
    for i, dsc in enumerate(DIRECTED):
        batches.setdefault((4, False), []).insert(0, dsc % 4)
    for pages, dsc in DIRECTED_MARKS + DIRECTED_DUAL:
        add(dsc, pages)
    # split into driver runs of bounded size
    per = 30 if tier == "quick" else 60
    jobs = []
    for (pages, isfile), lst in sorted(batches.items(), key=lambda kv: (kv[0][0], str(kv[0][1]))):
        for k in range(0, len(lst), per):
            tag = "d" if isfile == "dual" else "f" if isfile else ""
            jobs.append(("b%d%s_%d" % (pages, tag, k // per), "\n".join(lst[k:k + per])))
    v.notes["executions_planned"] = sum(len(x) for x in batches.values())
    lock = threading.Lock()
    broken = []

    def guarded(name, text, s):
        try:
            run_batch(v, drv, name, text, s, lock, kf_listed)
        except Broken as b:
            broken.append("%s: %s" % (name, str(b)[:300]))
    with ThreadPoolExecutor(max_workers=4 if tier == "quick" else 5) as ex:
        futs = [ex.submit(guarded, name, text, seed * 100 + i) for i, (name, text) in enumerate(jobs)]
        for f in futs:
            f.result()
    if broken:
        # a batch that could not be judged must not hide violations found by the others
        if v.violations:
            v.notes["batches_not_judged"] = broken
        else:
            raise Broken("; ".join(broken)[:1500])
    for key in sorted(kf_listed):
        if not any(key in k for k in v.known):
            v.notes["known_finding_not_observed_" + key] = "no execution showed it on this tree (repaired?)"


# ---------------------------------------------------------------------------------------------
# Random-access channels (spec/IoRandom.tla): model + mutants, then TLC-emitted vectors replayed
# on real DISPATCH_IO_RANDOM channels over temp files by harness/drv_iorand.c (spec -> code).
import zlib
RAND_MUTANTS = ["nobase", "rr_shared_total", "stop_after_io"]
_cells = {}


def cell_bytes(c, unit):
    """Must match cell_byte() of harness/drv_iorand.c."""
    k = (c, unit)
    if k not in _cells:
        _cells[k] = bytes(unit) if c == 0 else bytes(((c * 131 + j * 7 + (j >> 8) * 13 + 1) & 0xff) for j in range(unit))
    return _cells[k]


def iorand_vectors(seed, num, depth=60, cfg="IoRandom_emit"):
    r = tlc_must_pass(cfg, "IoRandom.tla", cfg + ".cfg", workers=4, simulate=num, depth=depth,
                      seed=seed, timeout=600, metaname=cfg)
    if r.violated:
        return [], r
    out = []
    for ln in r.out.splitlines():
        ln = ln.strip()
        if ln.startswith('"<<7777,'):
            out.append(json.loads(ln.strip('"').replace("<<", "[").replace(">>", "]")))
    return out, r


def iorand_judge(vecs, params, outpath):
    """vecs[i] = [7777, flen, base, hist]; hist[p] = [ops, full, file0, file, stop, base]; params[i] = (unit, pages).
    full[i] = the slice a read delivers when it runs to completion (= what it did deliver in the spec's behaviour when
    stop = 0).  stop = 1: the batch raced dispatch_io_close(DISPATCH_IO_STOP); the outcome depends on the race, so the
    clauses of PhaseLaw are evaluated on the observed transfer counts (prefix of the slice; error 0 => everything;
    the file = the writes' reported prefixes applied to the phase's initial contents).
    Returns list of (vector index, text)."""
    obs = {}
    for ln in open(outpath):
        f = ln.split()
        if f[0] == "R":
            obs[("R", int(f[1]), int(f[2]), int(f[3]))] = [int(x) for x in f[4:]]
        elif f[0] == "F":
            obs[("F", int(f[1]), int(f[2]))] = [int(x) for x in f[3:]]
        elif f[0] == "C":
            obs[("C", int(f[1]))] = [int(x) for x in f[2:]]
    bad = []
    for vi, (vec, (unit, pages)) in enumerate(zip(vecs, params)):
        _, flen, _b, hist = vec
        for p, (ops, got, file0, filep, stop, base) in enumerate(hist, 1):
            fexp = bytearray(b"".join(cell_bytes(c, unit) for c in file0))
            for i, (k, off, ln_) in enumerate(ops, 1):
                o = obs.get(("R", vi, p, i))
                what = "vector %d (unit %d, chunk pages %d, file %d cells, base %d) phase %d op %d %s(off %d, len %s)" % (
                    vi, unit, pages, flen, base, p, i, "write" if k else "read", off, "SIZE_MAX" if ln_ == 99 else ln_)
                if o is None:
                    bad.append((vi, what + ": no completion recorded")); continue
                calls, dones, after, err, total, crc = o
                if dones != 1 or after != 0:
                    bad.append((vi, what + ": completed %d times, %d handler calls after done" % (dones, after)))
                if err != 0 and not (stop and err == 125):
                    bad.append((vi, what + ": error %d, the spec completes it %s" % (err, "with 0 or ECANCELED" if stop else "without error")))
                if k == 1:
                    data = b"".join(cell_bytes(2000 + 100 * p + 10 * i + c, unit) for c in range(1, ln_ + 1))
                    wrote = data[:max(0, len(data) - total)] if (stop and err) else data
                    if wrote:
                        s0 = (base + off) * unit
                        if len(fexp) < s0 + len(wrote):
                            fexp.extend(bytes(s0 + len(wrote) - len(fexp)))
                        fexp[s0:s0 + len(wrote)] = wrote
                if stop and k == 0 and err:
                    exp = b"".join(cell_bytes(c, unit) for c in got[i - 1])
                    if total > len(exp) or crc != (zlib.crc32(exp[:total]) & 0xffffffff):
                        bad.append((vi, what + ": stopped read delivered %d bytes crc %08x: not a prefix of the spec's slice %s" % (total, crc, got[i - 1])))
                elif stop and k == 1 and err:
                    if total > ln_ * unit:
                        bad.append((vi, what + ": stopped write reports %d unwritten bytes of %d" % (total, ln_ * unit)))
                elif k == 0:
                    exp = b"".join(cell_bytes(c, unit) for c in got[i - 1])
                    if total != len(exp) or crc != (zlib.crc32(exp) & 0xffffffff):
                        bad.append((vi, what + ": delivered %d bytes crc %08x, the spec's slice %s is %d bytes crc %08x" % (
                            total, crc, got[i - 1], len(exp), zlib.crc32(exp) & 0xffffffff)))
                elif total != 0:
                    bad.append((vi, what + ": completed without error but reports %d unwritten bytes" % total))
            o = obs.get(("F", vi, p))
            exp = bytes(fexp) if stop else b"".join(cell_bytes(c, unit) for c in filep)
            if not stop and exp != bytes(fexp):
                raise Broken("iorand_judge: ApplyAll transcription disagrees with the spec's file on vector %d" % vi)
            if o is None or o[0] != len(exp) or o[1] != (zlib.crc32(exp) & 0xffffffff):
                bad.append((vi, "vector %d (unit %d, chunk pages %d, base %d) phase %d ops %s: file afterwards %s, the spec has %s = %d bytes crc %08x" % (
                    vi, unit, pages, base, p, ops, o, filep, len(exp), zlib.crc32(exp) & 0xffffffff)))
        o = obs.get(("C", vi))
        if o is None or o[0] != o[2] or o[1] != 0:
            bad.append((vi, "vector %d: cleanup handlers [runs, error, channels] = %s (want one run per channel, error 0)" % (vi, o)))
    return bad


def iorand_run(drv, vecs, params, tag):
    d = rundir(PROP)
    vp = os.path.join(d, "iorand_%s.vec" % tag)
    op = os.path.join(d, "iorand_%s.out" % tag)
    with open(vp, "w") as f:
        for vec, (unit, pages) in zip(vecs, params):
            _, flen, _b, hist = vec
            f.write("%d %d %d %d %d" % (unit, pages, flen, hist[0][5], len(hist)))
            for ops, _g, _f0, _f, stop, pbase in hist:
                f.write(" %d %d %d" % (len(ops), stop, pbase))
                for k, off, ln_ in ops:
                    f.write(" %d %d %d" % (k, off, ln_))
            f.write("\n")
    tmp = os.path.join(d, "iorand_tmp_%s" % tag)
    os.makedirs(tmp, exist_ok=True)
    rc, out, err = sh([drv, vp, op, tmp], timeout=900)
    shutil.rmtree(tmp, ignore_errors=True)
    hang = None
    if rc != 0:
        if rc == 3 or "HANG" in err:
            hang = "drv_iorand: an operation or the cleanup handler never completed (%s)" % err.strip()[-200:]
        else:
            raise Broken("drv_iorand rc=%s: %s" % (rc, err[-800:]))
    bad = iorand_judge(vecs, params, op) if not hang else [(0, hang)]
    return bad


def random_access(v, tier, seed):
    for cfgname in (["IoRandom_q"] if tier == "quick" else ["IoRandom_q", "IoRandom_t"]):
        r = tlc_must_pass(cfgname, "IoRandom.tla", cfgname + ".cfg", timeout=900)
        v.add_model(cfgname, r)
        if r.violated:
            v.violation("IoRandom.tla %s: %s violated (the specification itself)" % (cfgname, r.violated),
                        save_replay(PROP, cfgname + ".out", r.out[-20000:]))
            return
    for mu in RAND_MUTANTS:
        c = cfg_variant("IoRandom_s_q", "IoRandom_mut_" + mu, [('Mut = "none"', 'Mut = "%s"' % mu)])
        r = tlc_must_pass("IoRandom mutant " + mu, "IoRandom.tla", c, timeout=300, metaname="IoRandom_mut_" + mu)
        if not r.violated:
            raise Broken("spec mutant %s of IoRandom.tla is not refuted: the laws are vacuous" % mu)
    v.notes["iorandom_mutants_refuted"] = RAND_MUTANTS
    num = 60 if tier == "quick" else 600          # per TLC worker (4)
    for cfgname in ["IoRandom_s_q"]:
        r = tlc_must_pass(cfgname, "IoRandom.tla", cfgname + ".cfg", timeout=900)
        v.add_model(cfgname, r)
        if r.violated:
            v.violation("IoRandom.tla %s: %s violated (the specification itself)" % (cfgname, r.violated),
                        save_replay(PROP, cfgname + ".out", r.out[-20000:]))
            return
    vecs, r = iorand_vectors(seed, num)
    if not r.violated:
        vecs2, r = iorand_vectors(seed + 3, max(20, num // 2), cfg="IoRandom_semit")
        vecs += vecs2
    if not r.violated:
        vecs3, r = iorand_vectors(seed + 5, max(20, num // 2), depth=90, cfg="IoRandom_remit")
        vecs += vecs3
    if r.violated:
        v.violation("IoRandom.tla (emission config): %s violated" % r.violated, save_replay(PROP, "IoRandom_emit.out", r.out[-20000:]))
        return
    if len(vecs) < 40:
        raise Broken("TLC emitted only %d random-access vectors" % len(vecs))
    rng = random.Random(seed * 31 + 5)
    params = [(rng.choice([1, 1, 700, 4096, 5000]), rng.choice([1, 1, 2, 256])) for _ in vecs]
    drv = build_driver("drv_iorand")
    bad = iorand_run(drv, vecs, params, "main")
    v.traces += len(vecs)
    v.notes["random_access_vectors_replayed"] = len(vecs)
    v.notes["random_access_vectors_with_derived_channel"] = sum(1 for vec in vecs if len(set(h[5] for h in vec[3])) > 1)
    v.notes["random_access_vectors_with_stop"] = sum(1 for vec in vecs if vec[3][-1][4])
    v.notes["random_access_operations"] = sum(len(h[0]) for vec in vecs for h in vec[3])
    v.samples.append("random-access vector: file %d cells, base %d, phases %s" % (vecs[0][1], vecs[0][3][0][5], json.dumps(vecs[0][3])[:300]))
    if bad:
        vi = bad[0][0]
        # confirm on the single vector (a rejection is reported only if it repeats)
        again = iorand_run(drv, [vecs[vi]], [params[vi]], "again")
        rp = save_replay(PROP, "random_access_%d.iorand" % seed, json.dumps({"vec": vecs[vi], "unit": params[vi][0], "pages": params[vi][1]}))
        if again:
            v.violation("random-access channel: " + again[0][1] + (" (+%d more)" % (len(bad) - 1) if len(bad) > 1 else ""), rp)
        else:
            v.violation("random-access channel (in a batch; alone the vector passed): " + bad[0][1], rp)


def run(tier, seed):
    v = Verdict(PROP, tier, seed)
    try:
        return run1(v, tier, seed)
    finally:
        v.notes.pop("_detail_done", None)


def run1(v, tier, seed):
    v.assumptions = [
        "queues and groups are abstract in Io.tla: serial queue = FIFO executor, suspension stops it, group notify fires at zero (C02, C06, C07)",
        "kernel object = byte sequence with short reads/writes, EAGAIN, EOF, hangup; TLC bounds: see models",
        "trace validation: system-call sizes chosen by look-ahead on the operation's next recorded delivery (argument in tools/props/C14.py)",
        "Io.tla: stream channels (stream channels on regular files are exercised and validated); DISPATCH_IO_RANDOM channels: IoRandom.tla (offsets relative to the position at creation, round-robin chunks of non-conflicting operations, holes, EOF) with TLC-emitted vectors replayed on real files; the disk engine's read-ahead advice is not modelled",
        "cleanup-after-handlers is judged for operations submitted before close/stop was called",
        "random-access replay: the driver moves the descriptor's file position between batches, while no operation is in flight (the only way to observe that offsets count from the position at channel creation); the library uses pread/pwrite on such channels",
    ]
    t = threading.Thread(target=lambda: None)
    err = []

    def m():
        try:
            model(v, tier)
        except Exception as e:   # re-raised in the main thread
            err.append(e)
    t = threading.Thread(target=m)
    t.start()
    try:
        random_access(v, tier, seed)
        traces(v, tier, seed)
    finally:
        t.join()
    if err:
        raise err[0]
    return v.finish()


def replay(path, seed):
    if path.endswith(".iorand"):
        j = json.load(open(path))
        bad = iorand_run(build_driver("drv_iorand"), [j["vec"]], [(j["unit"], j["pages"])], "replay")
        print("\n".join(t for _, t in bad) or "accepted")
        return 1 if bad else 0
    if path.endswith(".sched"):
        drv = build_driver("drv_io")
        d = rundir(PROP)
        tr = os.path.join(d, "replay.ndjson")
        rc, out, err = sh([drv, tr, str(seed), path, d], timeout=900)
        print(err[-2000:])
        if rc != 0:
            return 1
        path = tr
    if path.endswith(".hdr.ndjson") or ".rejected" in path:
        r = tlc("IoTrace.tla", "IoTrace_lib.cfg", workers=1, env={"TRACE": os.path.abspath(path)}, dfs=True)
    else:
        hdr, recs = prep_trace(path, path + ".p")
        bad, known = log_oracles(recs)
        print("\n".join(bad + known))
        r = validate_trace("IoTrace.tla", "IoTrace_lib.cfg", os.path.abspath(path + ".p"), header=hdr)
        if bad:
            return 1
    print(r.out[-3000:])
    return 0 if r.accepted and not r.violated else 1
