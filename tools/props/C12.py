"""C12 - dispatch_time arithmetic is monotone, clock-preserving and saturating.

Spec: spec/Time.tla (part 1: transcription of dispatch_time / dispatch_walltime /
_dispatch_timeout / _dispatch_time_nanoseconds_since_epoch / encode / decode, parametric in the
word width W; part 2: the REFERENCE meaning the property states), spec/TimeMC.tla (the laws as invariants over one state per
input tuple), spec/TimeEmit.tla (test-vector emission).

(A) TLC, W=8, exhaustive: every (base, delta) pair x 4 `now`s, every tv_sec x delta x several
    tv_nsec: the REPAIRED algorithm meets the reference (Conforms, Monotone, Absorbing,
    PastNoBlock, PastNoBlockEpoch, EpochDeadline ...); the PINNED algorithm deviates, and every
    deviation lies in one of six named input classes (ConformsOrKnown, EpochDeadlineOrKnown), each of which really contains a deviation (read off
    the `dev` column of the table TLC emits; thorough: NoDev_<class> must be violated as well).
    Spec mutants must be refuted (non-vacuity).  One leaf state per input tuple; the leaves
    are checked but not stored (CONSTRAINT Prefix).
(B) Apalache, W=64, symbolic: the same invariants over the FULL domain (all 2^64 bases, all
    2^64 deltas, all timespecs, all admissible nows) for the repaired algorithm (thorough: also
    for the pinned algorithm, "deviates only inside the classes"), plus one 64-bit counterexample
    per known class (witness of the pinned code's deviation).  These runs depend on the spec only.
    A stalled Apalache run is reported in the evidence, never a verdict.
(C) Binding, harness/drv_time.c calls the REAL functions with clock_gettime interposed:
    (i)   its C oracle (transcription of Time.tla) is compared with the exhaustive W=8 table
          emitted by TLC, row by row, in this run (else Broken);
    (ii)  the TLC rows whose inputs are landmarks k*2^(W-2)+o, |o|<=7, are lifted to 64 bits
          (k*2^62+o) and replayed on the real code with the expectation TLC computed; the
          W=64 oracle must agree with each lifted expectation (else Broken) - lifting is sound
          because every quantity the spec compares is a +-1 combination of the inputs plus
          c*2^(W-2) plus a constant < 8, so with at most three offsets of size <= 7 (< 2^(W-3))
          the outcome of every comparison is the same at W=8 and W=64; tv_sec = 0 only (NPS
          does not scale);  thorough: the same lift 8 -> 12 is checked against TLC at W=12;
    (iii) the Apalache witnesses are replayed: the real pinned code must return exactly what
          Apalache computed for the transcription (or meet the reference if repaired);
    (iv)  the reference evaluated as oracle on >= 10^6 seeded random 64-bit inputs biased to
          the landmarks, with the laws (L1 conformance, L2 monotone on (delta, delta+1) pairs,
          L4 past => zero timeout, underflow result does not block, L4'' deadline law).
    (v)   "does not block" where the wait is converted to an ABSOLUTE deadline: on this platform
          (POSIX semaphores) a timed dispatch_semaphore_wait hands
          _dispatch_time_nanoseconds_since_epoch(t) to sem_timedwait (CLOCK_REALTIME).  That
          function is transcribed (NanosSinceEpochF), its law is RefDeadlineOK (a time that has
          elapsed on its OWN clock gets a deadline <= now.wall; a pending one a deadline exactly
          as far from now.wall as the time is from its own now; FOREVER stays FOREVER), checked
          by TLC (W=8, all words) and Apalache (W=64), and the real function is called on the
          emitted vectors (fn = 4) like the others.  End to end (driver mode `semwait`, real
          clocks): dispatch_semaphore_wait(sema, t) on a semaphore of value 0 for t = 1 s in the
          past and t = 50 ms ahead on each clock (uptime, wall via dispatch_walltime(NULL) and
          via DISPATCH_WALLTIME_NOW, monotonic) must return non-zero, not before t has elapsed
          on its own clock (10 ms tolerated), and within 5 s; "still blocked after 5 s" is the
          failing history.

Scope decisions (the property quantifies over all 2^64 base words, all timespecs, all deltas):
  * Hand-built base words that denote no finite time (uptime words with top bits 01, the wall
    word 0xc000000000000000) are treated as "beyond the representable future": the reference
    demands FOREVER for them (FOREVER is absorbing); the code does that.  Nothing is excluded.
  * All timespec values means all (tv_sec, tv_nsec) pairs of int64, denormalised tv_nsec
    included, with the mathematical meaning tv_sec*10^9+tv_nsec.
  * `now` is an environment parameter: each clock reads a value in [1, 2^62-1] (wall: >= 3), i.e.
    the clocks have started and have not passed the representable future.  With now = 0 the
    NOW forms are indistinguishable from "value 0" and no reading of the property applies.
  * "A time that has already elapsed" = a finite in-range time on the same clock that is not
    after that clock's now; DISPATCH_WALLTIME_NOW (what the code returns for wall underflow)
    qualifies.  Monotonicity is judged on the wait the result denotes (0 for anything
    elapsed), so two different elapsed results are not ordered against each other.
  * _dispatch_timeout: only "past => 0" is a verdict (the property says no more); a non-zero
    timeout that differs from the transcription is reported as DRIFT, not as a violation.
  * `(uint64_t)-delta` for delta = INT64_MIN and `nsec += delta` are signed-overflow UB in C;
    the spec models the wrap-around clang produces, the driver observes what the build does.
Known findings are matched on (input class computed by the spec's Class* operators) AND
(returned value == what the transcription of the pinned code returns for that input); any
other non-conforming result is a VIOLATION.
"""
import os, json, re, glob, shutil, time
from concurrent.futures import ThreadPoolExecutor
from vlib import *

PROP = "C12"
CLASSES = ["dt_sum_eq_max", "dt_wall_sum_eq_1", "wt_int64_overflow", "wt_unsaturated", "wt_past_nonneg_delta",
           "epoch_mono"]
MUTANTS = ["no_range_check", "wall_as_mono", "timeout_noclamp", "epoch_relative", "underflow_forever"]   # quick: the first four
NQUICK_MUT = 4
FNID = {"time": 0, "walltime": 1, "walltime_null": 2, "timeout": 3, "epoch": 4}


def _cfg(base, name, **subst):
    """Derive a cfg in the run directory from spec/cfg/<base> by line substitution."""
    src = open(os.path.join(SPEC, "cfg", base)).read()
    for k, val in subst.items():
        if k == "INV":
            src = re.sub(r"^INVARIANTS?.*$", "INVARIANTS " + val, src, flags=re.M)
        elif k == "INIT":
            src = re.sub(r"^INIT .*$", "INIT " + val, src, flags=re.M)
        else:
            src, n = re.subn(r"^(\s*%s\s*=).*$" % k, r"\1 " + val, src, flags=re.M)
            if n != 1:
                raise Broken("cfg %s has no constant %s" % (base, k))
    p = os.path.join(rundir(PROP), name)
    with open(p, "w") as f:
        f.write(src)
    return p


# ---------------------------------------------------------------- Apalache
def apalache(name, cfg, timeout, extra=()):
    out = os.path.join(rundir(PROP), "apa", name)
    shutil.rmtree(out, ignore_errors=True)
    os.makedirs(out, exist_ok=True)
    t0 = time.time()
    rc, so, se = sh(["apalache-mc", "check", "--config=" + cfg, "--length=0", "--out-dir=" + out] + list(extra) +
                    ["TimeMC.tla"], timeout=timeout, cwd=SPEC,
                    env={"JVM_ARGS": "-Xmx3g -XX:ActiveProcessorCount=2"})   # few JVM helper threads: the box is shared
    res = {"name": name, "wall_s": round(time.time() - t0, 1), "rc": rc, "violated": None, "witnesses": []}
    if rc == 124:
        res["status"] = "timeout"
        return res
    ninv = len(re.findall(r"state invariant \d+ holds", so))
    m = re.search(r"state invariant (\d+) violated", so)
    if m:
        res["status"] = "violated"
        res["violated"] = int(m.group(1))
        for itf in sorted(glob.glob(os.path.join(out, "**", "violation[0-9]*.itf.json"), recursive=True)):
            res["witnesses"].append(_itf_state(itf))
    elif "The outcome is: NoError" in so:
        res["status"] = "ok"
        res["invariants_proved"] = ninv
    else:
        res["status"] = "error"
        res["tail"] = (so + se)[-1500:]
    return res


def _itf_state(path):
    def val(x):
        if isinstance(x, dict) and "#bigint" in x:
            return int(x["#bigint"])
        if isinstance(x, dict):
            return {k: val(v2) for k, v2 in x.items() if not k.startswith("#")}
        return x
    st = json.load(open(path))["states"][0]
    return {k: val(st[k]) for k in ("fn", "base", "delta", "sec", "nsec", "now", "res", "cls")}


# ---------------------------------------------------------------- lifting
def lift(x, w_from, w_to, maxo):
    """k*2^(w_from-2)+o, |o| <= maxo  ->  k*2^(w_to-2)+o ; None if x is not that close to a landmark."""
    q = 1 << (w_from - 2)
    k = (x + q // 2) // q
    o = x - k * q
    if abs(o) > maxo:
        return None
    return k * (1 << (w_to - 2)) + o


def lift_row(r, w_from, w_to):
    """Row of TimeEmit (14 ints) -> lifted row or None."""
    fn, base, delta, sec, nsec, nu, nm, nw, kind, clock, t, cls = r[:12]
    if sec != 0:
        return None
    ins = [lift(x, w_from, w_to, 7) for x in (base, delta, nsec, nu, nm, nw)]
    if any(x is None for x in ins):
        return None
    if kind != 2:           # exact / forever (fn = 3: the reference wait)
        lt = lift(t, w_from, w_to, 28)
        if lt is None:
            return None
    else:
        lt = 0
    return [fn, ins[0], ins[1], 0, ins[2], ins[3], ins[4], ins[5], kind, clock, lt, cls]


def read_table(path):
    rows = []
    with open(path) as f:
        for line in f:
            line = line.strip()
            if line:
                rows.append(json.loads(line))
    return rows


# ---------------------------------------------------------------- model side
def model(v, tier):
    """TLC + Apalache jobs, run concurrently.  Returns (table files, landmark tables, apalache witnesses)."""
    d = rundir(PROP)
    thorough = "TRUE" if tier == "thorough" else "FALSE"
    big_to = 2400 if tier == "thorough" else 600
    w = max(2, NCPU // 4)
    jobs, ajobs = {}, {}
    ex = ThreadPoolExecutor(max_workers=max(4, min(10, NCPU - 4)))

    def T(name, cfgpath, spec="TimeMC.tla", workers=2, timeout=300, env=None):
        e = {"JAVA_TOOL_OPTIONS": "-Xmx4g -XX:ActiveProcessorCount=%d" % max(2, workers)}
        e.update(env or {})
        jobs[name] = ex.submit(tlc_must_pass, name, spec, cfgpath, workers=workers, timeout=timeout,
                               metaname="C12_%s.%d" % (name, os.getpid()), env=e)

    # (B) Apalache, W=64 (submitted first: the longest jobs)
    ato = 900 if tier == "thorough" else 170

    def A(name, base, init, inv, extra=()):
        ajobs[name] = ex.submit(apalache, name, _cfg(base, "apa_%s.cfg" % name, INIT=init, INV=inv), ato, extra)

    A("fixed_wall", "Time_apa_fixed.cfg", "InitFullWall", "Conforms Monotone UnderflowNoBlock")
    A("fixed_time", "Time_apa_fixed.cfg", "InitFullTime", "Conforms Monotone Absorbing UnderflowNoBlock")
    A("fixed_timeout", "Time_apa_fixed.cfg", "InitFullTimeout", "PastNoBlock TimeoutExact")
    A("fixed_epoch", "Time_apa_fixed.cfg", "InitFullEpoch", "PastNoBlockEpoch EpochDeadline")
    if tier == "thorough":
        # the pinned algorithm deviates only inside the named classes, at full width too (inside the
        # class wt_int64_overflow the *OrKnown invariants hold by definition, hence the restricted Init)
        A("pinned_time", "Time_apa_pinned.cfg", "InitFullTime", "ConformsOrKnown MonotoneOrKnown Absorbing UnderflowNoBlockOrKnown")
        A("pinned_wall", "Time_apa_pinned.cfg", "InitFullWallNoOverflow", "ConformsOrKnown MonotoneOrKnown UnderflowNoBlockOrKnown")
        A("pinned_epoch", "Time_apa_pinned.cfg", "InitFullEpoch", "PastNoBlockEpochOrKnown EpochDeadlineOrKnown")
    # one W=64 counterexample per known class
    A("witness_time", "Time_apa_pinned.cfg", "InitFullTime", "NoDevAny", ("--view=ClassView", "--max-error=2"))
    A("witness_wall", "Time_apa_pinned.cfg", "InitFullWall", "NoDevAny", ("--view=ClassView", "--max-error=3"))
    A("witness_epoch", "Time_apa_pinned.cfg", "InitFullEpoch", "NoDevAny", ("--view=ClassView", "--max-error=1"))

    # (A) the two exhaustive W=8 runs
    T("fixed", _cfg("Time_fixed.cfg", "fixed.cfg", Thorough=thorough), workers=w, timeout=big_to)
    T("pinned", _cfg("Time_pinned.cfg", "pinned.cfg", Thorough=thorough), workers=w, timeout=big_to)
    # emission of the exhaustive table (three parts in parallel)
    tables = []
    for part in ("time", "wall"):
        out = os.path.join(d, "table8_%s.ndjson" % part)
        if os.path.exists(out):
            os.unlink(out)
        tables.append(out)
        T("emit_" + part, _cfg("Time_emit.cfg", "emit_%s.cfg" % part, Part='"%s"' % part), spec="TimeEmit.tla",
          workers=1, timeout=600, env={"OUT": out})
    lm = {}
    if tier == "thorough":   # landmark rows at W=8 and W=12 for the lift check
        for W_ in (8, 12):
            out = os.path.join(d, "landmarks%d.ndjson" % W_)
            if os.path.exists(out):
                os.unlink(out)
            lm[W_] = out
            T("emit_lm%d" % W_, _cfg("Time_emit.cfg", "emit_lm%d.cfg" % W_, W=str(W_), Landmarks="TRUE",
                                     Part='"time"'), spec="TimeEmit.tla", workers=1, timeout=600, env={"OUT": out})
    if tier == "thorough":
        # the pinned algorithm does violate the property as stated, and in every class (quick reads
        # the same fact off the `dev` column of the emitted table, see binding())
        T("pinned_Conforms", _cfg("Time_pinned.cfg", "p_conf.cfg", INV="Conforms"))
        for c in CLASSES:
            T("class_" + c, _cfg("Time_pinned.cfg", "p_%s.cfg" % c, INV="NoDev_" + c))
    # the pinned conversion to an absolute deadline does violate its law (both tiers: the refutation
    # of the pinned deviation "epoch_clock"), in its plain "past => does not block" form as well
    T("pinned_EpochDeadline", _cfg("Time_pinned.cfg", "p_epoch.cfg", INIT="InitTLCEpoch", INV="EpochDeadline"))
    T("pinned_PastNoBlockEpoch", _cfg("Time_pinned.cfg", "p_epoch_past.cfg", INIT="InitTLCEpoch", INV="PastNoBlockEpoch"))
    for mu in (MUTANTS if tier == "thorough" else MUTANTS[:NQUICK_MUT]):
        T("mut_" + mu, _cfg("Time_fixed.cfg", "m_%s.cfg" % mu, Mut='"%s"' % mu))
    if tier == "thorough":   # another NSEC_PER_SEC (odd), same laws
        T("fixed_nps7", _cfg("Time_fixed.cfg", "fixed7.cfg", NPS="7"), workers=w, timeout=big_to)
        T("pinned_nps7", _cfg("Time_pinned.cfg", "pinned7.cfg", NPS="7"), workers=w, timeout=big_to)

    # ---- collect TLC
    res = {k: f.result() for k, f in jobs.items()}
    for name in ("fixed", "pinned", "fixed_nps7", "pinned_nps7"):
        if name not in res:
            continue
        r = res[name]
        v.add_model("TimeMC W=8 %s" % name, r)
        # CONSTRAINT Prefix: the leaf states (one per input tuple, each generated exactly once by
        # Choose) are checked against the invariants but not stored, so TLC's "distinct" counts the
        # prefix states only; every generated state is a distinct state of the model.
        v.states += r.generated - r.distinct
        if r.violated:
            p = save_replay(PROP, "tlc_%s.out" % name, r.out)
            if name.startswith("fixed"):
                v.violation("the repaired algorithm (spec) violates %s at W=8" % r.violated, p)
            else:
                v.violation("the pinned algorithm (spec) deviates outside the known classes: %s at W=8" % r.violated, p)
    for name in ["emit_time", "emit_wall"] + ["emit_lm%d" % k for k in lm]:
        r = res[name]
        if not r.ok() or not any("EMITTED" in x for x in r.printed):
            raise Broken("vector emission %s failed:\n%s" % (name, r.out[-2000:]))
    if tier == "thorough":
        if not res["pinned_Conforms"].violated:
            raise Broken("the pinned transcription does not violate Conforms: known classes would be vacuous")
        for c in CLASSES:
            if not res["class_" + c].violated:
                raise Broken("known class %s contains no deviation of the pinned transcription at W=8" % c)
    for name in ("pinned_EpochDeadline", "pinned_PastNoBlockEpoch"):
        r = res[name]
        if not r.violated:
            raise Broken("TLC does not refute the pinned _dispatch_time_nanoseconds_since_epoch (%s): "
                         "the class epoch_mono would be vacuous" % name)
        v.notes.setdefault("pinned_deviations_refuted_by_tlc", []).append({"run": name, "violated": r.violated})
    for mu in (MUTANTS if tier == "thorough" else MUTANTS[:NQUICK_MUT]):
        r = res["mut_" + mu]
        if not r.violated:
            raise Broken("spec mutant %s not refuted: the invariants are vacuous in these bounds" % mu)
        v.notes.setdefault("spec_mutants_refuted", []).append({"mutant": mu, "by": r.violated})

    # ---- collect Apalache
    ares = {k: f.result() for k, f in ajobs.items()}
    ex.shutdown()
    summ = []
    witnesses = {}
    for name, a in sorted(ares.items()):
        summ.append({k: a[k] for k in ("name", "status", "wall_s", "invariants_proved") if k in a})
        if a["status"] == "error":
            raise Broken("apalache failed on %s: %s" % (name, a.get("tail")))
        if a["status"] == "timeout":
            continue
        if name.startswith("witness_"):
            for wv in a["witnesses"]:
                witnesses.setdefault(wv["cls"], wv)
        elif a["status"] == "violated":
            p = save_replay(PROP, "apalache_%s.json" % name, json.dumps(a, indent=1))
            what = "repaired" if name.startswith("fixed") else "pinned (outside the known classes)"
            v.violation("W=64: the %s algorithm (spec) violates invariant #%d of run %s; counterexample %s"
                        % (what, a["violated"], name, a["witnesses"][:1]), p)
    for grp, cl in (("witness_time", CLASSES[:2]), ("witness_wall", CLASSES[2:5]), ("witness_epoch", CLASSES[5:])):
        if ares[grp]["status"] != "timeout":
            missing = [c for c in cl if c not in witnesses]
            if missing:
                raise Broken("apalache found no W=64 deviation of the pinned transcription in class(es) %s" % missing)
    v.notes["apalache_W64"] = summ
    stalled = [a["name"] for a in ares.values() if a["status"] == "timeout"]
    if stalled:
        v.notes["apalache_stalled"] = stalled
    return tables, lm, witnesses


# ---------------------------------------------------------------- binding
def run_driver(drv, args, what, timeout=600):
    rc, out, err = sh([drv] + args, timeout=timeout)
    if rc == 4:
        raise Broken("%s: the driver's oracle disagrees with the spec: %s" % (what, err[-1500:]))
    if rc not in (0, 2):
        raise Broken("%s: driver failed rc=%d: %s" % (what, rc, err[-1500:]))
    try:
        return rc, json.loads(out)
    except Exception:
        raise Broken("%s: unparsable driver output: %s" % (what, out[-500:]))


def judge(v, j, origin, listed, seen_known):
    """Turn a driver report into verdict entries.  Returns number of calls judged."""
    for c, k in j["known"].items():
        s = k["samples"][0]
        text = "%s: %d calls in input class %s deviate exactly as the pinned code is known to; e.g. %s" % (
            origin, k["count"], c, _short(s))
        if c in listed:
            seen_known.setdefault(c, [0, s])[0] += k["count"]
        else:
            p = save_replay(PROP, "unlisted_%s.vec" % c, "\n".join(x["vec"] for x in k["samples"]) + "\n")
            v.violation(text + " - and this class is not (no longer) a listed known finding", p)
    if j["nviol"]:
        p = save_replay(PROP, "violation_%s.vec" % re.sub(r"\W+", "_", origin),
                        "\n".join(x["vec"] for x in j["violations"]) + "\n")
        for x in j["violations"][:3]:
            v.violation("%s: %s: %s" % (origin, x["what"], _short(x)), p)
        if j["nviol"] > 3:
            v.notes["more_violations_" + origin] = j["nviol"] - 3
    for x in j["drift"][:3]:
        v.drift.append("%s: %s: %s" % (origin, x["what"], _short(x)))
    return j["calls"]


def _short(s):
    if s["fn"] == "dispatch_time":
        call = "dispatch_time(%s, %d)" % (s["base"], s["delta"])
    elif s["fn"] == "dispatch_walltime":
        call = "dispatch_walltime({%d,%d}, %d)" % (s["tv_sec"], s["tv_nsec"], s["delta"])
    elif s["fn"] == "dispatch_walltime_null":
        call = "dispatch_walltime(NULL, %d)" % s["delta"]
    elif s["fn"] == "_dispatch_time_nanoseconds_since_epoch":
        call = "_dispatch_time_nanoseconds_since_epoch(%s)" % s["base"]
    else:
        call = "_dispatch_timeout(%s)" % s["base"]
    return "%s with now(up,mono,wall)=%s returned %s, expected %s" % (call, s["now"], s["got"], s["expected"])


def binding(v, tier, seed, tables, lm, witnesses):
    d = rundir(PROP)
    drv = build_driver("drv_time")
    listed = {x["key"] for x in known_findings(PROP)["findings"]}
    seen_known = {}
    run_driver(drv, ["selftest"], "selftest")
    # (i) oracle == spec on the exhaustive W=8 table
    rc, j = run_driver(drv, ["table", "8", "10"] + tables, "W=8 table")
    v.notes["oracle_vs_tlc_table_W8"] = {"rows_compared": j["rows_checked"], "mismatches": j["mismatches"]}
    # (ii) landmark lifting of the TLC rows
    lifted = []
    nrows = 0
    devs = [0] * (len(CLASSES) + 1)
    for t in tables:
        for r in read_table(t):
            nrows += 1
            devs[r[11]] += r[14]
            lr = lift_row(r, 8, 64)
            if lr:
                lifted.append(lr)
    # the TLC-emitted table says where the pinned transcription deviates from the reference: only inside
    # the named classes (TLC checked that itself: ConformsOrKnown), and in every one of them
    if devs[0]:
        raise Broken("TLC table: %d deviations of the pinned transcription outside the known classes" % devs[0])
    for i, c in enumerate(CLASSES):
        if not devs[i + 1]:
            raise Broken("known class %s contains no deviation of the pinned transcription at W=8" % c)
    v.notes["pinned_transcription_deviations_W8_by_class"] = {c: devs[i + 1] for i, c in enumerate(CLASSES)}
    if len(lifted) < 5000:
        raise Broken("only %d liftable rows in the TLC table" % len(lifted))
    lp = os.path.join(d, "lifted64.vec")
    with open(lp, "w") as f:
        f.write("# fn base delta sec nsec up mono wall kind clock t class   (TLC W=8 rows lifted to W=64)\n")
        for r in lifted:
            f.write(" ".join(str(x) for x in r) + "\n")
    rc, j = run_driver(drv, ["vectors", lp], "lifted TLC rows")
    if j["carried_expectations"] != len(lifted):
        raise Broken("driver judged %d of %d lifted rows" % (j["carried_expectations"], len(lifted)))
    judge(v, j, "TLC W=8 rows lifted to 64 bits", listed, seen_known)
    v.traces += len(lifted)
    v.notes["tlc_table_rows"] = nrows
    v.notes["lifted_rows_replayed"] = len(lifted)
    v.samples += [{"origin": "lifted TLC row", **{k: s[k] for k in ("fn", "base", "delta", "tv_sec", "tv_nsec", "now", "got", "expected")}}
                  for s in j["samples"][:3]]
    if lm:   # thorough: the lift itself, 8 -> 12, against TLC at W=12
        want = {tuple(r[:8]): r[8:12] for r in read_table(lm[12])}
        n = bad = 0
        for r in read_table(lm[8]):
            lr = lift_row(r, 8, 12)
            if lr and tuple(lr[:8]) in want:
                n += 1
                w12 = want[tuple(lr[:8])]
                if w12[0] != lr[8] or w12[1] != lr[9] or (lr[8] != 2 and w12[2] != lr[10]) or w12[3] != lr[11]:
                    bad += 1
        if bad or n < 5000:
            raise Broken("landmark lifting 8 -> 12 disagrees with TLC at W=12 on %d of %d rows" % (bad, n))
        v.notes["lift_8_to_12_rows_agree_with_tlc_W12"] = n
    # (iii) Apalache witnesses
    if witnesses:
        wp = os.path.join(d, "witness64.vec")
        with open(wp, "w") as f:
            for c, s in sorted(witnesses.items()):
                f.write("%d %d %d %d %d %d %d %d\n" % (FNID[s["fn"]], s["base"], s["delta"], s["sec"], s["nsec"],
                                                     s["now"]["up"], s["now"]["mono"], s["now"]["wall"]))
        rc, j = run_driver(drv, ["vectors", wp], "apalache witnesses")
        judge(v, j, "Apalache W=64 witnesses", listed, seen_known)
        v.traces += len(witnesses)
        conf = []
        for c, s in sorted(witnesses.items()):
            vec = "%d %d %d %d %d %d %d %d" % (FNID[s["fn"]], s["base"], s["delta"], s["sec"], s["nsec"],
                                               s["now"]["up"], s["now"]["mono"], s["now"]["wall"])
            hit = [x for x in j["known"].get(c, {}).get("samples", []) if x["vec"] == vec]
            if hit:
                if int(hit[0]["got"], 16) != s["res"]:
                    raise Broken("witness %s: real code returned %s, Apalache computed %#x for the pinned transcription"
                                 % (c, hit[0]["got"], s["res"]))
                conf.append({"class": c, "vector": vec, "real_code": "deviates as predicted: " + hit[0]["got"]})
            else:
                conf.append({"class": c, "vector": vec, "real_code": "meets the reference (repaired) or reported"})
        v.notes["apalache_witnesses_replayed"] = conf
    # (iv) laws as oracles on random 64-bit inputs
    n = 1200000 if tier == "quick" else 20000000
    rc, j = run_driver(drv, ["random", str(seed), str(n)], "random", timeout=1200)
    calls = judge(v, j, "random 64-bit inputs (seed %d)" % seed, listed, seen_known)
    v.notes["random_oracle"] = {k: j[k] for k in ("vectors", "calls", "monotone_pairs", "timeout_calls", "by_fn", "by_kind",
                                                  "eq_pinned_only", "eq_fixed_only", "clock_gettime_calls")}
    v.samples += [{"origin": "random", **{k: s[k] for k in ("fn", "base", "delta", "tv_sec", "tv_nsec", "now", "got", "expected")}}
                  for s in j["samples"][:3]]
    # (v) end to end: timed dispatch_semaphore_wait on the three clocks
    blocked_known = semwait(v, drv, listed)
    for c in sorted(set(seen_known) | ({"epoch_mono"} if blocked_known else set())):
        kf = [x for x in known_findings(PROP)["findings"] if x["key"] == c][0]
        text = c
        if c in seen_known:
            cnt, s = seen_known[c]
            text += " (%d calls; e.g. %s)" % (cnt, _short(s))
        if c == "epoch_mono" and blocked_known:
            text += " end to end: %s still blocked after %d s (the pinned conversion puts the deadline %s)" % (
                "; ".join(x["call"] for x in blocked_known), SEMWAIT_BOUND_S,
                ", ".join("%.0f years ahead" % (int(x["pinned_model_deadline_minus_wall_now_ns"]) / 3.156e16)
                          for x in blocked_known))
        v.known.append(text + (" pending_fix=" + kf["pending_fix"] if kf.get("pending_fix") else ""))
    v.notes["known_classes_observed"] = {c: cnt for c, (cnt, s) in seen_known.items()}
    return calls


SEMWAIT_BOUND_S = 5


def semwait(v, drv, listed):
    """Driver mode `semwait`.  Returns the blocked cases that are exactly the listed known finding
    epoch_mono (a monotonic-clock time AND the transcription of the pinned conversion predicts a
    deadline beyond the bound); every other failing case is a violation."""
    rc, out, err = sh([drv, "semwait"], timeout=60)
    if rc not in (0, 2):
        raise Broken("semwait: driver failed rc=%d: %s" % (rc, err[-1500:]))
    try:
        j = json.loads(out)
    except Exception:
        raise Broken("semwait: unparsable driver output: %s" % out[-500:])
    if j["bound_s"] != SEMWAIT_BOUND_S or len(j["cases"]) < 6:
        raise Broken("semwait: unexpected report %s" % out[-500:])
    known, bad = [], []
    for c in j["cases"]:
        if c["verdict"] == "ok":
            continue
        if (c["verdict"] == "blocked" and c["class"] == "epoch_mono" and c["predicted_by_pinned_model"]
                and "epoch_mono" in listed):
            known.append(c)
        else:
            bad.append(c)
    if bad:
        p = save_replay(PROP, "semwait.replay", "# mode semwait\n# " + json.dumps(j) + "\n")
        for c in bad[:4]:
            v.violation("end to end: %s on a semaphore of value 0: %s (returned %s after %s ns; must time out, not early, "
                        "within %d s)%s" % (c["call"], c["verdict"], c["ret"], c["took_ns"], SEMWAIT_BOUND_S,
                                           " - the transcription of the pinned conversion predicts it (class epoch_mono), "
                                           "but that is not (no longer) a listed known finding"
                                           if c["predicted_by_pinned_model"] else ""), p)
    v.traces += len(j["cases"])
    v.notes["semaphore_wait_end_to_end"] = [
        {k: c[k] for k in ("call", "t", "verdict", "ret", "took_ns", "predicted_by_pinned_model")} for c in j["cases"]]
    return known


def run(tier, seed):
    v = Verdict(PROP, tier, seed)
    v.assumptions = [
        "each clock reads a value in [1, 2^62-1] (wall: [3, 2^62-1]) - the clocks have started and are representable",
        "x86-64 Linux: mach2nano/nano2mach are the identity; now = clock_gettime(MONOTONIC|BOOTTIME|REALTIME), interposed by the driver",
        "signed-overflow UB in time.c ((uint64_t)-delta at INT64_MIN, nsec += delta) behaves as two's-complement wrap (what the build does is observed)",
        "TLC: exhaustive at W=8 (NPS=10; thorough also NPS=7 and larger tv_nsec/now sets); Apalache: symbolic at W=64 over the full domain",
        "the deadline law is stated for FOREVER and for every word that denotes a finite time; words that denote no finite time "
        "(uptime words with top bits 01, the wall word 0xc000000000000000; never returned by dispatch_time/dispatch_walltime) are not judged there",
        "end-to-end semaphore waits use the real clocks: 'still blocked after 5 s' for a wait of <= 50 ms is taken as blocking; "
        "an early return is judged with 10 ms tolerance (the deadline is kept on CLOCK_REALTIME by sem_timedwait)",
    ]
    tables, lm, witnesses = model(v, tier)
    binding(v, tier, seed, tables, lm, witnesses)
    v.notes["states_note"] = ("states = input tuples TLC generated and checked at W=8 (leaf states are not stored: "
                              "CONSTRAINT Prefix), transitions = TLC 'states generated'")
    v.notes["exhaustive_what"] = ("W=8: all inputs enumerated by TLC; W=64: invariants discharged by Apalache/Z3 for the "
                                  "spec's transcription (all inputs); real code: lifted TLC rows + Apalache witnesses replayed, "
                                  "reference evaluated as oracle on seeded random inputs (sampled)")
    return v.finish()


def replay(path, seed):
    drv = build_driver("drv_time")
    if open(path).readline().startswith("# mode semwait"):
        v = Verdict(PROP, "replay", seed)
        listed = {x["key"] for x in known_findings(PROP)["findings"]}
        semwait(v, drv, listed)
        print(json.dumps(v.notes["semaphore_wait_end_to_end"], indent=1))
        if v.violations:
            print("VIOLATION property=%s replay=%s" % (PROP, path))
            return 1
        return 0
    rc, out, err = sh([drv, "vectors", path], timeout=300)
    print(out)
    print(err)
    if rc not in (0, 2):
        return 3
    j = json.loads(out)
    listed = {x["key"] for x in known_findings(PROP)["findings"]}
    unlisted = [c for c in j["known"] if c not in listed]
    if j["nviol"] or unlisted:
        print("VIOLATION property=%s replay=%s" % (PROP, path))
        return 1
    return 0
