"""C13 - dispatch_data objects behave as immutable byte strings.

(A) TLC on spec/Data.tla (via spec/DataGen.tla): the C algorithms of src/data.c transcribed one operator
    per function (concat, subrange with its two loops, map/flatten, apply, copy_region, dispose) are
    compared with the reference meaning Bytes(o) in every state of the client state machine
    (create leaf / concat / subrange / map / copy_region / retain / release, out-of-range arguments
    included), together with the reference ledger and the destructor ghost counts.
    Spec mutants must be refuted inside the quick bounds.
(B) binding spec -> code: TLC emits EVERY complete behaviour it explored (and, -simulate, random deeper
    ones) with the expected projection after each step; harness/drv_data.c replays them on the real
    library and compares after every step (result identity, size, internal record lists, bytes via
    apply and via map, applier callbacks, copy_region at every location, reference counts, destructor
    counts).
(C) thorough: the same replay on the ASan+UBSan build (memory-safety half: observed, not decided)."""
import os, re, json, subprocess, time, threading
from concurrent.futures import ThreadPoolExecutor
from vlib import *

PROP = "C13"
GEN = "DataGen.tla"

# name -> (cfg, workers, timeout)
QUICK_BFS = [("gen_q", 16, 900), ("life_q", 8, 900), ("ab_q", 4, 900), ("kinds_q", 2, 900), ("lifer_q", 2, 900)]
THOROUGH_BFS = [("gen_t23", 8, 5000), ("gen_t3", 8, 5000), ("gen_t4", 8, 5000), ("life_t", 8, 5000),
                ("lifer_t", 4, 5000), ("flat_t", 4, 5000)]
THOROUGH_MC = [("alg_t", 8, 5000)]

# spec mutants: (Mut, base cfg, invariants that may refute it)
MUTANTS = [("sub_from", "mut_q"), ("concat_swap", "mut_q"), ("apply_off", "mut_q"), ("cr_off", "mut_q"),
           ("no_retain", "mutlife_q"), ("dtor_early", "mutlife_q")]

OPN = {1: "leaf", 2: "concat", 3: "subrange", 4: "map", 5: "copy_region", 6: "retain", 7: "release", 8: "flattened_bytes"}
KN = {0: "DEFAULT(copy)", 1: "custom block/serial queue", 2: "FREE", 3: "custom block/default queue"}


def ints_of(line):
    v = [int(x) for x in re.findall(r"\d+", line)]
    if not v or v[0] != len(v) - 1:
        raise Broken("corrupt behaviour line (count %s, ints %d)" % (v[:1], len(v) - 1))
    return v[1:]


def arg(x):
    return "SIZE_MAX" if x >= 99999 else str(x)


def decode(line, upto=None):
    """Human-readable form of a behaviour (same layout as harness/drv_data.c reads)."""
    v = ints_of(line)
    p, out, step = 0, [], 0
    while p < len(v):
        step += 1
        opc, a, b, c, res, nnew, aux, kind, x, y = v[p:p + 10]
        p += 10
        n1 = v[p]; p += 1
        rc = v[p:p + n1 - 1]; p += 2 * (n1 - 1)
        nb = v[p]; p += 1
        dt = v[p:p + nb]; p += 2 * nb
        nd = v[p]; p += 1
        descs = {}
        for _ in range(nd):
            d, size, nrec = v[p:p + 3]; p += 3
            recs = [tuple(v[p + 3 * i:p + 3 * i + 3]) for i in range(nrec)]; p += 3 * nrec
            p += 1
            by = v[p:p + size]; p += size
            nt = v[p]; p += 1
            tiles = [tuple(v[p + 5 * i + 1:p + 5 * i + 3]) for i in range(nt)]; p += 5 * nt
            p += 3
            nr = v[p]; p += 1
            p += 5 * nr
            descs[d] = {"size": size, "records(obj,from,len)": recs, "bytes": by, "apply(off,len)": tiles}
        name = OPN.get(opc, "?")
        if opc == 1:
            s = "leaf(len=%d, %s)" % (a, KN.get(kind, "?"))
        elif opc == 2:
            s = "concat(#%d, #%d)" % (a, b)
        elif opc == 3:
            s = "subrange(#%d, off=%s, len=%s)" % (a, arg(b), arg(c))
        elif opc == 5:
            s = "copy_region(#%d, loc=%s) offset=%d" % (a, arg(b), aux)
        else:
            s = "%s(#%d)" % (name, a)
        if opc not in (6, 7, 8):
            s += " -> #%d%s" % (res, " (new)" if nnew else (" (empty)" if res == 1 else " (same object, retained)"))
        if res in descs:
            s += " bytes=%s records=%s" % (descs[res]["bytes"], descs[res]["records(obj,from,len)"])
        s += " | refcounts=%s destructors_run=%s" % (rc, dt)
        out.append("%d: %s" % (step, s))
        if upto and step >= upto:
            break
    return out


class Gen:
    def __init__(self):
        self.files = []          # (name, path, behaviours)
        self.lock = threading.Lock()


def run_bfs(v, g, name, workers, timeout):
    out = os.path.join(rundir(PROP), "beh_%s.txt" % name)
    if os.path.exists(out):
        os.remove(out)
    r = tlc_must_pass(name, GEN, "Data_%s.cfg" % name, workers=workers, timeout=timeout, heap="4g",
                      env={"C13_OUT": out}, metaname="c13_%s_%d" % (name, os.getpid()))
    with g.lock:
        v.add_model("Data_%s.cfg" % name, r)
        if r.violated:
            p = save_replay(PROP, "spec_%s.tlc.out" % name, r.out)
            v.violation("the transcription of src/data.c in Data.tla violates %s (config %s): see the TLC trace"
                        % (r.violated, name), p)
            return
        if os.path.exists(out):
            g.files.append((name, out))


def run_mc(v, g, name, workers, timeout):
    r = tlc_must_pass(name, GEN, "Data_%s.cfg" % name, workers=workers, timeout=timeout, heap="6g",
                      metaname="c13_%s_%d" % (name, os.getpid()))
    with g.lock:
        v.add_model("Data_%s.cfg" % name, r)
        if r.violated:
            p = save_replay(PROP, "spec_%s.tlc.out" % name, r.out)
            v.violation("the transcription of src/data.c in Data.tla violates %s (config %s)" % (r.violated, name), p)


def run_sim(v, g, idx, seed, num, timeout):
    """TLC -simulate: random deeper trees, expectations from the same spec algorithms; one worker per
    process (lines of deep behaviours exceed the atomic append size), several processes in parallel."""
    out = os.path.join(rundir(PROP), "beh_sim%d.txt" % idx)
    if os.path.exists(out):
        os.remove(out)
    r = tlc("DataGen.tla", "Data_sim.cfg", workers=1, timeout=timeout, heap="2g", env={"C13_OUT": out},
            simulate=num, depth=120, seed=seed * 1000 + idx, metaname="c13_sim%d_%d" % (idx, os.getpid()))
    if r.timeout:
        raise Broken("TLC -simulate timed out")
    with g.lock:
        if r.violated:
            p = save_replay(PROP, "spec_sim%d.tlc.out" % idx, r.out)
            v.violation("the transcription of src/data.c in Data.tla violates %s (simulation seed %d)"
                        % (r.violated, seed * 1000 + idx), p)
            return
        if r.rc != 0:
            raise Broken("TLC -simulate failed rc=%s:\n%s" % (r.rc, r.out[-2000:]))
        m = re.search(r"(\d[\d,]*) states checked", r.out)
        if m:
            n = int(m.group(1).replace(",", ""))
            v.states += n
            v.transitions += n
            v.models.append({"config": "Data_sim.cfg -simulate num=%d seed=%d" % (num, seed * 1000 + idx),
                             "states_checked": n, "wall_s": round(r.wall, 1), "result": "ok"})
        if os.path.exists(out):
            g.files.append(("sim%d" % idx, out))


def mutants(v, pool, tier):
    def one(mut, base):
        src = open(os.path.join(SPEC, "cfg", "Data_%s.cfg" % base)).read().replace('Mut = "none"', 'Mut = "%s"' % mut)
        p = os.path.join(rundir(PROP), "mut_%s.cfg" % mut)
        open(p, "w").write(src)
        return mut, tlc_must_pass("mutant " + mut, GEN, p, workers=2, timeout=600, heap="3g",
                                  metaname="c13_mut_%s_%d" % (mut, os.getpid()))
    muts = MUTANTS if tier == "thorough" else [x for x in MUTANTS if x[0] in ("sub_from", "apply_off", "cr_off", "dtor_early")]
    futs = [pool.submit(one, m, b) for m, b in muts]

    def collect():
        for f in futs:
            mut, r = f.result()
            if not r.violated:
                raise Broken("spec mutant %s not refuted: the invariants are vacuous in these bounds" % mut)
            v.notes.setdefault("spec_mutants_refuted", []).append({"mutant": mut, "by": r.violated,
                                                                    "states": r.distinct})
    return collect


def count_lines(path):
    n = 0
    with open(path, "rb") as f:
        for _ in f:
            n += 1
    return n


def get_line(path, lineno):
    with open(path) as f:
        for i, l in enumerate(f, 1):
            if i == lineno:
                return l
    return None


def replay_files(v, drv, files, flavour, nproc):
    """Run the driver over every behaviour file, nproc processes per file (line i goes to process i mod nproc).
    Returns number of behaviours replayed."""
    total = 0
    env = dict(os.environ)
    if flavour == "asan":
        env["ASAN_OPTIONS"] = "detect_leaks=1:exitcode=66:abort_on_error=0:detect_stack_use_after_return=1"
        if os.path.exists("/usr/bin/llvm-symbolizer"):
            env["ASAN_SYMBOLIZER_PATH"] = "/usr/bin/llvm-symbolizer"
        env["UBSAN_OPTIONS"] = "halt_on_error=1:exitcode=67:print_stacktrace=1"
        env["LSAN_OPTIONS"] = "exitcode=68"
    for name, path in files:
        if os.path.getsize(path) == 0:
            continue
        k = nproc if os.path.getsize(path) > 2000000 else 1
        procs = [subprocess.Popen([drv, path, str(i), str(k)], stdout=subprocess.PIPE, stderr=subprocess.PIPE,
                                  text=True, errors="replace", env=env) for i in range(k)]
        t0 = time.time()
        for i, pr in enumerate(procs):
            try:
                so, se = pr.communicate(timeout=max(60, 2400 - (time.time() - t0)))
            except subprocess.TimeoutExpired:
                for q in procs:
                    q.kill()
                raise Broken("driver timed out on %s" % path)
            m = re.search(r"SUMMARY behaviours=(\d+) steps=(\d+) checks=(\d+)", so)
            if m:
                total += int(m.group(1))
                v.notes["api_comparisons_%s" % flavour] = v.notes.get("api_comparisons_%s" % flavour, 0) + int(m.group(3))
            if pr.returncode == 0:
                continue
            if pr.returncode == 65:
                raise Broken("corrupt behaviour file %s: %s" % (path, so[-300:]))
            mm = re.search(r"(MISMATCH|CRASH|HANG) line=(\d+) step=(\d+) op=(\d+) what=(.*)", so)
            lineno, step, what = (int(mm.group(2)), int(mm.group(3)), mm.group(1) + ": " + mm.group(5)) if mm else (0, 0, "")
            if pr.returncode in (66, 67, 68) or "AddressSanitizer" in se or "runtime error" in se or "LeakSanitizer" in se:
                what = "sanitizer report (%s): %s" % (flavour, " | ".join(
                    [l.strip() for l in se.splitlines() if "ERROR" in l or "SUMMARY" in l or "runtime error" in l][:3]))
                if not lineno:
                    # the report does not say which behaviour: find it by replaying one behaviour at a time
                    lineno = locate(drv, path, i, k, env)
            elif pr.returncode not in (2, 70, 71):
                raise Broken("driver failed rc=%d on %s: %s %s" % (pr.returncode, path, so[-500:], se[-1500:]))
            line = get_line(path, lineno) if lineno else None
            fn = "fail_%s_%s_line%d.txt" % (flavour, name, lineno)
            p = save_replay(PROP, fn, line if line else "")
            detail = "%s replay of %s, behaviour %d step %d: real library differs from Data.tla: %s" % (
                flavour, os.path.basename(path), lineno, step, what)
            if line:
                detail += "\n    behaviour (spec expectations): " + "\n      ".join(decode(line, upto=step or None))
            if flavour == "asan":
                save_replay(PROP, fn + ".stderr", se[-20000:])
            key = match_known(what, line, step)
            if key:
                v.known.append(key)
            else:
                v.violation(detail, p)
            for q in procs:
                if q.poll() is None:
                    q.kill()
            return total
    return total


def locate(drv, path, worker, k, env):
    """Sanitizer reports at exit (leaks) carry no behaviour number: bisect is not needed, replay singly."""
    tmp = os.path.join(rundir(PROP), "locate.txt")
    with open(path) as f:
        for i, l in enumerate(f, 1):
            if (i - 1) % k != worker:
                continue
            open(tmp, "w").write(l)
            rc, so, se = sh([drv, tmp], timeout=120, env=env)
            if rc != 0:
                return i
            if i > 20000:
                break
    return 0


def match_known(what, line, step):
    """Known findings are matched by exact signature; none are registered for C13 at present."""
    for k in known_findings(PROP)["findings"]:
        sig = k.get("key", "")
        if sig and sig in what:
            return "%s (%s)" % (k.get("what", sig), sig)
    return None


def run(tier, seed):
    v = Verdict(PROP, tier, seed)
    v.assumptions = [
        "bounds of each TLC configuration: see models / spec/cfg/Data_*.cfg (leaf lengths, number of operations, depth)",
        "leaf bytes pairwise distinct in the exhaustive configurations (no operation inspects byte values: most "
        "general instance); Data_ab_q.cfg enumerates a 2-symbol alphabet",
        "memory safety proper ('never reads outside') is DECIDED only as record/offset bookkeeping (RecordsInRange, "
        "Tiling, NoUseAfterDestructor in the model + identical record lists and pointers in the real objects); "
        "addresses are OBSERVED by the ASan+UBSan replay of the same behaviours in the thorough tier",
        "single client thread (dispatch_data objects are immutable; the property quantifies over inputs and histories)",
    ]
    g = Gen()
    drv = build_driver("drv_data")
    pool = ThreadPoolExecutor(max_workers=8 if tier == "quick" else 6)
    futs = []
    collect_mutants = mutants(v, pool, tier)
    bfs = QUICK_BFS if tier == "quick" else THOROUGH_BFS + QUICK_BFS      # the big ones first
    for name, w, to in bfs:
        futs.append(pool.submit(run_bfs, v, g, name, w, to))
    nsim, num = (2, 600) if tier == "quick" else (8, 2500)
    for i in range(nsim):
        futs.append(pool.submit(run_sim, v, g, i, seed, num, 900 if tier == "quick" else 3000))
    if tier == "thorough":
        for name, w, to in THOROUGH_MC:
            futs.append(pool.submit(run_mc, v, g, name, w, to))
        asan_f = pool.submit(build_driver, "drv_data", "asan")
    for f in futs:
        f.result()
    collect_mutants()
    files = sorted(g.files)
    nb = replay_files(v, drv, files, "plain", 8)
    v.traces = nb
    v.notes["behaviours_replayed_plain"] = nb
    v.notes["behaviour_files"] = {n: count_lines(p) for n, p in files}
    if tier == "thorough" and not v.violations:
        adrv = asan_f.result()
        # the ASan replay takes the small exhaustive sets and the random deep trees
        afiles = [(n, p) for n, p in files if n.endswith("_q") or n.startswith("sim") or n in ("flat_t",)]
        na = replay_files(v, adrv, afiles, "asan", 12)
        v.notes["behaviours_replayed_asan_ubsan"] = na
        v.notes["memory_safety_half"] = "observed (ASan+UBSan+LSan on %d replayed behaviours, no report), not decided" % na
    else:
        v.notes["memory_safety_half"] = "bookkeeping half decided in the model and compared on the real objects; " \
                                        "sanitizer replay runs in the thorough tier only"
    for n, p in files[:3]:
        l = get_line(p, 1 + (seed * 7919) % max(1, min(count_lines(p), 5000)))
        if l:
            v.samples.append({"config": n, "behaviour": decode(l)})
    v.notes["what_is_compared_after_every_step"] = [
        "identity of the result (same object retained / new object / dispatch_data_empty)",
        "dispatch_data_get_size", "internal record list (num_records, data_object, from, length), buf",
        "bytes via dispatch_data_apply and dispatch_data_create_map, map pointer = owner buffer + offset",
        "applier callbacks (region object, offset, pointer, length), apply_f, early termination at every callback",
        "dispatch_data_copy_region at every location 0..size+1 (object structure, bytes, *offset_ptr)",
        "do_xref_cnt+1 of every live object against the spec's ledger",
        "destructor invocation counts (custom blocks on a serial queue drained with dispatch_sync_f)"]
    pool.shutdown(wait=False)
    if not v.violations:
        for n, p in files:          # generated vectors are scratch: keep only small ones
            if os.path.getsize(p) > 20000000:
                os.remove(p)
    return v.finish()


def replay(path, seed):
    if path.endswith(".tlc.out"):
        # a violation of the model itself: the counterexample is TLC's trace
        print(open(path).read()[-6000:])
        return 1
    drv = build_driver("drv_data")
    rc, so, se = sh([drv, path], timeout=600)
    print(so[-3000:])
    if se.strip():
        print(se[-3000:])
    try:
        with open(path) as f:
            for l in f:
                if l.strip():
                    print("\n".join(decode(l)))
                    break
    except Exception:
        pass
    if rc == 0:
        adrv = None
        try:
            adrv = build_driver("drv_data", "asan")
        except Broken:
            pass
        if adrv:
            env = {"ASAN_OPTIONS": "detect_leaks=1:exitcode=66", "UBSAN_OPTIONS": "halt_on_error=1:exitcode=67"}
            if os.path.exists("/usr/bin/llvm-symbolizer"):
                env["ASAN_SYMBOLIZER_PATH"] = "/usr/bin/llvm-symbolizer"
            rc, so, se = sh([adrv, path], timeout=900, env=env)
            print(so[-2000:])
            print(se[-6000:])
    return 0 if rc == 0 else 1
