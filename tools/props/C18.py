"""C18 - queue identity, queue-specific data and attributes are reported faithfully.

(b) spec/Attr.tla       attribute table (mixed radix index <-> fields), the four constructors,
                        queue creation; TLC checks the bijection, last-writer-wins / order
                        independence over the whole constructor lattice, faithful reporting;
                        TLC emits the complete transition relation + creation reports, which
                        harness/drv_attr.c replays on the real functions (exhaustive).
(c) spec/AttrGlobal.tla dispatch_get_global_queue over every identifier in -32768..64 (+ wide
                        ones) x flags; TLC emits the allowed results, drv_attr replays all.
                        The pinned tree's deviations are switchable constants (FixedCmp, FixedWide).
(a) spec/Frames.tla     thread frames on every invocation path, dispatch_get_specific and
                        dispatch_assert_queue(_not); TLC emits one case per (hierarchy shape,
                        key placement, path) with the expected lookups, harness/drv_frames.c
                        builds it on the real library (assertions judged in forked children).
"""
import os, json, random, re, time, subprocess
from concurrent.futures import ThreadPoolExecutor
from vlib import *

PROP = "C18"
APPC = {"qos": "q", "inactive": "i", "overcommit": "o", "autorelease": "a"}


def cfg_with(base, repl, drop_post=True, name=None):
    src = open(os.path.join(SPEC, "cfg", base)).read()
    for a, b in repl:
        if a not in src:
            raise Broken("cfg %s has no '%s'" % (base, a))
        src = src.replace(a, b)
    if drop_post:
        src = "\n".join(l for l in src.splitlines() if not l.startswith("POSTCONDITION")) + "\n"
    p = os.path.join(rundir(PROP), name or ("tmp_%s" % base))
    open(p, "w").write(src)
    return p


EMITS = {}


def start_emit(label, spec, cfg, out, timeout):
    if os.path.exists(out):
        os.unlink(out)
    EMITS[label] = POOL.submit(tlc_must_pass, label, spec, cfg, timeout=timeout, env={"C18_OUT": out},
                               metaname="c18_" + label, heap=HEAP, workers=WORKERS)


def tlc_emit(v, label, spec, cfg, out, timeout):
    if label not in EMITS:
        start_emit(label, spec, cfg, out, timeout)
    r = EMITS.pop(label).result()
    v.add_model(label, r)
    if r.violated:
        p = save_replay(PROP, label + ".tlc.out", r.out)
        v.violation("spec %s violates %s (the transcription of the code does not satisfy the property)" % (label, r.violated), p)
        return None
    if not os.path.exists(out):
        raise Broken("TLC did not emit %s:\n%s" % (out, r.out[-2000:]))
    return r


HEAP = "3g"        # the checks share the machine: never let a JVM take its default quarter of the RAM
WORKERS = max(2, min(6, NCPU // 2))
POOL = None
PENDING = []       # (kind, name, spec, future)


def bg_tlc(kind, name, spec, cfg, timeout=400):
    """Spec mutants and modelled deviations are independent of everything else: run them in the
    background (few workers each) and collect the verdicts at the end."""
    fut = POOL.submit(tlc_must_pass, name, spec, cfg, timeout=timeout, metaname="c18_bg_" + re.sub(r"\W", "_", name),
                      heap="2g", workers=2)
    PENDING.append((kind, name, spec, fut))


def mutants(v, spec, basecfg, muts, timeout=400, repl_extra=()):
    for mut in muts:
        cfg = cfg_with(basecfg, [('Mut = "none"', 'Mut = "%s"' % mut)] + list(repl_extra), name="mut_%s.cfg" % mut)
        bg_tlc("mutant", mut, spec, cfg, timeout)


def collect(v):
    for kind, name, spec, fut in PENDING:
        r = fut.result()
        if kind == "mutant":
            if not r.violated:
                raise Broken("spec mutant %s of %s not refuted: the invariants are vacuous in these bounds" % (name, spec))
            v.notes.setdefault("spec_mutants_refuted", []).append({"spec": spec, "mutant": name, "by": r.violated})
        else:
            if not r.violated:
                raise Broken("the modelled deviation %s does not violate the property in the spec" % name)
            v.notes.setdefault("modelled_deviations", []).append({"deviation": name, "tlc": "violates " + r.violated})
    del PENDING[:]


# ----------------------------------------------------------------------------- (b) attributes
def part_attr(v, tier, seed, drv):
    d = rundir(PROP)
    rc, out, err = sh([drv, "radices"], timeout=60)
    m = re.search(r"RADICES (\d+) (\d+) (\d+) (\d+) (\d+) (\d+) (\d+) (\d+)", out)
    if rc != 0 or not m:
        raise Broken("drv_attr radices failed: %s %s" % (out, err))
    oc, af, qos, prio, conc, inact, n, qossup = [int(x) for x in m.groups()]
    v.notes["attr_table_entries_in_this_build"] = n
    cfg = cfg_with("Attr_q.cfg", [("OC_COUNT = 3", "OC_COUNT = %d" % oc), ("AF_COUNT = 3", "AF_COUNT = %d" % af),
                                  ("QOS_COUNT = 7", "QOS_COUNT = %d" % qos), ("PRIO_COUNT = 16", "PRIO_COUNT = %d" % prio),
                                  ("CONC_COUNT = 2", "CONC_COUNT = %d" % conc), ("INACT_COUNT = 2", "INACT_COUNT = %d" % inact),
                                  ("QosSupport = FALSE", "QosSupport = %s" % ("TRUE" if qossup else "FALSE"))],
                   drop_post=False, name="Attr_build.cfg")
    vec = os.path.join(d, "attr_vectors.json")
    r = tlc_emit(v, "Attr", "Attr.tla", cfg, vec, 600)
    if tier == "quick":
        mutants(v, "Attr.tla", "Attr_q.cfg", ["swap_radix", "qos_drops_relpri"])
    else:
        mutants(v, "Attr.tla", "Attr_q.cfg", ["swap_radix", "conc_not_negated", "qos_drops_relpri", "no_clamp"])
    if r is None:
        return
    j = json.load(open(vec))
    txt = os.path.join(d, "attr_vectors.txt")
    rnd = random.Random(seed)
    perms = j["perms"] if tier != "quick" else rnd.sample(j["perms"], min(400, len(j["perms"])))
    with open(txt, "w") as f:
        R = j["radices"]
        f.write("R %d %d %d %d %d %d %d\n" % (R["oc"], R["af"], R["qos"], R["prio"], R["conc"], R["inact"], R["n"]))
        for a in j["apps"]:
            f.write("APP %s %d %d\n" % (APPC[a["c"]], a["x"], a["y"]))
        for t in j["targets"]:
            f.write("TGT %s %s %d %d\n" % (t["kind"], t["label"] or "-", t["qos"], 1 if t["oc"] else 0))
        for row in j["rows"]:
            ff = row["f"]
            f.write("ROW %d %d %d %d %d %d %d\n" % (row["i"], ff["qos"], ff["relpri"], ff["oc"], ff["af"], ff["concurrent"], ff["inactive"]))
            f.write(" ".join(str(x) for x in row["next"]) + "\n")
            for c in row["create"]:
                if c.get("skip"):
                    f.write("1\n")
                else:
                    f.write("0 %s %d %d %d %d %d\n" % (c["label"] or "-", c["qos_class"], c["relpri"], c["concurrent"], c["inactive"], c["root"]))
        for p in perms:
            f.write("PERM %d %d %d %d %d %d\n" % (p["start"], p["cls"], p["rp"], p["oc"], p["af"], p["final"]))
        f.write("END\n")
    rc, out, err = sh([drv, "table", txt], timeout=600)
    m = re.search(r"DONE table n=(\d+) checked=(\d+) fail=(\d+) drift=(\d+)", out)
    if rc != 0 or not m:
        if rc < 0 or rc in (132, 134, 139):
            p = save_replay(PROP, "attr_crash.txt", out[-4000:] + "\n" + err[-4000:])
            v.violation("the library crashed while the attribute vectors were replayed (rc=%d): %s" % (rc, err.strip()[-300:]), p)
            return
        raise Broken("drv_attr table failed rc=%s: %s %s" % (rc, out[-1500:], err[-1500:]))
    checked, nfail, ndrift = int(m.group(2)), int(m.group(3)), int(m.group(4))
    v.traces += checked
    v.notes["attr_replayed"] = {"table_entries": n, "constructor_applications_per_entry": len(j["apps"]),
                                "permutation_tuples": len(perms), "orders_per_tuple": 24,
                                "checks_on_real_functions": checked, "exhaustive_on_real_side": True}
    for l in out.splitlines():
        if l.startswith("DRIFT "):
            v.drift.append(l[6:])
    if nfail:
        fails = [l for l in out.splitlines() if l.startswith("FAIL ")]
        p = save_replay(PROP, "attr_fail.txt", "vectors: %s\n%s\n" % (txt, "\n".join(fails)))
        v.violation("attributes: %d mismatches with the spec, first: %s" % (nfail, fails[0][5:] if fails else "?"), p)
    s = j["rows"][rnd.randrange(len(j["rows"]))]
    v.samples.append({"attr": s["i"], "fields": s["f"], "queue_created_default_target": s["create"][1]})


# ----------------------------------------------------------------------------- (c) global queues
KNOWN_D1 = "global_queue:qos_compare"
KNOWN_D2 = "global_queue:wide_identifier"


def part_global(v, tier, seed, drv):
    d = rundir(PROP)
    vec = os.path.join(d, "global_vectors.json")
    r = tlc_emit(v, "AttrGlobal_fixed", "AttrGlobal.tla", "AttrGlobal_fixed.cfg", vec, 600)
    # the pinned tree's deviations, as the spec models them: TLC must show the violation
    for name, sw in (("D1_qos_compare", "FixedCmp = TRUE"), ("D2_wide_identifier", "FixedWide = TRUE")):
        cfg = cfg_with("AttrGlobal_fixed.cfg", [(sw, sw.replace("TRUE", "FALSE")), ("IdLo <- IdLoFull", "IdLo <- IdLoSmall")],
                       name="AttrGlobal_%s.cfg" % name)
        bg_tlc("deviation", name, "AttrGlobal.tla", cfg)
    mutants(v, "AttrGlobal.tla", "AttrGlobal_fixed.cfg", ["oc_sibling", "no_flag_check"],
            repl_extra=[("IdLo <- IdLoFull", "IdLo <- IdLoSmall")])
    if r is None:
        return
    j = json.load(open(vec))
    txt = os.path.join(d, "global_vectors.txt")
    with open(txt, "w") as f:
        f.write("DOM %d %d\n" % (j["lo"], j["hi"]))
        for fl in j["flags"]:
            f.write("FLAG %d\n" % fl)
        for w in j["wide"]:
            f.write("WIDE %d %d\n" % (w[0], w[1]))
        f.write("END\n")
    rc, out, err = sh([drv, "global", txt], timeout=300)
    m = re.search(r"DONE global calls=(\d+) null=(\d+)", out)
    if rc != 0 or not m:
        raise Broken("drv_attr global failed rc=%s: %s %s" % (rc, out[-1500:], err[-1500:]))
    calls = int(m.group(1))
    expect = {(x["hi"], x["lo"], x["fl"]): x for x in j["rows"]}
    got = {}
    for l in out.splitlines():
        if l.startswith("G "):
            _, hi, lo, fl, label, cls, inroots = l.split()
            got[(int(hi), int(lo), int(fl))] = (label, int(cls, 16), int(inroots))
    v.traces += calls
    bad = []       # (key, text, known-key or None)
    for k, x in expect.items():
        g = got.get(k)
        idv = (k[0] << 32) + k[1]
        if g is None:
            bad.append((k, "dispatch_get_global_queue(%d, %d) = NULL, documented class %#x: one of %s" % (idv, k[2], x["class"], x["allowed"]), None))
        elif g[0] not in x["allowed"] or not g[2]:
            kk = None
            # D1: PRIORITY_HIGH / QOS_CLASS_USER_INITIATED answered with the background root queue
            if k[0] == 0 and k[1] in (2, 0x19) and g[0] == "com.apple.root.background-qos" + (".overcommit" if k[2] == 2 else ""):
                kk = KNOWN_D1
            bad.append((k, "dispatch_get_global_queue(%d, %d) = %s, documented class %#x: one of %s" % (idv, k[2], g[0], x["class"], x["allowed"]), kk))
    for k, g in got.items():
        if k not in expect:
            idv = (k[0] << 32) + k[1]
            kk = KNOWN_D2 if (k[0] != 0 and k[2] in (0, 2)) else None
            bad.append((k, "dispatch_get_global_queue(%d, %d) = %s for an undefined identifier/flag (NULL expected)" % (idv, k[2], g[0]), kk))
    # same class -> same queue, different supported classes -> different queues: follows from the
    # label comparison above (labels identify the 12 root queues); cross-check pointer-free here
    known = {x["key"]: x for x in known_findings(PROP)["findings"]}
    unknown = [b for b in bad if b[2] is None or b[2] not in known]
    for kk in sorted({b[2] for b in bad if b[2] in known}):
        ex = [b for b in bad if b[2] == kk]
        v.known.append("%s: %d inputs, e.g. %s" % (kk, len(ex), ex[0][1]))
    if unknown:
        p = save_replay(PROP, "global_fail.txt", "\n".join(b[1] for b in unknown) + "\n")
        v.violation("global queues: %d mismatches, first: %s" % (len(unknown), unknown[0][1]), p)
    v.notes["global_replayed"] = {"identifiers": "%d..%d + %d wide" % (j["lo"], j["hi"], len(j["wide"])),
                                  "flags": j["flags"], "calls_on_real_function": calls,
                                  "documented_rows": len(expect), "exhaustive_on_real_side": True}
    v.samples.append({"global_queue": {"identifier": 2, "flags": 0, "allowed": expect[(0, 2, 0)]["allowed"],
                                       "real": got.get((0, 2, 0), ("NULL",))[0]}})


# ----------------------------------------------------------------------------- (a) frames
def csv(l):
    return ",".join(l) if l else "-"


def case_line(i, c, var):
    obs = " ".join("%s %s %s %s" % (o["tag"], o["g1"], o["g2"], csv(o["accept"])) for o in c["obs"])
    return "C %d %d %s %d %s %s %s %d %s %s %d %d %s\n" % (
        i, c["da"], "".join(c["ka"]) or "-", c["db"], "".join(c["kb"]) or "-", c["bpath"], c["path"], var,
        csv(c["k1"]), csv(c["k2"]), 1 if c["rm"] else 0, len(c["obs"]), obs)


def part_frames(v, tier, seed, drv):
    d = rundir(PROP)
    rnd = random.Random(seed)
    muts = ["no_missing_links", "get_first_only"] if tier == "quick" else \
           ["no_missing_links", "get_first_only", "pop_keeps_queue", "redirect_no_push"]
    mutants(v, "Frames.tla", "Frames_q.cfg", muts)
    cases = []
    for base in (["Frames_q.cfg"] if tier == "quick" else ["Frames_t.cfg", "Frames_tk.cfg"]):
        vec = os.path.join(d, "frames_cases_%s.json" % base[:-4])
        r = tlc_emit(v, base[:-4], "Frames.tla", base, vec, 2400)
        if r is None:
            return
        cases += [c for grp in json.load(open(vec)) for c in grp]
    seen = set()
    uniq = []
    for c in cases:
        key = json.dumps(c, sort_keys=True)
        if key not in seen:
            seen.add(key)
            uniq.append((key, c))
    uniq.sort(key=lambda x: x[0])
    cases = [c for _, c in uniq]
    # every (shape, path) once with a seeded key placement, then a seeded sample of the rest
    by = {}
    for i, c in enumerate(cases):
        by.setdefault((c["da"], tuple(c["ka"]), c["db"], tuple(c["kb"]), c["bpath"], c["path"]), []).append(i)
    pick = {rnd.choice(by[k]) for k in sorted(by)}
    rest = [i for i in range(len(cases)) if i not in pick]
    pick |= set(rnd.sample(rest, min(1500 if tier == "quick" else 36000, len(rest))))
    chosen = sorted(pick)
    rnd.shuffle(chosen)
    nproc = max(2, min(12, NCPU - 2))
    per = (len(chosen) + nproc - 1) // nproc
    procs = []
    for k in range(nproc):
        part = chosen[k * per:(k + 1) * per]
        if not part:
            continue
        txt = os.path.join(d, "frames_cases_%d.txt" % k)
        with open(txt, "w") as f:
            for i in part:
                f.write(case_line(i, cases[i], rnd.randrange(2)))
        out = open(os.path.join(d, "frames_out_%d.txt" % k), "w")
        procs.append((k, txt, out, subprocess.Popen([drv, txt, "0", str(len(part)), "1"], stdout=out, stderr=subprocess.STDOUT)))
    budget = time.time() + (200 if tier == "quick" else 1500)
    ran = nobs = nass = nhelper = 0
    fails = []
    broken = None
    for k, txt, out, pr in procs:
        try:
            rc = pr.wait(timeout=max(5, budget - time.time()))
        except subprocess.TimeoutExpired:
            pr.kill()
            rc = 124
        out.close()
        text = open(out.name).read()
        m = re.search(r"DONE frames cases=(\d+) obs=(\d+) asserts=(\d+) forks=(\d+) helper_obs=(\d+) fail=(\d+) drift=(\d+)", text)
        last = re.findall(r"^P (\d+)$", text, flags=re.M)
        for l in text.splitlines():
            if l.startswith("FAIL "):
                fails.append((l, txt))
            elif l.startswith("DRIFT "):
                v.drift.append(l[6:])
        if m:
            ran += int(m.group(1)); nobs += int(m.group(2)); nass += int(m.group(3)); nhelper += int(m.group(5))
        elif rc == 124:
            broken = "drv_frames did not finish its %d cases inside the time budget (machine overloaded?)" % len(open(txt).readlines())
        elif rc == 71:
            # an item never completed: that is a progress failure (C01), not something C18 states
            lastc = int(last[-1]) if last else -1
            broken = "drv_frames: the work item of case %d never ran to completion (no progress for 120 s): %s" % (
                lastc, json.dumps(cases[lastc]) if lastc >= 0 else "?")
        else:
            lastc = int(last[-1]) if last else -1
            p = save_replay(PROP, "frames_crash_%d.txt" % k, (case_line(lastc, cases[lastc], 0) if lastc >= 0 else "") + text[-3000:])
            v.violation("frames: the driver died (rc=%s) in case %d - an assertion that must hold crashed the process or the library crashed: %s"
                        % (rc, lastc, json.dumps(cases[lastc]) if lastc >= 0 else "?"), p)
    v.traces += ran
    v.notes["frames_replayed"] = {"cases_emitted_by_tlc": len(cases), "cases_replayed": ran, "observation_points": nobs,
                                  "assertions_judged_in_children": nass, "apply_helper_thread_observations": nhelper}
    if fails:
        cid = int(fails[0][0].split()[1])
        p = save_replay(PROP, "frames_fail.txt", case_line(cid, cases[cid], 0) + "\n".join(f[0] for f in fails[:50]) + "\n")
        v.violation("frames: %d mismatches, first: %s | case: %s" % (len(fails), fails[0][0][5:], json.dumps(cases[cid])), p)
    if broken and not v.violations:
        raise Broken(broken)
    if cases:
        c = cases[chosen[0]]
        v.samples.append({"frames_case": {k2: c[k2] for k2 in ("da", "ka", "db", "kb", "bpath", "path", "k1", "k2", "obs")}})


def run(tier, seed):
    v = Verdict(PROP, tier, seed)
    v.assumptions = [
        "attribute table radices are read from the build under test and handed to the spec as CONSTANTS",
        "a relative priority is an offset inside a QoS class: with QOS_CLASS_UNSPECIFIED the queue reports 0",
        "for a QoS class the platform does not support dispatch_get_global_queue may answer with the queue of that class or of the supported class it is clamped to",
        "an apply iteration that runs on a helper thread is not a synchronous submission: only the chain of the queue applied to is accepted there",
        "hierarchies of depth <= 3 above the default root queues, submitting context of depth <= 2, two keys",
    ]
    global POOL
    drv = build_driver("drv_attr")
    drvf = build_driver("drv_frames")
    POOL = ThreadPoolExecutor(max_workers=4)
    try:
        # the three emitting model-checking runs are independent: start them together
        d = rundir(PROP)
        start_emit("AttrGlobal_fixed", "AttrGlobal.tla", "AttrGlobal_fixed.cfg", os.path.join(d, "global_vectors.json"), 600)
        fb = "Frames_q" if tier == "quick" else "Frames_t"
        start_emit(fb, "Frames.tla", fb + ".cfg", os.path.join(d, "frames_cases_%s.json" % fb), 2400)
        part_attr(v, tier, seed, drv)
        part_global(v, tier, seed, drv)
        part_frames(v, tier, seed, drvf)
        collect(v)
    finally:
        POOL.shutdown(wait=True)
    # hierarchies whose bottom is the thread-bound main queue (Frames.tla's rule is the same: nearest queue in the chain
    # down to the bottom): keys set on the main queue and on lanes targeting it, read from items submitted through every
    # path while the main queue is driven as a runloop and after dispatch_main() (harness/drv_mainq.c)
    from props.C02 import main_queue
    main_queue(v, PROP, seed, 2 if tier == "quick" else 8)
    return v.finish()


def replay(path, seed):
    """Re-runs what a saved artefact describes on the current tree: a Frames case file starts
    with its case line; attr_* / global_* artefacts re-run that (exhaustive) part."""
    global POOL
    text = open(path).read()
    first = text.splitlines()[0] if text else ""
    if first.startswith("C "):
        drvf = build_driver("drv_frames")
        one = os.path.join(rundir(PROP), "replay_case.txt")
        open(one, "w").write(first + "\n")
        rc, out, err = sh([drvf, one, "0", "1", "1"], timeout=300)
        print(out[-4000:], err[-2000:])
        return 1 if ("FAIL " in out or rc != 0) else 0
    base = os.path.basename(path)
    if base.startswith("attr_") or base.startswith("global_"):
        v = Verdict(PROP, "quick", seed)
        drv = build_driver("drv_attr")
        POOL = ThreadPoolExecutor(max_workers=3)
        try:
            (part_attr if base.startswith("attr_") else part_global)(v, "thorough", seed, drv)
            for _, _, _, fut in PENDING:
                fut.result()
            del PENDING[:]
        finally:
            POOL.shutdown(wait=True)
        for t, p in v.violations:
            print("VIOLATION property=%s replay=%s\n  detail: %s" % (PROP, p, t))
        for k in v.known:
            print("KNOWN-FINDING: property=%s %s" % (PROP, k))
        return 1 if v.violations else 0
    print(text[-6000:])
    return 1
