"""C01 - every submitted item runs exactly once, none stranded; sync forms return; async forms never wait."""
from vlib import *
from props.lane_common import *
PROP = "C01"

def run(tier, seed):
    v = Verdict(PROP, tier, seed)
    v.assumptions = ["root queue abstracted as a bag served by fair workers (pool growth: see Root.tla when present)",
                     "TLC bounds: 2 clients x 2 workers, <= 3-4 items per configuration",
                     "real executions sample schedules (seeded perturbation inside atomicity windows)"]
    run_models(v, PROP, ["Q1", "Q2b"] if tier == "quick" else ["Q1", "Q2b", "Q2q", "Q1p", "Q6b"])
    run_mutants(v, PROP, [("Q1", "unlock_ignores_dirty")])
    dqstate_conformance(v, PROP)
    n = 1 if tier == "quick" else 6
    runs = []
    for k in range(n):
        runs += [dict(W=1, pp=1, execs=10, ops=40, perturb=2 + k % 2), dict(W=2, pp=1, execs=8, ops=40, perturb=2),
                 dict(W=0, pp=1, execs=8, ops=40, perturb=3, nt=4), dict(W=1, pp=1, susp=1, execs=6, ops=30, perturb=2)]
    drive(v, PROP, seed, runs, tier)
    return v.finish()

def replay(path, seed):
    print(open(path).read()[-3000:]); return 1
