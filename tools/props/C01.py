"""C01 - every submitted item runs exactly once, none stranded; sync forms return; async forms never wait."""
from vlib import *
from props.lane_common import *
import os
PROP = "C01"

def run(tier, seed):
    v = Verdict(PROP, tier, seed)
    v.assumptions = ["root queue abstracted as a bag served by fair workers (pool growth: see Root.tla when present)",
                     "TLC bounds: 2 clients x 2 workers, <= 3-4 items per configuration",
                     "real executions sample schedules (seeded perturbation inside atomicity windows)"]
    run_models(v, PROP, ["Q1"] if tier == "quick" else ["Q1", "Q2b", "Q2q", "Q1p", "Q6b"])
    run_mutants(v, PROP, [("Q1", "unlock_ignores_dirty")])
    dqstate_conformance(v, PROP)
    root_queue(v, tier, seed)
    retarget_window(v, tier, seed)
    chained_targets(v, tier, seed)
    n = 1 if tier == "quick" else 6
    runs = []
    for k in range(n):
        runs += [dict(W=1, pp=1, execs=10, ops=40, perturb=2 + k % 2), dict(W=2, pp=1, execs=8, ops=40, perturb=2),
                 dict(W=0, pp=1, execs=8, ops=40, perturb=3, nt=4)]
        if tier != "quick":
            runs += [dict(W=1, pp=1, susp=1, execs=6, ops=30, perturb=2)]
    drive(v, PROP, seed, runs, tier)
    if tier != "quick":
        asan_lanes(v, PROP, seed)
    return v.finish()

def chained_targets(v, tier, seed):
    """The quantifier's 'chained targets': exactly-once and no stranding through target-queue hierarchies (mixed serial /
    concurrent levels, synchronous calls recursing through them).  The hierarchy machine is C03's (Chain.tla,
    ChainWordTrace); here its driver's exactly-once oracle, hangs and crashes are C01's verdict."""
    drv = build_driver("drv_chain")
    d = rundir(PROP)
    shapes = [4, 7, 3] if tier == "quick" else [4, 7, 3, 2, 1, 0, 5, 4, 7, 3]
    for i, shp in enumerate(shapes):
        s = seed * 1000 + 900 + i
        tr = os.path.join(d, "chain_%d.ndjson" % i)
        rc, out, err = sh([drv, tr, str(s), str(2 + i % 2), "5", "25", str(shp), str(2 + i % 2), "1", "3"], timeout=400)
        if rc == 124:
            raise Broken("drv_chain timed out (shape %d seed %d)" % (shp, s))
        fails = re.findall(r"ORACLE-FAIL \w+ (.*)", err)
        mine = [f for f in fails if "exactly once" in f or "never ran" in f or "stranded" in f or "more than once" in f]
        if rc in (70, 71) or mine:
            what = "; ".join(mine[:3]) or {70: "crash inside libdispatch", 71: "hang: work stranded in the hierarchy / a synchronous call never returned"}[rc]
            v.violation("chained targets (shape %d seed %d): %s" % (shp, s, what),
                        save_replay(PROP, "chain_fail_%d.ndjson" % s, src=tr) if os.path.exists(tr) else tr)
        elif rc not in (0, 2):
            raise Broken("drv_chain failed rc=%d: %s" % (rc, err[-500:]))
        else:
            v.traces += 1


def retarget_window(v, tier, seed):
    """Retarget.tla: a synchronous call through a two-level hierarchy racing dispatch_set_target_queue() of the top
    queue gives back exactly what it locked (finding F4, fixed: the pinned code read the target after unlocking).
    TLC checks both lower-queue kinds and refutes the 'target read after unlock' mutant; drv_retarget steers the real
    library into the spec's counterexample schedule (deferred and inline retarget, concurrent and serial lower queues)
    and requires that barriers submitted to the old and the new target still run and their state words are idle."""
    d = rundir(PROP)
    base = open(os.path.join(SPEC, "cfg", "Retarget.cfg")).read()
    for ls in ("FALSE", "TRUE"):
        for mut in ("none", "target_read_after_unlock"):
            cfg = os.path.join(d, "Retarget_%s_%s.cfg" % (ls, mut))
            open(cfg, "w").write(base.replace("LowerSerial = FALSE", "LowerSerial = " + ls).replace('Mut = "none"', 'Mut = "%s"' % mut))
            r = tlc_must_pass("Retarget/%s/%s" % (ls, mut), "Retarget.tla", cfg, timeout=600, workers=2, metaname="C01_retarget_%s_%s" % (ls, mut))
            if mut == "none":
                v.add_model("Retarget/LowerSerial=%s" % ls, r)
                if r.violated:
                    v.violation("Retarget.tla (LowerSerial=%s) violates %s" % (ls, r.violated), save_replay(PROP, "Retarget_%s.tlc.out" % ls, r.out))
            elif not r.violated:
                raise Broken("spec mutant target_read_after_unlock (LowerSerial=%s) is not refuted" % ls)
            else:
                v.notes.setdefault("spec_mutants_refuted", []).append({"mutant": mut, "config": "Retarget/LowerSerial=" + ls, "by": r.violated, "states": r.distinct})
    drv = build_driver("drv_retarget")
    tr = os.path.join(d, "retarget.ndjson")
    rounds = 8 if tier == "quick" else 40
    rc, out, err = sh([drv, tr, str(seed * 100 + 77), str(rounds)], timeout=900)
    m = re.search(r"rounds=(\d+) windows_hit=(\d+)", err)
    if rc in (2, 70, 71):
        fails = re.findall(r"ORACLE-FAIL C01 (.*)", err)
        what = {2: "API oracle", 70: "crash inside libdispatch", 71: "hang"}[rc]
        p = save_replay(PROP, "retarget_fail.ndjson", src=tr) if os.path.exists(tr) else tr
        v.violation("%s in the sync-completion vs dispatch_set_target_queue window: %s" % (what, "; ".join(fails[:3]) or err.strip()[-300:]), p)
        return
    if rc != 0 or not m:
        raise Broken("drv_retarget failed rc=%d: %s" % (rc, err[-500:]))
    v.traces += 1
    v.notes["retarget_windows_hit"] = "%s of %s rounds" % (m.group(2), m.group(1))
    if int(m.group(2)) == 0:
        raise Broken("drv_retarget never reached the window (steering ineffective): %s" % err[-300:])


def root_queue(v, tier, seed):
    """Root.tla: the pthread-pool root queue delivers what Lane.tla's abstract bag assumes, including the
    'every pool thread blocked on a later item' clause; bound to the code by drv_root + RootTrace."""
    for name in ["R3", "R5"]:
        r = tlc_must_pass("Root/" + name, "MCRoot.tla", "Root_%s.cfg" % name, timeout=3000, metaname="C01_root_%s" % name)
        v.add_model("Root/" + name, r)
        if r.violated:
            v.violation("Root.tla config %s violates %s" % (name, r.violated), save_replay(PROP, "Root_%s.tlc.out" % name, r.out))
    if tier != "quick":
        # the two-client / three-item configurations have > 2e7 states (pool monitor x park timeouts x two pushers):
        # sampled by random behaviours (safety invariants only), not exhausted
        for name in ("R4", "R2", "R1"):
            src = "\n".join(l for l in open(os.path.join(SPEC, "cfg", "Root_%s.cfg" % name)).read().splitlines()
                            if not l.startswith("PROPERTY")).replace("SPECIFICATION FairSpec", "SPECIFICATION Spec")
            p = os.path.join(rundir(PROP), "Root_%s_sim.cfg" % name)
            open(p, "w").write(src + "\n")
            r = tlc("MCRoot.tla", p, timeout=1500, simulate=40000, depth=150, workers=8, seed=seed, metaname="C01_root_sim_%s" % name)
            if r.rc not in (0, 12) and not r.violated:
                raise Broken("TLC simulation failed on Root/%s (rc=%s): %s" % (name, r.rc, r.out[-1500:]))
            v.add_model("Root/%s (simulation, 40000 behaviours x 8 workers, depth 150)" % name, r)
            if r.violated:
                v.violation("Root.tla config %s (simulation) violates %s" % (name, r.violated), save_replay(PROP, "Root_%s_sim.tlc.out" % name, r.out))
    for base, mut in (("R3", "no_monitor"), ("R5", "drain_race_no_poke"), ("R3", "poke_full_keeps_pending")):
        src = open(os.path.join(SPEC, "cfg", "Root_%s.cfg" % base)).read().replace('Mut = "none"', 'Mut = "%s"' % mut)
        p = os.path.join(rundir(PROP), "Root_%s_%s.cfg" % (base, mut))
        open(p, "w").write(src)
        r = tlc_must_pass("Root mutant " + mut, "MCRoot.tla", p, timeout=900, metaname="C01_root_mut_" + mut)
        if not r.violated:
            raise Broken("Root.tla mutant %s not refuted" % mut)
        v.notes.setdefault("spec_mutants_refuted", []).append({"mutant": mut, "config": "Root/" + base, "by": r.violated})
    drv = build_driver("drv_root")
    for i in range(1 if tier == "quick" else 4):
        tr = os.path.join(rundir(PROP), "root_%d.ndjson" % i)
        # thorough: also let the pool threads hit their 5 s park timeout and check the budget comes back
        rc, out, err = sh([drv, tr, str(seed * 100 + i), str(1 + i % 3), "1" if tier == "quick" else "2",
                           "0" if tier == "quick" else "1"], timeout=900)
        if rc in (2, 70, 71):
            what = {2: "global-queue item did not run exactly once", 70: "crash", 71: "hang: items of a global queue were stranded although the pool could grow"}[rc]
            v.violation("%s: %s" % (what, err.strip()[-300:]), save_replay(PROP, "root_fail_%d.ndjson" % i, src=tr) if os.path.exists(tr) else tr)
            continue
        if rc != 0:
            raise Broken("drv_root failed rc=%d: %s" % (rc, err[-500:]))
        res = validate_trace("RootTrace.tla", "RootTrace.cfg", tr, nthreads=64, metaname="C01_roottr%d" % i)
        if not res.accepted:
            lines = open(res.trace_with_header).read().splitlines()
            k = res.maxl or 1
            v.violation("root-queue pool accounting: record %d is not a transition Root.tla allows (%s): %s" %
                        (k, res.violated or "unexplained", lines[k - 1][:300] if k - 1 < len(lines) else ""),
                        save_replay(PROP, "root_rejected_%d.ndjson" % i, src=res.trace_with_header))
            continue
        v.traces += 1
        v.states += res.distinct
        v.transitions += res.generated

def replay(path, seed):
    return replay_lane(PROP, path)
