"""C11 - timers and dispatch_after never fire early and always fire.
Layer 1 (heap):   TLC checks spec/TimerHeap.tla (transcription of the interleaved dual min-heap with
                  segments of src/event/event.c) against a sorted-set reference over the COMPLETE state
                  graph of a small domain, and over long random behaviours with up to 40 timers; every
                  transition TLC generated is replayed on the real static heap functions (guarded shim
                  at the end of event.c) with the whole structure compared after every step.
Layer 2 (timers): TLC checks spec/Timer.tla (set_timer/configure/arm/run/program/kernel fire/latch,
                  suspend/resume/cancel, dispatch_after) for never-early, count <= boundaries, only the
                  new configuration, ArmedImpliesProgrammed, and <>fire under fairness; spec mutants
                  (among them: configure keeps the pending data of a timer that _dispatch_timers_run disarmed
                  because it fired while suspended / behind a handler that does not keep up).
Layer 3 (binding):harness/drv_timer.c runs seeded random populations of real timers and dispatch_after
                  blocks on the three clocks with histories of set_timer/suspend/resume/cancel, plus scripted
                  reconfigurations of timers that have an undelivered fire (fired while suspended / while the
                  target queue is busy / behind a slow handler that sets the timer itself / fired one-shot),
                  and evaluates the spec's invariants on the observed events.  The configuration an invocation
                  has to follow is decided exactly, as in Timer.tla (TInvoke sees no unapplied configuration):
                  the driver observes the hooked words dt_pending_config / ds_pending_data and knows how many
                  publications preceded the needs-configuration load of the delivering invoke.  With the H5
                  probes applied, the manager's decisions (arm, run, fire, program, timerfd event, blocking wait)
                  and every _dispatch_timer_unote_configure (law ConfigureClearsPending on ds_pending_data) of
                  real executions are validated as behaviours of spec/TimerTrace.tla (same operators as Timer.tla).
Ownership:        Timer.tla states who may touch the heaps and the timerfds (the manager; a target-queue thread configures
                  a timer itself only when the data it latched carried the DISARMED marker = the timer is in no heap):
                  action properties HeapMutatedOnlyByOwner / KernelTimerProgrammedOnlyByOwner, invariants ProgrammedCoversHeap /
                  DisarmedMarkerMeansOutOfHeap, liveness ConfigApplied + Fires on a configuration where an armed timer is
                  re-set from its own handler (Timer_reset.cfg); mutant worker_configures_armed must be refuted by the
                  action property, by ProgrammedCoversHeap alone and by liveness alone.  Binding: every trace record carries
                  its thread, TimerTrace.tla requires heap / run / program records from the manager and a non-manager
                  `cfgtake` only on a timer that is out of the heap with the marker latched; drv_timer's directed population
                  (C11_DIRECTED_RESET: private serial queues only, nothing else can wake the manager) judges FollowsNewSettings:
                  a re-set armed timer overdue by > 400 ms at its new start with every thread asleep is not programmed."""
import os, re, json, collections, time, concurrent.futures
from vlib import *

PROP = "C11"
# several JVMs run side by side: keep each one's GC thread pool small (vlib passes this after -Xmx)
GC = " -XX:ParallelGCThreads=2"
INTS = re.compile(r"-?\d+")


def cfg_from(base, name, **subst):
    """Derive a cfg in the run dir from spec/cfg/<base> by replacing `Key = value` lines."""
    src = open(os.path.join(SPEC, "cfg", base)).read()
    for k, val in subst.items():
        src, n = re.subn(r"(?m)^(\s*%s\s*=\s*).*$" % re.escape(k), lambda m: m.group(1) + val, src)
        if n != 1:
            raise Broken("cfg %s has no constant %s" % (base, k))
    p = os.path.join(rundir(PROP), name)
    with open(p, "w") as f:
        f.write(src)
    return p


def drop_lines(path, *prefixes):
    src = open(path).read().splitlines()
    with open(path, "w") as f:
        f.write("\n".join(l for l in src if not any(l.strip().startswith(p) for p in prefixes)) + "\n")
    return path


def relist(path, keyword, names):
    """Replace the `INVARIANTS ...` / `PROPERTIES ...` line of a derived cfg (names = None: drop it)."""
    src = open(path).read().splitlines()
    if not any(l.strip().startswith(keyword) for l in src):
        raise Broken("cfg %s has no %s line" % (path, keyword))
    with open(path, "w") as f:
        for l in src:
            if l.strip().startswith(keyword):
                if names:
                    f.write("%s %s\n" % (keyword, names))
            else:
                f.write(l + "\n")
    return path


# ----------------------------------------------------------------------------------------------
# layer 1: heap
# ----------------------------------------------------------------------------------------------
def heap_bfs_vectors(csv, vec, nt):
    """TLC wrote one row per distinct state:  Image(state);{<<op,t,k1,k2>> \\o Image(successor), ...}.
    Build the state graph, a BFS tree from the empty heap, and the vector file for the driver."""
    ids = {}
    imgs = []
    edges = []
    tup = re.compile(r"<<([^<>]*)>>")

    def sid(ints):
        k = " ".join(ints)
        if k not in ids:
            ids[k] = len(imgs)
            imgs.append(k)
        return ids[k]
    with open(csv) as f:
        for line in f:
            parts = line.rstrip("\n").split(";")
            if len(parts) != 2:
                raise Broken("malformed TLC vector row: %r" % line[:200])
            b = sid(INTS.findall(parts[0]))
            for m in tup.finditer(parts[1]):
                v = INTS.findall(m.group(1))
                edges.append((b, tuple(int(x) for x in v[:4]), sid(v[4:])))
    if not edges:
        raise Broken("TLC emitted no heap transitions")
    cands = [i for i, im in enumerate(imgs) if im.split()[0] == "0" and im.split()[2] == "0"]   # count 0, needs_program 0
    if len(cands) != 1:
        raise Broken("cannot identify the empty heap among the emitted states")
    root = cands[0]
    adj = collections.defaultdict(list)
    for b, o, a in edges:
        adj[b].append((o, a))
    parent = {root: (-1, (0, 0, 0, 0))}
    order = [root]
    q = collections.deque([root])
    while q:
        s = q.popleft()
        for o, a in adj[s]:
            if a not in parent:
                parent[a] = (s, o)
                order.append(a)
                q.append(a)
    if len(parent) != len(imgs):
        raise Broken("heap state graph not connected from the empty heap (%d of %d)" % (len(parent), len(imgs)))
    # renumber so that the root is 0
    ren = {s: i for i, s in enumerate(order)}
    with open(vec, "w") as f:
        f.write("NT %d\nS %d\n" % (nt, len(order)))
        for s in order:
            p, o = parent[s]
            im = imgs[s].split()
            f.write("%d %d %d %d %d %d %d %s\n" % (ren[s], ren[p] if p >= 0 else -1, o[0], o[1], o[2], o[3], len(im), imgs[s]))
        f.write("E %d\n" % len(edges))
        for b, o, a in edges:
            f.write("%d %d %d %d %d %d\n" % (ren[b], o[0], o[1], o[2], o[3], ren[a]))
    depth = {}
    for s in order:
        p = parent[s][0]
        depth[s] = 0 if p < 0 else depth[p] + 1
    sample = None
    for b, o, a in edges[len(edges) // 2:len(edges) // 2 + 1]:
        sample = {"before": imgs[b], "op": {1: "insert", 2: "remove", 3: "update"}[o[0]] + str(list(o[1:])), "after_expected": imgs[a]}
    return len(order), len(edges), max(depth.values()), sample


def heap_sim_vectors(csv, vec, nt):
    """Simulation mode: one row per finished behaviour:  <<<<op,t,k1,k2, digest x6>>, ...>>;Image(final)."""
    n = steps = 0
    maxseg = 0
    sample = None
    with open(csv) as f, open(vec, "w") as out:
        rows = [l for l in f if l.strip()]
        out.write("NT %d\nQ %d\n" % (nt, len(rows)))
        for line in rows:
            h, fin = line.rstrip("\n").split(";")
            hv = INTS.findall(h)
            if len(hv) % 10:
                raise Broken("malformed simulated behaviour")
            fv = INTS.findall(fin)
            out.write("%d %s %d %s\n" % (len(hv) // 10, " ".join(hv), len(fv), " ".join(fv)))
            n += 1
            steps += len(hv) // 10
            maxseg = max([maxseg] + [int(hv[i + 5]) for i in range(0, len(hv), 10)])
            if sample is None:
                sample = {"first_steps(op,t,target,deadline,count,segments,needs_program,min_target,min_deadline,checksum)":
                          [hv[i:i + 10] for i in range(0, 40, 10)]}
    return n, steps, maxseg, sample


def run_heap_driver(v, drv, vec, tag, what):
    failout = os.path.join(rundir(PROP), "heapfail_%s.json" % tag)
    if os.path.exists(failout):
        os.unlink(failout)
    rc, out, err = sh([drv, vec, failout], timeout=900)
    if rc in (2, 70):
        p = save_replay(PROP, "heap_%s.vec" % tag, src=vec)
        if os.path.exists(failout):
            save_replay(PROP, "heap_%s.failure.json" % tag, src=failout)
        v.violation("heap replay (%s): the real timer heap breaks an invariant of spec/TimerHeap.tla: %s" % (what, err.strip()[:1500]), p)
        return None
    if rc != 0:
        raise Broken("heap driver failed rc=%d: %s" % (rc, err[-1000:]))
    res = json.loads(out.strip().splitlines()[-1])
    if res.get("drift"):
        v.drift.append("heap replay (%s): the property-level invariants hold on the real heap, but %d comparisons with the "
                       "transcription differ (re-transcribe spec/TimerHeap.tla); first: %s" % (what, res["drift"], res["first_drift"][:600]))
    return res




def heap_layer(v, tier, seed):
    d = rundir(PROP)
    drv = build_driver("drv_timerheap")
    # (a) complete state graph, real constant C = 8, every transition replayed
    bfs = [("q", 3, "{0, 1, 2}", '"le"', 2), ("e4", 4, "{0, 1}", '"eq"', 2)]
    if tier == "thorough":
        bfs += [("t4", 4, "{0, 1}", '"le"', 2), ("t3", 3, "{0, 1, 2}", '"free"', 2)]
    for tag, nt, keys, le, maxseg in bfs:
        csv = os.path.join(d, "heap_%s.csv" % tag)
        if os.path.exists(csv):
            os.unlink(csv)
        cfg = cfg_from("TimerHeap_q.cfg", "TimerHeap_%s.cfg" % tag, NT=str(nt), Keys=keys, Pairs=le,
                       MaxSeg=str(maxseg), Emit='"%s"' % csv)
        r = tlc_must_pass("TimerHeap " + tag, "TimerHeap.tla", cfg, timeout=1500, workers=4, heap="4g" + GC)
        v.add_model("TimerHeap_%s (NT=%d Keys=%s C=8, complete graph)" % (tag, nt, keys), r)
        if r.violated:
            v.violation("spec TimerHeap (%s) violates %s: the transcribed heap algorithm breaks the reference" % (tag, r.violated),
                        save_replay(PROP, "TimerHeap_%s.tlc.out" % tag, r.out))
            continue
        vec = os.path.join(d, "heap_%s.vec" % tag)
        ns, ne, depth, sample = heap_bfs_vectors(csv, vec, nt)
        if ns != r.distinct:
            raise Broken("vector emission incomplete: %d states in the rows, TLC found %d" % (ns, r.distinct))
        res = run_heap_driver(v, drv, vec, tag, "every transition of the complete state graph, NT=%d Keys=%s" % (nt, keys))
        os.unlink(csv)
        if res:
            v.traces += res["edges_replayed"]
            v.notes.setdefault("heap_replay", []).append({"config": tag, "states": ns, "transitions_replayed": ne,
                                                          "max_path": depth + 1, "real_heap_ops": res["heap_ops"],
                                                          "full_structure_comparisons": res["comparisons"]})
            if sample and len(v.samples) < 2:
                v.samples.append({"heap_transition": sample})
    # (b) small segment capacity C = 4: the segment arithmetic (3 segments) with 5-6 timers.  Model only:
    #     C is a compile-time constant of the library; the real C = 8 reaches 5 segments in (d).
    small = [("c4", 5, "{0, 1}", '"eq"', 4, 3)] if tier == "quick" else \
            [("c4", 5, "{0, 1}", '"eq"', 4, 3), ("c4n6", 6, "{0, 1}", '"eq"', 4, 3), ("c4k3", 5, "{0, 1, 2}", '"eq"', 4, 3),
             ("c4le4", 4, "{0, 1}", '"le"', 4, 3)]
    jobs = []
    for tag, nt, keys, le, c, maxseg in small:
        cfg = cfg_from("TimerHeap_q.cfg", "TimerHeap_%s.cfg" % tag, NT=str(nt), Keys=keys, Pairs=le, C=str(c), MaxSeg=str(maxseg))
        jobs.append(("TimerHeap_%s (NT=%d Keys=%s pairs=%s C=%d: segments 0..%d)" % (tag, nt, keys, le, c, maxseg), cfg, None))
    # (c) spec mutants (non-vacuity)
    heap_mutants = (("left_child", "q"), ("stale_backptr", "q4"), ("cap_no_table", "c4"))
    if tier == "thorough":
        heap_mutants += (("never_right", "q"), ("no_needs_program", "q"))
    for mut, base in heap_mutants:
        if base == "c4":
            cfg = cfg_from("TimerHeap_q.cfg", "TimerHeap_mut_%s.cfg" % mut, NT="5", Keys="{0, 1}", Pairs='"eq"', C="4", MaxSeg="3", Mut='"%s"' % mut)
        elif base == "q4":
            cfg = cfg_from("TimerHeap_q.cfg", "TimerHeap_mut_%s.cfg" % mut, NT="4", Keys="{0, 1}", Pairs='"le"', Mut='"%s"' % mut)
        else:
            cfg = cfg_from("TimerHeap_q.cfg", "TimerHeap_mut_%s.cfg" % mut, Pairs='"le"', Mut='"%s"' % mut)
        jobs.append(("TimerHeap mutant " + mut, cfg, mut))

    def onejob(j):
        name, cfg, mut = j
        return tlc_must_pass(name, "TimerHeap.tla", cfg, timeout=2400 if tier == "thorough" else 600, workers=4,
                             metaname="C11_" + os.path.basename(cfg), heap="4g" + GC)
    with concurrent.futures.ThreadPoolExecutor(4) as ex:
        results = list(ex.map(onejob, jobs))
    for (name, cfg, mut), r in zip(jobs, results):
        if mut is None:
            v.add_model(name, r)
            if r.violated:
                v.violation("spec %s violates %s" % (name, r.violated), save_replay(PROP, os.path.basename(cfg) + ".tlc.out", r.out))
        else:
            if not r.violated:
                raise Broken("spec mutant %s of TimerHeap not refuted: the invariants are vacuous in these bounds" % mut)
            v.notes.setdefault("spec_mutants_refuted", []).append({"spec": "TimerHeap", "mutant": mut, "by": r.violated})
    # (d) long random behaviours, up to 40 timers: segments grow to 5 and shrink back; replayed with digests
    nproc, nsim, simlen = (2, 20, 260) if tier == "quick" else (8, 50, 400)
    csvs = [os.path.join(d, "heap_sim_%d.csv" % i) for i in range(nproc)]

    def one(i):
        if os.path.exists(csvs[i]):
            os.unlink(csvs[i])
        cfg = cfg_from("TimerHeap_sim.cfg", "TimerHeap_sim_run%d.cfg" % i, Emit='"%s"' % csvs[i], SimLen=str(simlen))
        # (TLC's RandomElement stream is per process: one worker per process, several processes)
        return tlc_must_pass("TimerHeap simulate", "TimerHeap.tla", cfg, timeout=1500, simulate=nsim, depth=simlen + 2,
                             seed=seed * 1000 + i, workers=1, metaname="C11_heap_sim%d" % i, heap="2g" + GC)
    with concurrent.futures.ThreadPoolExecutor(nproc) as ex:
        rs = list(ex.map(one, range(nproc)))
    bad = [r for r in rs if r.violated]
    if bad:
        v.violation("spec TimerHeap (simulation, 40 timers) violates %s" % bad[0].violated, save_replay(PROP, "TimerHeap_sim.tlc.out", bad[0].out))
    else:
        csv = os.path.join(d, "heap_sim.csv")
        with open(csv, "w") as out:
            seen = set()
            for c in csvs:
                if not os.path.exists(c):
                    raise Broken("TLC simulation wrote no behaviours: %s" % rs[0].out[-1500:])
                for line in open(c):
                    if line not in seen:
                        seen.add(line)
                        out.write(line)
                os.unlink(c)
        vec = os.path.join(d, "heap_sim.vec")
        n, steps, maxseg, sample = heap_sim_vectors(csv, vec, 40)
        os.unlink(csv)
        if n == 0 or maxseg < 4:
            raise Broken("simulation did not produce behaviours reaching 4+ segments (n=%d maxseg=%d)" % (n, maxseg))
        res = run_heap_driver(v, drv, vec, "sim", "random behaviours with up to 40 timers")
        if res:
            v.traces += res["sequences_replayed"]
            v.transitions += steps
            v.notes.setdefault("heap_replay", []).append({"config": "simulate NT=40 Keys=0..15", "behaviours": n, "steps_replayed": steps,
                                                          "max_segments": maxseg, "digest_comparisons": res["comparisons"]})
            if sample and len(v.samples) < 3:
                v.samples.append({"heap_random_behaviour": sample})


# ----------------------------------------------------------------------------------------------
# layer 2: timer state machine
# ----------------------------------------------------------------------------------------------
#            name   NT  After   NC  H  Past Max Intervals        calls
TIMER_Q = [("q1",   1, "{}",    1, 3, 0,   1,  "{1, 1000}",      3),
           ("q2",   2, "{}",    1, 2, 0,   1,  "{1, 1000}",      2),
           ("q3",   2, "{2}",   1, 2, 0,   1,  "{1, 1000}",      2),
           ("q4",   1, "{}",    2, 2, 0,   1,  "{1, 1000}",      2),
           # 4 calls: set_timer, suspend, (fire while suspended: disarmed with count<<1|MARKER), set_timer, resume
           ("q5",   1, "{}",    1, 2, 0,   1,  "{1, 1000}",      4)]
TIMER_T = [("q2h3", 2, "{}",    1, 3, 0,   1,  "{1, 1000}",      2),
           ("q3h3", 2, "{2}",   1, 3, 0,   1,  "{1, 1000}",      2),
           ("t1",   1, "{}",    1, 5, 1,   2,  "{1, 2, 1000}",   3),
           ("t2",   3, "{}",    1, 3, 0,   1,  "{1, 1000}",      2),
           ("t3",   2, "{2}",   2, 2, 0,   1,  "{1, 1000}",      2),
           ("t4",   1, "{}",    2, 3, 0,   1,  "{1, 2, 1000}",   2)]
TIMER_MUTANTS = (("early", {}), ("missed_off", {}), ("noreprog", {}), ("honour_old", {}),
                 ("configure_keeps_pending_when_disarmed", {}),
                 # the same, restricted to pending data of a fire that found the source suspended: needs the bounds of q5
                 ("configure_keeps_pending_suspended_fire", dict(Horizon="2", MaxCalls="4")))


def timer_layer(v, tier, seed):
    jobs = []
    for name, nt, aft, nc, h, past, mx, ivs, calls in (TIMER_Q if tier == "quick" else TIMER_Q + TIMER_T):
        cfg = cfg_from("Timer_q.cfg", "Timer_%s.cfg" % name, NTimers=str(nt), AfterSet=aft, NClocks=str(nc), Horizon=str(h),
                       PastDelta=str(past), MaxDelta=str(mx), Intervals=ivs, MaxCalls=str(calls))
        jobs.append(("Timer_%s (timers=%d after=%s clocks=%d horizon=%d deltas=-%d..%d intervals=%s calls<=%d)" %
                     (name, nt, aft, nc, h, past, mx, ivs, calls), cfg, None, False))
    live = [("live", dict(Horizon="2"))] if tier == "quick" else [("live", {}), ("live2", dict(Horizon="4", Intervals="{1, 2, 1000}"))]
    for name, sub in live:
        cfg = cfg_from("Timer_live.cfg", "Timer_%s.cfg" % name, **sub)
        jobs.append(("Timer_%s (FairSpec: Fires, AfterFires)" % name, cfg, None, True))
    for mut, sub in TIMER_MUTANTS:
        cfg = cfg_from("Timer_q.cfg", "Timer_mut_%s.cfg" % mut, Mut='"%s"' % mut, **sub)
        jobs.append(("Timer mutant " + mut, cfg, mut, False))
    # ownership: an ARMED timer re-set from its own handler (2 set_timer calls, old interval 5 > horizon: nothing but the new
    # settings can wake the manager).  Unmutated: all invariants + liveness Fires / ConfigApplied + the action properties.
    cfg = cfg_from("Timer_reset.cfg", "Timer_reset.cfg")
    jobs.append(("Timer_reset (FairSpec: armed timer re-set from its handler; Fires, ConfigApplied, ownership)", cfg, None, True))
    # ... and the mutant (= seeded change C11-4), refuted three times independently
    m = '"worker_configures_armed"'
    cfg = relist(cfg_from("Timer_q.cfg", "Timer_mut_wca_action.cfg", Mut=m), "INVARIANTS", None)
    jobs.append(("Timer mutant worker_configures_armed (action property only)", cfg, ("expect", "worker_configures_armed/ownership", ("HeapMutatedOnlyByOwner",)), False))
    cfg = relist(relist(cfg_from("Timer_q.cfg", "Timer_mut_wca_cover.cfg", Mut=m), "INVARIANTS", "ProgrammedCoversHeap"), "PROPERTIES", None)
    jobs.append(("Timer mutant worker_configures_armed (ProgrammedCoversHeap only)", cfg, ("expect", "worker_configures_armed/cover", ("ProgrammedCoversHeap",)), False))
    cfg = relist(relist(cfg_from("Timer_reset.cfg", "Timer_mut_wca_live.cfg", Mut=m), "PROPERTIES", "Fires"), "INVARIANTS", None)
    jobs.append(("Timer mutant worker_configures_armed (liveness Fires only, no unrelated wake-up)", cfg, ("expect", "worker_configures_armed/liveness", ("temporal",)), False))
    # the pinned code's configure window (known finding KF_WINDOW): take, then clear, when _dispatch_timers_run configures
    cfg = cfg_from("Timer_q.cfg", "Timer_dev_pinned_configure_window.cfg", Mut='"pinned_configure_window"')
    jobs.append(("Timer deviation pinned_configure_window", cfg, "deviation", False))
    # the variant of "forget to reprogram" that the design survives (informational, thorough only)
    if tier == "thorough":
        cfg = cfg_from("Timer_q.cfg", "Timer_mut_noreprog_removed.cfg", Mut='"noreprog_removed"')
        jobs.append(("Timer benign-mutant noreprog_removed", cfg, "benign", False))

    def onejob(j):
        name, cfg, mut, liveness = j
        return tlc_must_pass(name, "Timer.tla", cfg, timeout=3000 if tier == "thorough" else 900, workers=4,
                             metaname="C11_" + os.path.basename(cfg), heap="6g" + GC)
    with concurrent.futures.ThreadPoolExecutor(4 if tier == "quick" else 3) as ex:
        results = list(ex.map(onejob, jobs))
    for (name, cfg, mut, liveness), r in zip(jobs, results):
        if mut is None:
            v.add_model(name, r)
            if r.violated:
                v.violation("spec %s violates %s: the timer algorithm as transcribed breaks the property" % (name, r.violated),
                            save_replay(PROP, os.path.basename(cfg) + ".tlc.out", r.out))
            elif liveness and "Checking temporal properties" not in r.out and "temporal properties" not in r.out:
                raise Broken("liveness was not checked for %s" % name)
        elif isinstance(mut, tuple):
            _, label, expected = mut
            if r.violated not in expected:
                raise Broken("spec mutant %s of Timer: expected TLC to report %s, got %s: the ownership properties are vacuous in these bounds\n%s"
                             % (label, "/".join(expected), r.violated, r.out[-1500:]))
            v.notes.setdefault("spec_mutants_refuted", []).append({"spec": "Timer", "mutant": label, "by": r.violated, "depth": r.depth})
        elif mut == "deviation":
            if r.violated != "OnlyNewConfig":
                raise Broken("Timer.tla with the pinned take-then-clear order of _dispatch_timer_unote_configure in _dispatch_timers_run "
                             "(Mut=pinned_configure_window) does not violate OnlyNewConfig within the quick bounds (%s)" % r.violated)
            v.notes["pinned_deviation_configure_window"] = ("Timer.tla, Mut=pinned_configure_window (configure called by _dispatch_timers_run takes the "
                                                            "configuration, then clears ds_pending_data): TLC shows OnlyNewConfig violated at depth %d; "
                                                            "with the atomic Configure (clear before take) all configurations satisfy it" % r.depth)
        elif mut == "benign":
            v.notes["benign_mutant_noreprog_removed"] = ("not reprogramming after the minimum is REMOVED is %s by TLC "
                                                         "(the kernel timer then fires early and merge_timer forces a reprogram)" %
                                                         ("refuted (%s)" % r.violated if r.violated else "not refuted"))
        else:
            if not r.violated:
                raise Broken("spec mutant %s of Timer not refuted: the invariants are vacuous in these bounds" % mut)
            v.notes.setdefault("spec_mutants_refuted", []).append({"spec": "Timer", "mutant": mut, "by": r.violated})


# ----------------------------------------------------------------------------------------------
# layer 3: the spec's invariants as oracles on real timers
# ----------------------------------------------------------------------------------------------
KF_WINDOW = "configure-window-latch-race"


def timer_failure(v, s, n, span, rc, err, fail, what, steer=None, directed=False):
    """A failed population: a violation, unless its signature is a listed known finding."""
    j = None
    if os.path.exists(fail):
        try:
            j = json.load(open(fail))
        except ValueError:
            j = None
    lines = " ".join(l for l in err.splitlines() if "ORACLE-FAIL" in l or "CRASH" in l)[:1200]
    if rc == 2 and j and j.get("signature") == "configure-window" and \
            any(f.get("key") == KF_WINDOW for f in known_findings(PROP)["findings"]):
        if not any(KF_WINDOW in k for k in v.known):
            t = j.get("timer", {})
            v.known.append("%s: a handler invocation delivered a count of the replaced configuration after dispatch_source_set_timer had "
                           "returned: its invoke latched ds_pending_data while _dispatch_timer_unote_configure, called by _dispatch_timers_run "
                           "on the manager, had taken the new configuration but not yet cleared the word (%s; drv_timer seed %d%s; law %s; "
                           "configs %s; last events %s)" % (KF_WINDOW, "manager stalled %s us at that instruction by the directed population"
                                                             % j.get("steer_us") if j.get("steer_us") else "undirected population", s,
                                                             " C11_STEER_CFG_WINDOW=%s" % steer if steer else "", j.get("law"),
                                                             json.dumps(t.get("configs"))[:400], json.dumps(t.get("last_events(what,gen,now,data,aux)"))[:500]))
        v.notes["known_finding_hits_" + KF_WINDOW] = v.notes.get("known_finding_hits_" + KF_WINDOW, 0) + 1
        return
    if j is not None:
        if directed:
            j["directed_reset"] = 1
            j["ntimers"], j["span_ms"] = n, span
            with open(fail, "w") as f:
                json.dump(j, f)
        p = save_replay(PROP, "timer_seed%d.json" % s, src=fail)
    else:
        p = save_replay(PROP, "timer_seed%d.json" % s, json.dumps({"seed": s, "ntimers": n, "span_ms": span, "steer_us": steer or 0,
                                                                     "directed_reset": int(directed), "stderr": err[-3000:]}))
    v.violation("%s (drv_timer seed %d, %d timers%s): %s" % (what, s, n, ", C11_STEER_CFG_WINDOW=%s" % steer if steer else "", lines), p)


def directed_configure_window(v, tier, seed):
    """Directed populations for the window between 'take the configuration' and 'clear ds_pending_data' when
    _dispatch_timers_run configures a timer (no drain lock): one fire is left pending behind a busy target queue (timer still
    armed), set_timer from a foreign thread, the second fire makes the manager configure and the harness stalls the manager for
    30 ms between the two accesses (= a preemption at that instruction), the queue drains meanwhile.  The ordinary oracles
    judge.  On the pinned tree this is the listed known finding; with the accesses in the safe order it passes."""
    drv = build_driver("drv_timer")
    d = rundir(PROP)
    steer = "30000"
    seeds = [seed * 100000 + 9000 + i for i in range(2 if tier == "quick" else 6)]

    def one(s):
        fail = os.path.join(d, "timerfail_%d.json" % s)
        if os.path.exists(fail):
            os.unlink(fail)
        rc, out, err = sh([drv, str(s), "40", "300", fail], timeout=180, env={"C11_STEER_CFG_WINDOW": steer})
        return s, rc, out, err, fail
    with concurrent.futures.ThreadPoolExecutor(len(seeds)) as ex:
        res = list(ex.map(one, seeds))
    stalls = 0
    for s, rc, out, err, fail in res:
        if rc in (2, 70, 71, 124):
            timer_failure(v, s, 40, 300, rc, err, fail, "directed configure-window population: an oracle (invariant of spec/Timer.tla) failed on a real timer"
                          if rc == 2 else "directed configure-window population: crash / hang (rc %d)" % rc, steer=steer)
        elif rc != 0:
            raise Broken("drv_timer (directed) failed rc=%d: %s %s" % (rc, out[-500:], err[-1000:]))
        else:
            stalls += json.loads(out.strip().splitlines()[-1]).get("steer_stalls", 0)
            v.traces += 1
    hits = v.notes.get("known_finding_hits_" + KF_WINDOW, 0)
    v.notes["directed_configure_window"] = {"populations": len(seeds), "manager_stalls_in_passing_populations": stalls, "known_finding_hits": hits}
    if not hits and not v.violations:
        if stalls == 0:
            raise Broken("the directed configure-window populations never reached _dispatch_timer_unote_configure from _dispatch_timers_run "
                         "(no stall executed): the scenario is vacuous")
        if any(f.get("key") == KF_WINDOW for f in known_findings(PROP)["findings"]):
            v.notes["known_finding_not_observed_" + KF_WINDOW] = "no directed population showed it on this tree (repaired?)"


def directed_reset_armed(v, tier, seed):
    """Directed populations for the ownership of the heaps (Timer.tla: TPost / OffManagerMayConfigure, liveness ConfigApplied + Fires
    in Timer_reset.cfg): one timer at a time on private serial queues, no global queue, no other timer - nothing but the timer
    itself can wake the manager.  An armed repeating timer re-sets itself from its own handler; the driver judges
    FollowsNewSettings (overdue by > 400 ms at the new start AND every thread of the process asleep for 300 ms: the timerfd
    is not programmed for it) next to the ordinary NeverEarly / CountBound / OnlyNewConfig oracles."""
    drv = build_driver("drv_timer")
    d = rundir(PROP)
    procs, rounds = (4, 10) if tier == "quick" else (8, 30)
    seeds = [seed * 100000 + 7000 + i for i in range(procs)]

    def one(s):
        fail = os.path.join(d, "timerfail_%d.json" % s)
        if os.path.exists(fail):
            os.unlink(fail)
        rc, out, err = sh([drv, str(s), str(rounds), "0", fail], timeout=400, env={"C11_DIRECTED_RESET": "1"})
        return s, rc, out, err, fail
    with concurrent.futures.ThreadPoolExecutor(procs) as ex:
        res = list(ex.map(one, seeds))
    tot = collections.Counter()
    for s, rc, out, err, fail in res:
        if rc in (2, 70, 71, 124):
            what = {2: "directed re-set population (armed timer re-sets itself from its handler, idle process): an oracle (invariant / liveness "
                       "obligation of spec/Timer.tla) failed on a real timer", 70: "directed re-set population: crash inside libdispatch",
                    71: "directed re-set population: Fires", 124: "directed re-set population (normally ~2 s) did not complete within 400 s"}[rc]
            timer_failure(v, s, rounds, 0, rc, err, fail, what, directed=True)
            continue
        if rc != 0:
            raise Broken("drv_timer (directed re-set) failed rc=%d: %s %s" % (rc, out[-500:], err[-1000:]))
        j = json.loads(out.strip().splitlines()[-1])
        for k in ("dir_rounds", "dir_timing_detectable", "dir_on_time", "dir_late_unproven", "dir_inconclusive", "dir_reset_while_armed",
                  "dir_applied_by_manager", "handler_invocations", "exact_checks", "takes_tq_nomarker"):
            tot[k] += j.get(k, 0)
        tot["dir_max_late_us"] = max(tot["dir_max_late_us"], j.get("dir_max_late_us", 0))
        tot["populations"] += 1
        v.traces += j.get("dir_rounds", 0)
    v.notes["directed_reset_armed"] = dict(tot)
    if not v.violations and tot["populations"]:
        if tot["dir_reset_while_armed"] == 0:
            raise Broken("directed re-set populations: no timer was still armed when its handler called dispatch_source_set_timer: the scenario is vacuous")
        if tot["dir_on_time"] + tot["dir_late_unproven"] + tot["dir_inconclusive"] != tot["dir_rounds"]:
            raise Broken("directed re-set populations: rounds unaccounted for: %s" % dict(tot))
        if tot["dir_late_unproven"]:
            log("C11: %d directed rounds were invoked later than the slack without proof of an idle process (machine load); max %d us"
                % (tot["dir_late_unproven"], tot["dir_max_late_us"]))


def real_timers(v, tier, seed):
    drv = build_driver("drv_timer")
    d = rundir(PROP)
    rounds, procs, ntimers, span = (2, 6, 120, 700) if tier == "quick" else (10, 8, 200, 1500)
    tot = collections.Counter()
    for rnd in range(rounds):
        seeds = [seed * 100000 + rnd * 100 + i + 1 for i in range(procs)]

        def one(s):
            fail = os.path.join(d, "timerfail_%d.json" % s)
            if os.path.exists(fail):
                os.unlink(fail)
            n = ntimers if s % 3 else ntimers // 4          # small populations too (near-empty heaps)
            rc, out, err = sh([drv, str(s), str(n), str(span), fail], timeout=180)
            return s, n, rc, out, err, fail
        with concurrent.futures.ThreadPoolExecutor(procs) as ex:
            res = list(ex.map(one, seeds))
        for s, n, rc, out, err, fail in res:
            if rc in (2, 70, 71, 124):
                what = {2: "an oracle (invariant of spec/Timer.tla) failed on a real timer", 70: "crash inside libdispatch",
                        71: "Fires: an armed, unsuspended, uncancelled timer never fired",
                        124: "the population (normally ~2 s) did not complete within 180 s: timers or the driver's queues are stuck"}[rc]
                timer_failure(v, s, n, span, rc, err, fail, what)
                continue
            if rc != 0:
                raise Broken("drv_timer failed rc=%d: %s %s" % (rc, out[-500:], err[-1000:]))
            j = json.loads(out.strip().splitlines()[-1])
            for k in ("timers", "sources", "after_blocks", "set_timer_calls", "handler_invocations", "exact_checks", "weak_checks",
                      "after_runs", "zero_data_invocations", "inconclusive_wall_step", "bound_checks", "bind_mismatch", "configures",
                      "configure_on_disarmed_pending", "configure_on_armed_pending", "scen_susp_fire", "scen_busy_queue",
                      "scen_slow_handler", "scen_oneshot_fired"):
                tot[k] += j.get(k, 0)
            tot["populations"] += 1
            v.traces += j["timers"]
            if len(v.samples) < 5 and rnd == 0 and s == seeds[0]:
                v.samples.append({"real_timer_population": j})
        if v.violations:
            break
    v.notes["real_timer_oracles"] = dict(tot)
    if not v.violations:
        if tot["configure_on_disarmed_pending"] == 0:
            raise Broken("no real timer was reconfigured while disarmed with undelivered pending data (fire while suspended / queue busy, "
                         "then set_timer): the reconfiguration scenarios of drv_timer are vacuous")
        if tot["bound_checks"] * 2 < tot["handler_invocations"]:
            v.drift.append("drv_timer: only %d of %d handler invocations could be bound to the needs-configuration load of their invoke "
                           "(hooked atomics on dt_pending_config out of date?): the others were judged by the weak rule"
                           % (tot["bound_checks"], tot["handler_invocations"]))
        if tot["bind_mismatch"]:
            v.drift.append("drv_timer: %d invocations of own-queue-controlled timers: the generation derived from the hooked words differs "
                           "from the generation in force on the serial queue (both are meant to be exact)" % tot["bind_mismatch"])


# ----------------------------------------------------------------------------------------------
# layer 3b: trace validation of the manager's decisions (H5 probes) against spec/TimerTrace.tla
# ----------------------------------------------------------------------------------------------
def probes_present():
    try:
        return '"tm_run"' in open(os.path.join(REPO, "src", "event", "event.c"), errors="replace").read() and \
               '"tm_kprog"' in open(os.path.join(REPO, "src", "event", "event_epoll.c"), errors="replace").read()
    except OSError:
        return False


def validate_timer_trace(path, meta):
    r = tlc("TimerTrace.tla", "TimerTrace.cfg", workers=1, timeout=900, env={"TRACE": path}, dfs=True,
            metaname=meta, heap="2g" + GC, extra=["-difftrace"])
    if r.timeout:
        raise Broken("trace validation timed out (%s)" % path)
    if r.rc != 0 and r.violated is None and not r.accepted:
        raise Broken("TLC failed during trace validation of %s (rc=%s):\n%s" % (path, r.rc, r.out[-3000:]))
    why = ""
    if r.violated:
        m = re.search(r'bad = <<\s*"(LAW|DRIFT)",\s*"([^"]*)"', r.out, flags=re.S)
        ls = re.findall(r"/\\ l = (\d+)", r.out)
        k = int(ls[-1]) - 1 if ls else 0
        lines = open(path).read().splitlines()
        why = "%s; record #%d: %s" % (m.group(2) if m else r.violated, k, " | ".join(lines[max(1, k - 6):k]))
    return r, why


def timer_traces(v, tier, seed):
    if not probes_present():
        v.notes["trace_validation"] = "skipped: the guarded H5 probes (patches/C11-hook-timer-probes.diff) are not in this tree"
        log("C11: trace validation of the manager's timer decisions skipped (H5 probes not applied)")
        return
    drv = build_driver("drv_timer")
    d = rundir(PROP)
    ntr, ntimers, span, batch, ndir, dir_rounds = (4, 30, 400, 5, 1, 12) if tier == "quick" else (16, 40, 600, 4, 4, 25)
    seeds = [seed * 100000 + 5000 + i for i in range(ntr)]
    # recorded executions of the directed re-set population too (an armed timer re-sets itself from its handler, nothing else
    # pending): the trace spec judges them (ownership laws), the driver's own oracles are off (they judge the same population
    # in directed_reset_armed)
    dseeds = set(seed * 100000 + 5500 + i for i in range(ndir))
    seeds += sorted(dseeds)
    tot = collections.Counter()

    def one(s):
        tr = os.path.join(d, "timertrace_%d.ndjson" % s)
        fail = os.path.join(d, "timertracefail_%d.json" % s)
        for f in (tr, fail):
            if os.path.exists(f):
                os.unlink(f)
        if s in dseeds:
            rc, out, err = sh([drv, str(s), str(dir_rounds), "0", fail, tr], timeout=400, env={"C11_DIRECTED_RESET": "1", "C11_TRACE_ONLY": "1"})
        else:
            rc, out, err = sh([drv, str(s), str(ntimers), str(span), fail, tr], timeout=180)
        j = json.loads(out.strip().splitlines()[-1]) if rc == 0 else None
        return s, rc, out, err, fail, j, tr
    with concurrent.futures.ThreadPoolExecutor(4) as ex:
        res = list(ex.map(one, seeds))
    good = []
    for s, rc, out, err, fail, j, tr in res:
        if rc in (2, 70, 71, 124):
            p = save_replay(PROP, "timer_seed%d.json" % s, src=fail) if os.path.exists(fail) else \
                save_replay(PROP, "timer_seed%d.json" % s, json.dumps({"seed": s, "ntimers": ntimers, "span_ms": span, "stderr": err[-3000:]}))
            v.violation("real timers (trace mode, seed %d): %s" % (s, " ".join(l for l in err.splitlines() if "ORACLE-FAIL" in l or "CRASH" in l)[:1200]), p)
        elif rc != 0:
            raise Broken("drv_timer (trace mode) failed rc=%d: %s" % (rc, err[-1000:]))
        else:
            if not j["trace_exact"]:
                v.drift.append("timer trace seed %d: a probe record referred to a timer never seen armed (probes out of date?)" % s)
            good.append((s, j, tr))
    # the recorded executions are validated a few per TLC run (a reset record between them)
    for k in range(0, len(good), batch):
        part = good[k:k + batch]
        hdr = os.path.join(d, "timertrace_batch%d.ndjson" % k)
        with open(hdr, "w") as f:
            f.write(json.dumps({"e": "Header", "nt": max(1, max(j["trace_slots"] for _, j, _ in part)), "seeds": [s for s, _, _ in part]}) + "\n")
            for i, (s, j, tr) in enumerate(part):
                if i:
                    f.write('{"e":"reset","seed":%d}\n' % s)
                f.write(open(tr).read())
                os.unlink(tr)
        r, why = validate_timer_trace(hdr, "C11_trace_%d" % k)
        if r.accepted and not r.violated:
            v.traces += len(part)
            v.states += r.distinct
            v.transitions += r.generated
            tot["traces_accepted"] += len(part)
            tot["records"] += sum(j["trace_records"] for _, j, _ in part)
            tot["configure_records"] += sum(j.get("trace_configures", 0) for _, j, _ in part)
            tot["configure_on_disarmed_pending"] += sum(j.get("configure_on_disarmed_pending", 0) for _, j, _ in part)
            tot["directed_reset_traces"] += sum(1 for s, _, _ in part if s in dseeds)
            tot["directed_resets_while_armed"] += sum(j.get("dir_reset_while_armed", 0) for _, j, _ in part)
            # cfgtake records made by a thread other than the manager (legitimate: marker latched, timer out of the heap)
            tot["cfgtake_off_manager"] += sum(j.get("trace_offmgr_takes", 0) for _, j, _ in part)
            tot["heap_records_off_manager"] += sum(j.get("trace_offmgr_heap_records", 0) for _, j, _ in part)
            if any(j.get("manager_threads", 1) != 1 for _, j, _ in part):
                v.drift.append("timer traces (seeds %s): the manager thread could not be identified uniquely" % [s for s, _, _ in part])
            if k == 0:
                v.samples.append({"manager_trace_accepted": {"seed": part[0][0], "records": part[0][1]["trace_records"],
                                                             "excerpt": open(hdr).read().splitlines()[1:9]}})
            os.unlink(hdr)
        elif r.violated == "NoLawBroken":
            p = save_replay(PROP, "timertrace_seed%d.ndjson" % part[0][0], src=hdr)
            v.violation("a recorded execution of the real timer machinery (drv_timer seeds %s) is not a behaviour of spec/TimerTrace.tla: %s"
                        % ([s for s, _, _ in part], why), p)
        elif r.violated == "NoDrift":
            v.drift.append("timer traces (seeds %s) not explained structurally (probes / TimerTrace.tla out of date): %s"
                           % ([s for s, _, _ in part], why[:500]))
        else:
            raise Broken("unexpected result of trace validation: %s\n%s" % (r.violated, r.out[-2000:]))
    v.notes["trace_validation"] = dict(tot)


def run(tier, seed):
    v = Verdict(PROP, tier, seed)
    v.assumptions = [
        "TLC bounds: see models; heap: complete state graphs for <=3-4 timers with keys 0..2 (real C=8) and 5-6 timers at C=4, "
        "random behaviours with <=40 timers; timers: <=3 timers, <=2 clocks, horizon <=5 ticks, <=3 control calls",
        "the timerfd/epoll kernel interface delivers an expiry at or after the programmed absolute time (KernelFire)",
        "the queue machinery delivers wakeups of a source to the manager / target queue (properties C01, C06)",
        "real executions are samples of schedules and populations, not all of them; deadlines/leeway play no role on this backend",
    ]
    ev = os.path.join(REPO, "src", "event", "event.c")
    if "_dispatch_verif_timer_heap_insert" not in open(ev, errors="replace").read():
        raise Broken("the guarded heap shim (patches/C11-hook-heap-shim.diff, hook H4) is not present at the end of %s: "
                     "the static timer heap functions cannot be reached" % ev)
    # build first (the build scripts are not meant to run concurrently for one tree) ...
    build_driver("drv_timerheap")
    build_driver("drv_timer")
    # ... then the three layers are independent: real timers need wall-clock time, TLC needs CPU
    subs = [Verdict(PROP, tier, seed) for _ in range(4)]

    def real(sv):
        real_timers(sv, tier, seed)
        directed_configure_window(sv, tier, seed)
        directed_reset_armed(sv, tier, seed)
        # (also after a failed oracle: a deviation is then reported both as seen from outside and as a broken law of the trace spec)
        timer_traces(subs[3], tier, seed)
    with concurrent.futures.ThreadPoolExecutor(3) as ex:
        fs = [ex.submit(real, subs[0]), ex.submit(heap_layer, subs[1], tier, seed),
              ex.submit(timer_layer, subs[2], tier, seed)]
        errs = []
        for f in fs:
            try:
                f.result()
            except Exception as e:
                errs.append(e)
    for sv in subs[1:] + subs[:1]:
        v.states += sv.states
        v.transitions += sv.transitions
        v.traces += sv.traces
        v.samples += sv.samples
        v.violations += sv.violations
        v.known += sv.known
        v.drift += sv.drift
        v.models += sv.models
        for k, val in sv.notes.items():
            if isinstance(val, list):
                v.notes.setdefault(k, []).extend(val)
            else:
                v.notes[k] = val
    if errs and not v.violations:
        raise errs[0]
    return v.finish()


def replay(path, seed):
    path = os.path.abspath(path)
    if path.endswith(".vec"):
        drv = build_driver("drv_timerheap")
        rc, out, err = sh([drv, path], timeout=900)
        print(out[-2000:], err[-3000:])
        return 0 if rc == 0 else 1
    if path.endswith(".ndjson"):
        r, why = validate_timer_trace(path, "C11_replay")
        print("accepted" if r.accepted and not r.violated else "REJECTED (%s): %s" % (r.violated, why))
        return 0 if r.accepted and not r.violated else 1
    if path.endswith(".json") and "timer_seed" in os.path.basename(path):
        j = json.load(open(path))
        print(json.dumps(j, indent=1)[:6000])
        drv = build_driver("drv_timer")
        bad = 0
        for k in range(3):          # timing is not deterministic: same population, three executions
            rc, out, err = sh([drv, str(j["seed"]), str(j.get("ntimers", 120)), str(j.get("span_ms", 700))], timeout=400,
                              env={"C11_STEER_CFG_WINDOW": str(j["steer_us"])} if j.get("steer_us") else
                              {"C11_DIRECTED_RESET": "1"} if j.get("directed_reset") else None)
            print("re-execution %d: rc=%d %s" % (k, rc, (err.strip().splitlines() or [""])[0][:400]))
            bad += rc != 0
        return 1 if bad else 0
    print(open(path).read()[-4000:])
    return 1
