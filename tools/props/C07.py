"""C07 - groups complete exactly when their count returns to zero.
(A) TLC: Group.tla (one action per atomic access / futex call of dispatch_group in semaphore.c; several groups,
    dispatch_group_async items with ItemStart / nested calls / ItemEnd / the library's leave), all
    interleavings of 3 threads running bounded client programs (enter/leave/async/notify, NOW, timed and
    untimed waits, >= 2 generations; two groups with an item of A that asyncs / enters / notifies into B from
    inside its block); invariants = the property (per group: count conservation = every enter balanced by a
    leave ON THE SAME GROUP); liveness under fairness on small programs; spec mutants; reachability witnesses.
(B) trace validation: recorded executions of the real dispatch_group (random histories over 2-3 groups alive at
    once, items that submit nested work to other groups, under schedule perturbation + a steered reproduction of
    finding F2) vs GroupTrace.tla, invariants in every state; the library's leave after an item's callout
    must be on the group that item entered.
(V1) API oracles in the driver (wait()==0 => count was zero, timeouts not early, every notification / item ran
    exactly once, every group back to zero at quiescence, nothing left behind = no hang).
KNOWN FINDING F2 (DESIGN.md section 9): a notifier pushed between a zero decision and the list snapshot of
_dispatch_group_wake is submitted although work entered before its notify call has not left.  The property
(NotifyNotEarly) is kept as stated; the ghost classification earlyF2 / earlyOther splits it: only the F2 class
is reported as KNOWN-FINDING, any other early / duplicate / lost notification is a VIOLATION."""
import os, re, json, concurrent.futures as cf
from vlib import *

PROP = "C07"
F2_KEY = "notifier pushed between a zero decision and the list snapshot by a thread with an outstanding enter"
SAFETY = "TypeOK WaitOkImpliesZero TimeoutOnlyAfterTimeout NotifyOnce NotifyNotEarlyExceptF2 FiredWasPushed NothingLeft Reusable StuckFree"
MC = "GroupMC.tla"

# spec mutant -> invariants it is checked against (the first violated one is recorded)
MUTANTS = [
    ("leave_nowake", "NothingLeft StuckFree"),      # _dispatch_group_wake does not futex-wake
    ("wait_nogen", "WaitOkImpliesZero"),            # wait_slow returns 0 after any wake-up without comparing gen
    ("notify_nobit", "NothingLeft"),                # the first pusher forgets HAS_NOTIFS on a non-empty group
    ("wake_noclear", "NotifyOnce"),                 # wake fires the list without clearing it -> fired twice
    ("leave_anyvalue", "NotifyNotEarlyExceptF2"),   # leave runs the wake path whatever old_value was
]
# two groups: the leave after a dispatch_group_async block goes to the group the block last submitted to (the
# continuation was reused) instead of the group the item entered; refuted by each of these on its own
MUT2G = "async_leaves_last_touched_group"
MUTANTS_2G = ["TypeOK", "WaitOkImpliesZero", "NotifyNotEarlyExceptF2"]
TRACE_HDR = {"maxn": 12, "ng": 3}


def cfg_text(prog, invs, mut="none", workers="{}", spur=1, props=None, fair=True, nids="{1, 2}", groups="{1}"):
    s = "SPECIFICATION %s\nCONSTANTS\n  Threads <- T3\n  Workers = %s\n  Groups = %s\n  K = 2\n  NIds = %s\n  Prog <- %s\n" \
        "  MaxSpur = %d\n  Mut = \"%s\"\n" % ("FairSpec" if fair else "Spec", workers, groups, nids, prog, spur, mut)
    if invs:
        s += "INVARIANTS %s\n" % invs
    if props:
        s += "PROPERTIES %s\n" % props
    return s + "CHECK_DEADLOCK FALSE\n"


def write_cfg(name, text):
    p = os.path.join(rundir(PROP), name + ".cfg")
    with open(p, "w") as f:
        f.write(text)
    return p


def last_state_has(out, var, val):
    m = None
    for m in re.finditer(r"/\\ %s = (\w+)" % var, out):
        pass
    return m is not None and m.group(1) == val


def model(v, tier):
    jobs = []   # (name, cfgpath, kind, expect, workers, heap, timeout)
    quick = tier == "quick"
    # --- the property on the faithful spec (F2 class excepted) ---
    jobs.append(("Group_f2.cfg", "Group_f2.cfg", "pass", None, 6, "4g", 1500))
    jobs.append(("Group_live.cfg", "Group_live.cfg", "pass", None, 2, "2g", 900))
    jobs.append(("Group_2g.cfg", "Group_2g.cfg", "pass", None, 4, "3g", 900))
    if not quick:
        jobs.append(("Group_2gt.cfg", "Group_2gt.cfg", "pass", None, 8, "8g", 2400))
        jobs.append(("Group_2glive.cfg", "Group_2glive.cfg", "pass", None, 4, "4g", 1500))
        jobs.append(("Group_live2.cfg", "Group_live2.cfg", "pass", None, 2, "3g", 1500))
        jobs.append(("Group_gen.cfg", "Group_gen.cfg", "pass", None, 8, "8g", 2400))
        jobs.append(("Group_async.cfg", "Group_async.cfg", "pass", None, 6, "6g", 2400))
        jobs.append(("Group_any.cfg", "Group_any.cfg", "pass", None, 8, "8g", 2400))
    # --- the property AS STATED: expected to fail with exactly the F2 class ---
    jobs.append(("full NotifyNotEarly", write_cfg("f2_full", cfg_text("ProgF2", "NotifyNotEarly", fair=False)),
                 "f2", None, 2, "2g", 600))
    # --- reachability witnesses: the bounds contain >= 2 completed generations ---
    jobs.append(("witness two generations", write_cfg("wit_gen", cfg_text("ProgF2", "NeverTwoGenerations", fair=False)),
                 "witness", "NeverTwoGenerations", 2, "2g", 600))
    jobs.append(("witness cross-group item", write_cfg("wit_cross", cfg_text(
        "Prog2G", "NeverCrossGroup", workers="{3}", groups="{1, 2}", spur=0, fair=False)),
        "witness", "NeverCrossGroup", 2, "2g", 600))
    # --- spec mutants ---
    for inv in MUTANTS_2G:
        jobs.append(("mutant %s/%s" % (MUT2G[:18], inv), write_cfg("mut2g_" + inv, cfg_text(
            "Prog2G", inv, mut=MUT2G, workers="{3}", groups="{1, 2}", spur=0, fair=False)),
            "mutant", MUT2G + " by " + inv, 2, "2g", 900))
    for mut, invs in MUTANTS:
        jobs.append(("mutant " + mut, write_cfg("mut_" + mut, cfg_text("ProgF2", invs, mut=mut, fair=False)),
                     "mutant", mut, 2, "2g", 900))
    jobs.append(("mutant leave_nowake (liveness)", write_cfg("mutl_leave_nowake", cfg_text(
        "ProgLive1", "TypeOK", mut="leave_nowake", spur=0, props="WaitersReleased")), "mutant", "leave_nowake/liveness", 2, "2g", 900))
    # --- observation (not judged): a registered non-first notifier can miss a zero transition ---
    jobs.append(("observation missed zero", write_cfg("obs_missed", cfg_text(
        "ProgMiss", "NoMissedZero", mut="obs_missed_zero", spur=0, fair=False)), "obs", None, 2, "2g", 600))

    def run(j):
        name, cfg, kind, expect, workers, heap, to = j
        r = tlc_must_pass(name, MC, cfg, timeout=to, workers=workers, heap=heap,
                          metaname="C07_%s.%d" % (re.sub(r"\W", "_", name), os.getpid()))
        return j, r

    with cf.ThreadPoolExecutor(max_workers=5 if quick else 4) as ex:
        results = list(ex.map(run, jobs))
    f2_in_model = False
    for (name, cfg, kind, expect, workers, heap, to), r in results:
        log("  tlc %-34s %-8s %9d states %6.1fs  %s" % (name, kind, r.distinct, r.wall, r.violated or "ok"))
        if kind == "pass":
            v.add_model(name, r)
            if r.violated:
                p = save_replay(PROP, name + ".tlc.out", r.out)
                v.violation("spec %s violates %s" % (name, r.violated), p)
        elif kind == "f2":
            v.add_model(name + " (expected: F2 counterexample)", r)
            if r.violated == "NotifyNotEarly" and last_state_has(r.out, "earlyF2", "TRUE") and \
                    last_state_has(r.out, "earlyOther", "FALSE"):
                f2_in_model = True
                save_replay(PROP, "F2_model_counterexample.tlc.out", r.out)
                v.samples.append({"model_counterexample": "NotifyNotEarly (property as stated) on ProgF2", "class": "F2",
                                  "depth": r.depth, "schedule": "T3 notify(n) on the empty group reads state 0 and decides "
                                  "to fire; T2 enter; T2 notify(m) pushes behind n (no RMW); T3 snapshots {n,m} and submits "
                                  "m while T2's work is outstanding", "last_state": {"earlyF2": True, "earlyOther": False}})
            elif r.violated:
                p = save_replay(PROP, "early_not_F2.tlc.out", r.out)
                v.violation("spec violates NotifyNotEarly outside the known class F2 (%s)" % r.violated, p)
            else:
                v.notes["f2_model"] = "NotifyNotEarly holds in the model (finding F2 not present)"
        elif kind == "witness":
            if r.violated != expect:
                raise Broken("witness %s not reached: the bounds are vacuous (%s)" % (expect, r.violated))
            v.notes.setdefault("witnesses_reached", []).append(name)
        elif kind == "mutant":
            if not r.violated:
                raise Broken("spec mutant %s not refuted: the invariants are vacuous in these bounds" % expect)
            v.notes.setdefault("spec_mutants_refuted", []).append({"mutant": expect, "by": r.violated})
        elif kind == "obs":
            v.notes["observation_not_judged"] = (
                "NoMissedZero %s: a notifier registered behind a first pusher that has not yet published HAS_NOTIFS "
                "is not fired by a zero transition that happens in that window if the group is re-entered before the "
                "first pusher's RMW; it is delivered at the next zero. Read as 'left behind at a quiescent zero' the "
                "property (NothingLeft) holds; the stricter per-transition reading is reported here, not judged."
                % ("is violated in the model" if r.violated else "holds"))
    return f2_in_model


def one_trace(args):
    i, s, perturb, execs, ops, steered, drv, d = args
    tr = os.path.join(d, "grp_%d.ndjson" % i)
    rc, out, err = sh([drv, tr, str(s), str(perturb), str(execs), str(ops), str(steered)], timeout=600)
    res = {"i": i, "seed": s, "rc": rc, "err": err, "trace": tr, "r": None, "r2": None}
    if rc in (0, 2, 70, 71) and os.path.exists(tr):
        hdr = TRACE_HDR
        res["r"] = validate_trace("GroupTrace.tla", "GroupTrace.cfg", tr, nthreads=count_threads(tr), header=hdr,
                                  metaname="C07tr%d.%d" % (i, os.getpid()), timeout=900)
        if not res["r"].accepted and rc == 0:
            res["r2"] = validate_trace("GroupTrace.tla", "GroupTrace.cfg", tr, nthreads=count_threads(tr), header=hdr,
                                       metaname="C07trb%d.%d" % (i, os.getpid()), timeout=900)
    return res


def f2seen(r):
    for x in r.printed:
        m = re.match(r'<<"F2SEEN", (\d+)>>', x)
        if m:
            return int(m.group(1))
    return 0


def context(r):
    lines = open(r.trace_with_header).read().splitlines()
    k = r.maxl or 1
    return k, " | ".join(lines[max(0, k - 4):k])


def traces(v, tier, seed):
    drv = build_driver("drv_group")
    runs = 6 if tier == "quick" else 32
    execs, ops = (25, 14) if tier == "quick" else (40, 18)
    d = rundir(PROP)
    args = [(i, seed * 1000 + i, [2, 3, 1][i % 3], execs, ops, 1 if tier == "quick" else 2, drv, d) for i in range(runs)]
    with cf.ThreadPoolExecutor(max_workers=4) as ex:
        results = list(ex.map(one_trace, args))
    f2_impl = 0
    steered_hits = 0
    nested = cross = 0
    for res in results:
        rc, err, tr, r, s = res["rc"], res["err"], res["trace"], res["r"], res["seed"]
        log("  trace seed=%d rc=%d %s %s" % (s, rc, err.strip().splitlines()[-1][-80:] if err.strip() else "",
                                         ("accepted=%s records=%s %.1fs" % (r.accepted, r.tracelen, r.wall)) if r else ""))
        m = re.search(r"early_blocks=(\d+) steered_f2_hits=(\d+)", err)
        c_early, hits = (int(m.group(1)), int(m.group(2))) if m else (0, 0)
        m = re.search(r"nested=(\d+) cross_group_async=(\d+)", err)
        if m and rc == 0:
            nested += int(m.group(1))
            cross += int(m.group(2))
        if rc in (2, 70, 71):
            what = {2: "API oracle failed", 70: "crash inside libdispatch",
                    71: "hang: a waiter or a notification was left behind"}[rc]
            p = save_replay(PROP, "fail_seed%d.ndjson" % s, src=tr) if os.path.exists(tr) else tr
            detail = ""
            if r is not None and not r.accepted:
                k, ctx = context(r)
                detail = "; " + (("invariant %s violated in the matched prefix" % r.violated) if r.violated else
                                 "first record no spec action explains is #%d" % k) + ": " + ctx
            v.violation("%s (driver seed %d)%s; driver stderr: %s" % (what, s, detail, err.strip()[-300:]), p)
            continue
        if rc != 0:
            raise Broken("driver failed rc=%d: %s" % (rc, err[-1000:]))
        if not r.accepted:
            r2 = res["r2"]
            if r2 is not None and not r2.accepted:
                k, ctx = context(r2)
                p = save_replay(PROP, "rejected_seed%d.ndjson" % s, src=r.trace_with_header)
                why = ("invariant %s violated in the matched prefix" % r2.violated) if r2.violated else \
                      "no spec action explains record %d" % k
                v.violation("trace rejected: %s; last records: %s" % (why, ctx), p)
                continue
            r = r2
        k = f2seen(r)
        if c_early > 0 and k == 0:
            p = save_replay(PROP, "early_unclassified_seed%d.ndjson" % s, src=r.trace_with_header)
            v.violation("a notification block ran while work entered before its notify call was outstanding "
                        "(driver oracle) but the accepted behaviour does not classify it as F2", p)
            continue
        if k > 0:
            f2_impl += k
            save_replay(PROP, "F2_impl_trace.ndjson", src=r.trace_with_header)
        steered_hits += hits
        v.traces += 1
        v.states += r.distinct
        v.transitions += r.generated
        if len(v.samples) < 2:
            v.samples.append({"trace": os.path.basename(tr), "records": r.tracelen, "F2_executions": k,
                              "excerpt": open(tr).read().splitlines()[0:14]})
    v.notes["f2_executions_seen_on_impl"] = f2_impl
    v.notes["nested_operations_inside_items"] = nested
    v.notes["items_that_group_async_into_another_group"] = cross
    if v.traces and cross == 0:
        raise Broken("no dispatch_group_async item submitted work to another group: the driver's histories are vacuous")
    v.notes["f2_steered_reproductions"] = steered_hits
    return f2_impl


def run(tier, seed):
    v = Verdict(PROP, tier, seed)
    v.assumptions = ["futex wait/wake behave as specified (compare-and-sleep, wake-all, spurious wake-ups allowed)",
                     "real time is not modelled: the timeout step stands for 'the full timeout has elapsed'; the driver "
                     "checks elapsed wall time >= timeout on the real library",
                     "TLC bounds: 3 threads, 1 or 2 groups, value field of 2 bits, <= 2 notifiers, <= 1 spurious wake-up; see models",
                     "hooked build serialises traced atomics with their log record (global lock)",
                     "liveness is model-checked on small programs and reduced to the safety invariants NothingLeft/"
                     "StuckFree on the larger ones (the state graph of a finite client is acyclic but for CAS retries)"]
    f2_model = model(v, tier)
    f2_impl = traces(v, tier, seed)
    if f2_model or f2_impl:
        listed = any(x.get("key") == F2_KEY for x in known_findings(PROP)["findings"])
        text = ("NotifyNotEarly: %s -> the notification is submitted although work entered before its notify call has "
                "not left (F2; model counterexample: %s; executions of the real library classified F2 by trace "
                "validation: %d)" % (F2_KEY, "yes" if f2_model else "no", f2_impl))
        if listed:
            v.known.append(text)
        else:
            p = os.path.join(replay_dir(PROP), "F2_impl_trace.ndjson" if f2_impl else "F2_model_counterexample.tlc.out")
            v.violation(text + " -- not listed in known_findings.d", p)
    return v.finish()


def replay(path, seed):
    path = os.path.abspath(path)
    if path.endswith(".tlc.out"):
        print(open(path).read()[-6000:])
        return 1
    hdr = open(path).readline()
    if '"Header"' in hdr:
        r = tlc("GroupTrace.tla", "GroupTrace.cfg", workers=1, env={"TRACE": path}, dfs=True)
    else:
        r = validate_trace("GroupTrace.tla", "GroupTrace.cfg", path, nthreads=count_threads(path), header=TRACE_HDR)
    print(r.out[-3000:])
    return 0 if r.accepted else 1
