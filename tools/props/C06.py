"""C06 - inactive and suspended queues run nothing; resume restarts them."""
from vlib import *
from props.lane_common import *
PROP = "C06"

def run(tier, seed):
    v = Verdict(PROP, tier, seed)
    v.assumptions = ["model: inline suspend count capacity 3 / transfer unit 2 (code: 63 / 32, exercised by real nesting depths up to 120)",
                     "TLC bounds: 2 clients x 2 workers"]
    run_models(v, PROP, ["Q6", "Q6b", "Q6c", "Q6d"] + (["Q6e"] if tier == "thorough" else []), timeout=3000)
    # Q6e: a concurrent queue suspended while its drainer holds a pending-barrier reservation (finding F3, fixed by
    # 45c3b37); the mutant re-creates the pinned code's double reservation and must strand the queue
    run_mutants(v, PROP, [("Q6b", "drain_ignores_suspend"), ("Q6e", "double_pending_barrier_reservation")])
    dqstate_conformance(v, PROP)
    n = 2 if tier == "quick" else 10
    runs = []
    for k in range(n):
        runs += [dict(W=1, pp=1, susp=1, inact=1, execs=10, ops=30, perturb=2 + k % 2), dict(W=2, pp=1, susp=1, execs=8, ops=30, perturb=2),
                 dict(W=0, pp=0, susp=1, inact=1, execs=6, ops=30, perturb=3, nt=4),
                 # nesting storm: depths around 32 / 63 / 64 / 96 with the slow paths held at their dq_state accesses
                 dict(W=1, pp=1, susp=2, execs=5, ops=30, perturb=2), dict(W=2, pp=0, susp=2, execs=4, ops=30, perturb=2 + k % 2)]
    drive(v, PROP, seed, runs, tier)
    return v.finish()

def replay(path, seed):
    return replay_lane(PROP, path)
