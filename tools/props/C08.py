"""C08 - semaphores conserve permits.
(A) TLC: Semaphore.tla, all interleavings of 3 threads x <=2/3 calls (all wait kinds), + spec mutants.
(B) trace validation: recorded executions of the real dispatch_semaphore vs SemaphoreTrace.tla.
(V1) API oracles in the driver (conservation, no spurious success, timeouts not early)."""
import os, json, re
from vlib import *

PROP = "C08"

def model(v, tier):
    cfgs = [("Semaphore_q.cfg", 900)] if tier == "quick" else [("Semaphore_q.cfg", 900), ("Semaphore_t.cfg", 3000)]
    for cfg, to in cfgs:
        r = tlc_must_pass(cfg, "Semaphore.tla", cfg, timeout=to, coverage=False)
        v.add_model(cfg, r)
        if r.violated:
            p = save_replay(PROP, cfg + ".tlc.out", r.out)
            v.violation("spec %s violates %s" % (cfg, r.violated), p)
    # non-vacuity: spec mutants must be refuted inside the same bounds
    for mut in ("signal_ge", "undo_noinc"):
        src = open(os.path.join(SPEC, "cfg", "Semaphore_q.cfg")).read().replace('Mut = "none"', 'Mut = "%s"' % mut)
        src = src.replace("PROPERTY WaiterReleased\n", "")
        p = os.path.join(rundir(PROP), "mut_%s.cfg" % mut)
        open(p, "w").write(src)
        r = tlc_must_pass("mutant " + mut, "Semaphore.tla", p, timeout=600)
        if not r.violated:
            raise Broken("spec mutant %s not refuted: the invariants are vacuous in these bounds" % mut)
        v.notes.setdefault("spec_mutants_refuted", []).append({"mutant": mut, "by": r.violated})

def traces(v, tier, seed):
    drv = build_driver("drv_semaphore")
    runs = 6 if tier == "quick" else 40
    execs, ops = (25, 12) if tier == "quick" else (40, 16)
    d = rundir(PROP)
    for i in range(runs):
        s = seed * 1000 + i
        perturb = [2, 3, 1][i % 3]
        tr = os.path.join(d, "sem_%d.ndjson" % i)
        rc, out, err = sh([drv, tr, str(s), str(perturb), str(execs), str(ops)], timeout=300)
        if rc in (2, 70, 71):
            what = {2: "API oracle failed", 70: "crash inside libdispatch", 71: "hang: a waiter was never released"}[rc]
            p = save_replay(PROP, "fail_seed%d.ndjson" % s, src=tr) if os.path.exists(tr) else tr
            detail = ""
            if os.path.exists(tr):
                r = validate_trace("SemaphoreTrace.tla", "SemaphoreTrace.cfg", tr, nthreads=count_threads(tr), metaname="semtrf%d" % i)
                lines = open(r.trace_with_header).read().splitlines()
                k = r.maxl or 1
                detail = "; first record no spec action explains is #%d: %s" % (k, " | ".join(lines[max(0, k - 3):k]))
            v.violation("%s (driver seed %d): %s%s" % (what, s, err.strip()[-300:], detail), p)
            continue
        if rc != 0:
            raise Broken("driver failed rc=%d: %s" % (rc, err[-1000:]))
        nt = count_threads(tr)
        r = validate_trace("SemaphoreTrace.tla", "SemaphoreTrace.cfg", tr, nthreads=nt, metaname="semtr%d" % i)
        if not r.accepted:
            r2 = validate_trace("SemaphoreTrace.tla", "SemaphoreTrace.cfg", tr, nthreads=nt, metaname="semtr%db" % i)
            if not r2.accepted:
                lines = open(r.trace_with_header).read().splitlines()
                k = r2.maxl or 1
                ctx = lines[max(0, k - 4):k]
                p = save_replay(PROP, "rejected_seed%d.ndjson" % s, src=r.trace_with_header)
                why = ("invariant %s violated in the matched prefix" % r2.violated) if r2.violated else \
                      "no spec action explains record %d" % k
                v.violation("trace rejected: %s; last records: %s" % (why, " | ".join(ctx)), p)
                continue
        if "MO_DRIFT" in r.out and not any("memory_order" in d for d in v.drift):
            v.drift.append("memory_order argument differs from the transcription (informational on TSO): " + re.findall(r'<<"MO_DRIFT".*>>', r.out)[0])
        v.traces += 1
        v.states += r.distinct
        v.transitions += r.generated
        if len(v.samples) < 2:
            v.samples.append({"trace": os.path.basename(tr), "records": r.tracelen,
                              "excerpt": open(tr).read().splitlines()[1:9]})

def run(tier, seed):
    v = Verdict(PROP, tier, seed)
    v.assumptions = ["sem_t behaves as a counting semaphore", "TLC bounds: see models",
                     "hooked build serialises traced atomics with their log record (global lock)"]
    model(v, tier)
    traces(v, tier, seed)
    return v.finish()

def replay(path, seed):
    nt = count_threads(path)
    r = tlc("SemaphoreTrace.tla", "SemaphoreTrace.cfg", workers=1, env={"TRACE": path}, dfs=True)
    print(r.out[-3000:])
    return 0 if r.accepted else 1
