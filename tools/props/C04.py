"""C04 - barriers on concurrent queues exclude and order like a writer lock."""
from vlib import *
from props.lane_common import *
from props.C02 import steer_f1
PROP = "C04"

def apply_on_queue(v, seed, tier):
    """The quantifier's 'including dispatch_apply on the queue': invocations of a dispatch_apply aimed at a custom
    concurrent queue hold reader width, so they must never overlap a barrier item of that queue.  The apply driver of
    C10 runs a writer thread (barrier_sync / barrier_async) next to the applies; here its barrier oracle, hangs and
    crashes are C04's verdict (everything else it checks belongs to C10)."""
    drv = build_driver("drv_apply")
    d = rundir(PROP)
    n = 2 if tier == "quick" else 10
    seen = 0
    for i in range(n):
        s = seed * 1000 + 700 + i
        tr = os.path.join(d, "apply_%d.ndjson" % i)
        rc, out, err = sh([drv, tr, str(s), str(2 + i % 2), "14", "64"], timeout=400)
        if rc == 124:
            raise Broken("apply driver timed out (seed %d)" % s)
        fails = re.findall(r"ORACLE-FAIL C10 (.*)", err)
        bar = [f for f in fails if "barrier" in f]
        if bar or rc in (70, 71):
            what = "; ".join(bar[:3]) or {70: "crash inside libdispatch", 71: "hang: dispatch_apply or a barrier behind it never returned"}[rc]
            pth = save_replay(PROP, "apply_fail_seed%d.ndjson" % s, src=tr) if os.path.exists(tr) else tr
            v.violation("dispatch_apply on a concurrent queue vs barrier items (driver seed %d): %s" % (s, what), pth)
        elif rc not in (0, 2):
            raise Broken("apply driver failed rc=%d: %s" % (rc, err[-500:]))
        else:
            if os.path.exists(tr):
                seen += sum(1 for x in open(tr) if x.startswith('{"e":"Start"'))
            v.traces += 1
    v.notes["apply_invocations_observed_next_to_barriers"] = seen


def run(tier, seed):
    v = Verdict(PROP, tier, seed)
    v.assumptions = ["TLC bounds: width 2, 2 clients x 2 workers, 3-4 items; dispatch_apply on the queue: Apply.tla's BarrierExcl (C10's models) + the apply driver's barrier oracle run here",
                     "real queues narrowed to width 2/3 with dispatch_queue_set_width so the model's arithmetic is exercised"]
    run_models(v, PROP, ["Q2b"] if tier == "quick" else ["Q2b", "Q2m", "Q2q", "Q2"], timeout=3000)
    run_mutants(v, PROP, [("Q2q", "upgrade_ignores_readers")])
    dqstate_conformance(v, PROP)
    n = 1 if tier == "quick" else 8
    runs = []
    for k in range(n):
        runs += [dict(W=2, pp=1, execs=8, ops=40, perturb=2), dict(W=3, pp=1, execs=8, ops=40, perturb=3, nt=4),
                 dict(W=0, pp=1, execs=8, ops=40, perturb=2, nt=4), dict(W=2, pp=1, susp=1, execs=6, ops=30, perturb=2),
                 dict(W=3, pp=0, susp=1, execs=6, ops=30, perturb=2, nt=4)]
    drive(v, PROP, seed, runs, tier)
    steer_f1(v, PROP)
    apply_on_queue(v, seed, tier)
    return v.finish()

def replay(path, seed):
    return replay_lane(PROP, path)
