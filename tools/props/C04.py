"""C04 - barriers on concurrent queues exclude and order like a writer lock."""
from vlib import *
from props.lane_common import *
from props.C02 import steer_f1
PROP = "C04"

def run(tier, seed):
    v = Verdict(PROP, tier, seed)
    v.assumptions = ["TLC bounds: width 2, 2 clients x 2 workers, 3-4 items; dispatch_apply on the queue is covered by C10",
                     "real queues narrowed to width 2/3 with dispatch_queue_set_width so the model's arithmetic is exercised"]
    run_models(v, PROP, ["Q2b"] if tier == "quick" else ["Q2b", "Q2m", "Q2q", "Q2"], timeout=3000)
    run_mutants(v, PROP, [("Q2q", "upgrade_ignores_readers")])
    dqstate_conformance(v, PROP)
    n = 1 if tier == "quick" else 8
    runs = []
    for k in range(n):
        runs += [dict(W=2, pp=1, execs=8, ops=40, perturb=2), dict(W=3, pp=1, execs=8, ops=40, perturb=3, nt=4),
                 dict(W=0, pp=1, execs=8, ops=40, perturb=2, nt=4), dict(W=2, pp=1, susp=1, execs=6, ops=30, perturb=2)]
    drive(v, PROP, seed, runs, tier)
    steer_f1(v, PROP)
    return v.finish()

def replay(path, seed):
    return replay_lane(PROP, path)
