"""C15 - sources coalesce without loss and never re-enter their handler.
(A) TLC: Source.tla (custom data sources ADD / OR / REPLACE on serial / concurrent / global targets; one
    action per shared-memory access of merge_data, source_wakeup, queue_wakeup, class_invoke, invoke2,
    latch_and_call, suspend / resume / activate), all interleavings of the configured mergers and
    drainers; the property's laws as invariants, delivery as liveness under fairness; 4 spec mutants.
(B) trace validation: recorded executions of the real library (harness/drv_source.c, hooked build)
    vs SourceTrace.tla: every atomic on ds_pending_data, the source's dq_state and du_state and every
    API event is bound to one spec action with all values compared; all invariants in every state.
(V1) API oracles in the driver on the recorded order (sum / union / last value / never zero / no
    overlap); (V2) a source at rest with pending data = a merge never delivered (exit 71)."""
import os, re, json, time, threading
from concurrent.futures import ThreadPoolExecutor
from vlib import *

PROP = "C15"
# the invariants that are the property as stated (mutants must be refuted by one of these)
PROP_INVS = "AddNoExcess AddConserved OrSubset OrConserved ReplMerged ReplLast NeverZero NoReentry NoStrand"
# (name, kinds, targets, mergers, drainers, merges, susp, refuting invariants)
MUTANTS = [
    ("latch_load_store", '"add"', '"global"', '"c1"', '"w1"', 2, 0, "AddNoExcess AddConserved NoStrand"),
    ("wakeup_nodirty", '"add"', '"global"', '"c1"', '"w1"', 2, 0, "AddConserved NoStrand"),
    ("no_drain_lock", '"add"', '"concurrent"', '"c1"', '"w1", "w2"', 3, 1, "NoReentry"),
    ("deliver_zero", '"replace"', '"global"', '"c1"', '"w1"', 2, 0, "NeverZero"),
    ("merge_load_store", '"add"', '"global"', '"c1", "c2"', '"w1"', 2, 0, "AddNoExcess AddConserved NoStrand"),
]
# variants of the transcription that are expected to keep the property (decided by TLC when a trace follows one)
DEVS = ["no_recheck", "always_wake", "always_latch"]
ALLK = '"add", "or", "replace"'
TARGETS = ["serial", "concurrent", "global"]
KINDS = ["add", "or", "replace"]


def _cfgtext(name):
    return open(os.path.join(SPEC, "cfg", name)).read()


def _derive(base, tag, subs, drop_live=False, invs=None):
    txt = _cfgtext(base)
    for k, val in subs.items():
        txt, n = re.subn(r"^  %s = .*$" % k, "  %s = %s" % (k, val), txt, flags=re.M)
        if n != 1:
            raise Broken("cannot derive %s from %s: %s" % (tag, base, k))
    if drop_live:
        txt = txt.replace("PROPERTY Live\n", "")
    if invs:
        txt = re.sub(r"^INVARIANTS .*$", "INVARIANTS " + invs, txt, flags=re.M)
    p = os.path.join(rundir(PROP), "%s.cfg" % tag)
    open(p, "w").write(txt)
    return p


def model_jobs(tier):
    """[(label, cfg path, workers, timeout)]"""
    jobs = []
    if tier == "quick":
        for n in ("q1", "q2", "q3", "q4"):
            jobs.append(("Source_%s" % n, os.path.join(SPEC, "cfg", "Source_%s.cfg" % n), 4, 600))
    else:
        # the quick configurations q1-q3 are sub-configurations of t2 / t3 / t4; the longest jobs go first
        for n in ("t5", "t4", "t6", "q4"):
            jobs.append(("Source_%s" % n, os.path.join(SPEC, "cfg", "Source_%s.cfg" % n), 5, 3000))
        # 2 mergers + 2 drainers: every kind on a global target, one kind each on the other two
        for tg, ks in (("global", KINDS), ("concurrent", ["or"]), ("serial", ["replace"])):
            jobs.append(("Source_t1/%s" % tg, _derive("Source_t1.cfg", "Source_t1_%s" % tg,
                                                      {"Targets": '{"%s"}' % tg, "Kinds": "{%s}" % ", ".join('"%s"' % k for k in ks)}), 5, 3000))
        # 4 merges
        for k in ("add", "replace"):
            jobs.append(("Source_t2/%s" % k, _derive("Source_t2.cfg", "Source_t2_%s" % k, {"Kinds": '{"%s"}' % k}), 5, 3000))
        for k in ("or", "replace"):
            jobs.append(("Source_t3/%s" % k, _derive("Source_t3.cfg", "Source_t3_%s" % k, {"Kinds": '{"%s"}' % k}), 5, 3000))
    return jobs


def run_model(job):
    label, cfg, workers, to = job
    return label, tlc_must_pass(label, "Source.tla", cfg, timeout=to, workers=workers,
                                metaname="C15_%s" % label.replace("/", "_"))


def run_mutant(m):
    name, kinds, targets, mergers, drainers, mm, ms, invs = m
    th = ", ".join(sorted(set((mergers + ", " + drainers).split(", "))))
    cfg = _derive("Source_q1.cfg", "mut_%s" % name,
                  {"Threads": "{%s}" % th, "Mergers": "{%s}" % mergers, "Drainers": "{%s}" % drainers,
                   "Kinds": "{%s}" % kinds, "Targets": "{%s}" % targets, "MaxMerges": mm, "MaxSusp": ms,
                   "HandlerMerges": "FALSE", "Mut": '"%s"' % name}, invs=invs)
    r = tlc_must_pass("mutant " + name, "Source.tla", cfg, timeout=600, workers=2, metaname="C15_mut_%s" % name)
    return name, r


# ----------------------------------------------------------------------------------------------
def trace_cfg(mut="none"):
    if mut == "none":
        return os.path.join(SPEC, "cfg", "SourceTrace.cfg")
    # under a variant only the property's own invariants are evaluated: the structural ones (who holds the
    # lock, exact accounting) describe the transcription and fail by construction in some variants
    return _derive("SourceTrace.cfg", "SourceTrace_%s" % mut, {"Mut": '"%s"' % mut}, invs="TypeOK " + PROP_INVS + " StopWhenAccepted")


def context(path, k, n=5):
    lines = open(path).read().splitlines()
    out = []
    for x in lines[max(0, k - n):k]:
        try:
            r = json.loads(x)
        except Exception:
            out.append(x[:200]); continue
        for f in ("old", "new", "st"):
            if isinstance(r.get(f), dict):
                w = r[f]
                r[f] = "sc%d%s%s%s used%d%s%s q%d owner=%s" % (w["sc"], " inactive" if w["inact"] else "", " na" if w["na"] else "",
                                                             " IB" if w["ib"] else "", w["used"], " DIRTY" if w["dirty"] else "",
                                                             " ENQ" if w["enq"] else "", w["qos"], w["owner"])
        out.append(json.dumps(r, sort_keys=True)[:260])
    return out


_dev_verdict = {}      # variant -> what it violates / None (model-checked once per run)
_explained = []        # variants that explained an earlier trace of this run: tried first
_explain_lock = threading.Lock()


def check_deviation(dev):
    if dev not in _dev_verdict:
        _dev_verdict[dev] = _check_deviation(dev)
    return _dev_verdict[dev]


def _check_deviation(dev):
    """Model-check a variant of the transcription the code was seen to follow: safety with 2 mergers + 1 drainer,
    3 merges, a suspension window, handler merges, every kind, re-enqueueing and retrying targets; liveness from an
    inactive source.  Returns the name of what it violates, or None."""
    safe = _derive("Source_q1.cfg", "dev_%s_safe" % dev, {"Kinds": "{%s}" % ALLK, "Targets": '{"global", "concurrent"}', "Mut": '"%s"' % dev})
    r = tlc_must_pass("deviation " + dev, "Source.tla", safe, timeout=1800, workers=8, metaname="C15_dev_%s" % dev)
    if r.violated:
        return r.violated
    live = _derive("Source_q4.cfg", "dev_%s_live" % dev, {"InitActive": "FALSE", "Mut": '"%s"' % dev})
    r = tlc_must_pass("deviation " + dev + " (liveness)", "Source.tla", live, timeout=1800, workers=8, metaname="C15_devl_%s" % dev)
    return r.violated


def explain_rejection(tr, nt, tag):
    """A rejected trace: does the code follow a known variant of the transcription?  Returns (harmful, text) or None.
    A variant TLC refutes makes the rejection a violation; a variant that keeps every invariant and the liveness
    property in the reference bounds is drift."""
    with _explain_lock:
        res = _explain_rejection(tr, nt, tag)
    return res


def _explain_rejection(tr, nt, tag):
    first = [x for x in _explained]
    muts = sorted(MUTANTS, key=lambda m: 0 if m[0] in first else 1)
    devs = sorted(DEVS, key=lambda d: 0 if d in first else 1)
    if first and first[0] in DEVS:
        r = _try_devs(tr, nt, tag, devs[:1])
        if r:
            return r
    for m in muts:
        r = validate_trace("SourceTrace.tla", trace_cfg(m[0]), tr, nthreads=nt, metaname="C15_trm_%s_%s" % (tag, m[0]), timeout=900)
        if r.accepted or (r.violated and r.violated != "StopWhenAccepted"):
            _explained.append(m[0])
            return True, "the code behaves like spec variant '%s' (which TLC refutes: %s)%s" % (
                m[0], m[7] if not r.violated else r.violated,
                "" if r.accepted else ": invariant %s fails on this very trace" % r.violated)
    return _try_devs(tr, nt, tag, devs)


def _try_devs(tr, nt, tag, devs):
    for dev in devs:
        r = validate_trace("SourceTrace.tla", trace_cfg(dev), tr, nthreads=nt, metaname="C15_trd_%s_%s" % (tag, dev), timeout=900)
        if r.violated and r.violated != "StopWhenAccepted":
            _explained.append(dev)
            return True, "the code behaves like spec variant '%s' and invariant %s fails on this very trace" % (dev, r.violated)
        if r.accepted:
            _explained.append(dev)
            bad = check_deviation(dev)
            if bad:
                return True, "the code behaves like spec variant '%s', which TLC refutes (%s)" % (dev, bad)
            return False, "the code follows spec variant '%s' instead of the transcription; TLC finds that variant safe and live in the reference bounds" % dev
    return None


_found = []   # violations found so far by trace jobs (later jobs are skipped: the verdict is already decided)


def run_trace(job):
    """One driver run + validation.  Returns a dict."""
    i, seed, target, perturb, nt, execs, ops, drv = job
    if _found:
        return {"i": i, "skipped": True, "viol": None, "broken": None}
    res = _run_trace(job)
    if res.get("viol"):
        _found.append(i)
    return res


def _run_trace(job):
    i, seed, target, perturb, nt, execs, ops, drv = job
    d = rundir(PROP)
    tr = os.path.join(d, "src_%d.ndjson" % i)
    for p in (tr, tr + ".hdr.ndjson"):
        if os.path.exists(p):
            os.unlink(p)
    desc = "target=%s threads=%d perturb=%d seed=%d" % (TARGETS[target], nt, perturb, seed)
    rc, out, err = sh([drv, tr, str(seed), str(perturb), str(execs), str(target), str(nt), str(ops)], timeout=420)
    res = {"i": i, "desc": desc, "trace": tr, "rc": rc, "err": err, "viol": None, "broken": None}
    if rc == 124:
        res["broken"] = "source driver timed out (%s)" % desc
        return res
    if rc not in (0, 2, 70, 71):
        res["broken"] = "source driver failed rc=%d (%s): %s" % (rc, desc, err[-800:])
        return res
    fails = [x.strip() for x in re.findall(r"ORACLE-FAIL C15 (.*)", err)]
    if not os.path.exists(tr):
        res["broken"] = "driver wrote no trace (%s) rc=%d %s" % (desc, rc, err[-400:])
        return res
    nthr = count_threads(tr)
    # once an earlier trace of this run was found to follow a variant TLC proved safe, later ones are tried against it first
    safe = [d for d in _explained if d in DEVS and _dev_verdict.get(d, "?") is None]
    if safe and rc == 0:
        r = validate_trace("SourceTrace.tla", trace_cfg(safe[0]), tr, nthreads=nthr, metaname="C15_trv%d" % i, timeout=900)
        if r.accepted:
            res["tlc"] = r
            res["drift"] = "the code follows spec variant '%s' instead of the transcription; TLC finds that variant safe and live in the reference bounds" % safe[0]
            return res
    r = validate_trace("SourceTrace.tla", trace_cfg(), tr, nthreads=nthr, metaname="C15_tr%d" % i, timeout=900)
    res["tlc"] = r
    k = r.maxl or 1
    if rc in (2, 70, 71):
        what = {2: "API oracle failed", 70: "crash inside libdispatch", 71: "a merge was never delivered (source at rest with pending data, or hang)"}[rc]
        detail = "; ".join(fails[:3]) if fails else err.strip()[-300:]
        if not r.accepted:
            detail += "; trace validation: " + (("invariant %s violated" % r.violated) if r.violated else
                                                 "first record no spec action explains is #%d: %s" % (k, " | ".join(context(r.trace_with_header, k, 3))))
        res["viol"] = ("%s (%s): %s" % (what, desc, detail), "fail")
        return res
    if not r.accepted:
        if r.violated and r.violated != "StopWhenAccepted":
            why = "invariant %s is violated in the behaviour the real library performed" % r.violated
        else:
            why = "no spec action explains record %d" % k
            m = None if _found else explain_rejection(tr, nthr, str(i))
            if m and not m[0]:
                res["drift"] = m[1] + " (first record that differs: #%d %s)" % (k, " | ".join(context(r.trace_with_header, k, 1)))
                return res
            if m:
                why += "; " + m[1]
        res["viol"] = ("trace rejected (%s): %s; last records: %s" % (desc, why, " | ".join(context(r.trace_with_header, k))), "rejected")
    return res


def run(tier, seed):
    # several TLC instances run side by side (models, trace validations): keep each heap small
    os.environ.setdefault("VERIF_TLC_HEAP", "3g")
    v = Verdict(PROP, tier, seed)
    v.assumptions = ["TLC bounds: see models (values {1,2} / {0,1,2}, <=3-4 merges, one suspension window, 3-4 threads)",
                     "the target queue is abstract (FIFO of source entries; serial = one popper at a time)",
                     "cancellation (C16), reference counts (C17) and QoS overrides are not modelled",
                     "hooked build serialises traced atomics with their log record (global lock)",
                     "REPLACE 'final merge' = last store to ds_pending_data in the recorded order"]
    drv = build_driver("drv_source")
    # ---- job lists
    mjobs = model_jobs(tier)
    if tier == "quick":
        nruns, execs, ops = 8, 10, 8
    else:
        nruns, execs, ops = 60, 20, 10
    tjobs = []
    for i in range(nruns):
        tjobs.append((i, seed * 1000 + i, i % 3, [2, 3, 1][(i // 3) % 3], 2 + (i // 9 + i) % 3, execs, ops, drv))
    results_m, results_mu, results_t = [], [], []
    # driver runs are timing-sensitive only in what they explore, not in what they judge: run them alongside TLC
    with ThreadPoolExecutor(max_workers=4 if tier == "quick" else 3) as mx, ThreadPoolExecutor(max_workers=2) as tx:
        fm = [mx.submit(run_model, j) for j in mjobs]
        fu = [mx.submit(run_mutant, m) for m in MUTANTS]
        ft = [tx.submit(run_trace, j) for j in tjobs]
        for f in fm:
            results_m.append(f.result())
        for f in fu:
            results_mu.append(f.result())
        for f in ft:
            results_t.append(f.result())
    # ---- models
    for label, r in results_m:
        v.add_model(label, r)
        if r.violated:
            p = save_replay(PROP, label.replace("/", "_") + ".tlc.out", r.out)
            v.violation("Source.tla config %s violates %s" % (label, r.violated), p)
    for name, r in results_mu:
        if not r.violated:
            raise Broken("spec mutant %s not refuted: the invariants are vacuous in these bounds" % name)
        v.notes.setdefault("spec_mutants_refuted", []).append({"mutant": name, "by": r.violated, "states": r.distinct})
    # ---- traces
    del _found[:]
    del _explained[:]
    _dev_verdict.clear()
    for res in results_t:
        if res.get("skipped"):
            v.notes["driver_runs_skipped_after_first_violation"] = v.notes.get("driver_runs_skipped_after_first_violation", 0) + 1
            continue
        if res["broken"]:
            raise Broken(res["broken"])
        r = res.get("tlc")
        if res["viol"]:
            text, kind = res["viol"]
            src = r.trace_with_header if (r is not None and hasattr(r, "trace_with_header")) else res["trace"]
            p = save_replay(PROP, "%s_%d.ndjson" % (kind, res["i"]), src=src)
            if kind == "fail":   # the verdict of the driver's oracles travels with the recorded execution
                with open(p, "a") as f:
                    f.write(json.dumps({"e": "OracleFail", "what": text[:600]}) + "\n")
            v.violation(text, p)
            continue
        if res.get("drift"):
            if not any(res["drift"][:60] == x[:60] for x in v.drift):
                v.drift.append(res["drift"])
            v.notes["traces_following_a_safe_variant"] = v.notes.get("traces_following_a_safe_variant", 0) + 1
        v.traces += 1
        v.states += r.distinct
        v.transitions += r.generated
        if "MO_DRIFT" in r.out and not any("memory_order" in x for x in v.drift):
            v.drift.append("memory_order argument differs from the transcription (informational on TSO): " +
                           re.findall(r'<<"MO_DRIFT".*>>', r.out)[0])
        v.notes["trace_records_validated"] = v.notes.get("trace_records_validated", 0) + (r.tracelen or 0)
        if len(v.samples) < 3:
            lines = open(res["trace"]).read().splitlines()
            pick = [x for x in lines if '"Pd"' in x or '"Handler' in x or '"CallMerge"' in x][:8]
            v.samples.append({"trace": os.path.basename(res["trace"]), "mode": res["desc"], "records": r.tracelen,
                              "executions": sum(1 for x in lines if '"Reset"' in x), "excerpt": pick})
    return v.finish()


def replay(path, seed):
    if path.endswith(".tlc.out"):
        print(open(path).read()[-4000:])
        return 1
    body = open(path).read().splitlines()
    if body and '"Header"' in body[0]:
        tmp = os.path.join(rundir(PROP), "replay.ndjson")
        open(tmp, "w").write("\n".join(body[1:]) + "\n")
        path = tmp
    r = validate_trace("SourceTrace.tla", trace_cfg(), path, nthreads=count_threads(path), metaname="C15_replay")
    print(r.out[-3000:])
    tail = " ".join(body[-2:]) if body else ""
    if '"Hang"' in tail or '"Crash"' in tail or '"OracleFail"' in tail:
        print("the recorded execution ended in %s" % body[-1])
        return 1
    return 0 if r.accepted else 1
