"""C05 - synchronous submission returns after completion; dispatch orders memory (TSO verdict)."""
from vlib import *
from props.lane_common import *
PROP = "C05"

def run(tier, seed):
    v = Verdict(PROP, tier, seed)
    v.assumptions = ["visibility half judged on this machine's memory model (x86-64 TSO), as the property states",
                     "group / semaphore / once hand-off edges are decided by C07 / C08 / C09's specs and drivers",
                     "TLC bounds as C01/C04"]
    run_models(v, PROP, ["Q1w", "Q2w"] if tier == "quick" else ["Q1", "Q1w", "Q2b", "Q2w", "Q2q", "Q1p"])
    run_mutants(v, PROP, [("Q1", "sync_does_not_wait")])
    dqstate_conformance(v, PROP)
    n = 1 if tier == "quick" else 8
    runs = []
    for k in range(n):
        runs += [dict(W=1, pp=1, execs=10, ops=40, perturb=2), dict(W=2, pp=1, execs=8, ops=40, perturb=3),
                 dict(W=0, pp=0, execs=8, ops=40, perturb=2, nt=4)]
    drive(v, PROP, seed, runs, tier)
    return v.finish()

def replay(path, seed):
    return replay_lane(PROP, path)
