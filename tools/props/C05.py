"""C05 - synchronous submission returns after completion; dispatch orders memory (TSO verdict)."""
from vlib import *
from props.lane_common import *
PROP = "C05"

def run(tier, seed):
    v = Verdict(PROP, tier, seed)
    v.assumptions = ["visibility half judged on this machine's memory model (x86-64 TSO), as the property states",
                     "group / semaphore / once hand-off edges are decided by C07 / C08 / C09's specs and drivers",
                     "TLC bounds as C01/C04"]
    run_models(v, PROP, ["Q1w", "Q2w"] if tier == "quick" else ["Q1", "Q1w", "Q2b", "Q2w", "Q2q", "Q1p"])
    run_mutants(v, PROP, [("Q1", "sync_does_not_wait")])
    dqstate_conformance(v, PROP)
    n = 1 if tier == "quick" else 8
    runs = []
    for k in range(n):
        runs += [dict(W=1, pp=1, execs=10, ops=40, perturb=2), dict(W=2, pp=1, execs=8, ops=40, perturb=3),
                 dict(W=0, pp=0, execs=8, ops=40, perturb=2, nt=4)]
    drive(v, PROP, seed, runs, tier)
    handoff_edges(v, seed, tier)
    if tier != "quick":
        asan_lanes(v, PROP, seed)
    return v.finish()

def handoff_edges(v, seed, tier):
    """The other hand-off edges C05 lists (dispatch_once, dispatch_semaphore, dispatch_group): their drivers carry
    'returned before completion' / payload-visibility oracles; the protocols themselves are decided by C09 / C08 / C07
    (Once.tla, Semaphore.tla, Group.tla with trace validation).  Here an oracle failure, crash or hang on one of
    these edges is a C05 violation."""
    import os
    edges = [("drv_once", lambda tr, s: [tr, str(s), "2", "30"], "dispatch_once"),
             ("drv_semaphore", lambda tr, s: [tr, str(s), "2", "15", "12"], "dispatch_semaphore"),
             ("drv_group", lambda tr, s: [tr, str(s), "2", "12", "14", "0"], "dispatch_group")]
    for name, args, what in edges:
        if not os.path.exists(os.path.join(ROOT, "harness", name + ".c")):
            continue
        drv = build_driver(name)
        for i in range(2 if tier == "quick" else 8):
            tr = os.path.join(rundir(PROP), "%s_%d.ndjson" % (name, i))
            rc, out, err = sh([drv] + args(tr, seed * 700 + i), timeout=300)
            if rc in (2, 70, 71):
                msg = {2: "hand-off oracle failed", 70: "crash", 71: "hang"}[rc]
                v.violation("%s edge: %s: %s" % (what, msg, (err.strip() or out.strip())[-300:]),
                            save_replay(PROP, "%s_fail_%d.ndjson" % (name, i), src=tr) if os.path.exists(tr) else tr)
            elif rc != 0:
                raise Broken("%s failed rc=%d: %s" % (name, rc, err[-500:]))
            else:
                v.traces += 1

def replay(path, seed):
    return replay_lane(PROP, path)
