"""C17 - objects live while referenced or busy and are finalised exactly once.

(A) TLC on Refs.tla (a copy of the lane machine of Lane.tla extended with os_obj_xref_cnt / os_obj_ref_cnt, client
    retain / release, the last release racing push / wakeup / drain / resume / sync hand-off / redirection, a child
    targeting the lane, the legacy retarget of the active lane to a queue the application then drops (R8), set_context,
    dispose, finalizer, queue-specific destructor, use-after-dispose ghost and the
    reference ledger of RefsWord.tla): all interleavings of the configurations in MCRefs.tla, safety + liveness
    (eventually disposed and finalised), + 4 spec mutants that must be refuted.
(B) code -> spec: seeded random histories on the real library (harness/drv_refs.c: queues 1-2 levels deep, sources,
    groups, semaphores, data) with every atomic access to the reference counters, dq_state role bits and the item list
    recorded in one total order; spec/RefsTrace.tla replays each record against the counter arithmetic, the ledger
    and the dispose condition of RefsWord.tla (the very operators Refs.tla is model-checked with).
(V1) API oracles evaluated by the driver on the recorded order (items exactly once although every external reference
    was dropped while they were pending; finalizer exactly once, after the last release and the last item end, on the
    target queue, with the context current at that time; destructors exactly once; none without context).
(memory-safe half, OBSERVED not decided) thorough tier: the same driver on an ASan+UBSan+LSan build."""
import os, re, json, concurrent.futures as cf
from vlib import *

PROP = "C17"
INVS = ("AtMostOnce NoStrand NoCrash NoClientCrash NoDisposeWhileBusy NoUseAfterDispose DisposeOnlyAtMinusOne "
        "Conservation LedgerRest PushHoldsRef ParkedOK FinalizerOK NoLeak NoDisposeWhileTargeted TqNoLeak")
# the property as stated, without the ledger (used to show that a mutant breaks the PROPERTY, not just the bookkeeping)
PROP_INVS = "AtMostOnce NoCrash NoDisposeWhileBusy NoUseAfterDispose DisposeOnlyAtMinusOne FinalizerOK NoLeak NoDisposeWhileTargeted TqNoLeak"
CONFIGS = {"R1": dict(W=1), "R1b": dict(W=1), "R2": dict(W=1), "R3": dict(W=1), "R4": dict(W=2), "R5": dict(W=1, child=True),
           "R6": dict(W=1, inactive=True), "R7": dict(W=1), "R4t": dict(W=2), "R8": dict(W=1)}
QUICK = ["R1", "R1b", "R2", "R5", "R6", "R8"]
THOROUGH = QUICK + ["R3", "R4", "R7"]
MUTANTS = [("R1b", "push_late_retain", PROP_INVS), ("R1", "wakeup_forgets_release", PROP_INVS),
           ("R1", "fin_on_xref_drop", PROP_INVS), ("R1", "xref_dispose_frees", PROP_INVS),
           ("R8", "retarget_retains_late", "NoDisposeWhileTargeted")]


def refs_cfg(name, mut="none", invs=INVS, live=True):
    c = CONFIGS[name]
    txt = """SPECIFICATION FairSpec
CONSTANTS
  Clients = {"c1", "c2"}
  Workers = {"w1", "w2"}
  Items <- Items%s
  Kind <- Kind%s
  Prog <- Prog%s
  Body <- Body%s
  InitInactive = %s
  TailCheckFix = TRUE
  HasChild = %s
  Ctx0 = 1
  Mut = "%s"
  W = %d
  QW = 1
  SCMAX = 3
  SCHALF = 2
  BASE = TRUE
INVARIANTS %s
%s
CHECK_DEADLOCK FALSE
""" % (name, name, name, name, "TRUE" if c.get("inactive") else "FALSE", "TRUE" if c.get("child") else "FALSE", mut,
       c["W"], invs, "PROPERTY EventuallyDisposed" if live else "")
    p = os.path.join(rundir(PROP), "Refs_%s_%s.cfg" % (name, mut))
    open(p, "w").write(txt)
    return p


def model(v, tier):
    names = QUICK if tier == "quick" else THOROUGH
    jobs = [("cfg", n, None, INVS) for n in names] + [("mut", c, m, i) for c, m, i in MUTANTS]
    par = 4 if tier == "quick" else 5
    wk = max(2, NCPU // par)

    def run(job):
        kind, name, mut, invs = job
        cfg = refs_cfg(name, mut or "none", invs, live=(kind == "cfg"))
        # generous: under machine load TLC is 3-10x slower; a timeout here is a Broken check, never a verdict
        to = 900 if kind == "mut" else (1200 if tier == "quick" else 2400)
        return job, tlc("MCRefs.tla", cfg, workers=wk, timeout=to, heap="3g", metaname="%s_%s_%s" % (PROP, name, mut or "none"))

    with cf.ThreadPoolExecutor(max_workers=par) as ex:
        results = list(ex.map(run, jobs))
    for (kind, name, mut, invs), r in results:
        if r.timeout:
            if kind == "cfg" and tier == "thorough" and name in ("R3", "R4", "R7"):
                # a thorough-only configuration that did not finish on a loaded machine: report honestly, do not fail
                v.models.append({"config": "Refs/" + name, "result": "not exhausted in the time budget",
                                 "distinct_states": r.distinct, "states_generated": r.generated, "wall_s": round(r.wall, 1)})
                continue
            raise Broken("TLC timed out on Refs/%s %s" % (name, mut or ""))
        if r.rc not in (0, 12, 13, 11) and r.violated is None:
            raise Broken("TLC failed on Refs/%s %s (rc=%s):\n%s" % (name, mut or "", r.rc, r.out[-3000:]))
        if kind == "cfg":
            v.add_model("Refs/" + name, r)
            if r.violated:
                p = save_replay(PROP, "Refs_%s.tlc.out" % name, r.out)
                v.violation("Refs.tla config %s violates %s" % (name, r.violated), p)
        else:
            if not r.violated:
                raise Broken("spec mutant %s on %s is not refuted: the bounds are vacuous" % (mut, name))
            v.notes.setdefault("spec_mutants_refuted", []).append(
                {"mutant": mut, "config": name, "by": r.violated, "states": r.distinct,
                 "invariants": "property-level only" if invs == PROP_INVS else "all"})


def simulate(v, seed):
    """Thorough only: the 3-item concurrent-lane program (readers, a barrier, a sync reader; > 1e6 states, not
    exhausted) is sampled with TLC -simulate: every behaviour runs to quiescence with all safety invariants on."""
    cfg = refs_cfg("R4t", live=False)
    r = tlc("MCRefs.tla", cfg, workers=max(2, NCPU // 2), timeout=2400, heap="3g", simulate=8000, depth=300, seed=seed,
            metaname="%s_sim_R4t" % PROP)
    if r.timeout:
        raise Broken("TLC -simulate timed out on Refs/R4t")
    m = re.search(r"number of states generated: (\d+)", r.out)
    t = re.findall(r"(\d+) traces generated", r.out)
    if r.violated:
        p = save_replay(PROP, "Refs_R4t_sim.tlc.out", r.out)
        v.violation("Refs.tla config R4t (simulation) violates %s" % r.violated, p)
    elif r.rc != 0 or not m:
        raise Broken("TLC -simulate failed on Refs/R4t (rc=%s):\n%s" % (r.rc, r.out[-2000:]))
    gen = int(m.group(1)) if m else 0
    v.transitions += gen
    v.models.append({"config": "Refs/R4t (-simulate, sampled not exhausted)", "states_generated": gen,
                     "behaviours": int(t[-1]) if t else 0, "wall_s": round(r.wall, 1), "result": r.violated or "ok"})


def validate(tr, meta):
    no = 0
    with open(tr) as f:
        for line in f:
            m = re.search(r'"o":(\d+)', line)
            if m:
                no = max(no, int(m.group(1)) + 1)
    r = validate_trace("RefsTrace.tla", "RefsTrace.cfg", tr, nthreads=count_threads(tr) + 1, header={"no": max(no, 1)},
                       metaname=meta, timeout=900)
    if "MO_DRIFT" in r.out:
        validate.drift = True
    errs = re.findall(r'err = "([^"]*)"', r.out)
    ls = re.findall(r'^/\\ l = (\d+)', r.out, flags=re.M)
    # the state that carries `err` already points past the record that broke the rule
    return r, (errs[-1] if errs else ""), (int(ls[-1]) - 1 if ls else None)


def explain(tr, meta):
    """Best-effort: what does the ledger say about a failed / hung execution."""
    try:
        r, err, l = validate(tr, meta)
    except Broken:
        return ""
    if r.accepted or not err:
        return ""
    lines = open(r.trace_with_header).read().splitlines()
    k = l or r.maxl or 2
    return "; trace validation: %s at record %d: %s" % (err, k, lines[k - 1][:300] if 0 < k <= len(lines) else "")


SAN_RE = re.compile(r"ERROR: (AddressSanitizer|LeakSanitizer)[^\n]*|SUMMARY: \w*Sanitizer[^\n]*|runtime error:[^\n]*")


def drive(v, tier, seed):
    drv = build_driver("drv_refs")
    d = rundir(PROP)
    # (seed offset, perturbation, executions, ops, scenario mask)
    if tier == "quick":
        plan = [(i, [2, 3, 1][i % 3], 8, 14, 0x1f if i % 2 == 0 else 0x01) for i in range(8)]
    else:
        plan = [(i, [2, 3, 1][i % 3], 12, 22, [0x1f, 0x01, 0x1f, 0x03][i % 4]) for i in range(72)]
    runs = []

    def one(p):
        i, perturb, execs, ops, mask = p
        s = seed * 1000 + i
        tr = os.path.join(d, "refs_%d.ndjson" % i)
        if os.path.exists(tr):
            os.unlink(tr)
        steer = i % 2      # odd runs: the hand-over of a client's last reference to a block is stalled at the push's +2
        # every 4th run: all queue executions are the legacy-retarget variant (dispatch_set_target_queue on the active,
        # idle / suspended / busy queue, the application dropping the new target right after the call)
        legacy = 1 if i % 4 == 3 else 0
        rc, out, err = sh([drv, tr, str(s), str(perturb), str(execs), str(ops), hex(mask), "90", str(steer), str(legacy)], timeout=1200)
        return dict(i=i, s=s, tr=tr, rc=rc, err=err,
                    desc="seed=%d perturb=%d mask=%s steer=%d legacy=%d" % (s, perturb, hex(mask), steer, legacy))

    with cf.ThreadPoolExecutor(max_workers=4) as ex:
        runs = list(ex.map(one, plan))
    # one TLC start validates a batch of executions (they are separated by Reset records); only if the batch is
    # rejected are its traces validated one by one (which also is the re-run that must reproduce the rejection)
    good = [r for r in runs if r["rc"] == 0]
    bsz = 8 if tier == "quick" else 6
    for b in range(0, len(good), bsz):
        batch = good[b:b + bsz]
        cat = os.path.join(d, "refs_batch_%d.ndjson" % b)
        with open(cat, "w") as f:
            for r in batch:
                f.write(open(r["tr"]).read())
        res = validate(cat, "%s_b%d" % (PROP, b))
        if res[0].accepted:
            for r in batch:
                r["val"] = None
            v.states += res[0].distinct
            v.transitions += res[0].generated
            v.notes["trace_records_validated"] = v.notes.get("trace_records_validated", 0) + (res[0].tracelen or 0)
        else:
            with cf.ThreadPoolExecutor(max_workers=4) as ex:
                vals = list(ex.map(lambda r: validate(r["tr"], "%s_tr%d" % (PROP, r["i"])), batch))
            for r, val in zip(batch, vals):
                r["val"] = val
                if val[0].accepted:
                    v.states += val[0].distinct
                    v.transitions += val[0].generated
    probes = 0
    for r in runs:
        rc, tr, desc, err = r["rc"], r["tr"], r["desc"], r["err"]
        if rc == 124:
            raise Broken("refs driver timed out (%s)" % desc)
        if rc in (2, 70, 71):
            what = {2: "API oracle failed", 70: "crash inside libdispatch (a DISPATCH_*_CRASH or a memory error)",
                    71: "hang: an expected finalizer / destructor never ran - the object was never disposed although every "
                        "reference was dropped and its work finished (leak)"}[rc]
            fails = re.findall(r"ORACLE-FAIL C17 (.*)", err)
            p = save_replay(PROP, "fail_%d.ndjson" % r["s"], src=tr) if os.path.exists(tr) else tr
            more = explain(tr, "%s_ex%d" % (PROP, r["i"])) if rc != 2 and os.path.exists(tr) else ""
            v.violation("%s (%s): %s%s" % (what, desc, "; ".join(fails[:3]) or err.strip()[-300:], more), p)
            continue
        if rc != 0:
            raise Broken("refs driver failed rc=%d (%s): %s" % (rc, desc, err[-800:]))
        res, msg, l = r["val"] if r["val"] else (None, "", None)
        if res is not None and not res.accepted:
            lines = open(res.trace_with_header).read().splitlines()
            k = l or res.maxl or 2
            rec = lines[k - 1] if 0 < k <= len(lines) else "{}"
            p = save_replay(PROP, "rejected_%d.ndjson" % r["s"], src=res.trace_with_header)
            if not msg:
                raise Broken("trace validation failed without a verdict (%s): %s" % (desc, res.out[-1500:]))
            v.violation("trace rejected by RefsTrace (%s): %s; record %d: %s" % (desc, msg, k, rec[:400]), p)
            continue
        v.traces += 1
        body = open(tr).read()
        probes += body.count('"DisposeProbe"')
        if len(v.samples) < 2:
            ls = body.splitlines()
            ex = [x for x in ls if '"e":"R"' in x][:3] + [x for x in ls if '"e":"Fin"' in x or '"e":"Dtor"' in x][:2]
            v.samples.append({"trace": os.path.basename(tr), "mode": desc, "records": len(ls), "excerpt": ex})
    if getattr(validate, "drift", False):
        v.drift.append("reference-count atomics use a memory order other than relaxed (retain) / release (release): informational under TSO")
    v.notes["dispose_probe_records"] = probes
    v.notes["dispose_observed_by"] = "decrement of os_obj_ref_cnt to -1 (hooked atomics)" + \
        (" + _dispatch_dispose probe" if probes else "; the optional probe patches/C17-hook-dispose-probe.diff is not applied")


def sanitize(v, tier, seed):
    """Memory-safe half: OBSERVED on an ASan+UBSan(+LSan) build of the same driver."""
    drv = build_driver("drv_refs", "asan")
    d = rundir(PROP)
    n = 3 if tier == "quick" else 30
    env = {"ASAN_OPTIONS": "detect_leaks=1:exitcode=66:abort_on_error=0:halt_on_error=1:detect_stack_use_after_return=0",
           "UBSAN_OPTIONS": "print_stacktrace=0", "LSAN_OPTIONS": "exitcode=67"}
    for sym in ("/usr/bin/llvm-symbolizer-15", "/usr/bin/llvm-symbolizer", "/usr/bin/llvm-symbolizer-14"):
        if os.path.exists(sym):
            env["ASAN_SYMBOLIZER_PATH"] = sym
            break

    def one(i):
        s = seed * 1000 + 500 + i
        tr = os.path.join(d, "asan_%d.ndjson" % i)
        rc, out, err = sh([drv, tr, str(s), str([2, 3, 1][i % 3]), "12", "16", hex(0x1f if i % 3 == 2 else 0x01), "150", "1", str(1 if i % 4 == 3 else 0)], timeout=1800, env=env)
        return i, s, tr, rc, err

    with cf.ThreadPoolExecutor(max_workers=3) as ex:
        results = list(ex.map(one, range(n)))
    clean = 0
    for i, s, tr, rc, err in results:
        reports = SAN_RE.findall(err)
        san = [m.group(0) for m in SAN_RE.finditer(err)]
        if rc == 124:
            raise Broken("sanitizer run timed out (seed %d)" % s)
        if san and any("Sanitizer" in x for x in san):
            p = save_replay(PROP, "asan_%d.txt" % s, err[-20000:])
            v.violation("sanitizer report on the ASan build (memory safety OBSERVED, seed %d): %s" % (s, " | ".join(san[:3])), p)
            continue
        if rc in (2, 70, 71):
            fails = re.findall(r"ORACLE-FAIL C17 (.*)", err)
            p = save_replay(PROP, "asan_%d.txt" % s, err[-20000:])
            v.violation("ASan build: %s (seed %d): %s" % ({2: "API oracle failed", 70: "crash", 71: "hang / leak"}[rc], s,
                                                        "; ".join(fails[:3]) or err.strip()[-300:]), p)
            continue
        if rc != 0:
            raise Broken("sanitizer run failed rc=%d (seed %d): %s" % (rc, s, err[-800:]))
        clean += 1
    v.notes["memory_safety"] = {"decided": "reference ledger, dispose condition and no-use-after-dispose on the model and on "
                                "every recorded execution (RefsTrace)",
                                "observed": "%d ASan+UBSan+LeakSanitizer executions of the same driver, %d without any report"
                                % (len(results), clean)}


def retarget_walk(v, tier, seed):
    """Steered history of finding F8 (fixed by 1dae154): a dispatch_sync waiter walks the target queues of a legacy queue
    under that queue's side lock without holding references; the deferred retarget must take the same lock before it
    stores the new target and releases the old one.  harness/drv_retarget.c (mode walk) holds the waiter right before it
    reads the old target's state word, retargets, and requires that the old target's _dispatch_dispose probe does not
    fire while the waiter is held."""
    drv = build_driver("drv_retarget")
    tr = os.path.join(rundir(PROP), "retarget_walk.ndjson")
    rounds = 6 if tier == "quick" else 30
    rc, out, err = sh([drv, tr, str(seed * 100 + 78), str(rounds), "walk"], timeout=900)
    m = re.search(r"rounds=(\d+) windows_hit=(\d+)", err)
    if rc in (2, 70, 71):
        fails = re.findall(r"ORACLE-FAIL C\d\d (.*)", err)
        p = save_replay(PROP, "retarget_walk_fail.ndjson", src=tr) if os.path.exists(tr) else tr
        v.violation("%s: %s" % ({2: "object freed while in use", 70: "crash inside libdispatch", 71: "hang"}[rc],
                                "; ".join(fails[:3]) or err.strip()[-300:]), p)
        return
    if rc != 0 or not m:
        raise Broken("drv_retarget walk failed rc=%d: %s" % (rc, err[-500:]))
    if int(m.group(2)) == 0:
        raise Broken("drv_retarget walk never held a waiter inside its walk (steering ineffective)")
    v.traces += 1
    v.notes["retarget_walk_windows_hit"] = "%s of %s rounds" % (m.group(2), m.group(1))


def run(tier, seed):
    v = Verdict(PROP, tier, seed)
    v.assumptions = ["TLC bounds: one lane, 2 clients, 2 workers, 1-4 items (see models); the target of the lane is an abstract root queue",
                     "other object types (sources, groups, semaphores, data) are bound by trace validation with the generic counter "
                     "arithmetic, ledger totals and dispose condition, not by a model of their own state machines; I/O channels not driven",
                     "hooked build serialises traced atomics with their log record (global lock)",
                     "memory safety proper is observed (ASan/LSan), not decided"]
    model(v, tier)
    if tier == "thorough":
        simulate(v, seed)
    drive(v, tier, seed)
    retarget_walk(v, tier, seed)
    if tier == "thorough" or os.environ.get("VERIF_C17_ASAN") == "1":
        sanitize(v, tier, seed)
    else:
        v.notes["memory_safety"] = {"decided": "reference ledger, dispose condition and no-use-after-dispose on the model and on "
                                    "every recorded execution (RefsTrace)", "observed": "sanitizer runs are in the thorough tier"}
    return v.finish()


def replay(path, seed):
    if path.endswith(".ndjson"):
        src = path[:-len(".hdr.ndjson")] if path.endswith(".hdr.ndjson") else path
        body = open(path).read().splitlines()
        if body and '"Header"' in body[0]:
            tmp = os.path.join(rundir(PROP), "replay.ndjson")
            open(tmp, "w").write("\n".join(body[1:]) + "\n")
            src = tmp
        r, err, l = validate(src, "%s_replay" % PROP)
        print("accepted" if r.accepted else "REJECTED: %s at record %s" % (err, l))
        return 0 if r.accepted else 1
    print(open(path).read()[-6000:])
    return 1
