"""C16 - cancelling a source stops its handler and runs the cancel handler once.
(A) TLC: Cancel.tla - the source life cycle on the epoll backend (flags in dq_atomic_flags, du_state,
    muxnote / epoll registration with EPOLLONESHOT re-arming, the order of tests of _dispatch_source_invoke2
    and _dispatch_source_wakeup on the manager vs the target queue, dispatch_source_cancel,
    dispatch_source_cancel_and_wait with its try-lock and waiter paths, activation, suspension, hang-ups),
    one action per shared-memory access, for each source kind (data / timer / fd / signal), cancel from the
    handler, from a target-queue item, from a foreign thread (once / twice), cancel_and_wait, before
    activation; safety invariants (the property's statements on ghosts) + convergence, liveness under
    fairness; spec mutants that must be refuted (non-vacuity); the pinned code's deviation (HupFix = FALSE)
    must produce the "finalized twice" counterexample, the repaired one none.
    dispatch_source_set_cancel_handler[_f] on an ACTIVATED source (Cancel_set*.cfg): handlers are generations, the call is
    the C sequence (flags load, try-acquire of the source's barrier + inline exchange + wakeup(BARRIER_COMPLETE), or a
    barrier item on the source's own list drained first by every invoke2); the last installed handler runs exactly once
    whenever it was installed (before the cancel, between cancel and callout, after the final state), a replaced one
    never after its replacement took effect, none twice; the seeded reading of "ignore handler mutations past
    cancellation" is a spec mutant that must be refuted.
(B) real executions: harness/drv_cancel.c runs seeded random life-cycle scenarios on real sources of every
    kind (custom data, timer, read/write on pipes and socketpairs, signal) with cancels from every context,
    under schedule perturbation and steering at the source's own atomics; API-level oracles (the property's
    statements on the recorded total order, the kernel asked whether the descriptor is still monitored,
    descriptor recycling inside the cancel handler) are evaluated in the driver; every recorded execution is
    validated against the flag-word level and the life-cycle order of Cancel.tla (spec/CancelTrace.tla)."""
import os, re, json, collections, time
from concurrent.futures import ThreadPoolExecutor
from vlib import *

PROP = "C16"
TSPEC, TCFG = "CancelTrace.tla", "CancelTrace.cfg"
M_HANGUP_BITS = (1 << 10) | (1 << 11)      # M_HANGUP_RACE, M_CAW_HANGUP of drv_cancel.c
M_REG_BITS = (1 << 12) | (1 << 13) | (1 << 14)   # M_REG_CANCEL, M_REG_MERGE, M_REG_MERGE_CANCEL
M_SCH_BITS = 0x3f << 15                          # M_SCH_HANDLER .. M_SCH_TWICE: set_cancel_handler after activation
ALL_MODES = (1 << 21) - 1
ALL_KINDS = (1 << 8) - 1
FD_KINDS = 0x78                             # read/write on pipe/socketpair
KF_KEY = "hangup_double_finalize"

QUICK = ["Cancel_data_q.cfg", "Cancel_timer_q.cfg", "Cancel_signal_q.cfg", "Cancel_fd_q.cfg", "Cancel_caw_q.cfg",
         "Cancel_reg_q.cfg", "Cancel_reg_fd_q.cfg", "Cancel_set_data_q.cfg", "Cancel_set_fd_q.cfg", "Cancel_set_timer_q.cfg"]
THOROUGH = QUICK + ["Cancel_data_t.cfg", "Cancel_timer_t.cfg", "Cancel_fd_t.cfg", "Cancel_signal_t.cfg",
                    "Cancel_caw_data_t.cfg", "Cancel_caw_fd_t.cfg", "Cancel_caw_timer_t.cfg",
                    "Cancel_global_t.cfg", "Cancel_data_global_t.cfg", "Cancel_susp_t.cfg",
                    "Cancel_reg_data_t.cfg", "Cancel_reg_fd_t.cfg", "Cancel_reg_timer_t.cfg",
                    "Cancel_set_timer_t.cfg", "Cancel_set_fd_t.cfg", "Cancel_set_data_t.cfg", "Cancel_set2_data_t.cfg",
                    "Cancel_set2_timer_t.cfg", "Cancel_set_susp_t.cfg", "Cancel_set_global_t.cfg",
                    "Cancel_set_data_live_t.cfg", "Cancel_set_fd_live_t.cfg"]
PINNED = "Cancel_fd_pinned.cfg"
# (mutant, base config, judged by)
MUTANTS = [("callout_before_unreg", "Cancel_fd_q.cfg", "safety"),
           ("no_cancel_check", "Cancel_data_q.cfg", "safety"),
           ("callout_on_mgr", "Cancel_fd_q.cfg", "safety"),
           ("caw_no_wait", "Cancel_caw_q.cfg", "safety"),
           ("stale_flags_after_registration", "Cancel_reg_q.cfg", "own"),
           ("no_waiter_wake", "Cancel_caw_q.cfg", "live"),
           # the seeded reading of "Ignore handlers mutations past cancelation": the call returns without installing
           ("set_dropped_when_canceled", "Cancel_set_fd_q.cfg", "converge"),
           ("wakeup_ignores_items", "Cancel_set_data_q.cfg", "converge")]
MUTANTS_T = [("handler_not_taken", "Cancel_timer_q.cfg", "safety"),
             ("keep_epoll", "Cancel_signal_q.cfg", "safety"),
             ("stale_flags_after_registration", "Cancel_reg_fd_q.cfg", "own"),
             ("set_dropped_when_canceled", "Cancel_set_data_q.cfg", "converge"),
             ("final_wakeup_ignores_handlers", "Cancel_set_fd_q.cfg", "converge"),
             ("handler_not_taken", "Cancel_set_data_q.cfg", "safety")]
PROPERTY_INVARIANTS = "INVARIANTS TypeOK C16 HandlerExclusive CancelHandlerOnce ConvergedAtQuiescence"


def _checked(name, *a, **kw):
    kw.setdefault("heap", "2500m")       # the models are small; many checks share this machine (OOM killer)
    for attempt in (0, 1, 2):
        r = tlc(*a, **kw)
        if r.rc in (-9, 137) and attempt < 2:     # killed from outside (memory pressure): not a verdict, try again
            time.sleep(20 * (attempt + 1))
            continue
        break
    if r.timeout:
        raise Broken("TLC timed out on %s" % name)
    if r.rc not in (0, 12, 13, 11) and r.violated is None:
        raise Broken("TLC failed on %s (rc=%s):\n%s" % (name, r.rc, r.out[-3000:]))
    if r.violated is None:
        m = re.search(r"Error: Temporal propert(?:y|ies) (.*?) (?:was|were) violated", r.out)
        if m or r.rc == 13:
            r.violated = "temporal:" + (m.group(1).replace(" ", "") if m else "?")
        elif r.rc != 0:
            raise Broken("TLC failed on %s (rc=%s):\n%s" % (name, r.rc, r.out[-3000:]))
    return r


def _bad_of(r):
    m = re.findall(r'bad \|-> "([a-z_]+)"', r.out)
    return m[-1] if m else None


def _model_job(job):
    kind, cfg, mut, mode = job
    if kind == "base":
        return job, _checked(cfg, "Cancel.tla", cfg, timeout=2400, workers=4, metaname="c16_%s.%d" % (cfg, os.getpid()),
                             extra=["-lncheck", "final"])
    src = open(os.path.join(SPEC, "cfg", cfg)).read()
    if 'Mut = "none"' not in src or not re.search(r"^INVARIANTS .*$", src, flags=re.M):
        raise Broken("%s: unexpected shape" % cfg)
    src = src.replace('Mut = "none"', 'Mut = "%s"' % mut)
    if mode == "live":
        src = re.sub(r"^INVARIANTS .*$", "INVARIANTS TypeOK", src, flags=re.M)
    else:
        src = re.sub(r"^INVARIANTS .*$", PROPERTY_INVARIANTS, src, flags=re.M)
        src = re.sub(r"^PROPERTY .*\n", "", src, flags=re.M)
    if mode == "strict":
        # informational: the header contract of cancel_and_wait (stronger than C16) on the hang-up configuration
        src = src.replace('Mut = "strict"', 'Mut = "none"')
        src = re.sub(r"^INVARIANTS .*$", "INVARIANTS TypeOK CawStrict", src, flags=re.M)
    if mode == "onecallout":
        # informational: NOT guaranteed by the code once a cancel handler is (re)installed after activation
        src = src.replace('Mut = "onecallout"', 'Mut = "none"')
        src = re.sub(r"^INVARIANTS .*$", "INVARIANTS TypeOK OneCalloutPerSource", src, flags=re.M)
    p = os.path.join(rundir(PROP), "mut_%s_%s" % (mut, cfg))
    open(p, "w").write(src)
    return job, _checked("mutant " + mut, "Cancel.tla", p, timeout=1200, workers=2, metaname="c16_mut_%s.%d" % (mut, os.getpid()),
                         extra=["-lncheck", "final"])


def model(v, tier):
    t0 = time.time()
    cfgs = QUICK if tier == "quick" else THOROUGH
    jobs = [("base", c, None, None) for c in cfgs] + [("base", PINNED, None, None)] + \
           [("mut", c, m, mode) for m, c, mode in (MUTANTS if tier == "quick" else MUTANTS + MUTANTS_T)] + \
           ([("mut", "Cancel_caw_fd_t.cfg", "strict", "strict")] if tier != "quick" else []) + \
           [("mut", "Cancel_set_data_q.cfg", "onecallout", "onecallout")]
    with ThreadPoolExecutor(max_workers=6) as ex:
        results = list(ex.map(_model_job, jobs))
    v.notes["model_checking_wall_s"] = round(time.time() - t0, 1)
    for (kind, cfg, mut, mode), r in results:
        if kind == "base" and cfg != PINNED:
            v.add_model(cfg, r)
            if r.violated:
                p = save_replay(PROP, cfg + ".tlc.out", r.out)
                v.violation("spec %s violates %s (%s)" % (cfg, r.violated, _bad_of(r)), p)
        elif kind == "base":
            # the code's behaviour as pinned, modelled as a switchable deviation: TLC must show its consequence
            v.add_model(cfg, r)
            v.models[-1]["result"] = "expected counterexample: %s" % _bad_of(r) if r.violated else "NO counterexample"
            if r.violated != "C16" or _bad_of(r) != "source_finalized_twice":
                raise Broken("%s: the modelled deviation (merge_evt finalizing an unote it finds unregistered) no longer "
                             "yields the finalized-twice counterexample (%s / %s)" % (cfg, r.violated, _bad_of(r)))
            v.notes["deviation_HupFix_FALSE"] = {"config": cfg, "tlc_counterexample": "source_finalized_twice",
                                                 "distinct_states_to_counterexample": r.distinct}
        elif mode == "strict":
            v.notes["header_contract_of_cancel_and_wait"] = {
                "config": cfg, "invariant": "CawStrict (no event handler running at, or starting after, the return)",
                "tlc": ("counterexample found: after a hang-up has set DSF_DELETED, cancel_and_wait returns at once while the "
                        "hang-up's event handler invocation is running / committed" if r.violated == "CawStrict"
                        else "no counterexample (%s)" % r.violated),
                "judged": "informational - C16 does not state it"}
        elif mode == "onecallout":
            v.notes["cancel_callouts_per_source_with_late_handlers"] = {
                "config": cfg, "invariant": "OneCalloutPerSource (at most one cancel handler invocation per source, whatever the handler)",
                "tlc": ("counterexample found: a handler that dispatch_source_set_cancel_handler installs after the callout of the "
                        "previous handler (or whose barrier item is drained after it: cancel + set from the event handler) gets a "
                        "callout of its own - two cancel handler invocations on one source, each handler once"
                        if r.violated == "OneCalloutPerSource" else "no counterexample (%s)" % r.violated),
                "judged": "informational - what src/source.c does on purpose (_dispatch_source_wakeup / _dispatch_source_invoke2 "
                          "re-run the cancel callout while a handler is left); judged per handler: exactly once for the last "
                          "installed, never after its replacement took effect, never twice"}
        else:
            if not r.violated or r.violated == "TypeOK":
                raise Broken("spec mutant %s not refuted in %s: the properties are vacuous in these bounds" % (mut, cfg))
            if mode == "own" and (r.violated != "C16" or _bad_of(r) != "handler_started_after_cancel_from_own_context"):
                raise Broken("spec mutant %s must be refuted by the own-context-cancel invariant, not by %s / %s"
                             % (mut, r.violated, _bad_of(r)))
            if mode == "converge" and r.violated != "ConvergedAtQuiescence":
                raise Broken("spec mutant %s must be refuted by convergence (an installed cancel handler that never runs), not by "
                             "%s / %s" % (mut, r.violated, _bad_of(r)))
            if mode == "live" and not r.violated.startswith("temporal"):
                raise Broken("liveness mutant %s refuted by %s, not by the temporal properties" % (mut, r.violated))
            v.notes.setdefault("spec_mutants_refuted", []).append(
                {"mutant": mut, "config": cfg, "by": r.violated, "verdict": _bad_of(r) if mode != "live" else "never returns"})


# ------------------------------------------------------------------ real executions
def _stat(err, key):
    m = re.search(key + r"=(\d+)", err)
    return int(m.group(1)) if m else 0


def _known_hangup_crash(tr):
    """Signature of the known defect: the process died of the internal crash 'Source finalized twice' in an execution
    in which a hang-up had published DU_STATE_NEEDS_DELETE and TWO different threads ran
    _dispatch_source_refs_finalize_unregistration: the manager (from _dispatch_source_merge_evt, which found the
    unote already unregistered) and the target-queue thread acknowledging the deletion.  In the trace: some thread's
    LAST record is the give-up of _dispatch_queue_atomic_flags_set_and_clear_orig on a word containing DELETED
    (DISPATCH_INTERNAL_CRASH follows it unconditionally), DELETED was set by ANOTHER thread, and the execution
    contains a du_state store with NEEDS_DELETE."""
    try:
        recs = trace_lines(tr)
    except Exception:
        return False
    if not recs or recs[-1].get("e") != "Crash" or recs[-1].get("a") != 4:
        return False
    lastof = {}
    for j, r in enumerate(recs[:-1]):
        if "t" in r:
            lastof[r["t"]] = j
    for t, j in lastof.items():
        g = recs[j]
        if not (g.get("e") == "F" and g.get("op") == "giveup" and g.get("f") == "_dispatch_queue_atomic_flags_set_and_clear_orig"
                and "DELETED" in g.get("old", [])):
            continue
        hangup = other_finalizer = False
        for r in reversed(recs[:j]):
            if r.get("e") == "Reset":
                break
            if r.get("e") == "DU" and r.get("op") == "store" and r["new"].get("ndel"):
                hangup = True
            if r.get("e") == "F" and r.get("op") == "cmpxchg" and r.get("ok") == 1 and "DELETED" in r.get("new", []) \
                    and "DELETED" not in r.get("old", []) and r.get("t") != t:
                other_finalizer = True
        if hangup and other_finalizer:
            return True
    return False


def _validate(tr, tag):
    nt = count_threads(tr)
    r = validate_trace(TSPEC, TCFG, tr, nthreads=nt, timeout=900, metaname="c16tr_%s.%d" % (tag, os.getpid()))
    if not r.accepted:
        r2 = validate_trace(TSPEC, TCFG, tr, nthreads=nt, timeout=900, metaname="c16trb_%s.%d" % (tag, os.getpid()))
        if r2.accepted:
            return r2, None
        lines = open(r.trace_with_header).read().splitlines()
        k = r2.maxl or r.maxl or 1
        why = ("invariant %s violated in the matched prefix (%s)" % (r2.violated, _bad_of(r2))) if r2.violated else \
            "no transition of Cancel.tla explains record %d" % k
        return r2, "trace rejected: %s; last records: %s" % (why, " | ".join(x[:220] for x in lines[max(0, k - 4):k]))
    return r, None


def _run_job(job):
    drv, i, s, perturb, nexec, kinds, modes, steer = job
    tr = os.path.join(rundir(PROP), "cancel_%d.ndjson" % i)
    if os.path.exists(tr):
        os.unlink(tr)
    rc, out, err = sh([drv, tr, str(s), str(perturb), str(nexec), hex(kinds), hex(modes), str(steer)], timeout=900)
    return {"job": job, "rc": rc, "err": err, "trace": tr}


def _validate_batch(batch):
    """One TLC start for several recorded runs (executions are Reset-delimited and independent; the thread-id space is
    the largest of the runs).  Only if the batch is rejected are its runs validated one by one."""
    bi, items = batch
    if len(items) == 1:
        r, rej = _validate(items[0]["trace"], "b%d" % bi)
        return [(items[0], r, rej)]
    comb = os.path.join(rundir(PROP), "cancel_batch_%d.ndjson" % bi)
    with open(comb, "w") as f:
        for it in items:
            f.write(open(it["trace"]).read())
    nt = max(count_threads(it["trace"]) for it in items)
    r = validate_trace(TSPEC, TCFG, comb, nthreads=nt, timeout=1800, metaname="c16trB_%d.%d" % (bi, os.getpid()))
    if r.accepted:
        return [(it, r if k == 0 else None, None) for k, it in enumerate(items)]
    return [(it,) + _validate(it["trace"], "b%d_%d" % (bi, k)) for k, it in enumerate(items)]


def traces(v, tier, seed):
    t0 = time.time()
    drv = build_driver("drv_cancel")
    v.notes["phase_wall_s"] = {"build": round(time.time() - t0, 1)}
    runs = 6 if tier == "quick" else 36
    nexec = 40 if tier == "quick" else 70
    jobs = []
    for i in range(runs):
        s = seed * 1000 + i
        perturb = [2, 3, 1][i % 3]
        steer = [3, 0, 2][i % 3]
        jobs.append((drv, i, s, perturb, nexec, ALL_KINDS, ALL_MODES, steer))
    # hang-ups racing with the acknowledgement on the target queue, steered (descriptor kinds only)
    jobs.append((drv, runs, seed * 1000 + 900, 2, 24 if tier == "quick" else 60, FD_KINDS, M_HANGUP_BITS, 1))
    # cancel / merge from the registration handler with an event already pending (data, read, write sources)
    jobs.append((drv, runs + 1, seed * 1000 + 901, 2, 24 if tier == "quick" else 60, 0x7b, M_REG_BITS, 0))
    # dispatch_source_set_cancel_handler[_f] after activation: from the event handler right after the cancel, from another
    # thread (racing the callout / after the final state), from a target-queue item, replace before the cancel, clear, twice
    jobs.append((drv, runs + 2, seed * 1000 + 902, 2, 36 if tier == "quick" else 90, ALL_KINDS, M_SCH_BITS, 0))
    if tier != "quick":
        jobs.append((drv, runs + 3, seed * 1000 + 903, 3, 90, ALL_KINDS, M_SCH_BITS, 0))
        jobs.append((drv, runs + 4, seed * 1000 + 904, 1, 90, ALL_KINDS, M_SCH_BITS, 0))
    kf = {x["key"]: x for x in known_findings(PROP)["findings"]}
    cover = collections.Counter()
    stats = collections.Counter()
    pending = list(jobs)
    extra = 0
    good = []
    with ThreadPoolExecutor(max_workers=4) as ex:
        while pending:
            results = list(ex.map(_run_job, pending))
            pending = []
            for res in results:
                drv_, i, s, perturb, nexec_, kinds, modes, steer = res["job"]
                rc, err, tr = res["rc"], res["err"], res["trace"]
                if rc == 70 and _known_hangup_crash(tr):
                    if KF_KEY in kf:
                        msg = "%s (driver seed %d)" % (kf[KF_KEY]["what"], s)
                        if not any(k.startswith(kf[KF_KEY]["what"]) for k in v.known):
                            v.known.append(msg)
                        stats["known_hangup_crashes"] += 1
                        # keep the coverage of the other scenarios of this run
                        if modes & ~M_HANGUP_BITS & ALL_MODES and extra < 12:
                            extra += 1
                            pending.append((drv_, 100 + extra, s, perturb, nexec_, kinds, modes & ~M_HANGUP_BITS, steer))
                        continue
                    p = save_replay(PROP, "crash_seed%d.ndjson" % s, src=tr)
                    v.violation("internal crash 'Source finalized twice': the manager's _dispatch_source_merge_evt finalized a "
                                "source whose hang-up had already been acknowledged (and finalized) on the target queue "
                                "(driver seed %d)" % s, p)
                    continue
                if rc in (2, 70, 71):
                    what = {2: "API oracle failed", 70: "crash inside libdispatch",
                            71: "hang: the cancel handler never ran / cancel_and_wait never returned"}[rc]
                    p = save_replay(PROP, "fail_seed%d.ndjson" % s, src=tr) if os.path.exists(tr) else tr
                    fails = [x for x in err.splitlines() if x.startswith("ORACLE-FAIL")]
                    v.violation("%s (driver seed %d perturb %d steer %d): %s" % (what, s, perturb, steer,
                                " ;; ".join(fails[:3]) if fails else err.strip()[-300:]), p)
                    continue
                if rc != 0:
                    raise Broken("driver failed rc=%d: %s" % (rc, err[-1000:]))
                good.append(res)
        v.notes["phase_wall_s"]["real_executions"] = round(time.time() - t0 - v.notes["phase_wall_s"]["build"], 1)
        # ---- code -> spec: every recorded execution against Cancel.tla (CancelTrace.tla) ----
        per = 8 if tier == "quick" else 7
        batches = [(bi, good[k:k + per]) for bi, k in enumerate(range(0, len(good), per))]
        for triples in ex.map(_validate_batch, batches):
            for res, r, rej in triples:
                drv_, i, s, perturb, nexec_, kinds, modes, steer = res["job"]
                tr, err = res["trace"], res["err"]
                if rej:
                    p = save_replay(PROP, "rejected_seed%d.ndjson" % s, src=r.trace_with_header)
                    v.violation("%s (driver seed %d)" % (rej, s), p)
                    continue
                nx = nrec = 0
                for rec in trace_lines(tr):
                    nrec += 1
                    if rec.get("e") == "Reset":
                        nx += 1
                        cover[(rec["kl"], rec["mode"])] += 1
                v.traces += nx
                stats["driver_runs"] += 1
                stats["records_validated"] += nrec
                if r is not None:
                    v.states += r.distinct
                    v.transitions += r.generated
                    m = re.search(r'<<"DRIFT", (\d+)>>', r.out)
                    if m and int(m.group(1)):
                        stats["drift_records"] += int(m.group(1))
                for k in ("late_after_foreign_cancel", "late_after_caw", "handler_running_at_caw_ret", "steered_hangup", "steered_late",
                          "reg_cancel_with_event_pending", "set_ch_calls", "replaced_handler_ran_before_replacement",
                          "set_ch_after_final_state", "rest_wait_timeouts"):
                    stats[k] += _stat(err, k)
                if len(v.samples) < 3:
                    lines = open(tr).read().splitlines()
                    k0 = next((j for j, x in enumerate(lines) if '"e":"CancelCall"' in x), 0)
                    v.samples.append({"trace": os.path.basename(tr), "records": nrec,
                                      "excerpt": [x[:200] for x in lines[max(0, k0 - 2):k0 + 8]]})
    v.notes["phase_wall_s"]["trace_validation"] = round(time.time() - t0 - v.notes["phase_wall_s"]["build"] - v.notes["phase_wall_s"]["real_executions"], 1)
    if stats["drift_records"]:
        v.drift.append("%d dq_atomic_flags modifications came from functions CancelTrace.tla does not know (explained by a "
                       "known word operator)" % stats["drift_records"])
    v.notes["scenario_coverage"] = {
        "kinds_x_modes_hit": len(cover),
        "executions_by_kind": dict((kk, sum(c for (a, b), c in cover.items() if a == kk)) for kk in sorted(set(a for a, b in cover))),
        "executions_by_mode": dict((mm, sum(c for (a, b), c in cover.items() if b == mm)) for mm in sorted(set(b for a, b in cover)))}
    v.notes["driver_statistics"] = dict(stats)
    v.notes["informational"] = [
        "late_after_foreign_cancel = executions in which the ONE committed invocation started after a foreign cancel had "
        "returned (allowed by the property; shows the bound is exercised)",
        "handler_running_at_caw_ret / late_after_caw = executions in which dispatch_source_cancel_and_wait returned while / "
        "before the last event handler invocation ran: happens when a hang-up had already set DSF_DELETED (the function "
        "returns at once on DSF_DELETED).  The header promises otherwise; C16 only states convergence to the final state "
        "and 'at most the one invocation already committed', which holds - not judged as a violation",
        "set_ch_calls = dispatch_source_set_cancel_handler[_f] calls on activated sources; set_ch_after_final_state = of those, "
        "calls that found {CANCELED, DELETED} already set (the late handler still got its one callout); "
        "replaced_handler_ran_before_replacement = executions in which an earlier handler generation was invoked before its "
        "replacement took effect and the later one was invoked as well (two callouts on one source: allowed by the code, "
        "see cancel_callouts_per_source_with_late_handlers)",
    ]


def run(tier, seed):
    v = Verdict(PROP, tier, seed)
    v.assumptions = ["Linux epoll backend with the manager thread; EV_UDATA_SPECIFIC == 0 (no direct knotes)",
                     "TLC bounds: see models; one source, manager, 1-2 target-queue workers, one client, one canceller",
                     "the kernel is abstracted as: an epoll registration fires only while it exists and is armed",
                     "hooked build serialises traced atomics with their log record (global lock)",
                     "trace validation is at the flag-word level + life-cycle order (see CancelTrace.tla header), not pc-level",
                     "dispatch_source_set_cancel_handler[_f] after activation: modelled and driven for the CANCEL handler (install / "
                     "replace / clear, 1-2 calls per source in the models, up to 3 in the driver, calls of one source never overlap); "
                     "mutation of the event / registration handler after activation and the mandatory (DSF_STRICT) variants are not",
                     "not modelled: set_timer after activation, retargeting, last release without cancel"]
    # the model checking and the real executions run side by side, each into its own verdict; merged here
    vm, vt = Verdict(PROP, tier, seed), Verdict(PROP, tier, seed)
    with ThreadPoolExecutor(max_workers=2) as ex:
        fm = ex.submit(model, vm, tier)
        ft = ex.submit(traces, vt, tier, seed)
        fm.result()
        ft.result()
    for x in (vm, vt):
        v.states += x.states
        v.transitions += x.transitions
        v.traces += x.traces
        v.samples += x.samples
        v.violations += x.violations
        v.known += x.known
        v.drift += x.drift
        v.models += x.models
        v.notes.update(x.notes)
    # the epoll registration itself ("the library has stopped monitoring the descriptor"; one registration shared by the
    # sources of a descriptor): Muxnote.tla + MuxnoteTrace.tla + drv_mux
    from props.MUX import muxnote_element
    muxnote_element(v, tier, seed)
    return v.finish()


def replay(path, seed):
    path = os.path.abspath(path)
    if path.endswith(".out"):
        print(open(path).read()[-6000:])
        return 1
    body = open(path).read()
    if '"e": "Header"' in body.split("\n", 1)[0] or '"e":"Header"' in body.split("\n", 1)[0]:
        r = tlc(TSPEC, TCFG, workers=1, env={"TRACE": path}, dfs=True)
    else:
        r = validate_trace(TSPEC, TCFG, path, nthreads=count_threads(path))
    print(r.out[-1500:])
    if not r.accepted:
        lines = body.splitlines()
        k = (r.maxl or 1) - (0 if '"Header"' in lines[0] else 1)
        print("first record no transition of Cancel.tla explains (#%d) and its predecessors:" % k)
        for x in lines[max(0, k - 6):k]:
            print("  " + x[:260])
    for line in body.splitlines():
        if '"OracleFail"' in line or '"Crash"' in line or '"Hang"' in line:
            print(line)
    return 0 if r.accepted else 1
